"""C07 - Konno-Ohmachi smoothing is a normalised non-negative log-frequency window.

Monitors (online post-conditions on the real functions, wherever the call comes from):
  calc_smooth_fa_spectrum, generate_smooth_fa_spectrum (deprecated alias), calc_smoothing_matrix_konno_1998,
  calc_smooth_fa_spectrum_w_custom_matrix, Signal.gen_smooth_fa_spectrum, the Signal.smooth_fa_spectrum property,
  im.calc_bandwidth_freqs / calc_bandwidth_f_min / calc_bandwidth_f_max, get_sig_freq_range
against the scalar double loop of vf/oracles/konno.py. Every monitor snapshots its arguments (and, for object-level
calls, the record / Fourier cache / smoothing frequencies of the object) at call ENTRY: the oracle is evaluated on that
snapshot, never on what the object holds after the call, and every argument is compared bit-for-bit with it afterwards.
Relations between executions (checked by the driver after the related calls returned): deprecated alias == direct form,
matrix form == direct form, custom-matrix form == object form, a constant spectrum is reproduced, scaling by alpha scales
the result by |alpha| (bit-for-bit for powers of two), a held result is unchanged by a later call on another input, the same
arguments give the same result again after other inputs (A, B, A), the smoothing frequencies an object holds are the ones the
caller gave. Objects made by copy.copy / copy.deepcopy / pickle are judged like any other object: every read of their smoothed
spectrum against their OWN Fourier cache or, when they hold none, the dt x DFT of their own record (the driver only hands the
band of the last generation on to the copy: adopt()). Calls that raise are followed by a state check (exception hooks).
"""
import copy
import math
import pickle
import weakref

import numpy as np

from vf import attach, core, gen, tol
from vf.oracles import konno as O

PROP_ID = 'C07'
TECHNIQUE = ('runtime post-condition monitors (entry-snapshot judged) with a scalar (frequency, target)-pair reference of '
             'the Konno-Ohmachi window; bit-for-bit argument/state purity; offline relations (constant, scaling, matrix '
             'form, alias, held results) over the recorded results; same-object histories')
RULE = ('cases are of three kinds. func: (frequency grid, amplitude vector, target set, bandwidth b, scale alpha, constant c) '
        'driven through calc_smooth_fa_spectrum / generate_smooth_fa_spectrum / calc_smoothing_matrix_konno_1998 '
        '(positional, keyword and mixed call styles; b as int/float/numpy scalar/0-d array incl. the ends 5 and 100); grids: '
        'Fourier grids of records of 3..513 samples (around every power of two; 1- and 2-sample records and list/tuple/'
        'scalar arguments are rejected by the library and counted), a few records of 70000 / 140000 samples (65536 / 131072 bins), synthetic uniform / log '
        'grids of 1..256 bins, spacing 1e-6..1e9 Hz (dt 1e-9..1e3), float64 / float32 / int64 / int32 / int16 / uint8 / uint16 '
        'grids, with and without the zero-frequency bin; amplitudes: complex Fourier spectra of the shared record classes '
        '(also a 1e6 offset on a 1e-3 signal) or synthetic (constant, spike, decaying, maximum at first/last bin, plateaus at '
        'the ends, signed, complex128/64, float32, int64/32/16/8, uint8/16 spanning the dtype range incl. the most negative value of the signed dtypes), scaled by 1e-12..1e12; '
        'targets: log-random inside the grid, exactly on the grid, below f1/3, above 3*fmax, None (= the grid), float32 / '
        'integer, the frequency array object itself, target sets of 1, 2, 31..33, 63..65, 127..129, 256 entries, ascending / '
        'descending / shuffled, with repeated entries, with the first and last Fourier frequency exactly; spectra of 1-3 bins; '
        'one bin 1e3..1e12 times the rest; amplitudes at numerically special scales (gen.special_scale / gen.record(extreme=True): '
        '1e-165..1e-300, 1e155..1e300, 1e-150 next to 1e150, ripple on a baseline, counts above 2**24; float64 and list '
        'containers only); targets 3..8 decades below / above the grid and 12-decade log grids with b = 80..100 '
        '(b*|log10(f/fc)| up to ~1300); awkward time steps (gen.awkward_dt); tail-heavy and trend+Nyquist records; each '
        'array also as strided view, reversed view or read-only array. '
        'signal: (record in any container/dtype, dt, class, way the targets are set, b, ratios incl. 0 / 1e-12 / 0.999999) '
        'through the object API, the custom-matrix form (matrix float64/float32/Fortran-ordered/read-only/nested list) and '
        'the bandwidth functions, a second object of the same shape processed in between. history: 6..14 operations on one '
        'object (reads, regenerations with options, every way of setting the targets, value mutators same/shorter/longer, '
        'explicit Fourier regeneration with even and odd n, bandwidth / custom-matrix calls (1-3 columns), twins sharing a caller '
        'array, deep copies of warm objects (then mutated), objects derived by interp_to_approx_dt and the real part of '
        'fas2signal); bandwidth functions with 1, 2, 30..65 smoothing frequencies, the band open at the first / last / both '
        'smoothing frequencies, ratio 0, 1e-300, 1e-12, 1-1e-12, nextafter(1, 0). '
        'round 3: protocol = history with two live objects: Signal / AccSignal in one of 13 cache states (cold, Fourier only, smoothed by '
        'read / gen(band) / gen(targets) / bandwidth call / after a custom-matrix call, smoothed then targets set / values reset / '
        'cache cleared / Fourier regenerated, explicit Fourier (p2_plus, n) then smoothed) put through copy.copy, copy.deepcopy, pickle '
        '(protocols 0, 2, highest) or a chain of two of them, then 4..9 reads, regenerations, bandwidth / custom-matrix calls, target '
        'changes and value mutators on the copy and on the original in both orders (swap), both read at the end; a shallow copy is only '
        'followed by reset_values among the value mutators; assignments through values / dt / npts / label and the two target setters '
        '(1, 2, 3 entries as list / tuple / ndarray) followed by a read; refused operations (list targets or a str band to '
        'gen_smooth_fa_spectrum, wrong-shaped custom matrix, ratio 1, wrong-length add_series) and non-finite values in the middle of a '
        'history; A, B (same shape), B1 (shorter), B2 (same shape, grid x 1.37), A on the function form and A, B, A with fresh objects; '
        'bands within 1e-3 (relative) of 5 and 100 incl. nextafter; ratios 1e-6..1e-3, 0.999, 0.9995 (sig ratios 1.0005, 1.001, 1000, 2000) '
        'with a Gaussian-pulse record whose smoothed spectrum spans the decades that make them decide; silent (all-zero) and strictly '
        'one-signed records and spectra. round 5: every scalar argument in every scalar form - band as Python int / float, np.float64 / '
        'np.float32 / np.int64 / np.int32, 0-d float64 / float32 / int64 array (function forms, gen_smooth_fa_spectrum, generate_smooth_fa_spectrum); '
        'the ratio of the four bandwidth functions as Python float / int, np.float64 / np.float32 / np.int64, 0-d float64 / float32 array '
        '(a single-precision form that would round the ratio out of its domain falls back to the Python float); dt of the object as Python '
        'float, np.float64, np.float32, 0-d array; n_points as np.int64 / 0-d int array; 0-d arrays are snapshotted at entry by the monitors '
        'and by the driver like any other array and the SAME object is passed to all calls of a case. bool dtype: on/off amplitude spectra '
        '(random and one rectangular pass band), on/off records (bool ndarray, list of Python bools), bool custom matrices. Settings: the '
        'smoothing frequencies of BOTH live objects are compared bit for bit before / after every history operation that does not set them '
        '(reads, regenerations, bandwidth / custom-matrix calls, every value mutator, assignments, Fourier regeneration, clear_cache, refused '
        'calls, copies) and a protocol copy must hold those of its source; targets below the first and above the last Fourier frequency '
        '(beyond the Nyquist frequency) are part of every target draw. Ownership: the arrays returned by calc_smooth_fa_spectrum, the '
        'deprecated alias, calc_smoothing_matrix_konno_1998, the custom-matrix form, get_sig_freq_range and the function form on the '
        'object\'s own arrays are overwritten by the driver and the same call is repeated with the same arguments. large: 12 (quick) / 96 '
        '(thorough) problems with n_fa * n_targets next to 2**18 .. 2**23 (thorough 2**24), just below / just above / 1.4 x each '
        'power of two, as many targets on a 1-8k-bin grid, as the None default, or as a long spectrum with ~50 targets, plus '
        'a 170000-sample Signal with the default 50 smoothing frequencies; there the scalar oracle judges first, last and '
        '6..30 pseudo-random targets, every other clause (finite, bounds, constant, scaling, matrix form) all targets. distinct = digest '
        'of all inputs of the case; non-trivial = at least two distinct |A| / record values and at least one target.')
ASSUMPTIONS = ['frequencies and targets are finite, positive real ndarrays (a single leading zero-frequency bin allowed); '
               'amplitudes finite; python lists / tuples / scalars for the three array arguments of the function forms are '
               'rejected by the library (TypeError/IndexError) and are counted, not judged',
               'bandwidth b in [5, 100] (calls outside are counted, not judged)',
               'when frequencies AND targets are float32 numpy evaluates the window in single precision: those calls are '
               'judged by separate clauses "(f32 grid)" with rtol 2e-4 (observed 8e-6) instead of 1e-9, plus 16 x the oracle\'s first-order '
               'bound of the window\'s own rounding at single precision (matters for b > ~80 with targets far from every Fourier frequency, '
               'where every weight of a column sits on a steep flank of sin(z)/z)',
               'integer amplitude vectors of any width are in domain, including the most negative value of a signed dtype '
               '(|A| = 2**(bits-1) must not wrap)',
               'bandwidth limits are judged for ascending smoothing frequencies, ratio in [0,1) (calc_bandwidth_*) / '
               'ratio > 1 (get_sig_freq_range) and a smoothed spectrum that is not identically zero; an all-zero record and '
               'ratio = 1 make them raise IndexError (empty premise, counted)',
               'the statement does not say whether a sample exactly at ratio*max belongs to the band: samples within 8 ulp '
               'of the threshold may be resolved either way',
               'object-level calls are judged against the Fourier spectrum the object held at call entry (or, when none was '
               'cached, the dt x DFT of a snapshot of its values with default padding); cached reads of '
               'Signal.smooth_fa_spectrum after an explicit Fourier regeneration are C04 territory (counted)',
               'the local-scale clause allows 1e-9 of each reference value plus 16 x the oracle\'s first-order bound of the '
               'window\'s own rounding error (next to a zero of sin the relative error of a weight is unbounded); it is evaluated '
               'in the double-precision regime and for problems the oracle judges completely',
               'complex-typed records returned by fas2signal are not judged as such (their real part is analysed)',
               'an object that serves a cached smoothed spectrum while it holds no Fourier spectrum is judged against the dt x DFT '
               '(default padding) of its own record with the band of the last generation in its lineage',
               'after a call raised, the object must be as it was at entry (caches filled lazily apart); a shallow copy shares the value '
               'buffer with its original by definition and is followed only by value mutators that rebind (reset_values)',
               'gen_smooth_fa_spectrum(smooth_fa_freqs=<list or tuple>) is in domain (the setters and the constructor accept sequences): '
               'before fix F43 it raised TypeError after storing the list and kept serving the old spectrum (found by this monitor)',
               'numeric arguments are judged by their VALUE as passed at call entry, float(x): a np.float32 band / ratio / dt is the rounded '
               'value, not the decimal the driver started from; the threshold of the bandwidth functions is max * float(ratio) in double precision',
               'a bool amplitude spectrum / record / custom matrix stands for the numbers 0 and 1',
               'the array handed out by the cached PROPERTY Signal.smooth_fa_spectrum is the object\'s own cache by design (like .values, DESIGN 5 '
               'C19 (f)): the driver never writes into it; every array returned by a FUNCTION belongs to the caller and is overwritten',
               'checklist 33: the bandwidth oracle has one two-way acceptance only - a sample within 8 ulp of the rounded threshold (counted as '
               'an observation, 7 of ~3700 quick-tier bandwidth verdicts); it is a rounding allowance per sample, not a family of conventions, '
               'and the ordered / brackets-peak clauses do not use it',
               'oracle vf/oracles/konno.py is correct (math.log10/sin scalar loop, fsum)']
RTOL = 1e-9
RTOL_F32 = 2e-4
# precision regime -> (rtol of the weighted mean, relative slack of the range check, tolerance of the column sums)
PREC = {'': (RTOL, 1e-12, 1e-12), '(f32 grid)': (RTOL_F32, 2e-5, 2e-5), '(c64 amplitudes)': (1e-6, 1e-6, 1e-12)}
MIN_EVALS = {'quick': {}, 'thorough': {}}       # filled at the end of the module
CTX = None
CASE = None                                  # the driver's current case: complete inputs, copied into every witness
_GEN = weakref.WeakKeyDictionary()           # Signal -> record of its last monitored generation
_SERIAL = [0]
_MEMO = {}


def n_shards(tier):
    return 16


# ------------------------------------------------------------------------------------------------ snapshots / purity
def _snap(x):
    if isinstance(x, np.ndarray):
        return np.array(x, copy=True)
    if isinstance(x, (list, tuple)):
        return copy.deepcopy(x)
    return x


def _same(a, s):
    """bit-for-bit equality with the snapshot (dtype, shape, bytes)."""
    if isinstance(a, np.ndarray):
        return isinstance(s, np.ndarray) and a.dtype == s.dtype and a.shape == s.shape and a.tobytes() == s.tobytes()
    if isinstance(a, (list, tuple)):
        return type(a) is type(s) and repr(a) == repr(s)
    return True


def _is_sig(a):
    return hasattr(a, '_cached_smooth_fa') and hasattr(a, '_values') and hasattr(a, '_cached_fa')


def _sig_state(s):
    """Snapshot of everything a smoothing call may read, taken without triggering any generation."""
    cf, cs = bool(s._cached_fa), bool(s._cached_smooth_fa)
    return {'values': np.array(s._values, copy=True), 'dt': _snap(s._dt), 'cached_fa': cf,
            'fa': np.array(s._fa_spectrum, copy=True) if cf else None, 'ff': np.array(s._fa_freqs, copy=True) if cf else None,
            'tg': np.array(s._smooth_fa_freqs, copy=True), 'cached_s': cs,
            'sm': np.array(s._smooth_fa_spectrum, copy=True) if cs else None, 'serial': _SERIAL[0],
            'cls': type(s).__name__}


def _sig_changed(s, st, smooth_may_regenerate, targets_may_change):
    bad = []
    if not _same(np.asarray(s._values), st['values']):
        bad.append('values')
    if not bool(np.all(np.asarray(s._dt) == np.asarray(st['dt']))):       # (dt may be a 0-d array: snapshot, not reference)
        bad.append('dt')
    if st['cached_fa'] and not (s._cached_fa and _same(np.asarray(s._fa_spectrum), st['fa'])
                                and _same(np.asarray(s._fa_freqs), st['ff'])):
        bad.append('Fourier cache')
    if not targets_may_change and not _same(np.asarray(s._smooth_fa_freqs), st['tg']):
        bad.append('smoothing frequencies')
    if st['cached_s'] and not smooth_may_regenerate and not (s._cached_smooth_fa and _same(np.asarray(s._smooth_fa_spectrum), st['sm'])):
        bad.append('smoothed-spectrum cache')
    return bad


def _entry_fa(st):
    """(frequencies, spectrum) the object stood for at call entry: its cache if it had one, else dt x DFT (default padding)
    of the value snapshot, computed by the same numpy call the statement of C06 prescribes."""
    if st['cached_fa']:
        return st['ff'], st['fa']
    v = st['values']
    if v.ndim != 1 or len(v) < 1:
        return None
    n_factor = 2 ** int(np.ceil(np.log2(len(v))))
    points = int(n_factor / 2)
    return np.arange(points) / (n_factor * st['dt']), np.fft.fft(v, n=n_factor)[:points] * st['dt']


def _pre_fn(args, kwargs):
    """Snapshot every array / sequence / Signal argument of a function-level call."""
    snaps = {}
    for a in list(args) + list(kwargs.values()):
        if isinstance(a, (np.ndarray, list, tuple)):
            snaps[id(a)] = (a, _snap(a))
        elif _is_sig(a):
            snaps[id(a)] = (a, _sig_state(a))
    return snaps


def _sn(pre, obj):
    e = pre.get(id(obj)) if pre else None
    return obj if e is None else e[1]


def _args_changed(pre):
    return [('%s%s' % (type(o).__name__, getattr(o, 'shape', ''))) for o, s in pre.values() if not _is_sig(o) and not _same(o, s)]


# ------------------------------------------------------------------------------------------------ oracle plumbing
def _columns(fnz, tg, band):
    key = core.digest(fnz, tg, float(band))
    c = _MEMO.get(key)
    if c is None:
        if len(_MEMO) > 6:
            _MEMO.clear()
        c = O.weight_columns(fnz.tolist(), tg.tolist(), float(band))
        _MEMO[key] = c
    return c


def _sens_columns(fnz, tg, band):
    key = 's' + core.digest(fnz, tg, float(band))
    c = _MEMO.get(key)
    if c is None:
        if len(_MEMO) > 8:
            _MEMO.clear()
        b = float(band)
        fl = fnz.tolist()
        c = [[O.window_sensitivity(f, fc, b) for f in fl] for fc in tg.tolist()]
        _MEMO[key] = c
    return c


def _domain(ctx, freqs, spec, targets, band, who):
    """Parse one call; returns (non-zero frequencies, their amplitudes, targets, single-precision flag) or None (counted)
    when the call is outside the quantifier of the statement."""
    try:
        f = np.asarray(freqs)
        if f.ndim != 1 or f.dtype.kind not in 'fiu' or f.size == 0:
            raise ValueError
        fdt = f.dtype
        f = f.astype(float)
        a = None
        if spec is not None:
            a = np.asarray(spec)
            if a.shape != f.shape or a.dtype.kind not in 'fiucb':
                raise ValueError
            if a.dtype.kind == 'b':
                a = a.astype(float)                 # an on/off spectrum: |True| = 1, |False| = 0
            if a.dtype.kind in 'iu':
                a = a.astype(np.int64) if a.dtype.kind == 'i' else a.astype(np.uint64)
        if f[0] == 0:
            f = f[1:]
            a = None if a is None else a[1:]
        if f.size == 0 or not np.all(np.isfinite(f)) or not np.all(f > 0):
            raise ValueError
        if a is not None and not np.all(np.isfinite(a)):
            raise ValueError
        if targets is None:
            t, tdt = f, fdt
        else:
            t = np.asarray(targets)
            if t.ndim != 1 or t.size == 0 or t.dtype.kind not in 'fiu':
                raise ValueError
            tdt = t.dtype
            t = t.astype(float)
            if not np.all(np.isfinite(t)) or not np.all(t > 0):
                raise ValueError
        b = float(band)
    except (ValueError, TypeError):
        ctx.observe('out-of-domain:%s' % who)
        return None
    if not (5 <= b <= 100):
        ctx.observe('band-outside-[5,100]:%s' % who)
        return None
    prec = ''
    if np.result_type(fdt, tdt) in (np.dtype(np.float32), np.dtype(np.float16)):
        prec = '(f32 grid)'                 # numpy evaluates the window in single precision
    elif spec is not None and np.asarray(spec).dtype == np.dtype(np.complex64):
        prec = '(c64 amplitudes)'           # numpy evaluates |A| in single precision
    if prec:
        ctx.observe('single-precision-calls' + prec)
    return f, a, t, prec


def _wit(at, raw_case=None, **detail):
    d = {'case': CASE if CASE is not None else raw_case, 'at': at}
    d.update(detail)
    return d


def _reference(fnz, anz, tg, band):
    return np.array(O.smooth(_columns(fnz, tg, band), anz.tolist()), dtype=float)


SUBSET_PAIRS = 2 ** 19          # above this many (frequency, target) pairs the scalar oracle judges a subset of the targets
LARGE_SFX = '(large: target subset)'


def _subset(fnz, tg):
    """Indices of the targets judged against the scalar oracle: all of them for ordinary sizes; for large problems first,
    last and a pseudo-random draw (a function of the sizes and end values only, so that every call of a case and its replay
    judge the same targets) of 8..32 targets - the oracle costs O(n_fa) per target."""
    n, k = len(tg), len(fnz)
    if n * k <= SUBSET_PAIRS:
        return None
    m = int(min(32, max(8, 2 ** 20 // k)))
    if m >= n:
        return None
    seed = int(core.digest(n, k, float(tg[0]), float(tg[-1]), float(fnz[0]), float(fnz[-1])), 16)
    r = np.random.default_rng(seed)
    return np.unique(np.concatenate([[0, n - 1], r.integers(0, n, size=m - 2)]))


F32_GAIN = 16 * 2.0 ** 29          # float32 / float64 unit roundoff x the factor 16 of the local-scale clause


def _compare(fnz, anz, tg, band, got, scale, rtol, f32=False):
    """(ok, description, reference, the compared part of got, large?) of a smoothed spectrum against the oracle.
    f32: the window was evaluated in single precision; rtol 2e-4 of the scale covers it where the window is well conditioned
    (b*|log10(f/fc)| of a few tens); for large bandwidths and targets far from every Fourier frequency all weights of a column sit
    on the steep flanks of sin(z)/z and the oracle's first-order bound of the window's own rounding, taken at single precision, is
    added (a quantity the oracle computes; nothing is added in double precision)."""
    got = np.asarray(got)
    idx = _subset(fnz, tg)
    if idx is None:
        ref = _reference(fnz, anz, tg, band)
        atol = 0.0
        if f32:
            atol = F32_GAIN * np.array(O.smooth_error_bound(_columns(fnz, tg, band), _sens_columns(fnz, tg, band), anz.tolist()), dtype=float)
        return (tol.close(got, ref, scale=scale, rtol=rtol, atol=atol), tol.describe(got, ref, scale=scale, rtol=rtol, atol=atol),
                ref, got, False)
    if got.shape != (len(tg),):
        return False, 'shape %s, expected (%d,)' % (got.shape, len(tg)), None, got[:64], True
    if len(fnz) * len(idx) > 2 ** 18:
        _MEMO.clear()
    ref = _reference(fnz, anz, tg[idx], band)
    g = got[idx]
    return (tol.close(g, ref, scale=scale, rtol=rtol),
            'on the %d judged targets %s..: %s' % (len(idx), idx[:6].tolist(), tol.describe(g, ref, scale=scale, rtol=rtol)),
            ref, g, True)


def _mags(anz):
    """|A| as float64; integer amplitudes go to float BEFORE abs (the most negative int64 has no int64 magnitude)."""
    anz = np.asarray(anz)
    return np.abs(anz.astype(float)) if anz.dtype.kind in 'iu' else np.abs(anz).astype(float)


def _scale(anz):
    return float(np.max(_mags(anz))) if np.asarray(anz).size else 0.0


def _raw_func(freqs, spec, targets, band):
    return {'kind': 'func', 'freqs': np.asarray(freqs), 'spec': np.asarray(spec),
            'targets': None if targets is None else np.asarray(targets), 'band': band}


def _raw_sig(st, band=None, **kw):
    d = {'kind': 'signal', 'cls': st['cls'], 'values': st['values'], 'dt': st['dt'], 'how': 'setter', 'targets': st['tg'],
         'band': band}
    d.update(kw)
    return d


# ------------------------------------------------------------------------------------------------ monitors
def _purity_args(ctx, at, pre, raw):
    if not pre:
        return
    bad = _args_changed(pre)
    ctx.check(not bad, 'purity.arguments-unchanged', lambda: _wit(at, raw, changed=bad),
              '%s changed its argument(s) %s' % (at, bad))


def _ownership(ctx, at, pre, result, raw):
    """The returned array owns its data: no memory shared with any array argument."""
    if not isinstance(result, np.ndarray) or not pre:
        return
    shared = [('%s%s' % (type(o).__name__, getattr(o, 'shape', ''))) for o, sn in pre.values()
              if isinstance(o, np.ndarray) and (result is o or np.may_share_memory(result, o))]
    ctx.check(not shared, 'ownership.result-owns-its-data', lambda: _wit(at, raw, shared_with=shared),
              '%s returned an array that shares memory with its argument(s) %s' % (at, shared))


def _purity_sig(ctx, at, asig, st, smooth_may_regenerate, targets_may_change, raw, extra=()):
    bad = _sig_changed(asig, st, smooth_may_regenerate, targets_may_change) + list(extra)
    ctx.check(not bad, 'purity.signal-state-unchanged', lambda: _wit(at, raw, changed=bad),
              '%s changed %s of the object' % (at, bad))


def check_smooth(ctx, at, freqs, spec, targets, band, result, clause='smooth==weighted-mean', extras=True, raw=None):
    """freqs / spec / targets are the ENTRY snapshots of the arguments."""
    d = _domain(ctx, freqs, spec, targets, band, at)
    if d is None:
        return
    fnz, anz, tg, sfx = d
    rtol, slack_rel, _ = PREC[sfx]
    got = np.asarray(result)
    scale = _scale(anz)
    if raw is None:
        raw = _raw_func(freqs, spec, targets, band)
    ok_eq, desc, ref, gsub, large = _compare(fnz, anz, tg, band, got, scale, rtol, f32=(sfx == '(f32 grid)'))
    if large:
        ctx.observe('large-calls(n_fa*n_targets > 2**19)')
        if len(fnz) * len(tg) > 2 ** 22:
            ctx.observe('large-calls(n_fa*n_targets > 2**22)')
    ctx.check(ok_eq, clause + sfx + (LARGE_SFX if large else ''),
              lambda: _wit(at, raw, got=gsub, expected=ref, band=band),
              '%s(n_f=%d, n_targets=%d, band=%r): %s' % (at, len(fnz), len(tg), band, desc))
    if extras and not sfx and not large and ok_eq and ref is not None:
        # the same comparison relative to the LOCAL scale (the reference value of each target itself, plus the oracle's
        # first-order bound of the window's own rounding error): a spike 1e12 times the rest must not hide the rest
        bound = np.array(O.smooth_error_bound(_columns(fnz, tg, band), _sens_columns(fnz, tg, band), anz.tolist()), dtype=float)
        allowed = RTOL * np.abs(ref) + 16 * bound            # no absolute floor: amplitudes go down to 1e-300
        with np.errstate(invalid='ignore'):
            err = np.abs(np.asarray(got, dtype=complex) - ref) if got.dtype.kind == 'c' else np.abs(got - ref)
        okl = got.shape == ref.shape and bool(np.all(err <= allowed))
        allowed = np.where(allowed > 0, allowed, 5e-324)     # for the message only
        ctx.check(okl, 'smooth==weighted-mean(local scale)',
                  lambda: _wit(at, raw, got=got, expected=ref, allowed=allowed, band=band),
                  '%s(n_f=%d, n_targets=%d, band=%r): worst |diff|/allowed = %.3g at target %d (got %r, expected %r, allowed %.3g)'
                  % ((at, len(fnz), len(tg), band) + ((float(np.max(err / allowed)), int(np.argmax(err / allowed)),
                                                        got[int(np.argmax(err / allowed))], ref[int(np.argmax(err / allowed))],
                                                        allowed[int(np.argmax(err / allowed))]) if got.shape == ref.shape else (np.inf, -1, None, None, 0.0))))
    if not extras:
        return
    n_on = int(np.sum(np.isin(tg, fnz)))
    if n_on:
        ctx.observe('targets-exactly-on-grid', n_on)
    if np.any(tg < fnz[0] / 3) or np.any(tg > 3 * fnz[-1]):
        ctx.observe('calls-with-targets-outside-[f1/3,3fmax]')
    finite = got.shape == (len(tg),) and bool(np.all(np.isfinite(got)))
    with np.errstate(all='ignore'):
        zmax = float(band) * max(float(np.max(np.abs(np.log10(float(np.min(fnz)) / tg)))), float(np.max(np.abs(np.log10(float(np.max(fnz)) / tg)))))
    if zmax > 308:
        # (f/fc)**b leaves the float64 range for some pair although b*log10(f/fc) is harmless
        ctx.check(ok_eq and finite, 'smooth==weighted-mean & finite (b*|log10(f/fc)| > 308)',
                  lambda: _wit(at, raw, got=gsub, expected=ref, band=band, zmax=zmax),
                  '%s with band=%r and frequency ratios up to 1e%.0f: %s; finite: %r' % (at, band, zmax / float(band), desc, finite))
    if scale > 1e150 or 0 < scale < 1e-150 or (scale > 0 and float(np.min(_mags(anz)[_mags(anz) > 0])) < 1e-250 * scale):
        ctx.check(ok_eq and finite, 'smooth==weighted-mean & finite (extreme amplitude scale)',
                  lambda: _wit(at, raw, got=gsub, expected=ref, band=band, scale=scale),
                  '%s with amplitudes of scale %.3g: %s; finite: %r' % (at, scale, desc, finite))
    ctx.check(finite, 'smooth.finite', lambda: _wit(at, raw, got=got[:4096], band=band),
              '%s returned non-finite values or a wrong shape %s (expected (%d,))' % (at, got.shape, len(tg)))
    if finite:
        mags = _mags(anz)
        lo, hi = float(mags.min()), float(mags.max())
        slack = slack_rel * hi
        if got.dtype.kind == 'c':
            inr = bool(np.all(got.imag == 0) and np.all(got.real >= lo - slack) and np.all(got.real <= hi + slack))
        else:
            inr = bool(np.all(got >= lo - slack) and np.all(got <= hi + slack))
        ctx.check(inr, 'smooth.within[min|A|,max|A|]' + sfx, lambda: _wit(at, raw, got=got[:4096], lo=lo, hi=hi, band=band),
                  '%s: smoothed values [%r, %r] leave [min|A|, max|A|] = [%r, %r]'
                  % (at, np.min(got.real), np.max(got.real), lo, hi))


def _post_calc(args, kwargs, result, pre):
    freqs = args[0] if len(args) > 0 else kwargs['fa_frequencies']
    spec = args[1] if len(args) > 1 else kwargs['fa_spectrum']
    targets = args[2] if len(args) > 2 else kwargs.get('smooth_fa_frequencies')
    band = _sn(pre, args[3] if len(args) > 3 else kwargs.get('band', 40))
    f, a, t = _sn(pre, freqs), _sn(pre, spec), _sn(pre, targets)
    raw = _raw_func(f, a, t, band) if CASE is None else None
    _purity_args(CTX, 'calc_smooth_fa_spectrum', pre, raw)
    _ownership(CTX, 'calc_smooth_fa_spectrum', pre, result, raw)
    check_smooth(CTX, 'calc_smooth_fa_spectrum', f, a, t, band, result, raw=raw)


def _post_generate(args, kwargs, result, pre):
    targets = args[0] if len(args) > 0 else kwargs['smooth_fa_frequencies']
    freqs = args[1] if len(args) > 1 else kwargs['fa_frequencies']
    spec = args[2] if len(args) > 2 else kwargs['fa_spectrum']
    band = _sn(pre, args[3] if len(args) > 3 else kwargs.get('band', 40))
    f, a, t = _sn(pre, freqs), _sn(pre, spec), _sn(pre, targets)
    raw = _raw_func(f, a, t, band) if CASE is None else None
    _purity_args(CTX, 'generate_smooth_fa_spectrum', pre, raw)
    _ownership(CTX, 'generate_smooth_fa_spectrum', pre, result, raw)
    check_smooth(CTX, 'generate_smooth_fa_spectrum', f, a, t, band, result, clause='alias.generate==weighted-mean',
                 extras=False, raw=raw)


def _post_matrix(args, kwargs, result, pre):
    ctx = CTX
    at = 'calc_smoothing_matrix_konno_1998'
    freqs = args[0] if len(args) > 0 else kwargs['fa_frequencies']
    targets = args[1] if len(args) > 1 else kwargs.get('smooth_fa_frequencies')
    band = _sn(pre, args[2] if len(args) > 2 else kwargs.get('band', 40))
    freqs, targets = _sn(pre, freqs), _sn(pre, targets)
    raw = None
    if CASE is None:
        raw = _raw_func(freqs, np.ones(len(np.asarray(freqs))), targets, band)
    _purity_args(ctx, at, pre, raw)
    _ownership(ctx, at, pre, result, raw)
    d = _domain(ctx, freqs, None, targets, band, at)
    if d is None:
        return
    fnz, _, tg, sfx = d
    rtol, _, cs_tol = PREC[sfx]
    got = np.asarray(result)
    shape_ok = got.shape == (len(fnz), len(tg))
    idx = _subset(fnz, tg)
    large = idx is not None
    if large and len(fnz) * len(idx) > 2 ** 18:
        _MEMO.clear()
    tsub = tg if idx is None else tg[idx]
    cols = _columns(fnz, tsub, band)
    ref = np.array(O.matrix(cols), dtype=float).reshape(len(fnz), len(tsub))
    gsub = got if (idx is None or not shape_ok) else got[:, idx]
    wit = lambda: _wit(at, raw, got=gsub if gsub.size <= 2 ** 16 else gsub[:64], band=band, judged_columns=idx)
    cscale = np.max(ref, axis=0)[np.newaxis, :]
    matol = 0.0
    if sfx == '(f32 grid)' and not large:
        # single precision, see _compare: the oracle's first-order bound of the window's own rounding per entry
        matol = F32_GAIN * np.array(O.matrix_error_bound(cols, _sens_columns(fnz, tsub, band)), dtype=float).reshape(len(fnz), len(tsub))
    ctx.check(shape_ok and tol.close(gsub, ref, scale=cscale, rtol=rtol, atol=matol), 'matrix==window/sum' + sfx + (LARGE_SFX if large else ''), wit,
              'smoothing matrix (n_f=%d, n_targets=%d, band=%r): %s'
              % (len(fnz), len(tg), band, tol.describe(gsub, ref, scale=cscale, rtol=rtol, atol=matol)
                 if shape_ok else 'shape %s expected %s' % (got.shape, (len(fnz), len(tg)))))
    if not shape_ok:
        return
    with np.errstate(invalid='ignore'):
        ctx.check(bool(np.all(got >= 0)), 'matrix.nonneg', wit, 'smoothing matrix has a negative or NaN entry (min %r)' % np.min(got))
    if large:
        colsum = np.sum(got, axis=0)          # pairwise summation: good to a few ulp, every column
    else:
        colsum = np.array([math.fsum(got[:, j].tolist()) if np.all(np.isfinite(got[:, j])) else np.nan
                           for j in range(got.shape[1])])
    with np.errstate(invalid='ignore'):
        ctx.check(bool(np.all(np.abs(colsum - 1.0) <= cs_tol)), 'matrix.colsum==1' + sfx, wit,
                  'column sums of the smoothing matrix differ from 1: worst %r'
                  % (colsum[np.argmax(np.abs(np.nan_to_num(colsum, nan=np.inf) - 1))],))


def _post_custom(args, kwargs, result, pre):
    ctx = CTX
    asig = args[0] if len(args) > 0 else kwargs['asig']
    m = args[1] if len(args) > 1 else kwargs['smooth_matrix']
    at = 'calc_smooth_fa_spectrum_w_custom_matrix'
    if not _is_sig(asig):
        ctx.observe('out-of-domain:%s' % at)
        return
    st = pre[id(asig)][1]
    mm = np.asarray(_sn(pre, m))
    raw = _raw_sig(st, matrix=mm if mm.size <= 2 ** 18 else None)
    _purity_args(ctx, at, pre, raw)
    _purity_sig(ctx, at, asig, st, False, False, raw)
    ent = _entry_fa(st)
    if ent is None:
        ctx.observe('out-of-domain:%s' % at)
        return
    spec = np.asarray(ent[1])
    if mm.dtype.kind == 'b':
        mm = mm.astype(float)                       # an on/off (boxcar) matrix: True weighs 1
        ctx.observe('custom-matrix-of-bool-dtype')
    if mm.ndim != 2 or mm.shape[0] != len(spec) - 1 or mm.dtype.kind not in 'fiu' or not np.all(np.isfinite(mm)) \
            or not np.all(np.isfinite(spec)):
        ctx.observe('out-of-domain:%s' % at)
        return
    mags = [abs(x) for x in spec[1:].tolist()]
    got = np.asarray(result)
    if mm.size > SUBSET_PAIRS and mm.shape[1] > 8 and got.shape == (mm.shape[1],):
        cidx = np.unique(np.concatenate([[0, mm.shape[1] - 1], np.random.default_rng(mm.shape[0]).integers(0, mm.shape[1], size=6)]))
        ctx.observe('large-custom-matrix-calls(column subset)')
        got, mm = got[cidx], mm[:, cidx]
    ref, scale = O.apply_matrix(mags, mm.tolist())
    ref = np.array(ref, dtype=float)
    scale = np.array(scale, dtype=float)
    rtol = 1e-5 if (mm.dtype == np.float32 or spec.dtype == np.complex64) else RTOL   # numpy evaluates the dot in single
    ctx.check(tol.close(got, ref, scale=scale, rtol=rtol), 'custom-matrix==sum|A_i|M_ij(i>=1)',
              lambda: _wit(at, raw, got=got, expected=ref),
              '%s (n_f=%d, columns=%d): %s' % (at, len(mags), mm.shape[1], tol.describe(got, ref, scale=scale, rtol=rtol)))


def _pre_gen_smooth(args, kwargs):
    self = args[0]
    given = args[1] if len(args) > 1 else kwargs.get('smooth_fa_freqs')
    band = args[2] if len(args) > 2 else kwargs.get('band', 40)
    return {'st': _sig_state(self), 'given': (given, _snap(given)), 'band': (band, _snap(band))}


def _band_kept(pre):
    """a 0-d array is mutable: the band the caller passed is judged, and must still be what it was, bit for bit."""
    b, bs = pre['band']
    return [] if _same(b, bs) else ['the band argument (a 0-d array, changed in place)']


def _post_gen_smooth(args, kwargs, result, pre):
    given, gsnap = pre['given']
    _judge_generation(args[0], pre['st'], given, gsnap, pre['band'][1], 'Signal.gen_smooth_fa_spectrum', _band_kept(pre))


def _pre_generate_method(args, kwargs):
    band = args[1] if len(args) > 1 else kwargs.get('band', 40)
    return {'st': _sig_state(args[0]), 'band': (band, _snap(band))}


def _post_generate_method(args, kwargs, result, pre):
    """Signal.generate_smooth_fa_spectrum(band): the stored spectrum must be the one for the band that was ASKED for."""
    _judge_generation(args[0], pre['st'], None, None, pre['band'][1], 'Signal.generate_smooth_fa_spectrum', _band_kept(pre))


def _judge_generation(self, st, given, gsnap, band, at, changed_args=()):
    ctx = CTX
    got = self._smooth_fa_spectrum
    _SERIAL[0] += 1
    _GEN[self] = {'band': band, 'fa_obj': self._fa_spectrum, 'tg_obj': self._smooth_fa_freqs,
                  'result': np.array(got, copy=True), 'serial': _SERIAL[0]}
    use = st['tg'] if given is None else gsnap
    raw = _raw_sig(st, band, targets=np.asarray(use), how='gen_arg' if given is not None else 'setter')
    _purity_sig(ctx, at, self, st, True, given is not None, raw,
                extra=([] if _same(given, gsnap) else ['the smooth_fa_freqs argument']) + list(changed_args))
    ent = _entry_fa(st)
    if ent is None:
        ctx.observe('out-of-domain:%s' % at)
        return
    d = _domain(ctx, ent[0], ent[1], use, band, at)
    if d is None:
        return
    fnz, anz, t, prec = d
    rtol = PREC[prec][0]
    scale = _scale(anz)
    okc, desc, ref, gsub, _lg = _compare(fnz, anz, t, band, got, scale, rtol)
    now = np.asarray(self._smooth_fa_freqs)
    ok = okc and bool(self._cached_smooth_fa) and \
        now.shape == np.asarray(use).shape and bool(np.all(now == np.asarray(use)))
    ctx.check(ok, 'signal.gen_smooth==weighted-mean',
              lambda: _wit(at, raw, got=gsub, expected=ref, band=band, targets_now=now[:4096]),
              '%s(band=%r, targets %s): stored spectrum %s; cached flag %r; targets stored == targets used: %r'
              % (at, band, 'given' if given is not None else 'kept', desc,
                 self._cached_smooth_fa, now.shape == np.asarray(use).shape and bool(np.all(now == np.asarray(use)))))


def _pre_prop(self):
    return _sig_state(self)


def _post_prop(self, result, st):
    ctx = CTX
    at = 'Signal.smooth_fa_spectrum'
    was_cached = st['cached_s']
    rec = _GEN.get(self)
    raw = _raw_sig(st, None if rec is None else rec['band'])
    _purity_sig(ctx, at, self, st, not was_cached, False, raw)
    if rec is None:
        ctx.observe('property-read-without-monitored-generation')
        return
    if rec.get('stale') or self._fa_spectrum is not rec['fa_obj'] or self._smooth_fa_freqs is not rec['tg_obj']:
        ctx.observe('cached-read-after-state-change(C04 territory)')
        return
    if was_cached and not st['cached_fa']:
        # the object serves a smoothed spectrum although it holds no Fourier spectrum (unreachable through the public
        # operations of the class: clear_cache drops both; reachable through a copy protocol that drops the derived arrays
        # but keeps the flag): it is judged against the dt x DFT of the object's OWN record like any other read
        ctx.observe('cached-read-without-fourier-cache(judged against the own record)')
    band = rec['band'] if was_cached else 40          # an uncached read generates with the documented default band
    ent = _entry_fa(st)
    if ent is None:
        ctx.observe('out-of-domain:%s' % at)
        return
    d = _domain(ctx, ent[0], ent[1], st['tg'], band, at)
    if d is None:
        return
    fnz, anz, t, prec = d
    rtol = PREC[prec][0]
    scale = _scale(anz)
    okc, desc, ref, gsub, _lg = _compare(fnz, anz, t, band, result, scale, rtol)
    ctx.check(okc, 'signal.smooth_fa_spectrum==weighted-mean',
              lambda: _wit(at, raw, got=gsub, expected=ref, band=band, was_cached=was_cached),
              'Signal.smooth_fa_spectrum (band=%r, cached before=%r): %s' % (band, was_cached, desc))
    ctx.observe('property-read-cached' if was_cached else 'property-read-uncached')


def adopt(new, src):
    """Harness book-keeping for an object made from src by a Python object protocol (copy.copy / copy.deepcopy / pickle):
    the band of the last monitored generation travels with the copy (the object itself does not store it), so that a read of
    the copy's smoothed spectrum is judged like a read of the original: against the copy's OWN Fourier cache at call entry
    or, when it holds none, the dt x DFT of its own record. A source whose smoothed cache was already out of step with its
    Fourier cache (explicit Fourier regeneration, C04 territory) hands that status on."""
    rec = _GEN.get(src)
    if rec is None:
        return
    stale = bool(rec.get('stale')) or src._fa_spectrum is not rec['fa_obj'] or src._smooth_fa_freqs is not rec['tg_obj']
    _GEN[new] = dict(rec, fa_obj=getattr(new, '_fa_spectrum', None), tg_obj=getattr(new, '_smooth_fa_freqs', None), stale=stale)


PENDING_REFUSED = 'pending-finding: refused gen_smooth_fa_spectrum keeps the rejected smooth_fa_freqs (old cached spectrum still served)'
_TAINT = weakref.WeakKeyDictionary()       # Signal -> smoothing frequencies it held before a refused call replaced them


def _refused_state(ctx, at, asig, st, raw, exc, may_generate):
    """After a call RAISED: the object is as it was at entry (lazily filled caches apart), or its smoothed cache is
    invalidated as a whole - never new smoothing frequencies next to the spectrum of the old ones."""
    bad = _sig_changed(asig, st, may_generate and not st['cached_s'], False)
    rec = _GEN.get(asig)
    if asig._cached_smooth_fa and not st['cached_s'] and not (rec is not None and rec['serial'] > st['serial']):
        bad.append('validity flag of the smoothed spectrum (set although no generation completed)')
    ctx.observe('refused-calls:%s' % at)
    return bad


def _onex_gen_smooth(args, kwargs, exc, pre):
    ctx = CTX
    self = args[0]
    st = pre['st']
    given = pre['given'][0]
    at = 'Signal.gen_smooth_fa_spectrum(raised %s)' % type(exc).__name__
    raw = _raw_sig(st, None, how='gen_arg-refused')
    bad = _refused_state(ctx, at, self, st, raw, exc, False)
    # (the one mechanism that fired on the tree before fix F43 - a list of targets stored before it was used, TypeError, old
    # spectrum still served - was routed to an observation here until it was ruled a genuine defect and repaired in eqsig;
    # nothing is routed any more)
    ctx.check(not bad, 'refused-call.object-as-it-was', lambda: _wit(at, raw, changed=bad, exception=repr(exc)),
              '%s and left %s of the object changed' % (at, bad))


def _onex_sig_fn(who):
    def onex(args, kwargs, exc, pre):
        asig = args[0] if args else kwargs.get('asig')
        if not _is_sig(asig) or not pre or id(asig) not in pre:
            return
        st = pre[id(asig)][1]
        at = '%s(raised %s)' % (who, type(exc).__name__)
        raw = _raw_sig(st, None, band_fn=who)
        rec = _GEN.get(asig)
        extra = []
        if not st['cached_s'] and asig._cached_smooth_fa and rec is not None and rec['serial'] > st['serial'] \
                and not _same(np.asarray(asig._smooth_fa_spectrum), rec['result']):
            extra.append('the smoothed spectrum after generating it')
        bad = _refused_state(CTX, at, asig, st, raw, exc, True) + extra
        CTX.check(not bad, 'refused-call.object-as-it-was', lambda: _wit(at, raw, changed=bad, exception=repr(exc)),
                  '%s and left %s of the object changed' % (at, bad))
    return onex


def _check_band(ctx, who, asig, pre, ratio, ratio_eff, lo, hi, prefix):
    if not _is_sig(asig):
        ctx.observe('out-of-domain:%s' % who)
        return
    st = pre[id(asig)][1]
    raw = _raw_sig(st, None, ratio=ratio, band_fn=who)
    rec = _GEN.get(asig)
    extra = []
    if st['cached_s']:
        s = st['sm']
    elif rec is not None and rec['serial'] > st['serial']:
        s = rec['result']                 # generated during this call: the monitored generation kept a copy
        if not _same(np.asarray(asig._smooth_fa_spectrum), s):
            extra.append('the smoothed spectrum after generating it')
    else:
        ctx.observe('band-oracle-fallback(unmonitored generation)')
        s = np.asarray(asig._smooth_fa_spectrum)
    _purity_sig(ctx, who, asig, st, not st['cached_s'], False, raw, extra=extra)
    _purity_args(ctx, who, pre, raw)            # a ratio given as 0-d array is still what it was
    s = np.asarray(s, dtype=float)
    f = np.asarray(st['tg'], dtype=float)
    if s.size == 0 or s.shape != f.shape or not np.all(np.isfinite(s)) or not (0 <= ratio_eff < 1):
        ctx.observe('out-of-domain:%s' % who)
        return
    if not np.max(s) > 0:
        ctx.observe('all-zero-smoothed-spectrum:%s' % who)
        return
    if np.any(np.diff(f) < 0):
        ctx.observe('targets-not-ascending:%s' % who)
        return
    first_ok, last_ok, peaks = O.band_limit_candidates(s.tolist(), ratio_eff)
    if len(first_ok) > 1 or len(last_ok) > 1:
        # (checklist 33) the only two-way acceptance of this oracle: a sample within 8 ulp of the rounded threshold; counted so
        # that the evidence shows how rarely a verdict rests on it (flat spectra with a ratio within 8 ulp of 1)
        ctx.observe('bandwidth-limit-with-a-sample-within-8ulp-of-the-threshold(either side accepted)')
    wit = lambda: _wit(who, raw, got=(lo, hi), ratio=ratio, smoothed=s, targets=f)
    fpk = [float(f[i]) for i in peaks]
    if 0 in peaks or len(f) - 1 in peaks:
        ctx.observe('bandwidth-peak-at-first-or-last-target')
    lim = float(np.max(s)) * ratio_eff
    open_lo, open_hi = bool(s[0] > lim), bool(s[-1] > lim)
    if 0 < ratio_eff <= 1e-2 and not (open_lo and open_hi):
        ctx.observe('bandwidth-ratio<=1e-2-deciding-an-interior-limit')
    if ratio_eff >= 0.999 and len(first_ok) + len(last_ok) > 0 and int(np.sum(s > lim)) > 1:
        ctx.observe('bandwidth-ratio>=0.999-with-more-than-one-sample-above')
    if open_lo or open_hi:
        # the band is still open at an end of the smoothing-frequency range: the limit is that end itself
        ctx.observe('bandwidth-above-limit-at:%s' % ('both ends' if open_lo and open_hi else ('first target' if open_lo else 'last target')))
        if len(f) <= 2:
            ctx.observe('bandwidth-calls-with-1-or-2-targets')
        okk = ((lo is None or any(lo == f[i] for i in first_ok)) and (hi is None or any(hi == f[i] for i in last_ok))
               and (lo is None or hi is None or lo <= hi) and all((lo is None or lo <= p) and (hi is None or p <= hi) for p in fpk))
        ctx.check(okk, 'bandwidth.open-end: ordered, brackets peak, ==first/last above limit', wit,
                  '%s(ratio=%r) -> (%r, %r) with the smoothed spectrum above the limit at the %s; expected first in %s, last in %s, peak at %s'
                  % (who, ratio, lo, hi, 'first and last target' if open_lo and open_hi else ('first target' if open_lo else 'last target'),
                     [float(f[i]) for i in first_ok][:4], [float(f[i]) for i in last_ok][:4], fpk[:4]))
    if prefix == 'sigrange':
        ok = (lo <= hi) and all(lo <= p <= hi for p in fpk)
        ctx.check(ok, 'sigrange.ordered+brackets-peak', wit,
                  '%s(ratio=%r) -> (%r, %r); smoothed peak at %r' % (who, ratio, lo, hi, fpk))
        ok = any(lo == f[i] for i in first_ok) and any(hi == f[i] for i in last_ok)
        ctx.check(ok, 'sigrange==first/last above max/ratio', wit,
                  '%s(ratio=%r) -> (%r, %r); expected first in %s, last in %s'
                  % (who, ratio, lo, hi, [float(f[i]) for i in first_ok], [float(f[i]) for i in last_ok]))
        return
    if lo is not None and hi is not None:
        ctx.check(lo <= hi, 'bandwidth.f_min<=f_max', wit, '%s(ratio=%r) -> f_min %r > f_max %r' % (who, ratio, lo, hi))
    ok = all((lo is None or lo <= p) and (hi is None or p <= hi) for p in fpk)
    ctx.check(ok, 'bandwidth.brackets-peak', wit,
              '%s(ratio=%r) -> (%r, %r) does not bracket the smoothed peak at %r' % (who, ratio, lo, hi, fpk))
    ok = (lo is None or any(lo == f[i] for i in first_ok)) and (hi is None or any(hi == f[i] for i in last_ok))
    ctx.check(ok, 'bandwidth==first/last above ratio*max', wit,
              '%s(ratio=%r) -> (%r, %r); expected first in %s, last in %s'
              % (who, ratio, lo, hi, [float(f[i]) for i in first_ok], [float(f[i]) for i in last_ok]))


def _ratio_of(args, kwargs, default, pre=None):
    """the ratio the caller passed, as it was at ENTRY (a 0-d array is mutable)"""
    return _sn(pre, args[1] if len(args) > 1 else kwargs.get('ratio', default))


def _eff(r):
    """ratio as the Python float the statement's threshold ratio*max is formed with (np.float64(max) * np.float32(ratio) is a
    double-precision product of the two values; Python float * np.float32 would be a single-precision one)"""
    try:
        return float(r)
    except (TypeError, ValueError):
        return -1.0


def _post_bw_freqs(args, kwargs, result, pre):
    asig = args[0] if args else kwargs['asig']
    r = _ratio_of(args, kwargs, 0.707, pre)
    _check_band(CTX, 'calc_bandwidth_freqs', asig, pre, r, _eff(r), float(result[0]), float(result[1]), 'bandwidth')


def _post_bw_fmin(args, kwargs, result, pre):
    asig = args[0] if args else kwargs['asig']
    r = _ratio_of(args, kwargs, 0.707, pre)
    _check_band(CTX, 'calc_bandwidth_f_min', asig, pre, r, _eff(r), float(result), None, 'bandwidth')


def _post_bw_fmax(args, kwargs, result, pre):
    asig = args[0] if args else kwargs['asig']
    r = _ratio_of(args, kwargs, 0.707, pre)
    _check_band(CTX, 'calc_bandwidth_f_max', asig, pre, r, _eff(r), None, float(result), 'bandwidth')


def _post_sigrange(args, kwargs, result, pre):
    asig = args[0] if args else kwargs['asig']
    r = _ratio_of(args, kwargs, 15, pre)
    try:
        eff = 1.0 / float(r)
    except (ZeroDivisionError, TypeError, ValueError):
        eff = -1.0
    res = np.asarray(result, dtype=float).ravel()
    if res.size != 2:
        CTX.violation('sigrange.ordered+brackets-peak', _wit('get_sig_freq_range', None, got=res, ratio=r),
                      'get_sig_freq_range returned %d values' % res.size)
        return
    _check_band(CTX, 'get_sig_freq_range', asig, pre, r, eff, float(res[0]), float(res[1]), 'sigrange')


def _wrap_property(cls, name, pre, post):
    prop = cls.__dict__[name]
    if getattr(prop.fget, '__vf_wrapped__', False):
        return
    orig = prop.fget
    qual = '%s.%s.%s' % (cls.__module__, cls.__name__, name)

    def fget(self):
        if not attach.STATE['enabled']:
            return orig(self)
        attach.CALLS[qual] = attach.CALLS.get(qual, 0) + 1
        ps = pre(self)
        r = orig(self)
        post(self, r, ps)
        return r

    fget.__vf_wrapped__ = True
    fget.__vf_orig__ = orig
    setattr(cls, name, property(fget, prop.fset, prop.fdel, prop.__doc__))


def install(ctx):
    """Attach the C07 monitors to the imported eqsig (idempotent per process)."""
    global CTX
    CTX = ctx
    import eqsig
    fr = eqsig.fns.frequency
    attach.wrap(fr, 'calc_smooth_fa_spectrum', _post_calc, pre=_pre_fn)
    attach.wrap(fr, 'generate_smooth_fa_spectrum', _post_generate, pre=_pre_fn)
    attach.wrap(fr, 'calc_smoothing_matrix_konno_1998', _post_matrix, pre=_pre_fn)
    attach.wrap(fr, 'calc_smooth_fa_spectrum_w_custom_matrix', _post_custom, pre=_pre_fn,
                on_exception=_onex_sig_fn('calc_smooth_fa_spectrum_w_custom_matrix'))
    attach.wrap(fr, 'get_sig_freq_range', _post_sigrange, pre=_pre_fn, on_exception=_onex_sig_fn('get_sig_freq_range'))
    attach.wrap(eqsig.im, 'calc_bandwidth_freqs', _post_bw_freqs, pre=_pre_fn, on_exception=_onex_sig_fn('calc_bandwidth_freqs'))
    attach.wrap(eqsig.im, 'calc_bandwidth_f_min', _post_bw_fmin, pre=_pre_fn, on_exception=_onex_sig_fn('calc_bandwidth_f_min'))
    attach.wrap(eqsig.im, 'calc_bandwidth_f_max', _post_bw_fmax, pre=_pre_fn, on_exception=_onex_sig_fn('calc_bandwidth_f_max'))
    attach.wrap_method(eqsig.single.Signal, 'gen_smooth_fa_spectrum', _post_gen_smooth, pre=_pre_gen_smooth,
                       on_exception=_onex_gen_smooth)
    attach.wrap_method(eqsig.single.Signal, 'generate_smooth_fa_spectrum', _post_generate_method, pre=_pre_generate_method)
    _wrap_property(eqsig.single.Signal, 'smooth_fa_spectrum', _pre_prop, _post_prop)


# ------------------------------------------------------------------------------------------------ workload: generators
BANDS = [5, 10, 20, 40, 100]
BAND_EDGES = [float(np.nextafter(5.0, 6.0)), 5.0 + 1e-9, 5.0005, 5.004, 99.92, 99.9995, 100.0 - 1e-9, float(np.nextafter(100.0, 0.0))]
TARGET_SIZES = [1, 1, 2, 2, 31, 32, 33, 63, 64, 65, 127, 128, 129, 256]
POW2_NEIGHBOURS = [3, 4, 5, 7, 8, 9, 15, 16, 17, 31, 32, 33, 63, 64, 65, 127, 128, 129, 255, 256, 257, 511, 512, 513]
INT_DTYPES = ['int64', 'int32', 'int16', 'int8', 'uint8', 'uint16']
VIEWS = [None, None, None, None, 'stride2', 'reversed', 'readonly']


def draw_band(rng):
    """(band or None for the default, form)."""
    u = rng.random()
    if u < 0.12:
        return None, 'py'
    form = BAND_FORMS[int(rng.integers(len(BAND_FORMS)))]
    if u < 0.20:
        return BAND_EDGES[int(rng.integers(len(BAND_EDGES)))], form          # within 1e-3 (relative) of the ends of [5, 100]
    if u < 0.55:
        b = BANDS[int(rng.integers(len(BANDS)))]
        return (b if rng.random() < 0.5 else float(b)), form
    return float(rng.uniform(5, 100)), form


BAND_FORMS = ['py', 'py', 'py', 'np64', 'npint', '0d', '0d', 'np32', 'npint32', '0dint', '0d32']
RATIO_FORMS = ['py', 'py', 'py', 'np64', 'np32', '0d', '0d', 'int', 'npint', '0d32']
DT_FORMS = ['py', 'py', 'py', 'py', 'np64', 'np32', '0d', '0d']


def band_obj(band, form):
    """The scalar form of a numeric argument (band, ratio, dt): Python float / int, numpy scalars of either width, 0-d arrays
    (mutable: the monitors snapshot them at entry like any other array). The single-precision forms round the VALUE; the
    monitors judge against float(<what the caller passed>). Integer forms only where the value is an integer."""
    if band is None:
        return None
    whole = abs(float(band)) < 2 ** 31 and float(band) == int(band)        # (sig ratios go up to 1e300)
    if form == 'np64':
        return np.float64(band)
    if form == 'np32':
        return np.float32(band)
    if form == 'npint' and whole:
        return np.int64(int(band))
    if form == 'npint32' and whole:
        return np.int32(int(band))
    if form == 'int' and whole:
        return int(band)
    if form == '0d':
        return np.array(float(band))
    if form == '0d32':
        return np.array(float(band), dtype=np.float32)
    if form == '0dint' and whole:
        return np.array(int(band))
    return band


def ratio_obj(r, form, sig=False):
    """Scalar form of a bandwidth ratio; falls back to the Python float when the form would leave the domain of the function
    (calc_bandwidth_*: [0, 1); get_sig_freq_range: (1, inf)) by single-precision rounding."""
    if r is None:
        return None
    o = band_obj(r, form)
    try:
        v = float(o)
    except (TypeError, ValueError):
        return r
    ok = (1 < v < float('inf')) if sig else (0 <= v < 1)
    return o if ok else r


def scalar_in_range(obj, lo, hi, hi_open=False):
    """A single-precision form may round a value next to the end of its admissible range onto / across that end: such a form is
    replaced by the plain Python value (the class 'within 1e-3 of the end' is driven in double precision)."""
    v = float(obj)
    return lo <= v and (v < hi if hi_open else v <= hi)


def view_of(arr, v):
    """Materialise the container / memory-layout form of one array argument (forms are part of the case)."""
    if arr is None or v is None:
        return arr
    if v == 'stride2':
        big = np.zeros(2 * len(arr), dtype=arr.dtype)
        big[::2] = arr
        return big[::2]
    if v == 'reversed':
        return arr[::-1].copy()[::-1]
    if v == 'readonly':
        a = arr.copy()
        a.flags.writeable = False
        return a
    if v == 'list':
        return arr.tolist()
    if v == 'tuple':
        return tuple(arr.tolist())
    if v == 'scalar':
        return arr.dtype.type(arr[0])
    if v == 'fortran' and arr.ndim == 2:
        return np.asfortranarray(arr)
    if v == 'nested-list':
        return arr.tolist()
    return arr


def fourier_grid(n, dt):
    n_factor = 2 ** int(np.ceil(np.log2(n)))
    points = int(n_factor / 2)
    return np.arange(points) / (n_factor * dt), n_factor


def draw_dt(rng):
    u = rng.random()
    if u < 0.25:
        return float(10 ** rng.uniform(-9, 3))
    if u < 0.35 and hasattr(gen, 'awkward_dt'):
        return gen.awkward_dt(rng, int(rng.choice([3, 7, 11, 49, 93])))
    return gen.dt(rng)


def draw_record(rng, n):
    try:
        x, cls = gen.record(rng, n, extreme=True)
    except TypeError:
        x, cls = gen.record(rng, n)
    if 'extreme' in cls:
        return x, cls
    if hasattr(gen, 'special_scale') and n <= 600 and rng.random() < 0.05:
        y, sfx = gen.special_scale(rng, x)
        if sfx:
            return y, cls + sfx + '/extreme-scale'
    u = rng.random()
    if u > 0.985:
        return np.zeros(n), 'silent(all-zero)'
    if u > 0.955:
        # strictly one-signed: no zero sample, no sign change
        m = float(np.max(np.abs(x))) or 1.0
        sgn = 1.0 if u > 0.97 else -1.0
        return sgn * (np.abs(x) + m * float(rng.choice([1e-3, 0.1, 2.0]))), 'one-signed(%s)+%s' % ('pos' if sgn > 0 else 'neg', cls)
    if u < 0.15:
        x = x * float(10 ** rng.uniform(-12, 12))
        cls += '*wide-scale'
    elif u < 0.20:
        x = 1e6 + 1e-3 * x / (np.max(np.abs(x)) or 1.0)
        cls = 'offset1e6+' + cls
    elif u < 0.25 and n >= 8:
        y = np.zeros(n)
        k = max(2, n // 8)
        y[-k:] = x[:k]                      # all the action in the last 1/8 of the record, ends on a non-zero sample
        x, cls = y, 'tail-heavy+' + cls
    elif u < 0.29:
        x = np.linspace(-1, 2, n) * (np.max(np.abs(x)) or 1.0) + 0.3 * (-1.0) ** np.arange(n) * (np.max(np.abs(x)) or 1.0)
        cls = 'trend+nyquist'
    return x, cls


def draw_n(rng):
    u = rng.random()
    if u < 0.55:
        return int(rng.integers(3, 514))
    return int(POW2_NEIGHBOURS[int(rng.integers(len(POW2_NEIGHBOURS)))])


def draw_targets(rng, fnz, allow_none=True, sort=None, subrange=False):
    """(targets or None, kind). fnz: ascending positive grid."""
    if allow_none and rng.random() < 0.08:
        return None, 'default-grid'
    f1, fm = float(fnz[0]), float(fnz[-1])
    lo, hi = (np.log10(f1), np.log10(fm)) if fm > f1 else (np.log10(f1 / 2), np.log10(f1 * 2))
    u = rng.random()
    if not subrange and u < 0.22:
        # sized target sets: 1, 2 and lengths at / around powers of two; first and last Fourier frequency exactly
        n_t = int(rng.choice(TARGET_SIZES))
        t = 10 ** rng.uniform(lo - 0.7, hi + 0.7, size=n_t)
        kind = 'sized-%d' % n_t if n_t <= 2 else 'sized-pow2-neighbour'
        v = rng.random()
        if v < 0.5:
            t[0] = f1
            if n_t > 1:
                t[-1] = fm
            kind += '+first/last-bin'
        if n_t > 2 and v > 0.6:
            k = int(rng.integers(1, max(2, n_t // 3)))
            t[rng.integers(0, n_t, size=k)] = t[int(rng.integers(n_t))]          # repeated entries
            kind += '+repeated'
        order = sort if sort is not None else ['asc', 'desc', 'shuffled'][int(rng.integers(3))]
        if order is True or order == 'asc':
            t = np.sort(t)
        elif order == 'desc':
            t = np.sort(t)[::-1].copy()
            kind += '+descending'
        return t.astype(float), kind
    if subrange:
        third = (hi - lo) / 3
        lo, hi = (lo, lo + third) if rng.random() < 0.5 else (hi - third, hi)
        t = np.sort(10 ** rng.uniform(lo, hi, size=int(rng.integers(3, 9))))
        return t, 'sub-range'
    parts, kinds = [], []
    k_in = int(rng.integers(0, 9))
    if k_in:
        parts.append(10 ** rng.uniform(lo, hi, size=k_in))
        kinds.append('in')
    k_on = int(rng.integers(0, 4))
    if k_on:
        parts.append(np.asarray(fnz, dtype=float)[rng.integers(0, len(fnz), size=k_on)])
        kinds.append('on')
    if rng.random() < 0.45:
        parts.append(np.array([f1 / 3 if rng.random() < 0.2 else f1 / 3 * 10 ** rng.uniform(-2, 0)]))
        kinds.append('below')
    if rng.random() < 0.45:
        parts.append(np.array([3 * fm if rng.random() < 0.2 else 3 * fm * 10 ** rng.uniform(0, 2)]))
        kinds.append('above')
    if not parts:
        parts.append(np.asarray(fnz, dtype=float)[rng.integers(0, len(fnz), size=1)])
        kinds.append('on')
    t = np.concatenate(parts).astype(float)
    if sort is None:
        sort = rng.random() < 0.5
    if sort:
        t = np.sort(t)
    else:
        rng.shuffle(t)
    return t, '+'.join(kinds)


def draw_alpha(rng):
    u = rng.random()
    if u < 0.4:
        return float(rng.choice([2.0, -2.0, 0.5, -0.25, 1024.0, -2.0 ** -20, -1.0]))
    return float(rng.normal() * 10 ** rng.uniform(-3, 3)) or 1.5


def int_spectrum(rng, points, dtype, with_min=False):
    info = np.iinfo(dtype)
    lo = info.min + (1 if info.min < 0 else 0)
    hi = min(info.max, 2 ** 40)
    lo = max(lo, -2 ** 40)
    a = rng.integers(lo, hi, size=points, endpoint=True).astype(dtype)
    a[int(rng.integers(points))] = info.max if info.max < 2 ** 40 else hi
    if with_min:
        a[int(rng.integers(1, points)) if points > 1 else 0] = info.min
    return a


SYNTH = ['const', 'spike', 'spike-dyn', 'spike-dyn', 'decay', 'max-first', 'max-last', 'plateau-ends', 'signed', 'complex', 'c64', 'f32', 'loggrid',
         'int', 'int', 'int-small', 'one-signed-or-silent', 'bool']


def gen_func_case(rng, long_n=None):
    src = 'record' if rng.random() < 0.3 else SYNTH[int(rng.integers(len(SYNTH)))]
    probe = None
    reject = None
    grid_dtype = 'float64'
    if long_n is not None:
        # a long record past 2**16 samples: stored as a recipe, materialised deterministically by run_func_case
        seed = int(rng.integers(1 << 30))
        dt = gen.dt(rng)
        case = {'kind': 'func', 'long': {'seed': seed, 'n': int(long_n), 'dt': dt}, 'freqs': None, 'spec': None,
                'targets': None, 'with_zero': bool(rng.random() < 0.5), 'views': {}, 'band': draw_band(rng)[0], 'band_form': 'py',
                'alpha': 2.0, 'const': 1.0, 'style': 'mixed', 'none_style': 'none'}
        f, _ = fourier_grid(long_n, dt)
        t = np.sort(np.concatenate([10 ** rng.uniform(np.log10(f[1]), np.log10(f[-1]), size=2), [f[int(rng.integers(1, len(f)))]]]))
        case['targets'] = t
        return case, 'func:long-record:%s:in+on' % ('zero-bin' if case['with_zero'] else 'no-zero-bin')
    if src == 'record':
        n = draw_n(rng)
        if rng.random() < 0.03:
            n = int(rng.choice([1, 2]))
        dt = draw_dt(rng)
        x, rcls = draw_record(rng, n)
        freqs, n_factor = fourier_grid(n, dt)
        spec = np.fft.fft(x, n=n_factor)[:len(freqs)] * dt
        src = 'record-' + rcls
        if n < 3:
            reject = 'record-of-%d-sample(s): no non-zero-frequency bin' % n
    else:
        points = int(rng.choice([2, 2, 3, 3, 4, 4, 5, 8, 16, 33, 64, 100, 128, 256])) if rng.random() < 0.6 else int(rng.integers(2, 257))
        u = rng.random()
        if src == 'loggrid':
            if rng.random() < 0.35:
                src = 'loggrid-wide(12 decades)'
                freqs = np.concatenate([[0.0], np.sort(10 ** rng.uniform(-6, 6, size=points - 1))])
            else:
                freqs = np.concatenate([[0.0], np.sort(10 ** rng.uniform(-2, 2, size=points - 1))])
        elif u < 0.12:
            grid_dtype = ['int64', 'int32', 'int16', 'uint8', 'uint16'][int(rng.integers(5))]
            freqs = np.arange(points).astype(grid_dtype)
        else:
            df = float(10 ** rng.uniform(-6, 9)) if u < 0.35 else float(10 ** rng.uniform(-2.5, 0.5))
            freqs = np.arange(points) * df
            if u > 0.92:
                grid_dtype = 'float32'
                freqs = freqs.astype(np.float32)
        amp = float(10 ** rng.uniform(-12, 12)) if rng.random() < 0.4 else 1.0
        ff = np.asarray(freqs, dtype=float)
        if src == 'const':
            spec = np.full(points, float(rng.choice([0.5, 1.0, 3.0, 7.25])) * amp)
        elif src == 'spike':
            spec = np.zeros(points)
            spec[int(rng.integers(1, points))] = amp
            if rng.random() < 0.5:
                spec += 1e-3 * amp
        elif src == 'spike-dyn':
            # one bin 1e3 .. 1e12 times larger than the rest (judged relative to the local scale as well)
            spec = (0.5 + np.abs(rng.normal(size=points))) * amp
            spec[int(rng.integers(1, points))] *= float(10 ** rng.uniform(3, 12))
        elif src == 'decay':
            spec = amp / (1.0 + ff / (ff[1] if points > 1 else 1.0)) ** rng.uniform(0.5, 3)
        elif src == 'max-first':
            spec = np.abs(rng.normal(size=points)) * amp
            spec[1 if points > 1 else 0] = 10 * amp
        elif src == 'max-last':
            spec = np.abs(rng.normal(size=points)) * amp
            spec[-1] = 10 * amp
        elif src == 'plateau-ends':
            spec = np.abs(rng.normal(size=points)) * amp
            k = max(1, points // 4)
            spec[:k + 1] = spec[k]
            spec[-k:] = spec[-k]
        elif src == 'signed':
            spec = rng.normal(size=points) * amp
        elif src == 'complex':
            spec = (rng.normal(size=points) + 1j * rng.normal(size=points)) * amp
        elif src == 'c64':
            spec = ((rng.normal(size=points) + 1j * rng.normal(size=points)) * min(max(amp, 1e-12), 1e12)).astype(np.complex64)
        elif src == 'f32':
            spec = (rng.normal(size=points) * min(max(amp, 1e-12), 1e12)).astype(np.float32)
        elif src == 'int':
            dtn = INT_DTYPES[int(rng.integers(len(INT_DTYPES)))]
            with_min = dtn.startswith('int') and rng.random() < 0.25      # the most negative value of the dtype: |A| must not wrap
            spec = int_spectrum(rng, points, np.dtype(dtn), with_min)
            src = 'int:' + dtn
            if with_min:
                src += ':with-dtype-min'
        elif src == 'int-small':
            spec = rng.integers(-9, 10, size=points).astype(np.int64)
        elif src == 'bool':
            # an on/off spectrum (rectangular pass bands) in numpy's bool dtype
            spec = rng.random(points) < float(rng.uniform(0.1, 0.9))
            if rng.random() < 0.5:
                k0 = int(rng.integers(0, points))
                spec = np.zeros(points, dtype=bool)
                spec[k0:k0 + max(1, points // 3)] = True
        elif src == 'one-signed-or-silent':
            v = int(rng.integers(4))
            if v == 0:
                spec, src = np.zeros(points), 'silent(all-zero spectrum)'
            elif v == 1:
                spec, src = np.zeros(points, dtype=np.int64), 'silent(all-zero int spectrum)'
            else:
                spec, src = -(np.abs(rng.normal(size=points)) + 0.05) * amp, 'one-signed(neg)'
        else:
            spec = np.abs(rng.normal(size=points)) * amp
    with_zero = bool(rng.random() < 0.5)
    extreme = False
    far = False
    if reject is None:
        if not with_zero:
            freqs, spec = freqs[1:], spec[1:]
        fnz = np.asarray(freqs[1:] if with_zero else freqs, dtype=float)
        targets, tkind = draw_targets(rng, fnz)
        if spec.dtype in (np.dtype(np.float64), np.dtype(np.complex128)) and hasattr(gen, 'special_scale') and rng.random() < 0.08:
            # numerically special but valid amplitude scales (smoothing is linear in |A|): uniformly tiny / huge, 1e-150 next to
            # 1e150, a ripple on a baseline, counts above 2**24
            mag = np.abs(spec)
            new, sfx = gen.special_scale(rng, mag if spec.dtype.kind == 'c' else spec)
            if sfx:
                spec = (spec / np.where(mag > 0, mag, 1.0)) * new if spec.dtype.kind == 'c' else new
                src += sfx
                extreme = True
        if targets is not None and rng.random() < 0.08:
            # widely separated (Fourier frequency, target) pairs with a large bandwidth: b*|log10(f/fc)| far above 308
            extra = np.concatenate([fnz[0] * 10 ** -rng.uniform(3, 8, size=int(rng.integers(1, 3))),
                                    fnz[-1] * 10 ** rng.uniform(3, 8, size=int(rng.integers(1, 3)))])
            targets = np.concatenate([targets, extra])
            rng.shuffle(targets)
            tkind += '+far'
            far = True
    else:
        targets, tkind = np.array([1.0, 2.0]), 'any'
    views = {'freqs': VIEWS[int(rng.integers(len(VIEWS)))], 'spec': VIEWS[int(rng.integers(len(VIEWS)))],
             'targets': VIEWS[int(rng.integers(len(VIEWS)))]}
    u = rng.random()
    if targets is not None and reject is None:
        if u < 0.06 and grid_dtype == 'float32':
            targets = targets.astype(np.float32)
            tkind += ':f32'
        elif u < 0.10:
            targets = targets.astype(np.float32)
            tkind += ':f32'
        elif u < 0.16 and grid_dtype not in ('float64', 'float32'):
            targets = np.unique(np.clip(np.round(targets), 1, np.iinfo(grid_dtype).max)).astype(grid_dtype)
            tkind += ':' + grid_dtype
        elif u < 0.20 and not with_zero:
            targets, views['targets'], tkind = None, 'same-as-freqs', 'same-object-as-freqs'
        elif u < 0.23 and not with_zero and probe is None:
            views['spec'] = 'spec-is-freqs'
    u = rng.random()
    if reject is None and probe is None and u < 0.05:
        which = ['freqs', 'spec', 'targets'][int(rng.integers(3))]
        if which != 'targets' or (targets is not None):
            views[which] = ['list', 'tuple', 'scalar'][int(rng.integers(3))] if which == 'targets' else ['list', 'tuple'][int(rng.integers(2))]
            reject = '%s-as-%s' % (which, views[which])
    band, bform = draw_band(rng)
    if rng.random() < 0.02:
        band = float(rng.choice([0.0, 1.0, 200.0]))          # outside the quantifier: counted by the monitor, not judged
    if far or (src.startswith('loggrid-wide') and rng.random() < 0.7):
        band = [100, 100.0, 90.0, float(rng.uniform(80, 100))][int(rng.integers(4))]
    case = {'kind': 'func', 'freqs': freqs, 'spec': spec, 'targets': targets, 'views': views, 'band': band, 'band_form': bform,
            'alpha': float(rng.choice([2.0, 0.5, -2.0])) if extreme else draw_alpha(rng),
            'const': float(rng.choice([1e-200, 1e200, -3e250, 7e-290])) if extreme else float(rng.choice([1.0, 0.3, 2.5e-7, 123456.789, -4.0, 1e-12, 1e12])),
            'none_style': 'omit' if rng.random() < 0.5 else 'none', 'style': ['pos', 'kw', 'mixed'][int(rng.integers(3))],
            'probe': probe, 'reject': reject}
    return case, 'func:%s:%s:%s:%s' % (src, grid_dtype, 'zero-bin' if with_zero else 'no-zero-bin', tkind)


VALUE_FORMS = [None, None, None, None, 'list', 'tuple', 'intlist', 'f32', 'i64', 'i16', 'u8', 'readonly', 'stride2', 'bool', 'boollist']


def draw_value_form(rng, rcls):
    """extreme-scale records stay in float64 / list containers (float32 overflows, integer forms rescale them away)."""
    if 'extreme' in rcls:
        return [None, None, 'list', 'tuple', 'readonly', 'stride2'][int(rng.integers(6))]
    return VALUE_FORMS[int(rng.integers(len(VALUE_FORMS)))]


def values_in_form(x, form):
    """The record in the container / dtype form of the case (integer forms use a rounded, rescaled copy)."""
    if form in (None, 'readonly', 'stride2'):
        return view_of(np.asarray(x, dtype=float), form)
    if form == 'list':
        return [float(v) for v in x]
    if form == 'tuple':
        return tuple(float(v) for v in x)
    if form == 'f32':
        return np.asarray(x, dtype=np.float32)
    if form in ('bool', 'boollist'):
        # an on/off record (bool dtype / list of Python bools): the library casts it to float like the integer kinds
        xa = np.asarray(x, dtype=float)
        on = xa > float(np.median(xa))
        return on if form == 'bool' else [bool(v) for v in on]
    m = float(np.max(np.abs(x))) or 1.0
    if form == 'intlist':
        return [int(v) for v in np.round(np.asarray(x) / m * 1000)]
    if form == 'i64':
        return np.round(np.asarray(x) / m * 2 ** 40).astype(np.int64)
    if form == 'i16':
        return np.round(np.asarray(x) / m * 32767).astype(np.int16)
    if form == 'u8':
        return np.round((np.asarray(x) / m + 1) * 127.5).astype(np.uint8)
    return np.asarray(x, dtype=float)


def draw_ratio(rng):
    u = rng.random()
    if u < 0.25:
        return None
    if u < 0.40:
        return float(rng.choice([0.0, 1e-300, 1e-12, 0.01, 0.999999, 1 - 1e-12, float(np.nextafter(1.0, 0.0)),
                                 1e-3, 5e-4, 1e-6, 0.999, 0.9995]))
    return float(rng.choice([0.5, 0.9, 0.25, float(rng.uniform(0.05, 0.98))]))


def draw_sig_ratio(rng):
    u = rng.random()
    if u < 0.25:
        return None
    if u < 0.35:
        return float(rng.choice([1.0 + 1e-9, 1 + 1e-12, float(np.nextafter(1.0, 2.0)), 1e12, 1e300, 1.001, 1.0005, 1000.0, 2000.0]))
    return float(rng.choice([2.0, 4.0, 100.0, float(rng.uniform(1.2, 50))]))


def draw_target_form(rng):
    return [None, None, 'list', 'tuple', 'intlist', 'f32', 'i64', 'readonly', 'stride2', 'reversed'][int(rng.integers(10))]


def targets_in_form(t, form):
    if t is None:
        return None
    if form == 'intlist':
        return sorted(set(int(v) for v in np.maximum(1, np.round(t))))
    if form == 'i64':
        return np.unique(np.maximum(1, np.round(t))).astype(np.int64)
    if form == 'f32':
        return np.asarray(t, dtype=np.float32)
    return view_of(np.asarray(t, dtype=float), form)


def gen_signal_case(rng, long_n=None, default_targets=False):
    n = draw_n(rng) if long_n is None else int(long_n)
    if long_n is None and rng.random() < 0.03:
        n = int(rng.choice([1, 2]))
    dt = draw_dt(rng) if long_n is None else gen.dt(rng)
    if long_n is None:
        x, rcls = draw_record(rng, n)
    else:
        x, rcls = None, 'long-record'
    grid, _ = fourier_grid(max(n, 3), dt)
    how = ['default', 'ctor', 'setter', 'setter_frequencies', 'range', 'gen_arg', 'by_range'][int(rng.integers(7))]
    if long_n is not None:
        how = 'default' if default_targets else 'ctor'
    targets, rng_lim, tkind = None, None, 'default-logspace'
    if how in ('range', 'by_range'):
        lo = float(10 ** rng.uniform(-2, 0.5))
        rng_lim = (lo, lo * float(10 ** rng.uniform(0.3, 2.5)))
        tkind = 'range'
    elif how != 'default':
        targets, tkind = draw_targets(rng, grid[1:], allow_none=False, sort=True, subrange=rng.random() < 0.2)
        if long_n is not None:
            targets = targets[:3] if len(targets) >= 3 else targets
    case = {'kind': 'signal', 'cls': 'AccSignal' if rng.random() < 0.5 else 'Signal', 'values': x, 'dt': dt, 'how': how,
            'values_form': draw_value_form(rng, rcls) if long_n is None else None,
            'targets': targets, 'targets_form': draw_target_form(rng) if how != 'gen_arg' else [None, 'readonly', 'stride2'][int(rng.integers(3))],
            'range': rng_lim, 'range_form': ['tuple', 'list', 'array'][int(rng.integers(3))], 'n_points': int(rng.choice([1, 1, 2, 2, 7, 30, 31, 32, 33, 50, 64, 65])),
            'band': draw_band(rng)[0], 'band_form': BAND_FORMS[int(rng.integers(len(BAND_FORMS)))],
            'ratio': draw_ratio(rng), 'sig_ratio': draw_sig_ratio(rng), 'style': ['pos', 'kw'][int(rng.integers(2))],
            'ratio_form': RATIO_FORMS[int(rng.integers(len(RATIO_FORMS)))], 'sig_ratio_form': RATIO_FORMS[int(rng.integers(len(RATIO_FORMS)))],
            'dt_form': DT_FORMS[int(rng.integers(len(DT_FORMS)))] if long_n is None else 'py',
            'n_points_form': ['py', 'py', 'npint', '0dint'][int(rng.integers(4))],
            'matrix_form': [None, None, 'f32', 'fortran', 'readonly', 'nested-list', 'bool'][int(rng.integers(7))],
            'random_matrix_seed': int(rng.integers(1 << 30)) if rng.random() < 0.3 else None,
            'second_seed': int(rng.integers(1 << 30)), 'reject_probes': bool(rng.random() < 0.1)}
    if case['matrix_form'] == 'bool' and case['random_matrix_seed'] is None:
        case['random_matrix_seed'] = int(rng.integers(1 << 30))
    small = (case['ratio'] is not None and 0 < case['ratio'] <= 1e-2) or (case['sig_ratio'] is not None and 100 <= case['sig_ratio'] <= 1e13)
    if long_n is None and small and n >= 16 and rng.random() < 0.8:
        # ratios next to the lower end of [0, 1) decide something only when the smoothed spectrum spans as many decades: a short
        # Gaussian pulse (spectrum exp(-2 (pi sigma f dt)^2), down to the rounding floor) with targets across the whole grid
        sig = float(rng.uniform(1.2, 5.0))
        i0 = float(rng.uniform(0.3, 0.7)) * (n - 1)
        case['values'] = float(10 ** rng.uniform(-3, 3)) * np.exp(-0.5 * ((np.arange(n) - i0) / sig) ** 2)
        case['values_form'] = [None, 'list', 'readonly'][int(rng.integers(3))]
        case['how'] = ['ctor', 'setter', 'setter_frequencies'][int(rng.integers(3))]
        case['targets'] = np.sort(10 ** rng.uniform(np.log10(grid[1]), np.log10(grid[-1]), size=int(rng.integers(12, 48))))
        case['targets_form'] = [None, 'list', 'readonly'][int(rng.integers(3))]
        rcls, tkind, how = 'gauss-pulse(smoothed spectrum over many decades)', 'in', case['how']
    if long_n is not None:
        case['long'] = {'seed': int(rng.integers(1 << 30)), 'n': int(long_n)}
        case['random_matrix_seed'] = None
        case['matrix_form'] = None
    if default_targets:
        rcls = 'large-record(131072 bins x 50 default targets)'
    return case, 'signal:%s:%s:%s' % (rcls, how, tkind)


HIST_OPS = ['read', 'read', 'gen', 'gen', 'generate', 'set', 'set', 'by_range', 'dep_range', 'dep_points', 'reset', 'reset',
            'add_constant', 'add_series', 'remove_average', 'remove_poly', 'butter', 'gen_fa', 'clear_cache', 'bw', 'bw',
            'custom', 'calc_on_own', 'twin', 'twin', 'swap', 'swap', 'assign', 'refused', 'reset_nonfinite']
TWIN_HOWS = ['ctor-from-values', 'reset-from-values', 'same-caller-array', 'deepcopy', 'deepcopy+mutate', 'interp', 'fas2signal',
             'pickle', 'pickle-p2', 'deepcopy-of-deepcopy']
REFUSED = ['gen-list', 'gen-band-str', 'custom-wrong-shape', 'bw-ratio-1', 'add_series-wrong-length']
SMALL_FORMS = [None, 'list', 'tuple', 'list', 'tuple', 'intlist']


def small_targets(rng, grid):
    """1, 2 or 3 smoothing frequencies (a 2-tuple must not be taken for a (min, max) range), ascending."""
    k = int(rng.integers(1, 4))
    lo, hi = np.log10(float(grid[0])), np.log10(float(grid[-1]))
    if not hi > lo:
        lo, hi = lo - 0.3, lo + 0.3
    t = np.sort(10 ** rng.uniform(lo, hi, size=k))
    if rng.random() < 0.3:
        t[0] = float(grid[int(rng.integers(len(grid)))])
        t = np.sort(t)
    return t


def fill_op(rng, op, n, grid):
    """Parameters of the history operations that were added in round 3."""
    name = op['op']
    if name == 'assign':
        op['attr'] = ['values', 'values', 'dt', 'npts', 'label'][int(rng.integers(5))]
        if op['attr'] == 'values':
            m = [n, max(3, n // 2), n + int(rng.integers(1, 40))][int(rng.integers(3))]
            op['values'], _rc = draw_record(rng, m)
            op['form'] = draw_value_form(rng, _rc)
        else:
            op['value'] = {'dt': float(10 ** rng.uniform(-3, 0)), 'npts': int(rng.integers(3, 600)), 'label': 'renamed'}[op['attr']]
    elif name == 'refused':
        op['kind'] = REFUSED[int(rng.integers(len(REFUSED)))]
        op['which'] = int(rng.integers(3))
        if op['kind'] == 'gen-list':
            op['targets'] = draw_targets(rng, grid[1:], allow_none=False, sort=True)[0]
    elif name == 'reset_nonfinite':
        op['at'] = float(rng.random())
        op['value'] = [float('nan'), float('inf'), float('-inf')][int(rng.integers(3))]
        op['shift'] = float(rng.choice([0.0, 0.0, 0.25]))
    elif name == 'twin':
        op['how'] = TWIN_HOWS[int(rng.integers(len(TWIN_HOWS)))]
        op['switch'] = bool(rng.random() < 0.5)
        op['then'] = ['read-copy', 'read-copy', 'read-orig-then-copy', 'read-copy-then-orig', 'none'][int(rng.integers(5))]
    return op


def gen_history_case(rng):
    n = draw_n(rng)
    dt = gen.dt(rng) if rng.random() < 0.8 else draw_dt(rng)
    x, rcls = draw_record(rng, n)
    grid, _ = fourier_grid(n, dt)
    ops = []
    for _ in range(int(rng.integers(6, 15))):
        name = HIST_OPS[int(rng.integers(len(HIST_OPS)))]
        op = {'op': name}
        if name in ('gen', 'generate'):
            op['band'], op['band_form'] = draw_band(rng)
            op['style'] = ['pos', 'kw'][int(rng.integers(2))]
            if name == 'gen' and rng.random() < 0.5:
                op['targets'] = draw_targets(rng, grid[1:], allow_none=False, sort=rng.random() < 0.8)[0]
                op['form'] = [None, 'readonly', 'stride2', 'reversed'][int(rng.integers(4))]
        elif name == 'set':
            op['via'] = ['smooth_fa_freqs', 'smooth_fa_frequencies'][int(rng.integers(2))]
            u_set = rng.random()
            if u_set < 0.15:
                op['form'] = 'fa_view'                    # a view of the object's own cached frequency array
                op['step'] = int(rng.integers(1, 4))
            elif u_set < 0.40:
                op['targets'] = small_targets(rng, grid[1:])
                op['form'] = SMALL_FORMS[int(rng.integers(len(SMALL_FORMS)))]
            else:
                op['targets'] = draw_targets(rng, grid[1:], allow_none=False, sort=rng.random() < 0.8)[0]
                op['form'] = draw_target_form(rng)
        elif name in ('by_range', 'dep_range'):
            lo = float(10 ** rng.uniform(-2, 0.5))
            op['limits'] = (lo, lo * float(10 ** rng.uniform(0.3, 2.5)))
            op['n_points'] = int(rng.choice([1, 2, 7, 30, 32, 33]))
            op['form'] = ['tuple', 'list', 'array'][int(rng.integers(3))]
        elif name == 'dep_points':
            op['value'] = int(rng.choice([2, 5, 31]))
        elif name == 'reset':
            m = [n, max(3, n // 2), n + int(rng.integers(1, 40)), int(POW2_NEIGHBOURS[int(rng.integers(len(POW2_NEIGHBOURS)))])][int(rng.integers(4))]
            op['values'], _rc = draw_record(rng, m)
            op['form'] = draw_value_form(rng, _rc)
        elif name == 'add_constant':
            op['c'] = float(rng.normal() * 10 ** rng.uniform(-3, 3))
        elif name == 'add_series':
            op['seed'] = int(rng.integers(1 << 30))
        elif name == 'remove_poly':
            op['deg'] = int(rng.integers(0, 3))
        elif name == 'butter':
            lo = float(rng.uniform(0.02, 0.3))
            op['cut'] = (lo, float(rng.uniform(lo * 1.5, 0.9)))        # fractions of the Nyquist frequency
        elif name == 'gen_fa':
            op['p2_plus'] = int(rng.integers(0, 3))
            op['n'] = None if rng.random() < 0.6 else 2 * int(rng.integers(n // 2 + 1, n + 20)) + int(rng.integers(0, 2))
        elif name == 'bw':
            op['fn'] = ['freqs', 'f_min', 'f_max', 'sigrange'][int(rng.integers(4))]
            op['ratio'] = draw_sig_ratio(rng) if op['fn'] == 'sigrange' else draw_ratio(rng)
            op['ratio_form'] = RATIO_FORMS[int(rng.integers(len(RATIO_FORMS)))]
            op['style'] = ['pos', 'kw', 'allkw'][int(rng.integers(3))]
        elif name == 'custom':
            op['seed'] = None if rng.random() < 0.6 else int(rng.integers(1 << 30))
            op['form'] = [None, 'f32', 'fortran', 'readonly', 'nested-list', 'bool'][int(rng.integers(6))]
            op['style'] = ['pos', 'kw'][int(rng.integers(2))]
        elif name in ('twin', 'assign', 'refused', 'reset_nonfinite'):
            fill_op(rng, op, n, grid)
        ops.append(op)
    case = {'kind': 'history', 'cls': 'AccSignal' if rng.random() < 0.5 else 'Signal', 'values': x, 'dt': dt,
            'values_form': draw_value_form(rng, rcls), 'ops': ops}
    return case, 'history:%s' % rcls


WARM_STATES = ['cold', 'fourier', 'smoothed', 'smoothed', 'gen-band', 'gen-band', 'gen-arg', 'bandwidth', 'custom', 'smoothed+targets-set',
               'smoothed+reset', 'smoothed+fourier-regenerated', 'fourier(p2_plus)+smoothed', 'fourier(n)+smoothed', 'smoothed+cleared']
PROTOCOL_NAMES = ['copy', 'deepcopy', 'deepcopy', 'deepcopy', 'pickle', 'pickle', 'pickle-p2', 'pickle-p0', 'deepcopy-of-copy',
                  'pickle-of-deepcopy', 'deepcopy-of-deepcopy']


def gen_protocol_case(rng):
    """copy.copy / copy.deepcopy / pickle round trip of a Signal / AccSignal in one of its cache states, then reads, regenerations,
    bandwidth calls and mutators on the copy AND on the original, in both orders (a history case with two live objects)."""
    n = draw_n(rng)
    dt = gen.dt(rng) if rng.random() < 0.8 else draw_dt(rng)
    x, rcls = draw_record(rng, n)
    grid, _ = fourier_grid(n, dt)
    warm = WARM_STATES[int(rng.integers(len(WARM_STATES)))]
    proto = PROTOCOL_NAMES[int(rng.integers(len(PROTOCOL_NAMES)))]
    shallow = PROTOCOLS[proto][-1] == 'copy'

    def op_set():
        o = {'op': 'set', 'via': ['smooth_fa_freqs', 'smooth_fa_frequencies'][int(rng.integers(2))]}
        if rng.random() < 0.3:
            o['targets'], o['form'] = small_targets(rng, grid[1:]), SMALL_FORMS[int(rng.integers(len(SMALL_FORMS)))]
        else:
            o['targets'], o['form'] = draw_targets(rng, grid[1:], allow_none=False, sort=True)[0], draw_target_form(rng)
        return o

    def op_gen(with_targets=False):
        b, bf = draw_band(rng)
        o = {'op': 'gen', 'band': b, 'band_form': bf, 'style': ['pos', 'kw'][int(rng.integers(2))]}
        if with_targets:
            o['targets'] = draw_targets(rng, grid[1:], allow_none=False, sort=True)[0]
            o['form'] = [None, 'readonly', 'stride2'][int(rng.integers(3))]
        return o

    def op_bw():
        fn = ['freqs', 'f_min', 'f_max', 'sigrange'][int(rng.integers(4))]
        return {'op': 'bw', 'fn': fn, 'ratio': draw_sig_ratio(rng) if fn == 'sigrange' else draw_ratio(rng),
                'ratio_form': RATIO_FORMS[int(rng.integers(len(RATIO_FORMS)))], 'style': ['pos', 'kw', 'allkw'][int(rng.integers(3))]}

    def op_reset():
        m = [n, max(3, n // 2), n + int(rng.integers(1, 40))][int(rng.integers(3))]
        v, rc = draw_record(rng, m)
        return {'op': 'reset', 'values': v, 'form': draw_value_form(rng, rc)}

    def op_gen_fa(explicit_n=False):
        return {'op': 'gen_fa', 'p2_plus': int(rng.integers(1, 3)),
                'n': (2 * int(rng.integers(n // 2 + 1, n + 20)) + int(rng.integers(0, 2))) if explicit_n else None}

    ops = []
    if rng.random() < 0.6:
        ops.append(op_set())                 # otherwise the 50 default smoothing frequencies
    ops += {'cold': [], 'fourier': [{'op': 'read_fa'}], 'smoothed': [{'op': 'read'}], 'gen-band': [op_gen()], 'gen-arg': [op_gen(True)],
            'bandwidth': [op_bw()], 'custom': [{'op': 'custom', 'seed': None, 'form': None, 'style': 'pos'}],
            'smoothed+targets-set': [{'op': 'read'}, op_set()], 'smoothed+reset': [op_gen(), op_reset()],
            'smoothed+fourier-regenerated': [op_gen(), op_gen_fa(rng.random() < 0.5)],
            'fourier(p2_plus)+smoothed': [op_gen_fa(), op_gen()], 'fourier(n)+smoothed': [op_gen_fa(True), {'op': 'read'}],
            'smoothed+cleared': [{'op': 'read'}, {'op': 'clear_cache'}]}[warm]
    first = ['read-copy', 'read-copy', 'read-orig-then-copy', 'read-copy-then-orig', 'none', 'none'][int(rng.integers(6))]
    ops.append({'op': 'twin', 'how': proto, 'switch': bool(rng.random() < 0.5), 'then': first})
    follow = ['read', 'read', 'read', 'bw', 'bw', 'gen', 'gen-arg', 'set', 'reset', 'reset', 'custom', 'calc_on_own', 'clear_cache', 'gen_fa', 'swap', 'swap',
              'swap', 'twin']
    if not shallow:
        follow += ['add_constant', 'butter', 'remove_average', 'add_series']      # a shallow copy shares the value buffer: reset_values only
    for _ in range(int(rng.integers(4, 10))):
        name = follow[int(rng.integers(len(follow)))]
        if name == 'bw':
            ops.append(op_bw())
        elif name in ('gen', 'gen-arg'):
            ops.append(op_gen(name == 'gen-arg'))
        elif name == 'set':
            ops.append(op_set())
        elif name == 'reset':
            ops.append(op_reset())
        elif name == 'custom':
            ops.append({'op': 'custom', 'seed': None, 'form': None, 'style': ['pos', 'kw'][int(rng.integers(2))]})
        elif name == 'gen_fa':
            ops.append(op_gen_fa(rng.random() < 0.3))
        elif name == 'add_constant':
            ops.append({'op': 'add_constant', 'c': float(rng.normal() * 10 ** rng.uniform(-3, 3))})
        elif name == 'add_series':
            ops.append({'op': 'add_series', 'seed': int(rng.integers(1 << 30))})
        elif name == 'butter':
            lo = float(rng.uniform(0.02, 0.3))
            ops.append({'op': 'butter', 'cut': (lo, float(rng.uniform(lo * 1.5, 0.9)))})
        elif name == 'twin':
            # a copy of the copy (or of the original) later in the history
            ops.append({'op': 'twin', 'how': 'deepcopy' if shallow or rng.random() < 0.5 else 'pickle', 'switch': bool(rng.random() < 0.5),
                        'then': ['read-copy', 'read-orig-then-copy', 'none'][int(rng.integers(3))]})
        else:
            ops.append({'op': name})
    ops += [{'op': 'read'}, {'op': 'swap'}, {'op': 'read'}]          # both members are read at the end
    case = {'kind': 'history', 'cls': 'AccSignal' if rng.random() < 0.5 else 'Signal', 'values': x, 'dt': dt,
            'values_form': draw_value_form(rng, rcls), 'ops': ops, 'protocol': proto, 'warm': warm}
    return case, 'protocol:%s:%s' % (proto, warm)


# ------------------------------------------------------------------------------------------------ workload: drivers
def _nontrivial(case):
    if case.get('long') or case.get('kind') == 'large':
        return True
    if case['kind'] == 'func':
        if case.get('reject') and len(case['freqs']) < 2:
            return False
        f, a = O.drop_zero_bin(np.asarray(case['freqs'], dtype=float), np.asarray(case['spec']))
        return len(set(np.abs(a.astype(complex) if a.dtype.kind in 'iu' else a).tolist())) > 1
    return len(set(np.abs(np.asarray(case['values'])).tolist())) > 1


def _call(ctx, clause, at, fn, *a, **k):
    """Run one public call of the case; an exception on these in-domain inputs is a violation."""
    try:
        return True, fn(*a, **k)
    except Exception as e:      # noqa
        ctx.exception(clause, _wit(at), e)
        return False, None


def _probe_rejected(ctx, what, fn, *a, **k):
    """A form the library is expected to reject: counted either way; if it is accepted the monitors judge the call."""
    try:
        fn(*a, **k)
        ctx.observe('accepted-form:%s' % what)
        return True
    except (TypeError, IndexError, ValueError, AttributeError) as e:
        ctx.observe('rejected-form:%s (%s)' % (what, type(e).__name__))
        return False


def _prec_rtol(fdtype, tdtype, sdtype):
    if np.result_type(fdtype, tdtype) == np.dtype(np.float32):
        return RTOL_F32
    if np.dtype(sdtype) == np.dtype(np.complex64):
        return 1e-6
    return RTOL


OWN = 'ownership.same-call-after-overwriting-the-result==first'
KEPT = 'settings.smoothing-frequencies-kept'


def _scribble(r):
    """Overwrite every entry of an array result the caller received (it belongs to the caller); False when it cannot be written."""
    if not isinstance(r, np.ndarray) or not r.flags.writeable or r.size == 0:
        CTX.observe('result-not-overwritten(%s)' % ('read-only array' if isinstance(r, np.ndarray) and r.size else type(r).__name__))
        return False
    r[...] = (r.dtype.type(True) if r.dtype.kind == 'b' else -7.25) if r.dtype.kind != 'c' else complex(-7.25, 3.5)
    return True


def _same_again(ctx, what, first, again):
    again = np.asarray(again)
    ctx.check(again.dtype == first.dtype and again.shape == first.shape and again.tobytes() == first.tobytes(), OWN,
              lambda: _wit(what, first=first if first.size <= 4096 else first.ravel()[:4096],
                           again=again if again.size <= 4096 else again.ravel()[:4096]),
              '%s: after the caller overwrote the array it had received, the same call with the same arguments gave a different result '
              '(the result was handed out by reference from a table the library keeps)' % what)


def run_func_case(eqsig, ctx, c):
    lng = c.get('long')
    if lng:
        x = np.random.default_rng(lng['seed']).normal(size=lng['n']) * np.exp(-np.arange(lng['n']) / (lng['n'] / 3.0))
        base_f, n_factor = fourier_grid(lng['n'], lng['dt'])
        base_s = np.fft.fft(x, n=n_factor)[:len(base_f)] * lng['dt']
        if not c.get('with_zero'):
            base_f, base_s = base_f[1:], base_s[1:]
    else:
        base_f, base_s = np.asarray(c['freqs']), np.asarray(c['spec'])
    views = c.get('views') or {}
    freqs = view_of(base_f, views.get('freqs'))
    spec = freqs if views.get('spec') == 'spec-is-freqs' else view_of(base_s, views.get('spec'))
    targets = freqs if views.get('targets') == 'same-as-freqs' else view_of(c['targets'], views.get('targets'))
    band = band_obj(c['band'], c.get('band_form', 'py'))
    style = c.get('style', 'mixed')
    omit = targets is None and c.get('none_style', 'omit') == 'omit'
    master = [_snap(freqs), _snap(spec), _snap(targets), _snap(band)]

    def direct_args(sp):
        if omit:
            return ((freqs, sp), {} if band is None else {'band': band})
        if style == 'kw':
            k = {'fa_frequencies': freqs, 'fa_spectrum': sp, 'smooth_fa_frequencies': targets}
            if band is not None:
                k['band'] = band
            return ((), k)
        if style == 'pos' and band is not None:
            return ((freqs, sp, targets, band), {})
        return ((freqs, sp, targets), {} if band is None else {'band': band})

    def direct(sp):
        a, k = direct_args(sp)
        return _call(ctx, 'smooth==weighted-mean', 'calc_smooth_fa_spectrum', eqsig.calc_smooth_fa_spectrum, *a, **k)

    if c.get('reject'):
        a, k = direct_args(spec)
        _probe_rejected(ctx, c['reject'], eqsig.calc_smooth_fa_spectrum, *a, **k)
        if not c['reject'].startswith('spec') and (isinstance(freqs, np.ndarray) or isinstance(targets, np.ndarray)):
            _probe_rejected(ctx, c['reject'] + ':matrix', eqsig.calc_smoothing_matrix_konno_1998, freqs, targets)
        return
    ok, held = direct(spec)
    if not ok:
        return
    base = np.array(held, copy=True)
    sarr = np.asarray(spec)
    fnz, anz = O.drop_zero_bin(np.asarray(freqs, dtype=float), sarr.astype(np.int64) if sarr.dtype.kind == 'i' else sarr)
    mags = _mags(anz)
    scale = float(mags.max()) if mags.size else 0.0
    rt = _prec_rtol(np.asarray(freqs).dtype, np.asarray(freqs if targets is None else targets).dtype, sarr.dtype)
    bkw = {} if band is None else {'band': band}
    # deprecated alias
    alias_call = None
    if targets is not None:
        if style == 'kw':
            alias_call = ((), dict(smooth_fa_frequencies=targets, fa_frequencies=freqs, fa_spectrum=spec, **bkw))
        elif style == 'pos' and band is not None:
            alias_call = ((targets, freqs, spec, band), {})
        else:
            alias_call = ((targets, freqs, spec), dict(bkw))
        if style == 'kw':
            ok, r = _call(ctx, 'alias.generate==weighted-mean', 'generate_smooth_fa_spectrum', eqsig.generate_smooth_fa_spectrum,
                          smooth_fa_frequencies=targets, fa_frequencies=freqs, fa_spectrum=spec, **bkw)
        elif style == 'pos' and band is not None:
            ok, r = _call(ctx, 'alias.generate==weighted-mean', 'generate_smooth_fa_spectrum', eqsig.generate_smooth_fa_spectrum,
                          targets, freqs, spec, band)
        else:
            ok, r = _call(ctx, 'alias.generate==weighted-mean', 'generate_smooth_fa_spectrum', eqsig.generate_smooth_fa_spectrum,
                          targets, freqs, spec, **bkw)
        if ok:
            ctx.check(np.array_equal(np.asarray(r), base), 'relation.alias==direct', lambda: _wit('relation.alias', got=np.asarray(r), direct=base),
                      'generate_smooth_fa_spectrum differs from calc_smooth_fa_spectrum on the same inputs')
            if _scribble(r):
                a_, k_ = alias_call
                ok, r2 = _call(ctx, 'alias.generate==weighted-mean', 'generate_smooth_fa_spectrum', eqsig.generate_smooth_fa_spectrum, *a_, **k_)
                if ok:
                    _same_again(ctx, 'generate_smooth_fa_spectrum', base, r2)
    # a different input of the same shape processed while the first result is held
    if sarr.dtype.kind in 'fc':
        other = (sarr[::-1] * sarr.dtype.type(1.5)).copy()
    else:
        other = sarr[::-1].copy()
    ok, _r2 = direct(other)
    if ok:
        ctx.check(np.asarray(held).tobytes() == base.tobytes(), 'state.held-result-unchanged',
                  lambda: _wit('state.held-result', first=base, now=np.asarray(held)),
                  'the result of the first call changed while a second input of the same shape was processed')
    if not lng:
        # results depend on the arguments only: after inputs of the same and of another shape the first input gives the first
        # result again, bit for bit (at whatever band the case has)
        fa_, sa_ = np.asarray(freqs), np.asarray(spec)
        if len(fa_) >= 4:
            k = len(fa_) - max(1, len(fa_) // 3)
            _call(ctx, 'smooth==weighted-mean', 'calc_smooth_fa_spectrum', eqsig.calc_smooth_fa_spectrum,
                  fa_[:k].copy(), sa_[:k][::-1].copy(), None if targets is None else np.array(targets, copy=True), **bkw)
        if fa_.dtype == np.float64 and float(fa_[-1]) < 1e300:
            # same shapes, another grid (a memo keyed on the shapes and the band would serve the first grid's weights)
            _call(ctx, 'smooth==weighted-mean', 'calc_smooth_fa_spectrum', eqsig.calc_smooth_fa_spectrum,
                  fa_ * 1.37, sa_[::-1].copy(), None if targets is None else np.array(targets, copy=True), **bkw)
        ok, again = direct(spec)
        if ok:
            again = np.asarray(again)
            ctx.check(again.dtype == base.dtype and again.shape == base.shape and again.tobytes() == base.tobytes(),
                      'relation.repeat(A,B,A)==first', lambda: _wit('relation.repeat', first=base, third=again),
                      'the same arguments gave a different result after other inputs had been processed in between')
    # matrix form
    if omit:
        ok, m = _call(ctx, 'matrix==window/sum', 'calc_smoothing_matrix_konno_1998', eqsig.calc_smoothing_matrix_konno_1998, freqs, **bkw)
    elif style == 'kw':
        ok, m = _call(ctx, 'matrix==window/sum', 'calc_smoothing_matrix_konno_1998', eqsig.calc_smoothing_matrix_konno_1998,
                      fa_frequencies=freqs, smooth_fa_frequencies=targets, **bkw)
    elif style == 'pos' and band is not None:
        ok, m = _call(ctx, 'matrix==window/sum', 'calc_smoothing_matrix_konno_1998', eqsig.calc_smoothing_matrix_konno_1998, freqs, targets, band)
    else:
        ok, m = _call(ctx, 'matrix==window/sum', 'calc_smoothing_matrix_konno_1998', eqsig.calc_smoothing_matrix_konno_1998, freqs, targets, **bkw)
    if ok:
        m_held = m
        m = np.asarray(m)
        m_copy = np.array(m, copy=True)
        if m.ndim == 2 and m.shape[0] == len(mags):
            via = np.dot(mags, m)
            ctx.check(tol.close(via, base, scale=scale, rtol=rt), 'relation.matrix-form==direct-form',
                      lambda: _wit('relation.matrix-form', via_matrix=via, direct=base),
                      '|A|.M differs from the direct form: %s' % tol.describe(via, base, scale=scale, rtol=rt))
        else:
            ctx.violation('relation.matrix-form==direct-form', _wit('relation.matrix-form', shape=list(m.shape)),
                          'matrix shape %s does not fit %d amplitudes' % (m.shape, len(mags)))
        if targets is not None and np.asarray(targets).dtype.kind == 'f' and not lng:
            t2 = np.asarray(targets) * np.asarray(targets).dtype.type(1.0625)
            ok2, _m2 = _call(ctx, 'matrix==window/sum', 'calc_smoothing_matrix_konno_1998', eqsig.calc_smoothing_matrix_konno_1998, freqs, t2, **bkw)
            if ok2:
                ctx.check(np.asarray(m_held).tobytes() == m_copy.tobytes(), 'state.held-result-unchanged',
                          lambda: _wit('state.held-matrix', first=m_copy, now=np.asarray(m_held)),
                          'the first smoothing matrix changed while a second one of the same shape was computed')
        if not lng and m_copy.size <= 2 ** 16 and _scribble(m_held):
            # the smoothing matrix belongs to the caller: overwritten, then the same call once more
            if omit:
                ok3, m3 = _call(ctx, 'matrix==window/sum', 'calc_smoothing_matrix_konno_1998', eqsig.calc_smoothing_matrix_konno_1998, freqs, **bkw)
            else:
                ok3, m3 = _call(ctx, 'matrix==window/sum', 'calc_smoothing_matrix_konno_1998', eqsig.calc_smoothing_matrix_konno_1998, freqs, targets, **bkw)
            if ok3:
                _same_again(ctx, 'calc_smoothing_matrix_konno_1998', m_copy, m3)
    # scaling
    alpha = c.get('alpha')
    if alpha is not None and sarr.dtype.kind in 'fc':
        # scale in double precision: float32 * alpha would round the *input* of the second execution
        wide = sarr.astype(np.complex128 if sarr.dtype.kind == 'c' else np.float64)
        need_base = sarr.dtype in (np.dtype(np.complex64), np.dtype(np.float32))
        ok, r = direct(wide * alpha)
        if ok and need_base:
            okb, wb = direct(wide)            # the double-precision twin of a complex64 spectrum is its own baseline
            ok, ref_base = okb, (np.array(wb, copy=True) if okb else None)
        else:
            ref_base = base
        if ok:
            r = np.asarray(r)
            exp = abs(alpha) * ref_base
            ctx.check(tol.close(r, exp, scale=abs(alpha) * scale, rtol=1e-12), 'relation.scaling',
                      lambda: _wit('relation.scaling', got=r, expected=exp, alpha=alpha),
                      'smoothing of alpha*A (alpha=%r) is not |alpha| * smoothing of A: %s'
                      % (alpha, tol.describe(r, exp, scale=abs(alpha) * scale, rtol=1e-12)))
            mant = np.frexp(abs(alpha))[0]
            tiny = mags[mags > 0].min() if np.any(mags > 0) else 1.0
            if mant == 0.5 and sarr.dtype == np.float64 and tiny * min(abs(alpha), 1.0) > 1e-280 and scale * max(abs(alpha), 1.0) < 1e280:
                ctx.check(np.array_equal(r, exp), 'relation.scaling-pow2-exact',
                          lambda: _wit('relation.scaling-pow2', got=r, expected=exp, alpha=alpha),
                          'power-of-two scaling (alpha=%r) is not exact' % alpha)
    # constant spectrum
    cv = c.get('const')
    if cv is not None:
        ok, r = direct(np.full(len(np.asarray(freqs)), cv))
        if ok:
            r = np.asarray(r)
            exp = np.full(r.shape, abs(cv))
            crt = 2e-5 if rt == RTOL_F32 else 1e-12
            ctx.check(tol.close(r, exp, scale=abs(cv), rtol=crt), 'relation.constant-reproduced',
                      lambda: _wit('relation.constant', got=r, const=cv),
                      'constant spectrum %r not reproduced: %s' % (cv, tol.describe(r, exp, scale=abs(cv), rtol=crt)))
    # a result belongs to the caller: the array of the first call is overwritten, the same call repeated
    if _scribble(held):
        ok, again = direct(spec)
        if ok:
            _same_again(ctx, 'calc_smooth_fa_spectrum', base, again)
    # the arguments of the whole case are still what they were before the first call
    now = [freqs, spec, targets, band]
    bad = [n for n, a, s in zip(('freqs', 'spec', 'targets', 'band'), now, master) if not _same(a, s)]
    ctx.check(not bad, 'purity.arguments-unchanged', lambda: _wit('case-level purity', changed=bad),
              'arguments %s differ from their values before the first call of the case' % bad)


def _limits(lim, form):
    if form == 'list':
        return [lim[0], lim[1]]
    if form == 'array':
        return np.array([lim[0], lim[1]])
    return (lim[0], lim[1])


def _konno_custom(eqsig, ctx, s, b_eff, form, style, v_ref, scale, rt):
    """custom-matrix form with the Konno matrix of the object's own grid; relation to the object form."""
    ok, m = _call(ctx, 'matrix==window/sum', 'calc_smoothing_matrix_konno_1998', eqsig.calc_smoothing_matrix_konno_1998,
                  s.fa_freqs, s.smooth_fa_freqs, band=b_eff)
    if not ok:
        return
    m = np.asarray(m)
    if form == 'f32':
        m = m.astype(np.float32)
    else:
        m = view_of(m, form)
    if style == 'kw':
        ok, r = _call(ctx, 'custom-matrix==sum|A_i|M_ij(i>=1)', 'calc_smooth_fa_spectrum_w_custom_matrix',
                      eqsig.calc_smooth_fa_spectrum_w_custom_matrix, asig=s, smooth_matrix=m)
    else:
        ok, r = _call(ctx, 'custom-matrix==sum|A_i|M_ij(i>=1)', 'calc_smooth_fa_spectrum_w_custom_matrix',
                      eqsig.calc_smooth_fa_spectrum_w_custom_matrix, s, m)
    if ok and isinstance(r, np.ndarray):
        first = np.array(r, copy=True)
        held_obj = s._smooth_fa_spectrum if s._cached_smooth_fa else None
        held_cp = None if held_obj is None else np.array(held_obj, copy=True)
        if _scribble(r):
            ok4, r4 = _call(ctx, 'custom-matrix==sum|A_i|M_ij(i>=1)', 'calc_smooth_fa_spectrum_w_custom_matrix',
                            eqsig.calc_smooth_fa_spectrum_w_custom_matrix, s, m)
            if ok4:
                _same_again(ctx, 'calc_smooth_fa_spectrum_w_custom_matrix', first, r4)
            if held_obj is not None:
                ctx.check(np.asarray(held_obj).tobytes() == held_cp.tobytes(), 'state.held-result-unchanged',
                          lambda: _wit('state.object-cache-after-overwriting-a-function-result', first=held_cp, now=np.asarray(held_obj)),
                          'overwriting the array returned by the custom-matrix form changed the smoothed spectrum the object holds')
        r = first
    if ok and v_ref is not None:
        r = np.asarray(r)
        rr = max(rt, 1e-5) if form == 'f32' else rt
        ctx.check(tol.close(r, v_ref, scale=scale, rtol=rr), 'relation.custom-matrix(konno)==object-form',
                  lambda: _wit('relation.custom-matrix', got=r, object_form=v_ref),
                  'custom-matrix form with the Konno matrix differs from Signal.smooth_fa_spectrum: %s'
                  % tol.describe(r, v_ref, scale=scale, rtol=rr))


def _bandwidth_calls(eqsig, ctx, s, ratio, sig_ratio, style, fns=('freqs', 'f_min', 'f_max', 'sigrange'), forms=('py', 'py')):
    table = {'freqs': ('calc_bandwidth_freqs', eqsig.im.calc_bandwidth_freqs), 'f_min': ('calc_bandwidth_f_min', eqsig.im.calc_bandwidth_f_min),
             'f_max': ('calc_bandwidth_f_max', eqsig.im.calc_bandwidth_f_max), 'sigrange': ('get_sig_freq_range', eqsig.get_sig_freq_range)}
    for key in fns:
        name, fn = table[key]
        # a fresh scalar object per call (Python float / int, numpy scalar of either width, 0-d array)
        r = ratio_obj(sig_ratio, forms[1], sig=True) if key == 'sigrange' else ratio_obj(ratio, forms[0])
        if r is not None and type(r) is not float:
            ctx.observe('ratio-form:%s' % (type(r).__name__ + ('(0-d %s)' % r.dtype if isinstance(r, np.ndarray) else '')))
        clause = 'sigrange==first/last above max/ratio' if key == 'sigrange' else 'bandwidth==first/last above ratio*max'
        if r is None:
            a, k = ((s,), {}) if style != 'allkw' else ((), {'asig': s})
        elif style == 'pos':
            a, k = (s, r), {}
        elif style == 'allkw':
            a, k = (), {'asig': s, 'ratio': r}
        else:
            a, k = (s,), {'ratio': r}
        ok, res = _call(ctx, clause, name, fn, *a, **k)
        if ok and key == 'sigrange' and isinstance(res, np.ndarray):
            first = np.array(res, copy=True)
            if _scribble(res):
                ok, res2 = _call(ctx, clause, name, fn, *a, **k)
                if ok:
                    _same_again(ctx, 'get_sig_freq_range', first, res2)


def _smooth_ok_for_bandwidth(ctx, s):
    """Premise of the bandwidth functions (a smoothed spectrum that is finite and not identically zero), decided from a
    snapshot of the object without reading - and thereby generating - anything on it."""
    st = _sig_state(s)
    if st['cached_s']:
        v = np.asarray(st['sm'], dtype=float)
        ok = bool(v.size and np.all(np.isfinite(v)) and np.max(v) > 0)
    else:
        ent = _entry_fa(st)
        ok = ent is not None and len(ent[1]) > 1 and bool(np.all(np.isfinite(ent[1]))) and float(np.max(np.abs(ent[1][1:]))) > 0 \
            and len(st['tg']) > 0
    if not ok:
        ctx.observe('bandwidth-skipped(all-zero or non-finite smoothed spectrum)')
    return ok


def _rt_of(s):
    ent = _entry_fa(_sig_state(s))
    sp = np.zeros(1) if ent is None else np.asarray(ent[1])
    rt = 1e-6 if sp.dtype == np.complex64 else RTOL
    scale = float(np.max(np.abs(sp[1:]))) if len(sp) > 1 else 0.0
    return rt, scale


def _stored_targets(ctx, s, given, how):
    """The target set of the statement is the one the caller gave (ctor keyword / setter, any container, 1-3 entries too):
    the object holds exactly these frequencies, as float64, in the given order."""
    try:
        want = np.asarray(given, dtype=float)
        now = np.asarray(s.smooth_fa_freqs)
        ok = now.dtype == np.float64 and now.shape == want.shape and now.tobytes() == want.tobytes()
    except Exception:       # noqa
        ok, now, want = False, None, None
    ctx.check(ok, 'targets.stored==given', lambda: _wit('smoothing frequencies via %s' % how, given=want, stored=now),
              'smoothing frequencies given through %s (%s of %s entries) are stored as %r'
              % (how, type(given).__name__, 'n/a' if want is None else want.size, None if now is None else now[:6]))
    if want is not None and want.size <= 3:
        ctx.observe('targets-of-%d-entries-as-%s' % (want.size, type(given).__name__))


def run_signal_case(eqsig, ctx, c):
    cls = eqsig.AccSignal if c.get('cls') == 'AccSignal' else eqsig.Signal
    how, band = c.get('how', 'setter'), band_obj(c.get('band'), c.get('band_form', 'py'))
    lng = c.get('long')
    if lng:
        values = np.random.default_rng(lng['seed']).normal(size=lng['n']) * np.exp(-np.arange(lng['n']) / (lng['n'] / 3.0))
    else:
        values = values_in_form(c['values'], c.get('values_form'))
    v_master = _snap(values)
    targets = targets_in_form(c.get('targets'), c.get('targets_form'))
    t_master = _snap(targets)
    b_eff = 40 if band is None else band
    b_master = _snap(band)
    style = c.get('style', 'kw')
    dt = band_obj(c['dt'], c.get('dt_form', 'py'))          # Python float, numpy scalar or (mutable) 0-d array
    dt_master = _snap(dt)
    if type(dt) is not float:
        ctx.observe('dt-form:%s' % (type(dt).__name__ + ('(0-d %s)' % dt.dtype if isinstance(dt, np.ndarray) else '')))
    if len(v_master) < 3:
        # records of 1 or 2 samples have no non-zero-frequency bin: the premise of the statement is empty
        _probe_rejected(ctx, 'record-of-%d-sample(s)' % len(v_master), lambda: cls(values, c['dt']).smooth_fa_spectrum)
        return
    try:
        if how == 'ctor':
            s = cls(values, dt, smooth_fa_freqs=targets)
        elif how == 'range':
            s = cls(values, dt, smooth_freq_range=_limits(c['range'], c.get('range_form', 'tuple')))
        else:
            s = cls(values, dt)
            if how == 'setter' and targets is not None:
                s.smooth_fa_freqs = targets
            elif how == 'setter_frequencies' and targets is not None:
                s.smooth_fa_frequencies = targets
            elif how == 'by_range':
                s.set_smooth_fa_frequecies_by_range(_limits(c['range'], c.get('range_form', 'tuple')),
                                                    band_obj(c.get('n_points', 30), c.get('n_points_form', 'py')))
    except Exception as e:      # noqa
        ctx.exception('signal.smooth_fa_spectrum==weighted-mean', _wit('constructor'), e)
        return
    if targets is not None and how in ('ctor', 'setter', 'setter_frequencies'):
        _stored_targets(ctx, s, targets, how)
    if c.get('reject_probes'):
        _probe_rejected(ctx, 'gen_smooth_fa_spectrum(smooth_fa_freqs=list)',
                        lambda: cls(values, c['dt']).gen_smooth_fa_spectrum(smooth_fa_freqs=[1.0, 2.0, 3.0]))
    if how != 'gen_arg':
        ok, v = _call(ctx, 'signal.smooth_fa_spectrum==weighted-mean', 'Signal.smooth_fa_spectrum', lambda: s.smooth_fa_spectrum)
        if not ok:
            return
    if how == 'gen_arg':
        if band is None:
            ok, _ = _call(ctx, 'signal.gen_smooth==weighted-mean', 'Signal.gen_smooth_fa_spectrum', s.gen_smooth_fa_spectrum, smooth_fa_freqs=targets)
        elif style == 'pos':
            ok, _ = _call(ctx, 'signal.gen_smooth==weighted-mean', 'Signal.gen_smooth_fa_spectrum', s.gen_smooth_fa_spectrum, targets, band)
        else:
            ok, _ = _call(ctx, 'signal.gen_smooth==weighted-mean', 'Signal.gen_smooth_fa_spectrum', s.gen_smooth_fa_spectrum,
                          band=band, smooth_fa_freqs=targets)
    elif band is not None:
        if style == 'pos':
            ok, _ = _call(ctx, 'signal.gen_smooth==weighted-mean', 'Signal.gen_smooth_fa_spectrum', s.gen_smooth_fa_spectrum, None, band)
        else:
            ok, _ = _call(ctx, 'signal.gen_smooth==weighted-mean', 'Signal.gen_smooth_fa_spectrum', s.gen_smooth_fa_spectrum, band=band)
    else:
        ok = True
    if not ok:
        return
    ok, held = _call(ctx, 'signal.smooth_fa_spectrum==weighted-mean', 'Signal.smooth_fa_spectrum', lambda: s.smooth_fa_spectrum)
    if not ok:
        return
    v = np.array(held, copy=True)
    rt, scale = _rt_of(s)
    tg_set = np.array(s._smooth_fa_freqs, copy=True)       # the smoothing frequencies in force from here on (the user's setting)
    # a second object of the same shape is processed while the first result is held
    try:
        other = np.asarray(v_master, dtype=float)[::-1] * 0.75 + np.random.default_rng(c.get('second_seed', 1)).normal(size=len(v_master)) * (scale or 1.0)
        s2 = cls(other, c['dt'], smooth_fa_freqs=np.array(s.smooth_fa_freqs, copy=True))
        if not lng:
            s2.gen_smooth_fa_spectrum(band=b_eff)
            ctx.check(np.asarray(held).tobytes() == v.tobytes(), 'state.held-result-unchanged',
                      lambda: _wit('state.held-object-result', first=v, now=np.asarray(held)),
                      'the smoothed spectrum held from the first object changed while a second object was processed')
            # f(A) again on a fresh object after B: same values, time step, targets and band -> the same spectrum, bit for bit
            s3 = cls(values_in_form(c['values'], c.get('values_form')), band_obj(c['dt'], c.get('dt_form', 'py')),
                     smooth_fa_freqs=np.array(s.smooth_fa_freqs, copy=True))
            s3.gen_smooth_fa_spectrum(band=b_eff)
            third = np.asarray(s3.smooth_fa_spectrum)
            ctx.check(third.shape == v.shape and third.tobytes() == v.tobytes(), 'relation.repeat(A,B,A)==first',
                      lambda: _wit('relation.repeat(objects)', first=v, third=third),
                      'a fresh object with the same record, targets and band gave a different smoothed spectrum after another record had been processed')
    except Exception as e:      # noqa
        ctx.exception('state.held-result-unchanged', _wit('second object'), e)
    # the function form on the object's own cached arrays (zero bin included); its result belongs to the caller: overwriting it
    # must not reach the spectrum the object holds (judged by the held-result check at the end of the case)
    ok, fr = _call(ctx, 'smooth==weighted-mean', 'calc_smooth_fa_spectrum', eqsig.calc_smooth_fa_spectrum, s.fa_freqs, s.fa_spectrum,
                   s.smooth_fa_freqs, band=b_eff)
    if ok:
        _scribble(fr)
    # custom-matrix form
    if c.get('matrix') is not None:
        _call(ctx, 'custom-matrix==sum|A_i|M_ij(i>=1)', 'calc_smooth_fa_spectrum_w_custom_matrix',
              eqsig.calc_smooth_fa_spectrum_w_custom_matrix, s, c['matrix'])
    _konno_custom(eqsig, ctx, s, b_eff, c.get('matrix_form'), style, v, scale, rt)
    if c.get('random_matrix_seed') is not None:
        rm = np.random.default_rng(c['random_matrix_seed']).normal(size=(len(s.fa_freqs) - 1, 1 + c['random_matrix_seed'] % 3))
        if c.get('matrix_form') == 'bool':
            rm = rm > 0.3                       # an on/off (boxcar-like) custom filter in numpy's bool dtype
        _call(ctx, 'custom-matrix==sum|A_i|M_ij(i>=1)', 'calc_smooth_fa_spectrum_w_custom_matrix',
              eqsig.calc_smooth_fa_spectrum_w_custom_matrix, s, view_of(rm, c.get('matrix_form') if c.get('matrix_form') != 'f32' else None))
    # bandwidth limits
    if _smooth_ok_for_bandwidth(ctx, s):
        fns = ('freqs', 'f_min', 'f_max', 'sigrange')
        if c.get('band_fn'):
            fns = {'calc_bandwidth_freqs': ('freqs',), 'calc_bandwidth_f_min': ('f_min',), 'calc_bandwidth_f_max': ('f_max',),
                   'get_sig_freq_range': ('sigrange',)}.get(c['band_fn'], fns)
        _bandwidth_calls(eqsig, ctx, s, c.get('ratio'), c.get('sig_ratio'), style, fns,
                         forms=(c.get('ratio_form', 'py'), c.get('sig_ratio_form', 'py')))
        if c.get('reject_probes'):
            _probe_rejected(ctx, 'calc_bandwidth_freqs(ratio=1)', eqsig.im.calc_bandwidth_freqs, s, 1)
            _probe_rejected(ctx, 'get_sig_freq_range(ratio=1)', eqsig.get_sig_freq_range, s, 1)
    # the held result and the caller's arrays are what they were
    ctx.check(np.asarray(held).tobytes() == v.tobytes(), 'state.held-result-unchanged',
              lambda: _wit('state.held-object-result(end of case)', first=v, now=np.asarray(held)),
              'the smoothed spectrum held by the caller changed during later calls on the same object')
    # reads, analysis calls and other objects do not change the user's settings
    now_tg = np.asarray(s._smooth_fa_freqs)
    ctx.check(now_tg.dtype == tg_set.dtype and now_tg.shape == tg_set.shape and now_tg.tobytes() == tg_set.tobytes(), KEPT,
              lambda: _wit('signal case: smoothing frequencies at the end', before=tg_set, now=now_tg),
              'the smoothing frequencies of the object changed during reads / bandwidth / custom-matrix calls (nothing set them)')
    bad = [n for n, a, m in (('values', values, v_master), ('targets', targets, t_master), ('band', band, b_master), ('dt', dt, dt_master))
           if not _same(a, m)]
    ctx.check(not bad, 'purity.arguments-unchanged', lambda: _wit('case-level purity', changed=bad),
              'caller arrays %s differ from their values before the first call of the case' % bad)


# Python object protocols (name -> chain of steps applied to the live object)
PROTOCOLS = {'copy': ('copy',), 'deepcopy': ('deepcopy',), 'pickle': ('p%d' % pickle.HIGHEST_PROTOCOL,), 'pickle-p2': ('p2',), 'pickle-p0': ('p0',),
             'deepcopy-of-copy': ('copy', 'deepcopy'), 'pickle-of-deepcopy': ('deepcopy', 'p%d' % pickle.HIGHEST_PROTOCOL),
             'deepcopy-of-deepcopy': ('deepcopy', 'deepcopy')}


def _cache_state(s):
    rec = _GEN.get(s)
    if s._cached_smooth_fa:
        if rec is not None and (rec.get('stale') or s._fa_spectrum is not rec['fa_obj'] or s._smooth_fa_freqs is not rec['tg_obj']):
            return 'smoothed, then Fourier regenerated'
        return 'warm: smoothed'
    return 'Fourier only' if s._cached_fa else 'cold'


def run_history_case(eqsig, ctx, c):
    cls = eqsig.AccSignal if c.get('cls') == 'AccSignal' else eqsig.Signal
    values = values_in_form(c['values'], c.get('values_form'))
    caller = [(values, _snap(values))]
    try:
        s = cls(values, c['dt'])
    except Exception as e:      # noqa
        ctx.exception('signal.smooth_fa_spectrum==weighted-mean', _wit('constructor'), e)
        return
    held = []          # (result object, copy) pairs of earlier reads
    alt = None         # the other member of a (copy, original) pair: operations go to `s`, 'swap' exchanges the two

    def mutate(name, fn, *a, **k):
        try:
            fn(*a, **k)
            ctx.observe('history-op:%s' % name)
        except Exception as e:      # noqa  (mutators belong to other properties)
            ctx.observe('history-mutator-raised:%s(%s)' % (name, type(e).__name__))

    def settings_kept(before, name, exempt):
        """Reads, analysis calls, value mutators, cache operations and copies leave the smoothing frequencies of every live object
        as they were; only the operations that SET them (on the object they were applied to) are exempt."""
        for o, snap in before:
            if o is exempt:
                continue
            now = np.asarray(o._smooth_fa_freqs)
            ctx.check(now.shape == snap.shape and now.dtype == snap.dtype and now.tobytes() == snap.tobytes(), KEPT,
                      lambda: _wit('history: after %s' % name, before=snap, now=now, on='the object operated on' if o is before[0][0] else 'the other object'),
                      'operation %r changed the smoothing frequencies of %s (%d -> %d entries)'
                      % (name, 'the object' if o is before[0][0] else 'the OTHER live object', snap.size, now.size))

    pending = None
    for op in c['ops']:
        if pending is not None:
            settings_kept(*pending)            # judged once the previous operation has returned
            pending = None
        name = op['op']
        if len(np.asarray(s.values)) < 3:
            break
        before = [(o, np.array(o._smooth_fa_freqs, copy=True)) for o in (s, alt) if o is not None]
        sets = name in ('set', 'by_range', 'dep_range', 'dep_points') or (name == 'gen' and op.get('targets') is not None) \
            or (name == 'refused' and op.get('kind') == 'gen-list')
        pending = (before, name if name != 'twin' else 'twin:' + op.get('how', ''), before[0][0] if sets else None)
        if name == 'read':
            ok, r = _call(ctx, 'signal.smooth_fa_spectrum==weighted-mean', 'Signal.smooth_fa_spectrum', lambda: s.smooth_fa_spectrum)
            if ok:
                held.append((r, np.array(r, copy=True)))
            ctx.observe('history-op:read')
        elif name == 'swap':
            if alt is not None:
                s, alt = alt, s
                ctx.observe('history-op:swap(copy <-> original)')
        elif name == 'read_fa':
            mutate('read fa_spectrum', lambda: s.fa_spectrum)
        elif name == 'assign':
            # assignment through a public attribute name after construction: honoured completely, ignored or refused - the
            # reads that follow are judged against what the object then holds
            attr = op['attr']
            if attr == 'values':
                val = values_in_form(op['values'], op.get('form'))
                caller.append((val, _snap(val)))
            else:
                val = op['value']
            try:
                setattr(s, attr, val)
                ctx.observe('assignment-accepted-or-ignored:%s' % attr)
            except Exception as e:      # noqa
                ctx.observe('assignment-refused:%s(%s)' % (attr, type(e).__name__))
            ok, r = _call(ctx, 'signal.smooth_fa_spectrum==weighted-mean', 'Signal.smooth_fa_spectrum', lambda: s.smooth_fa_spectrum)
            if ok:
                held.append((r, np.array(r, copy=True)))
        elif name == 'refused':
            # an operation that raises must leave the object as it was (judged by the exception hooks of the monitors and here)
            st0 = _sig_state(s)
            kind = op['kind']
            try:
                if kind == 'gen-list':
                    s.gen_smooth_fa_spectrum(smooth_fa_freqs=[float(v) for v in op['targets']])
                elif kind == 'gen-band-str':
                    s.gen_smooth_fa_spectrum(band='wide')
                elif kind == 'custom-wrong-shape':
                    eqsig.calc_smooth_fa_spectrum_w_custom_matrix(s, np.ones((len(s.fa_freqs) + 3, 2)))
                elif kind == 'bw-ratio-1':
                    if _smooth_ok_for_bandwidth(ctx, s):
                        [eqsig.im.calc_bandwidth_freqs, eqsig.im.calc_bandwidth_f_min, eqsig.get_sig_freq_range][op.get('which', 0)](s, 1)
                    else:
                        raise IndexError('skipped')
                else:
                    s.add_series(np.ones(max(1, len(np.asarray(s.values)) + [-1, 1, 2][op.get('which', 0) % 3])))
                ctx.observe('refused-op-accepted:%s' % kind)
            except Exception as e:      # noqa
                ctx.observe('history-op:refused:%s(%s)' % (kind, type(e).__name__))
                if kind == 'add_series-wrong-length':
                    bad = _sig_changed(s, st0, False, False)
                    ctx.check(not bad, 'refused-call.object-as-it-was', lambda: _wit('Signal.add_series(raised)', _raw_sig(st0), changed=bad),
                              'add_series with a wrong length raised and left %s of the object changed' % bad)
            if _TAINT.get(s) is not None:
                s.smooth_fa_freqs = _TAINT.pop(s)          # pending finding: put the object back into a usable state
        elif name == 'reset_nonfinite':
            # a non-finite record is accepted silently (outside the quantifier: counted by the monitors); the finite record
            # that follows is judged as usual
            nv = np.array(np.asarray(s.values, dtype=float), copy=True)
            nv[int(op['at'] * (len(nv) - 1))] = op['value']
            mutate('reset_values(non-finite)', s.reset_values, nv)
            try:
                s.smooth_fa_spectrum
            except Exception as e:      # noqa
                ctx.observe('non-finite-record-read-raised(%s)' % type(e).__name__)
            back = np.where(np.isfinite(nv), nv, 0.0) + op.get('shift', 0.0)
            mutate('reset_values', s.reset_values, back)
        elif name in ('gen', 'generate'):
            band = band_obj(op.get('band'), op.get('band_form', 'py'))
            if isinstance(band, np.ndarray):
                caller.append((band, _snap(band)))           # a 0-d array is the caller's too
            if name == 'generate':
                if band is None:
                    _call(ctx, 'signal.gen_smooth==weighted-mean', 'Signal.generate_smooth_fa_spectrum', s.generate_smooth_fa_spectrum)
                elif op.get('style') == 'pos':
                    _call(ctx, 'signal.gen_smooth==weighted-mean', 'Signal.generate_smooth_fa_spectrum', s.generate_smooth_fa_spectrum, band)
                else:
                    _call(ctx, 'signal.gen_smooth==weighted-mean', 'Signal.generate_smooth_fa_spectrum', s.generate_smooth_fa_spectrum, band=band)
            else:
                t = view_of(op.get('targets'), op.get('form'))
                if t is not None:
                    caller.append((t, _snap(t)))
                if op.get('style') == 'pos' and band is not None:
                    _call(ctx, 'signal.gen_smooth==weighted-mean', 'Signal.gen_smooth_fa_spectrum', s.gen_smooth_fa_spectrum, t, band)
                else:
                    k = {} if band is None else {'band': band}
                    if t is not None:
                        k['smooth_fa_freqs'] = t
                    _call(ctx, 'signal.gen_smooth==weighted-mean', 'Signal.gen_smooth_fa_spectrum', s.gen_smooth_fa_spectrum, **k)
            ctx.observe('history-op:%s' % name)
        elif name == 'set':
            if op.get('form') == 'fa_view':
                t = s.fa_freqs[1::op.get('step', 1)]
            else:
                t = targets_in_form(op['targets'], op.get('form'))
                caller.append((t, _snap(t)))
            mutate('set:' + op['via'], setattr, s, op['via'], t)
            _stored_targets(ctx, s, t, op['via'])
        elif name == 'by_range':
            mutate('by_range', s.set_smooth_fa_frequecies_by_range, _limits(op['limits'], op.get('form')), op['n_points'])
        elif name == 'dep_range':
            mutate('deprecated smooth_freq_range=', setattr, s, 'smooth_freq_range', _limits(op['limits'], op.get('form')))
        elif name == 'dep_points':
            mutate('deprecated smooth_freq_points=', setattr, s, 'smooth_freq_points', op['value'])
        elif name == 'reset':
            nv = values_in_form(op['values'], op.get('form'))
            caller.append((nv, _snap(nv)))
            mutate('reset_values', s.reset_values, nv)
        elif name == 'add_constant':
            mutate('add_constant', s.add_constant, op['c'])
        elif name == 'add_series':
            ser = np.random.default_rng(op['seed']).normal(size=len(np.asarray(s.values)))
            caller.append((ser, _snap(ser)))
            mutate('add_series', s.add_series, ser)
        elif name == 'remove_average':
            mutate('remove_average', s.remove_average)
        elif name == 'remove_poly':
            mutate('remove_poly', s.remove_poly, op['deg'])
        elif name == 'butter':
            nyq = 0.5 / s.dt
            mutate('butter_pass', s.butter_pass, (op['cut'][0] * nyq, op['cut'][1] * nyq))
        elif name == 'gen_fa':
            if op.get('n') is not None:
                mutate('gen_fa_spectrum(n)', s.gen_fa_spectrum, n=max(op['n'], 2 * ((len(np.asarray(s.values)) + 1) // 2) + op['n'] % 2))
            else:
                mutate('gen_fa_spectrum(p2_plus)', s.gen_fa_spectrum, p2_plus=op.get('p2_plus', 0))
        elif name == 'clear_cache':
            mutate('clear_cache', s.clear_cache)
        elif name == 'bw':
            if _smooth_ok_for_bandwidth(ctx, s):
                r = op.get('ratio')
                _bandwidth_calls(eqsig, ctx, s, r, r, op.get('style', 'kw'), (op['fn'],), forms=(op.get('ratio_form', 'py'),) * 2)
                ctx.observe('history-op:bw')
        elif name == 'custom':
            rt, scale = _rt_of(s)
            if op.get('seed') is None:
                rec = _GEN.get(s)
                coherent = rec is not None and not rec.get('stale') and bool(s._cached_smooth_fa) and bool(s._cached_fa) \
                    and s._fa_spectrum is rec['fa_obj'] and s._smooth_fa_freqs is rec['tg_obj']
                if coherent and 5 <= float(rec['band']) <= 100:
                    _konno_custom(eqsig, ctx, s, rec['band'], op.get('form'), op.get('style'), np.array(rec['result'], copy=True), scale, rt)
                else:
                    _konno_custom(eqsig, ctx, s, 40, op.get('form'), op.get('style'), None, scale, rt)
            else:
                rm = np.random.default_rng(op['seed']).normal(size=(len(s.fa_freqs) - 1, 1 + op['seed'] % 2))
                rm = rm.astype(np.float32) if op.get('form') == 'f32' else ((rm > 0.3) if op.get('form') == 'bool' else view_of(rm, op.get('form')))
                _call(ctx, 'custom-matrix==sum|A_i|M_ij(i>=1)', 'calc_smooth_fa_spectrum_w_custom_matrix',
                      eqsig.calc_smooth_fa_spectrum_w_custom_matrix, s, rm)
            ctx.observe('history-op:custom')
        elif name == 'calc_on_own':
            _call(ctx, 'smooth==weighted-mean', 'calc_smooth_fa_spectrum', eqsig.calc_smooth_fa_spectrum, s.fa_freqs, s.fa_spectrum,
                  s.smooth_fa_freqs)
            ctx.observe('history-op:calc_on_own')
        elif name == 'twin':
            try:
                if op['how'] == 'ctor-from-values':
                    tw = cls(s.values, s.dt, smooth_fa_freqs=s.smooth_fa_freqs)
                elif op['how'] == 'reset-from-values':
                    tw = cls(np.zeros(len(np.asarray(s.values))), s.dt, smooth_fa_freqs=s.smooth_fa_freqs)
                    tw.reset_values(s.values)
                elif op['how'] in PROTOCOLS or op['how'] == 'deepcopy+mutate':
                    # a Python object protocol applied to the object in whatever cache state it is in
                    tw = s
                    for step in PROTOCOLS.get(op['how'], ('deepcopy',)):
                        src = tw
                        if step == 'copy':
                            tw = copy.copy(src)
                        elif step == 'deepcopy':
                            tw = copy.deepcopy(src)
                        else:
                            tw = pickle.loads(pickle.dumps(src, protocol=int(step[1:])))
                        adopt(tw, src)                  # harness book-keeping only
                    ctx.observe('protocol:%s(source %s)' % (op['how'], _cache_state(s)))
                    tg_src, tg_new = np.asarray(s._smooth_fa_freqs), np.asarray(getattr(tw, '_smooth_fa_freqs', None))
                    ctx.check(tg_new.dtype == tg_src.dtype and tg_new.shape == tg_src.shape and tg_new.tobytes() == tg_src.tobytes(), KEPT,
                              lambda: _wit('history: %s' % op['how'], before=tg_src, now=tg_new, on='the copy'),
                              'the %s of an object does not hold the smoothing frequencies of its source' % op['how'])
                    if np.shares_memory(np.asarray(tw.values), np.asarray(s.values)):
                        ctx.observe('protocol-copy-shares-the-value-buffer(%s)' % op['how'])
                    if op['how'] == 'deepcopy+mutate':
                        tw.reset_values(np.asarray(tw.values)[::-1] * 0.5)
                elif op['how'] == 'interp':
                    tw = eqsig.interp_to_approx_dt(s, s.dt * 0.5) if c.get('cls') == 'AccSignal' else cls(np.asarray(s.values) * 1.0, s.dt * 2)
                    tw.smooth_fa_freqs = np.array(s.smooth_fa_freqs, copy=True)
                elif op['how'] == 'fas2signal':
                    back = eqsig.fas2signal(s.fa_spectrum, s.dt, stype='signal' if c.get('cls') != 'AccSignal' else 'acc')
                    ctx.observe('complex-typed record from fas2signal (its real part is analysed)')
                    tw = cls(np.real(back.values), back.dt, smooth_fa_freqs=np.array(s.smooth_fa_freqs, copy=True))
                else:
                    tw = cls(values, c['dt'], smooth_fa_freqs=s.smooth_fa_freqs)
                then = op.get('then', 'read-copy')
                for who in {'read-copy': (tw,), 'read-orig-then-copy': (s, tw), 'read-copy-then-orig': (tw, s), 'none': ()}[then]:
                    ok, r = _call(ctx, 'signal.smooth_fa_spectrum==weighted-mean', 'Signal.smooth_fa_spectrum', lambda: who.smooth_fa_spectrum)
                    if ok:
                        held.append((r, np.array(r, copy=True)))
                ctx.observe('history-op:twin')
                if op.get('switch'):
                    s, alt = tw, s
                else:
                    alt = tw
            except Exception as e:      # noqa
                ctx.exception('signal.smooth_fa_spectrum==weighted-mean', _wit('twin construction'), e)
    if pending is not None:
        settings_kept(*pending)
    if held:
        bad = [i for i, (r, cp) in enumerate(held) if np.asarray(r).tobytes() != cp.tobytes()]
        ctx.check(not bad, 'state.held-result-unchanged', lambda: _wit('history: held reads', changed_reads=bad),
                  'smoothed spectra handed out by earlier reads (%s) changed during later operations' % bad)
    bad = [i for i, (a, m) in enumerate(caller) if not _same(a, m)]
    ctx.check(not bad, 'purity.arguments-unchanged', lambda: _wit('history: caller arrays', changed=bad),
              'caller arrays number %s handed to the object changed during the history' % bad)


# ------------------------------------------------------------------------------------------------ workload: large sizes
# (e, side, mode): product n_fa * n_targets next to 2**e; side -1 / +1 = just below / above the power of two, 0 = 1.4 x
LARGE_QUICK = [(22, +1, 'none'), (19, -1, 'many-targets'), (23, -1, 'many-targets'), (20, +1, 'none'),
               (22, -1, 'many-targets'), (21, +1, 'long-record'), (22, 0, 'long-record'), (18, +1, 'none'),
               (22, +1, 'many-targets'), (23, -1, 'none'), (21, -1, 'none'), (22, 0, 'many-targets')]


def gen_large_case(rng, e, side, mode):
    """Recipe (materialised deterministically by run_large_case) of a problem with n_fa * n_targets next to 2**e."""
    prod = 2 ** e if side else int(2 ** e * 1.4)
    if mode == 'none':
        n_nz = int(np.sqrt(prod))
        while side > 0 and n_nz * n_nz <= prod:
            n_nz += 1
        while side < 0 and n_nz * n_nz >= prod:
            n_nz -= 1
        n_t = None
        actual = n_nz * n_nz
    else:
        if mode == 'many-targets':
            n_nz = int(rng.choice([1023, 2047, 4095, 4096, 8191]))
        else:
            n_t0 = int(rng.choice([50, 64, 33]))
            n_nz = max(2, prod // n_t0)
        n_t = prod // n_nz
        if side > 0:
            n_t += 1
        elif side < 0 and n_nz * n_t >= prod:
            n_t -= 1
        n_t = max(n_t, 2)
        actual = n_nz * n_t
    case = {'kind': 'large', 'seed': int(rng.integers(1 << 30)), 'n_nz': int(n_nz), 'n_targets': n_t, 'with_zero': bool(rng.random() < 0.6),
            'df': float(10 ** rng.uniform(-3, 0)), 'spec_kind': ['abs-noise', 'complex', 'decay'][int(rng.integers(3))],
            'band': draw_band(rng)[0], 'const': float(rng.choice([3.0, 0.3, 123456.789])), 'product': int(actual), 'e': e, 'side': side}
    return case, 'large:%s:2**%d%s' % (mode, e, {-1: '-', 0: 'x1.4', 1: '+'}[side])


def run_large_case(eqsig, ctx, c):
    r = np.random.default_rng(c['seed'])
    n_nz = c['n_nz']
    fnz = np.arange(1, n_nz + 1) * c['df']
    if c['spec_kind'] == 'complex':
        a = r.normal(size=n_nz) + 1j * r.normal(size=n_nz)
    elif c['spec_kind'] == 'decay':
        a = (0.2 + np.abs(r.normal(size=n_nz))) / (1.0 + fnz / fnz[min(20, n_nz - 1)]) ** 1.5
    else:
        a = np.abs(r.normal(size=n_nz)) + 0.01
    if c['n_targets'] is None:
        targets = None
        n_t = n_nz
    else:
        n_t = c['n_targets']
        k_on = min(16, n_t // 4)
        k_out = min(8, n_t // 8)
        inside = 10 ** r.uniform(np.log10(fnz[0]), np.log10(fnz[-1]), size=n_t - k_on - 2 * k_out)
        targets = np.sort(np.concatenate([inside, fnz[r.integers(0, n_nz, size=k_on)], fnz[0] / 3 * 10 ** r.uniform(-1, 0, size=k_out),
                                          3 * fnz[-1] * 10 ** r.uniform(0, 1, size=k_out)]))
    if c.get('with_zero'):
        freqs = np.concatenate([[0.0], fnz])
        spec = np.concatenate([[a[0] * 7], a])
    else:
        freqs, spec = fnz, a
    band = c['band']
    bkw = {} if band is None else {'band': band}
    mags = np.abs(a)
    scale = float(mags.max())
    ctx.observe('large-cases:product-%s-2**22' % ('above' if n_nz * n_t > 2 ** 22 else 'at-or-below'))

    def direct(sp):
        if targets is None:
            return _call(ctx, 'smooth==weighted-mean' + LARGE_SFX, 'calc_smooth_fa_spectrum', eqsig.calc_smooth_fa_spectrum, freqs, sp, **bkw)
        return _call(ctx, 'smooth==weighted-mean' + LARGE_SFX, 'calc_smooth_fa_spectrum', eqsig.calc_smooth_fa_spectrum, freqs, sp, targets, **bkw)

    ok, base = direct(spec)                   # monitored: oracle on the target subset, finite, bounds on every target
    if not ok:
        return
    base = np.array(base, copy=True)
    cv = c.get('const', 3.0)
    ok, rc = direct(np.full(len(freqs), cv))
    if ok:
        rc = np.asarray(rc)
        exp = np.full(rc.shape, abs(cv))
        ctx.check(tol.close(rc, exp, scale=abs(cv), rtol=1e-12), 'relation.constant-reproduced(large)',
                  lambda: _wit('relation.constant', got=rc[:4096], const=cv),
                  'constant spectrum %r not reproduced (n_fa=%d, n_targets=%d): %s'
                  % (cv, n_nz, n_t, tol.describe(rc, exp, scale=abs(cv), rtol=1e-12)))
    ok, rs = direct(spec * 2.0)
    if ok:
        rs = np.asarray(rs)
        ctx.check(rs.shape == base.shape and np.array_equal(rs, 2.0 * base), 'relation.scaling-pow2-exact(large)',
                  lambda: _wit('relation.scaling', got=rs[:4096], expected=(2.0 * base)[:4096]),
                  'smoothing of 2*A is not exactly 2 * smoothing of A (n_fa=%d, n_targets=%d)' % (n_nz, n_t))
    del rc, rs
    if targets is None:
        ok, m = _call(ctx, 'matrix==window/sum' + LARGE_SFX, 'calc_smoothing_matrix_konno_1998', eqsig.calc_smoothing_matrix_konno_1998, freqs, **bkw)
    else:
        ok, m = _call(ctx, 'matrix==window/sum' + LARGE_SFX, 'calc_smoothing_matrix_konno_1998', eqsig.calc_smoothing_matrix_konno_1998, freqs, targets, **bkw)
    if ok:
        m = np.asarray(m)
        if m.ndim == 2 and m.shape[0] == n_nz:
            via = np.dot(mags, m)
            ctx.check(tol.close(via, base, scale=scale, rtol=RTOL), 'relation.matrix-form==direct-form(large)',
                      lambda: _wit('relation.matrix-form', via_matrix=via[:4096], direct=base[:4096]),
                      '|A|.M differs from the direct form (n_fa=%d, n_targets=%d): %s' % (n_nz, n_t, tol.describe(via, base, scale=scale, rtol=RTOL)))
        else:
            ctx.violation('relation.matrix-form==direct-form(large)', _wit('relation.matrix-form', shape=list(m.shape)),
                          'matrix shape %s does not fit %d amplitudes' % (m.shape, n_nz))
    del m
    _MEMO.clear()


def run_case(eqsig, ctx, case):
    global CASE
    CASE = case
    try:
        with np.errstate(all='ignore'):
            kind = case.get('kind')
            if kind == 'signal':
                run_signal_case(eqsig, ctx, case)
            elif kind == 'history':
                run_history_case(eqsig, ctx, case)
            elif kind == 'large':
                run_large_case(eqsig, ctx, case)
            else:
                run_func_case(eqsig, ctx, case)
    finally:
        CASE = None


N_CASES = {'quick': (1440, 480, 320), 'thorough': (28800, 9600, 6400)}    # (func, signal, history) cases over all shards
N_PROTOCOL = {'quick': 256, 'thorough': 5120}                             # object-protocol histories over all shards
LONG_N = 70000                                                            # > 2**16 samples -> 65536 Fourier bins
LARGE_SIGNAL_N = 170000                                                   # 131072 bins x the default 50 smoothing frequencies > 2**22
LONG_N_FUNC = 140000                                                      # -> 131072 Fourier bins (> 2**16 bins)


def _sample_of(case, cls):
    if case['kind'] == 'large':
        return dict(case, **{'class': cls})
    if case['kind'] == 'func':
        return {'kind': 'func', 'n_freqs': None if case['freqs'] is None else len(case['freqs']),
                'freq_dtype': None if case['freqs'] is None else str(np.asarray(case['freqs']).dtype),
                'spec_dtype': None if case['spec'] is None else str(np.asarray(case['spec']).dtype), 'views': case.get('views'),
                'targets': case['targets'] if case['targets'] is None else np.asarray(case['targets'])[:6], 'band': case['band'],
                'alpha': case.get('alpha'), 'style': case.get('style'), 'class': cls}
    if case['kind'] == 'signal':
        return {'kind': 'signal', 'n': None if case['values'] is None else len(case['values']), 'dt': case['dt'], 'how': case['how'],
                'values_form': case.get('values_form'), 'band': case['band'], 'ratio': case['ratio'], 'sig_ratio': case['sig_ratio'],
                'class': cls}
    return {'kind': 'history', 'n': len(case['values']), 'dt': case['dt'], 'ops': [o['op'] for o in case['ops']], 'class': cls}


def run_shard(ctx):
    import warnings
    warnings.simplefilter('ignore')
    eqsig = core.import_eqsig()
    install(ctx)
    rng = ctx.rng
    n_func, n_sig, n_hist = [k // ctx.nshards for k in N_CASES[ctx.tier]]
    plan = []
    tot = n_func + n_sig + n_hist
    for i in range(tot):            # interleave the kinds so that a budget stop keeps all represented
        if ((i + 1) * n_sig) // tot != (i * n_sig) // tot:
            plan.append('signal')
        elif ((i + 1) * n_hist) // tot != (i * n_hist) // tot:
            plan.append('history')
        else:
            plan.append('func')
    n_proto = N_PROTOCOL[ctx.tier] // ctx.nshards
    step = max(1, len(plan) // max(1, n_proto))
    for j in range(n_proto):
        plan.insert(min(len(plan), j * (step + 1) + 1), 'protocol')
    if ctx.tier == 'quick':
        if ctx.shard % 4 == 0:
            plan.insert(3, 'long-func')
        if ctx.shard % 8 == 2:
            plan.insert(3, 'long-signal')
        if ctx.shard == 6:
            plan.insert(3, 'large-signal')
    else:
        plan[3:3] = ['long-func', 'long-signal', 'long-func']
        if ctx.shard % 4 == 2:
            plan.insert(3, 'large-signal')
    # large problems (n_fa * n_targets = 2**18 .. 2**23 quick / 2**24 thorough) only on every 4th shard: the library
    # builds several n_fa x n_targets float64 temporaries
    large = []
    if ctx.shard % 4 == 0:
        j = ctx.shard // 4
        large = LARGE_QUICK[3 * j:3 * j + 3]
        if ctx.tier != 'quick':
            modes = ['none', 'many-targets', 'long-record']
            large = list(LARGE_QUICK) + [(int(rng.integers(18, 25)), int(rng.integers(-1, 2)), modes[int(rng.integers(3))]) for _ in range(12)]
            large = [(e, (-1 if e == 24 else sd), md) for e, sd, md in large]
    plan[2:2] = [('large',) + t for t in large]
    for kind in plan:
        if ctx.out_of_time():
            ctx.observe('stopped-by-budget')
            break
        if isinstance(kind, tuple):
            case, cls = gen_large_case(rng, kind[1], kind[2], kind[3])
        elif kind == 'large-signal':
            case, cls = gen_signal_case(rng, long_n=LARGE_SIGNAL_N, default_targets=True)
        elif kind == 'signal':
            case, cls = gen_signal_case(rng)
        elif kind == 'history':
            case, cls = gen_history_case(rng)
        elif kind == 'protocol':
            case, cls = gen_protocol_case(rng)
        elif kind == 'long-func':
            case, cls = gen_func_case(rng, long_n=LONG_N_FUNC)
        elif kind == 'long-signal':
            case, cls = gen_signal_case(rng, long_n=LONG_N)
        else:
            case, cls = gen_func_case(rng)
        parts = cls.split(':')
        hist_cls = cls if case['kind'] == 'large' else (':'.join(parts[:2]) if case['kind'] != 'signal' else ':'.join(parts[::2]))
        ctx.case(core.digest(case), nontrivial=_nontrivial(case), cls=hist_cls, sample=_sample_of(case, cls))
        if case['kind'] == 'func' and not case.get('long'):
            for tag in ('sized-1', 'sized-2', 'sized-pow2-neighbour', 'first/last-bin', 'repeated', 'descending', 'same-object-as-freqs', 'default-grid'):
                if tag in parts[-1].split('+') or parts[-1].startswith(tag):
                    ctx.observe('target-class:' + tag)
            nb = len(case['freqs']) - (1 if len(case['freqs']) and np.asarray(case['freqs'])[0] == 0 else 0)
            if 1 <= nb <= 3:
                ctx.observe('spectra-of-1-to-3-bins')
        run_case(eqsig, ctx, case)
    ctx.note('monitored_calls', dict(attach.CALLS))


def replay(w):
    """Re-execute the recorded case (complete inputs under 'case') on the current tree; returns the violations seen."""
    import warnings
    warnings.simplefilter('ignore')
    eqsig = core.import_eqsig()
    ctx = core.Ctx(PROP_ID, 'quick', 0, 0, 1)
    install(ctx)
    case = w.get('case') or w
    if case.get('band_fn') == 'get_sig_freq_range' and case.get('ratio') is not None:
        case = dict(case, sig_ratio=case['ratio'], ratio=None)
    run_case(eqsig, ctx, case)
    return ['%s: %s' % (v['clause'], v['msg']) for v in ctx.violations if not v.get('finding')]


MIN_EVALS['quick'] = {
    'smooth==weighted-mean': 4500, 'smooth.finite': 4700, 'smooth.within[min|A|,max|A|]': 4500,
    'smooth==weighted-mean(f32 grid)': 50, 'smooth==weighted-mean(c64 amplitudes)': 130,
    'matrix==window/sum': 1600, 'matrix.nonneg': 1600, 'matrix.colsum==1': 1600, 'matrix==window/sum(f32 grid)': 15,
    'custom-matrix==sum|A_i|M_ij(i>=1)': 300, 'alias.generate==weighted-mean': 600,
    'signal.gen_smooth==weighted-mean': 800, 'signal.smooth_fa_spectrum==weighted-mean': 1500,
    'bandwidth.f_min<=f_max': 220, 'bandwidth.brackets-peak': 700, 'bandwidth==first/last above ratio*max': 700,
    'sigrange.ordered+brackets-peak': 220, 'sigrange==first/last above max/ratio': 220,
    'relation.alias==direct': 650, 'relation.matrix-form==direct-form': 750, 'relation.custom-matrix(konno)==object-form': 220,
    'relation.constant-reproduced': 750, 'relation.scaling': 600, 'relation.scaling-pow2-exact': 110,
    'smooth==weighted-mean(local scale)': 4500, 'ownership.result-owns-its-data': 7000,
    'bandwidth.open-end: ordered, brackets peak, ==first/last above limit': 700,
    'smooth==weighted-mean & finite (b*|log10(f/fc)| > 308)': 450, 'smooth==weighted-mean & finite (extreme amplitude scale)': 180,
    'purity.arguments-unchanged': 8000, 'purity.signal-state-unchanged': 3500, 'state.held-result-unchanged': 1900,
    # round 3: results depend on the arguments only; the caller's targets are the stored ones; refused operations
    'relation.repeat(A,B,A)==first': 950, 'targets.stored==given': 280, 'refused-call.object-as-it-was': 60,
    # round 5: a result belongs to the caller; reads / mutators / copies keep the user's smoothing frequencies
    'ownership.same-call-after-overwriting-the-result==first': 2700, 'settings.smoothing-frequencies-kept': 3900}
MIN_EVALS['thorough'] = {k: 18 * v for k, v in MIN_EVALS['quick'].items()}
LARGE_MIN = {'smooth==weighted-mean(large: target subset)': 15, 'matrix==window/sum(large: target subset)': 5,
             'relation.constant-reproduced(large)': 8, 'relation.scaling-pow2-exact(large)': 8,
             'relation.matrix-form==direct-form(large)': 8}        # the size class n_fa * n_targets = 2**18 .. 2**24
MIN_EVALS['quick'].update(LARGE_MIN)
MIN_EVALS['thorough'].update({k: 5 * v for k, v in LARGE_MIN.items()})
