"""C07 - Konno-Ohmachi smoothing is a normalised non-negative log-frequency window.

Monitors (online post-conditions on the real functions, wherever the call comes from):
  calc_smooth_fa_spectrum, generate_smooth_fa_spectrum (deprecated alias), calc_smoothing_matrix_konno_1998,
  calc_smooth_fa_spectrum_w_custom_matrix, Signal.gen_smooth_fa_spectrum, the Signal.smooth_fa_spectrum property,
  im.calc_bandwidth_freqs / calc_bandwidth_f_min / calc_bandwidth_f_max, get_sig_freq_range
against the scalar double loop of vf/oracles/konno.py.
Relations between executions (checked by the driver after the related calls returned): deprecated alias == direct form,
matrix form == direct form, custom-matrix form == object form, a constant spectrum is reproduced, scaling by alpha scales
the result by |alpha| (bit-for-bit for powers of two).
"""
import math
import weakref

import numpy as np

from vf import attach, core, gen, tol
from vf.oracles import konno as O

PROP_ID = 'C07'
TECHNIQUE = ('runtime post-condition monitors with a scalar (frequency, target)-pair reference of the Konno-Ohmachi window; '
             'offline relations (constant, scaling, matrix form, alias) over the recorded results')
RULE = ('cases are of two kinds. func: (frequency grid, amplitude vector, target set, bandwidth b, scale alpha, constant c) '
        'driven through calc_smooth_fa_spectrum / generate_smooth_fa_spectrum / calc_smoothing_matrix_konno_1998; grids are '
        'the Fourier grids of records of 4..512 samples (zero padded to a power of two) or synthetic uniform / log grids of '
        '1..256 bins, with and without the zero-frequency bin; amplitudes are complex Fourier spectra of the shared record '
        'classes or synthetic (constant, single spike, decaying, signed, complex, integer, float32); targets mix log-random '
        'frequencies inside the grid, frequencies exactly on the grid, below f1/3, above 3*fmax, or None (default = the '
        'grid); b in {5,10,20,40,100} u U(5,100) or the default. signal: (record, dt, class Signal/AccSignal, way the '
        'targets are set, b, bandwidth ratios) driven through the object API, the custom-matrix form and the bandwidth '
        'functions. distinct = digest of all inputs of the case; non-trivial = at least two distinct |A| among the '
        'non-zero-frequency bins and at least one target.')
ASSUMPTIONS = ['frequencies and targets are finite, positive float ndarrays (a single leading zero-frequency bin allowed); '
               'amplitudes finite', 'bandwidth b in [5, 100] (calls outside are counted, not judged)',
               'bandwidth limits are judged for ascending smoothing frequencies, ratio in (0,1) (calc_bandwidth_*) / '
               'ratio > 1 (get_sig_freq_range) and a smoothed spectrum that is not identically zero; an all-zero record '
               'makes them raise IndexError (empty premise, counted)',
               'the statement does not say whether a sample exactly at ratio*max belongs to the band: samples within 8 ulp '
               'of the threshold may be resolved either way',
               'cached reads of Signal.smooth_fa_spectrum are judged only while the Fourier spectrum / target arrays are the '
               'objects the cache was computed from (staleness is C04)',
               'oracle vf/oracles/konno.py is correct (math.log10/sin scalar loop, fsum)']
RTOL = 1e-9
MIN_EVALS = {'quick': {'smooth==weighted-mean': 4000, 'smooth.finite': 4000, 'smooth.within[min|A|,max|A|]': 4000,
                       'matrix==window/sum': 900, 'matrix.nonneg': 900, 'matrix.colsum==1': 900,
                       'custom-matrix==sum|A_i|M_ij(i>=1)': 300, 'signal.gen_smooth==weighted-mean': 500,
                       'signal.smooth_fa_spectrum==weighted-mean': 1800, 'alias.generate==weighted-mean': 500,
                       'bandwidth.f_min<=f_max': 250, 'bandwidth.brackets-peak': 700,
                       'bandwidth==first/last above ratio*max': 700, 'sigrange.ordered+brackets-peak': 250,
                       'sigrange==first/last above max/ratio': 250,
                       'relation.constant-reproduced': 600, 'relation.scaling': 600, 'relation.scaling-pow2-exact': 110,
                       'relation.matrix-form==direct-form': 600, 'relation.alias==direct': 500,
                       'relation.custom-matrix(konno)==object-form': 250},
             'thorough': {}}
MIN_EVALS['thorough'] = {k: 18 * v for k, v in MIN_EVALS['quick'].items()}
N_CASES = {'quick': (1440, 640), 'thorough': (28800, 12800)}    # (func cases, signal cases) over all shards

CTX = None
CASE = None                                  # the driver's current case: complete inputs, copied into every witness
_GEN = weakref.WeakKeyDictionary()           # Signal -> (band, fa_spectrum object, target object) of its last monitored gen
_MEMO = {}


def n_shards(tier):
    return 16


# ------------------------------------------------------------------------------------------------ oracle plumbing
def _columns(fnz, tg, band):
    key = core.digest(fnz, tg, float(band))
    c = _MEMO.get(key)
    if c is None:
        if len(_MEMO) > 6:
            _MEMO.clear()
        c = O.weight_columns(fnz.tolist(), tg.tolist(), float(band))
        _MEMO[key] = c
    return c


def _domain(ctx, freqs, spec, targets, band, who):
    """Parse one call; returns (non-zero frequencies, their amplitudes, targets) or None (counted) when the call is
    outside the quantifier of the statement."""
    try:
        f = np.asarray(freqs)
        if f.ndim != 1 or f.dtype.kind not in 'fiu' or f.size == 0:
            raise ValueError
        f = f.astype(float)
        a = None
        if spec is not None:
            a = np.asarray(spec)
            if a.shape != f.shape or a.dtype.kind not in 'fiuc':
                raise ValueError
        if f[0] == 0:
            f = f[1:]
            a = None if a is None else a[1:]
        if f.size == 0 or not np.all(np.isfinite(f)) or not np.all(f > 0):
            raise ValueError
        if a is not None and not np.all(np.isfinite(a)):
            raise ValueError
        if targets is None:
            t = f
        else:
            t = np.asarray(targets)
            if t.ndim != 1 or t.size == 0 or t.dtype.kind not in 'fiu':
                raise ValueError
            t = t.astype(float)
            if not np.all(np.isfinite(t)) or not np.all(t > 0):
                raise ValueError
        b = float(band)
    except (ValueError, TypeError):
        ctx.observe('out-of-domain:%s' % who)
        return None
    if not (5 <= b <= 100):
        ctx.observe('band-outside-[5,100]:%s' % who)
        return None
    return f, a, t


def _wit(at, raw_case=None, **detail):
    d = {'case': CASE if CASE is not None else raw_case, 'at': at}
    d.update(detail)
    return d


def _reference(fnz, anz, tg, band):
    return np.array(O.smooth(_columns(fnz, tg, band), anz.tolist()), dtype=float)


def _scale(anz):
    return float(np.max(np.abs(anz))) if anz.size else 0.0


# ------------------------------------------------------------------------------------------------ monitors
def check_smooth(ctx, at, freqs, spec, targets, band, result, clause='smooth==weighted-mean', extras=True):
    d = _domain(ctx, freqs, spec, targets, band, at)
    if d is None:
        return
    fnz, anz, tg = d
    ref = _reference(fnz, anz, tg, band)
    got = np.asarray(result)
    scale = _scale(anz)
    raw = {'kind': 'func', 'freqs': np.asarray(freqs), 'spec': np.asarray(spec),
           'targets': None if targets is None else np.asarray(targets), 'band': band}
    ctx.check(tol.close(got, ref, scale=scale, rtol=RTOL), clause,
              lambda: _wit(at, raw, got=got, expected=ref, band=band),
              '%s(n_f=%d, n_targets=%d, band=%r): %s' % (at, len(fnz), len(tg), band,
                                                         tol.describe(got, ref, scale=scale, rtol=RTOL)))
    if not extras:
        return
    n_on = int(np.sum(np.isin(tg, fnz)))
    if n_on:
        ctx.observe('targets-exactly-on-grid', n_on)
    if np.any(tg < fnz[0] / 3) or np.any(tg > 3 * fnz[-1]):
        ctx.observe('calls-with-targets-outside-[f1/3,3fmax]')
    finite = got.shape == ref.shape and bool(np.all(np.isfinite(got)))
    ctx.check(finite, 'smooth.finite', lambda: _wit(at, raw, got=got, band=band),
              '%s returned non-finite values or a wrong shape %s (expected %s)' % (at, got.shape, ref.shape))
    if finite:
        mags = np.abs(anz)
        lo, hi = float(mags.min()), float(mags.max())
        slack = 1e-12 * hi
        if got.dtype.kind == 'c':
            inr = bool(np.all(got.imag == 0) and np.all(got.real >= lo - slack) and np.all(got.real <= hi + slack))
        else:
            inr = bool(np.all(got >= lo - slack) and np.all(got <= hi + slack))
        ctx.check(inr, 'smooth.within[min|A|,max|A|]', lambda: _wit(at, raw, got=got, lo=lo, hi=hi, band=band),
                  '%s: smoothed values [%r, %r] leave [min|A|, max|A|] = [%r, %r]'
                  % (at, np.min(got.real), np.max(got.real), lo, hi))


def _post_calc(args, kwargs, result, pre):
    freqs = args[0] if len(args) > 0 else kwargs['fa_frequencies']
    spec = args[1] if len(args) > 1 else kwargs['fa_spectrum']
    targets = args[2] if len(args) > 2 else kwargs.get('smooth_fa_frequencies')
    band = args[3] if len(args) > 3 else kwargs.get('band', 40)
    check_smooth(CTX, 'calc_smooth_fa_spectrum', freqs, spec, targets, band, result)


def _post_generate(args, kwargs, result, pre):
    targets = args[0] if len(args) > 0 else kwargs['smooth_fa_frequencies']
    freqs = args[1] if len(args) > 1 else kwargs['fa_frequencies']
    spec = args[2] if len(args) > 2 else kwargs['fa_spectrum']
    band = args[3] if len(args) > 3 else kwargs.get('band', 40)
    check_smooth(CTX, 'generate_smooth_fa_spectrum', freqs, spec, targets, band, result,
                 clause='alias.generate==weighted-mean', extras=False)


def _post_matrix(args, kwargs, result, pre):
    ctx = CTX
    freqs = args[0] if len(args) > 0 else kwargs['fa_frequencies']
    targets = args[1] if len(args) > 1 else kwargs.get('smooth_fa_frequencies')
    band = args[2] if len(args) > 2 else kwargs.get('band', 40)
    d = _domain(ctx, freqs, None, targets, band, 'calc_smoothing_matrix_konno_1998')
    if d is None:
        return
    fnz, _, tg = d
    cols = _columns(fnz, tg, band)
    ref = np.array(O.matrix(cols), dtype=float).reshape(len(fnz), len(tg))
    got = np.asarray(result)
    raw = {'kind': 'func', 'freqs': np.asarray(freqs), 'spec': np.ones(len(np.asarray(freqs))),
           'targets': None if targets is None else np.asarray(targets), 'band': band}
    at = 'calc_smoothing_matrix_konno_1998'
    wit = lambda: _wit(at, raw, got=got, band=band)
    shape_ok = got.shape == ref.shape
    ctx.check(shape_ok and tol.close(got, ref, scale=np.max(ref, axis=0)[np.newaxis, :], rtol=RTOL), 'matrix==window/sum', wit,
              'smoothing matrix (n_f=%d, n_targets=%d, band=%r): %s'
              % (len(fnz), len(tg), band, tol.describe(got, ref, scale=np.max(ref, axis=0)[np.newaxis, :], rtol=RTOL)
                 if shape_ok else 'shape %s expected %s' % (got.shape, ref.shape)))
    if not shape_ok:
        return
    with np.errstate(invalid='ignore'):
        ctx.check(bool(np.all(got >= 0)), 'matrix.nonneg', wit, 'smoothing matrix has a negative or NaN entry (min %r)' % np.min(got))
    colsum = np.array([math.fsum(got[:, j].tolist()) if np.all(np.isfinite(got[:, j])) else np.nan
                       for j in range(got.shape[1])])
    with np.errstate(invalid='ignore'):
        ctx.check(bool(np.all(np.abs(colsum - 1.0) <= 1e-12)), 'matrix.colsum==1', wit,
                  'column sums of the smoothing matrix differ from 1: worst %r' % (colsum[np.argmax(np.abs(np.nan_to_num(colsum, nan=np.inf) - 1))],))


def _post_custom(args, kwargs, result, pre):
    ctx = CTX
    asig = args[0] if len(args) > 0 else kwargs['asig']
    m = args[1] if len(args) > 1 else kwargs['smooth_matrix']
    at = 'calc_smooth_fa_spectrum_w_custom_matrix'
    with attach.paused():
        spec = np.asarray(asig.fa_spectrum)
    mm = np.asarray(m)
    if mm.ndim != 2 or mm.shape[0] != len(spec) - 1 or mm.dtype.kind not in 'fiu' or not np.all(np.isfinite(mm)) \
            or not np.all(np.isfinite(spec)):
        ctx.observe('out-of-domain:%s' % at)
        return
    mags = [abs(x) for x in spec[1:].tolist()]
    ref, scale = O.apply_matrix(mags, mm.tolist())
    ref = np.array(ref, dtype=float)
    scale = np.array(scale, dtype=float)
    got = np.asarray(result)
    raw = {'kind': 'signal', 'cls': type(asig).__name__, 'values': np.asarray(asig.values), 'dt': asig.dt, 'how': 'setter',
           'targets': np.asarray(asig.smooth_fa_freqs), 'band': None, 'matrix': mm}
    ctx.check(tol.close(got, ref, scale=scale, rtol=RTOL, atol=1e-300), 'custom-matrix==sum|A_i|M_ij(i>=1)',
              lambda: _wit(at, raw, got=got, expected=ref, matrix=mm),
              '%s (n_f=%d, columns=%d): %s' % (at, len(mags), mm.shape[1], tol.describe(got, ref, scale=scale, rtol=RTOL)))


def _signal_raw(asig, band):
    return {'kind': 'signal', 'cls': type(asig).__name__, 'values': np.asarray(asig.values), 'dt': asig.dt,
            'how': 'setter', 'targets': np.asarray(asig.smooth_fa_freqs), 'band': band}


def _post_gen_smooth(args, kwargs, result, pre):
    ctx = CTX
    self = args[0]
    given = args[1] if len(args) > 1 else kwargs.get('smooth_fa_freqs')
    band = args[2] if len(args) > 2 else kwargs.get('band', 40)
    with attach.paused():
        freqs = self.fa_freqs
        spec = self.fa_spectrum
        tg = self.smooth_fa_freqs
    got = self._smooth_fa_spectrum
    _GEN[self] = (band, self._fa_spectrum, self._smooth_fa_freqs)
    use = tg if given is None else given
    d = _domain(ctx, freqs, spec, use, band, 'Signal.gen_smooth_fa_spectrum')
    if d is None:
        return
    fnz, anz, t = d
    ref = _reference(fnz, anz, t, band)
    scale = _scale(anz)
    ok = tol.close(got, ref, scale=scale, rtol=RTOL) and bool(self._cached_smooth_fa) and np.array_equal(np.asarray(tg), np.asarray(use))
    ctx.check(ok, 'signal.gen_smooth==weighted-mean',
              lambda: _wit('Signal.gen_smooth_fa_spectrum', _signal_raw(self, band), got=np.asarray(got), expected=ref, band=band),
              'gen_smooth_fa_spectrum(band=%r, targets %s): stored spectrum %s; cached flag %r'
              % (band, 'given' if given is not None else 'kept', tol.describe(got, ref, scale=scale, rtol=RTOL),
                 self._cached_smooth_fa))


def _pre_prop(self):
    return bool(self._cached_smooth_fa)


def _post_prop(self, result, was_cached):
    ctx = CTX
    rec = _GEN.get(self)
    if rec is None:
        ctx.observe('property-read-without-monitored-generation')
        return
    band, fa_obj, tg_obj = rec
    if self._fa_spectrum is not fa_obj or self._smooth_fa_freqs is not tg_obj:
        ctx.observe('cached-read-after-state-change(C04 territory)')
        return
    with attach.paused():
        freqs = self.fa_freqs
        spec = self.fa_spectrum
        tg = self.smooth_fa_freqs
    d = _domain(ctx, freqs, spec, tg, band, 'Signal.smooth_fa_spectrum')
    if d is None:
        return
    fnz, anz, t = d
    ref = _reference(fnz, anz, t, band)
    scale = _scale(anz)
    ctx.check(tol.close(result, ref, scale=scale, rtol=RTOL), 'signal.smooth_fa_spectrum==weighted-mean',
              lambda: _wit('Signal.smooth_fa_spectrum', _signal_raw(self, band), got=np.asarray(result), expected=ref, band=band,
                           was_cached=was_cached),
              'Signal.smooth_fa_spectrum (band=%r, cached before=%r): %s'
              % (band, was_cached, tol.describe(result, ref, scale=scale, rtol=RTOL)))
    ctx.observe('property-read-cached' if was_cached else 'property-read-uncached')


def _band_state(ctx, asig, ratio_eff, who):
    """Smoothed spectrum / frequencies of the object as the bandwidth function saw them, or None when outside the premise."""
    with attach.paused():
        s = np.asarray(asig.smooth_fa_spectrum, dtype=float)
        f = np.asarray(asig.smooth_fa_frequencies, dtype=float)
    if s.size == 0 or s.shape != f.shape or not np.all(np.isfinite(s)) or not (0 < ratio_eff < 1):
        ctx.observe('out-of-domain:%s' % who)
        return None
    if not np.max(s) > 0:
        ctx.observe('all-zero-smoothed-spectrum:%s' % who)
        return None
    if np.any(np.diff(f) < 0):
        ctx.observe('targets-not-ascending:%s' % who)
        return None
    first_ok, last_ok, peaks = O.band_limit_candidates(s.tolist(), ratio_eff)
    return s, f, first_ok, last_ok, peaks


def _check_band(ctx, who, asig, ratio, ratio_eff, lo, hi, prefix):
    st = _band_state(ctx, asig, ratio_eff, who)
    if st is None:
        return
    s, f, first_ok, last_ok, peaks = st
    raw = _signal_raw(asig, None)
    raw.update({'ratio': ratio, 'band_fn': who})
    wit = lambda: _wit(who, raw, got=(lo, hi), ratio=ratio, smoothed=s, targets=f)
    fpk = [float(f[i]) for i in peaks]
    if prefix == 'sigrange':
        ok = (lo <= hi) and all(lo <= p <= hi for p in fpk)
        ctx.check(ok, 'sigrange.ordered+brackets-peak', wit,
                  '%s(ratio=%r) -> (%r, %r); smoothed peak at %r' % (who, ratio, lo, hi, fpk))
        ok = any(lo == f[i] for i in first_ok) and any(hi == f[i] for i in last_ok)
        ctx.check(ok, 'sigrange==first/last above max/ratio', wit,
                  '%s(ratio=%r) -> (%r, %r); expected first in %s, last in %s'
                  % (who, ratio, lo, hi, [float(f[i]) for i in first_ok], [float(f[i]) for i in last_ok]))
        return
    if lo is not None and hi is not None:
        ctx.check(lo <= hi, 'bandwidth.f_min<=f_max', wit, '%s(ratio=%r) -> f_min %r > f_max %r' % (who, ratio, lo, hi))
    ok = all((lo is None or lo <= p) and (hi is None or p <= hi) for p in fpk)
    ctx.check(ok, 'bandwidth.brackets-peak', wit,
              '%s(ratio=%r) -> (%r, %r) does not bracket the smoothed peak at %r' % (who, ratio, lo, hi, fpk))
    ok = (lo is None or any(lo == f[i] for i in first_ok)) and (hi is None or any(hi == f[i] for i in last_ok))
    ctx.check(ok, 'bandwidth==first/last above ratio*max', wit,
              '%s(ratio=%r) -> (%r, %r); expected first in %s, last in %s'
              % (who, ratio, lo, hi, [float(f[i]) for i in first_ok], [float(f[i]) for i in last_ok]))


def _ratio_of(args, kwargs, default):
    return args[1] if len(args) > 1 else kwargs.get('ratio', default)


def _post_bw_freqs(args, kwargs, result, pre):
    asig = args[0] if args else kwargs['asig']
    r = _ratio_of(args, kwargs, 0.707)
    _check_band(CTX, 'calc_bandwidth_freqs', asig, r, r, float(result[0]), float(result[1]), 'bandwidth')


def _post_bw_fmin(args, kwargs, result, pre):
    asig = args[0] if args else kwargs['asig']
    r = _ratio_of(args, kwargs, 0.707)
    _check_band(CTX, 'calc_bandwidth_f_min', asig, r, r, float(result), None, 'bandwidth')


def _post_bw_fmax(args, kwargs, result, pre):
    asig = args[0] if args else kwargs['asig']
    r = _ratio_of(args, kwargs, 0.707)
    _check_band(CTX, 'calc_bandwidth_f_max', asig, r, r, None, float(result), 'bandwidth')


def _post_sigrange(args, kwargs, result, pre):
    asig = args[0] if args else kwargs['asig']
    r = _ratio_of(args, kwargs, 15)
    try:
        eff = 1.0 / float(r)
    except (ZeroDivisionError, TypeError, ValueError):
        eff = -1.0
    res = np.asarray(result, dtype=float).ravel()
    if res.size != 2:
        CTX.violation('sigrange.ordered+brackets-peak', _wit('get_sig_freq_range', _signal_raw(asig, None), got=res, ratio=r),
                      'get_sig_freq_range returned %d values' % res.size)
        return
    _check_band(CTX, 'get_sig_freq_range', asig, r, eff, float(res[0]), float(res[1]), 'sigrange')


def _wrap_property(cls, name, pre, post):
    prop = cls.__dict__[name]
    if getattr(prop.fget, '__vf_wrapped__', False):
        return
    orig = prop.fget
    qual = '%s.%s.%s' % (cls.__module__, cls.__name__, name)

    def fget(self):
        if not attach.STATE['enabled']:
            return orig(self)
        attach.CALLS[qual] = attach.CALLS.get(qual, 0) + 1
        ps = pre(self)
        r = orig(self)
        post(self, r, ps)
        return r

    fget.__vf_wrapped__ = True
    fget.__vf_orig__ = orig
    setattr(cls, name, property(fget, prop.fset, prop.fdel, prop.__doc__))


def install(ctx):
    """Attach the C07 monitors to the imported eqsig (idempotent per process)."""
    global CTX
    CTX = ctx
    import eqsig
    fr = eqsig.fns.frequency
    attach.wrap(fr, 'calc_smooth_fa_spectrum', _post_calc)
    attach.wrap(fr, 'generate_smooth_fa_spectrum', _post_generate)
    attach.wrap(fr, 'calc_smoothing_matrix_konno_1998', _post_matrix)
    attach.wrap(fr, 'calc_smooth_fa_spectrum_w_custom_matrix', _post_custom)
    attach.wrap(fr, 'get_sig_freq_range', _post_sigrange)
    attach.wrap(eqsig.im, 'calc_bandwidth_freqs', _post_bw_freqs)
    attach.wrap(eqsig.im, 'calc_bandwidth_f_min', _post_bw_fmin)
    attach.wrap(eqsig.im, 'calc_bandwidth_f_max', _post_bw_fmax)
    attach.wrap_method(eqsig.single.Signal, 'gen_smooth_fa_spectrum', _post_gen_smooth)
    _wrap_property(eqsig.single.Signal, 'smooth_fa_spectrum', _pre_prop, _post_prop)


# ------------------------------------------------------------------------------------------------ workload
BANDS = [5, 10, 20, 40, 100]


def draw_band(rng):
    u = rng.random()
    if u < 0.12:
        return None                                   # the default (40)
    if u < 0.55:
        b = BANDS[int(rng.integers(len(BANDS)))]
        return b if rng.random() < 0.5 else float(b)
    return float(rng.uniform(5, 100))


def fourier_grid(n, dt):
    n_factor = 2 ** int(np.ceil(np.log2(n)))
    points = int(n_factor / 2)
    return np.arange(points) / (n_factor * dt), n_factor


def draw_targets(rng, fnz, allow_none=True, sort=None):
    """(targets or None, kind). fnz: ascending positive grid."""
    if allow_none and rng.random() < 0.08:
        return None, 'default-grid'
    f1, fm = float(fnz[0]), float(fnz[-1])
    lo, hi = (np.log10(f1), np.log10(fm)) if fm > f1 else (np.log10(f1 / 2), np.log10(f1 * 2))
    parts, kinds = [], []
    k_in = int(rng.integers(0, 9))
    if k_in:
        parts.append(10 ** rng.uniform(lo, hi, size=k_in))
        kinds.append('in')
    k_on = int(rng.integers(0, 4))
    if k_on:
        parts.append(np.asarray(fnz)[rng.integers(0, len(fnz), size=k_on)])
        kinds.append('on')
    if rng.random() < 0.45:
        parts.append(np.array([f1 / 3 if rng.random() < 0.2 else f1 / 3 * 10 ** rng.uniform(-2, 0)]))
        kinds.append('below')
    if rng.random() < 0.45:
        parts.append(np.array([3 * fm if rng.random() < 0.2 else 3 * fm * 10 ** rng.uniform(0, 2)]))
        kinds.append('above')
    if not parts:
        parts.append(np.asarray(fnz)[rng.integers(0, len(fnz), size=1)])
        kinds.append('on')
    t = np.concatenate(parts).astype(float)
    if sort is None:
        sort = rng.random() < 0.5
    if sort:
        t = np.sort(t)
    else:
        rng.shuffle(t)
    return t, '+'.join(kinds)


def draw_alpha(rng):
    u = rng.random()
    if u < 0.4:
        return float(rng.choice([2.0, -2.0, 0.5, -0.25, 1024.0, -2.0 ** -20, -1.0]))
    return float(rng.normal() * 10 ** rng.uniform(-3, 3)) or 1.5


def gen_func_case(rng):
    src = ['record', 'record', 'record', 'const', 'spike', 'decay', 'signed', 'complex', 'int', 'f32', 'loggrid'][int(rng.integers(11))]
    if src == 'record':
        n = int(rng.integers(4, 513)) if rng.random() < 0.7 else int(rng.choice([4, 5, 7, 8, 9, 16, 17, 33, 64, 512]))
        dt = gen.dt(rng)
        x, rcls = gen.record(rng, n)
        freqs, n_factor = fourier_grid(n, dt)
        spec = np.fft.fft(x, n=n_factor)[:len(freqs)] * dt
        src = 'record-' + rcls
    else:
        points = int(rng.choice([2, 3, 4, 5, 8, 16, 33, 64, 100, 128, 256])) if rng.random() < 0.6 else int(rng.integers(2, 257))
        if src == 'loggrid':
            freqs = np.concatenate([[0.0], np.sort(10 ** rng.uniform(-2, 2, size=points - 1))])
        else:
            freqs = np.arange(points) * float(10 ** rng.uniform(-2.5, 0.5))
        amp = float(10 ** rng.uniform(-4, 4)) if rng.random() < 0.5 else 1.0
        if src == 'const':
            spec = np.full(points, float(rng.choice([0.5, 1.0, 3.0, 7.25])) * amp)
        elif src == 'spike':
            spec = np.zeros(points)
            spec[int(rng.integers(1, points))] = amp
            if rng.random() < 0.5:
                spec += 1e-3 * amp
        elif src == 'decay':
            spec = amp / (1.0 + freqs) ** rng.uniform(0.5, 3)
        elif src == 'signed':
            spec = rng.normal(size=points) * amp
        elif src == 'complex':
            spec = (rng.normal(size=points) + 1j * rng.normal(size=points)) * amp
        elif src == 'int':
            spec = rng.integers(-9, 10, size=points).astype(np.int64)
        elif src == 'f32':
            spec = (rng.normal(size=points) * amp).astype(np.float32)
        else:
            spec = np.abs(rng.normal(size=points)) * amp
    with_zero = bool(rng.random() < 0.5)
    if not with_zero:
        freqs, spec = freqs[1:], spec[1:]
    fnz = freqs[1:] if with_zero else freqs
    targets, tkind = draw_targets(rng, fnz)
    case = {'kind': 'func', 'freqs': freqs, 'spec': spec, 'targets': targets, 'band': draw_band(rng),
            'alpha': draw_alpha(rng), 'const': float(rng.choice([1.0, 0.3, 2.5e-7, 123456.789, -4.0])),
            'none_style': 'omit' if rng.random() < 0.5 else 'none', 'kw_style': bool(rng.random() < 0.5)}
    return case, 'func:%s:%s:%s' % (src, 'zero-bin' if with_zero else 'no-zero-bin', tkind)


def gen_signal_case(rng):
    n = int(rng.integers(4, 513)) if rng.random() < 0.75 else int(rng.choice([4, 5, 8, 9, 16, 17, 64, 65, 512]))
    dt = gen.dt(rng)
    x, rcls = gen.record(rng, n)
    grid, _ = fourier_grid(n, dt)
    how = ['default', 'ctor', 'setter', 'setter_frequencies', 'range', 'gen_arg'][int(rng.integers(6))]
    targets, rng_lim, tkind = None, None, 'default-logspace'
    if how == 'range':
        lo = float(10 ** rng.uniform(-2, 0.5))
        rng_lim = (lo, lo * float(10 ** rng.uniform(0.3, 2.5)))
        tkind = 'range'
    elif how != 'default':
        targets, tkind = draw_targets(rng, grid[1:], allow_none=False, sort=True)
    case = {'kind': 'signal', 'cls': 'AccSignal' if rng.random() < 0.5 else 'Signal', 'values': x, 'dt': dt, 'how': how,
            'targets': targets, 'range': rng_lim, 'band': draw_band(rng),
            'ratio': None if rng.random() < 0.3 else float(rng.choice([0.5, 0.9, 0.25, float(rng.uniform(0.05, 0.98))])),
            'sig_ratio': None if rng.random() < 0.3 else float(rng.choice([2.0, 4.0, 100.0, float(rng.uniform(1.2, 50))])),
            'random_matrix_seed': int(rng.integers(1 << 30)) if rng.random() < 0.3 else None}
    return case, 'signal:%s:%s:%s' % (rcls, how, tkind)


def _nontrivial(case):
    if case['kind'] == 'func':
        f, a = O.drop_zero_bin(case['freqs'], case['spec'])
        return len(set(np.abs(a).tolist())) > 1
    return len(set(np.abs(np.asarray(case['values'])).tolist())) > 1


def _call(ctx, clause, at, fn, *a, **k):
    """Run one public call of the case; an exception on these in-domain inputs is a violation."""
    try:
        return True, fn(*a, **k)
    except Exception as e:      # noqa
        ctx.exception(clause, _wit(at), e)
        return False, None


def run_func_case(eqsig, ctx, c):
    freqs, spec, targets, band = c['freqs'], c['spec'], c['targets'], c['band']
    bkw = {} if band is None else {'band': band}
    b_eff = 40 if band is None else band

    def direct(sp):
        if targets is None and c.get('none_style', 'omit') == 'omit':
            return _call(ctx, 'smooth==weighted-mean', 'calc_smooth_fa_spectrum', eqsig.calc_smooth_fa_spectrum, freqs, sp, **bkw)
        if c.get('kw_style'):
            return _call(ctx, 'smooth==weighted-mean', 'calc_smooth_fa_spectrum', eqsig.calc_smooth_fa_spectrum,
                         fa_frequencies=freqs, fa_spectrum=sp, smooth_fa_frequencies=targets, **bkw)
        return _call(ctx, 'smooth==weighted-mean', 'calc_smooth_fa_spectrum', eqsig.calc_smooth_fa_spectrum, freqs, sp, targets, **bkw)

    ok, base = direct(spec)
    if not ok:
        return
    base = np.array(base, copy=True)
    fnz, anz = O.drop_zero_bin(freqs, spec)
    mags = np.abs(anz)
    scale = float(mags.max()) if mags.size else 0.0
    # deprecated alias
    if targets is not None:
        ok, r = _call(ctx, 'alias.generate==weighted-mean', 'generate_smooth_fa_spectrum', eqsig.generate_smooth_fa_spectrum,
                      targets, freqs, spec, **bkw)
        if ok:
            ctx.check(np.array_equal(np.asarray(r), base), 'relation.alias==direct', lambda: _wit('relation.alias', got=np.asarray(r), direct=base),
                      'generate_smooth_fa_spectrum differs from calc_smooth_fa_spectrum on the same inputs')
    # matrix form
    if targets is None and c.get('none_style', 'omit') == 'omit':
        ok, m = _call(ctx, 'matrix==window/sum', 'calc_smoothing_matrix_konno_1998', eqsig.calc_smoothing_matrix_konno_1998, freqs, **bkw)
    else:
        ok, m = _call(ctx, 'matrix==window/sum', 'calc_smoothing_matrix_konno_1998', eqsig.calc_smoothing_matrix_konno_1998, freqs, targets, **bkw)
    if ok:
        m = np.asarray(m)
        if m.ndim == 2 and m.shape[0] == len(mags):
            via = np.dot(mags.astype(float), m)
            ctx.check(tol.close(via, base, scale=scale, rtol=RTOL), 'relation.matrix-form==direct-form',
                      lambda: _wit('relation.matrix-form', via_matrix=via, direct=base),
                      '|A|.M differs from the direct form: %s' % tol.describe(via, base, scale=scale, rtol=RTOL))
        else:
            ctx.violation('relation.matrix-form==direct-form', _wit('relation.matrix-form', shape=list(m.shape)),
                          'matrix shape %s does not fit %d amplitudes' % (m.shape, len(mags)))
    # scaling
    alpha = c.get('alpha')
    if alpha is not None and spec.dtype.kind in 'fc':
        # scale in double precision: float32 * alpha would round the *input* of the second execution
        ok, r = direct(spec.astype(np.complex128 if spec.dtype.kind == 'c' else np.float64) * alpha)
        if ok:
            r = np.asarray(r)
            exp = abs(alpha) * base
            ctx.check(tol.close(r, exp, scale=abs(alpha) * scale, rtol=1e-12), 'relation.scaling',
                      lambda: _wit('relation.scaling', got=r, expected=exp, alpha=alpha),
                      'smoothing of alpha*A (alpha=%r) is not |alpha| * smoothing of A: %s'
                      % (alpha, tol.describe(r, exp, scale=abs(alpha) * scale, rtol=1e-12)))
            mant = np.frexp(abs(alpha))[0]
            tiny = mags[mags > 0].min() if np.any(mags > 0) else 1.0
            if mant == 0.5 and spec.dtype == np.float64 and tiny * min(abs(alpha), 1.0) > 1e-280 and scale * max(abs(alpha), 1.0) < 1e280:
                ctx.check(np.array_equal(r, exp), 'relation.scaling-pow2-exact',
                          lambda: _wit('relation.scaling-pow2', got=r, expected=exp, alpha=alpha),
                          'power-of-two scaling (alpha=%r) is not exact' % alpha)
    # constant spectrum
    cv = c.get('const')
    if cv is not None:
        ok, r = direct(np.full(len(freqs), cv))
        if ok:
            r = np.asarray(r)
            exp = np.full(r.shape, abs(cv))
            ctx.check(tol.close(r, exp, scale=abs(cv), rtol=1e-12), 'relation.constant-reproduced',
                      lambda: _wit('relation.constant', got=r, const=cv),
                      'constant spectrum %r not reproduced: %s' % (cv, tol.describe(r, exp, scale=abs(cv), rtol=1e-12)))


def run_signal_case(eqsig, ctx, c):
    cls = eqsig.AccSignal if c.get('cls') == 'AccSignal' else eqsig.Signal
    how, targets, band = c.get('how', 'setter'), c.get('targets'), c.get('band')
    b_eff = 40 if band is None else band
    try:
        if how == 'ctor':
            s = cls(c['values'], c['dt'], smooth_fa_freqs=targets)
        elif how == 'range':
            s = cls(c['values'], c['dt'], smooth_freq_range=c['range'])
        else:
            s = cls(c['values'], c['dt'])
            if how == 'setter' and targets is not None:
                s.smooth_fa_freqs = targets
            elif how == 'setter_frequencies':
                s.smooth_fa_frequencies = targets
    except Exception as e:      # noqa
        ctx.exception('signal.smooth_fa_spectrum==weighted-mean', _wit('constructor'), e)
        return
    if how != 'gen_arg':
        ok, v = _call(ctx, 'signal.smooth_fa_spectrum==weighted-mean', 'Signal.smooth_fa_spectrum', lambda: s.smooth_fa_spectrum)
        if not ok:
            return
    if how == 'gen_arg':
        if band is None:
            ok, _ = _call(ctx, 'signal.gen_smooth==weighted-mean', 'Signal.gen_smooth_fa_spectrum', s.gen_smooth_fa_spectrum, smooth_fa_freqs=targets)
        else:
            ok, _ = _call(ctx, 'signal.gen_smooth==weighted-mean', 'Signal.gen_smooth_fa_spectrum', s.gen_smooth_fa_spectrum, targets, band)
    elif band is not None:
        ok, _ = _call(ctx, 'signal.gen_smooth==weighted-mean', 'Signal.gen_smooth_fa_spectrum', s.gen_smooth_fa_spectrum, band=band)
    else:
        ok = True
    if not ok:
        return
    ok, v = _call(ctx, 'signal.smooth_fa_spectrum==weighted-mean', 'Signal.smooth_fa_spectrum', lambda: s.smooth_fa_spectrum)
    if not ok:
        return
    v = np.array(v, copy=True)
    spec = np.asarray(s.fa_spectrum)
    scale = float(np.max(np.abs(spec[1:]))) if len(spec) > 1 else 0.0
    # the function form on the object's own spectrum (zero bin included)
    _call(ctx, 'smooth==weighted-mean', 'calc_smooth_fa_spectrum', eqsig.calc_smooth_fa_spectrum, s.fa_freqs, s.fa_spectrum,
          s.smooth_fa_freqs, band=b_eff)
    # custom-matrix form
    if c.get('matrix') is not None:
        _call(ctx, 'custom-matrix==sum|A_i|M_ij(i>=1)', 'calc_smooth_fa_spectrum_w_custom_matrix',
              eqsig.calc_smooth_fa_spectrum_w_custom_matrix, s, c['matrix'])
    ok, m = _call(ctx, 'matrix==window/sum', 'calc_smoothing_matrix_konno_1998', eqsig.calc_smoothing_matrix_konno_1998,
                  s.fa_freqs, s.smooth_fa_freqs, band=b_eff)
    if ok:
        ok, r = _call(ctx, 'custom-matrix==sum|A_i|M_ij(i>=1)', 'calc_smooth_fa_spectrum_w_custom_matrix',
                      eqsig.calc_smooth_fa_spectrum_w_custom_matrix, s, m)
        if ok:
            r = np.asarray(r)
            ctx.check(tol.close(r, v, scale=scale, rtol=RTOL), 'relation.custom-matrix(konno)==object-form',
                      lambda: _wit('relation.custom-matrix', got=r, object_form=v),
                      'custom-matrix form with the Konno matrix differs from Signal.smooth_fa_spectrum: %s'
                      % tol.describe(r, v, scale=scale, rtol=RTOL))
    if c.get('random_matrix_seed') is not None:
        rm = np.random.default_rng(c['random_matrix_seed']).normal(size=(len(spec) - 1, 3))
        _call(ctx, 'custom-matrix==sum|A_i|M_ij(i>=1)', 'calc_smooth_fa_spectrum_w_custom_matrix',
              eqsig.calc_smooth_fa_spectrum_w_custom_matrix, s, rm)
    # bandwidth limits
    if c.get('band_fn') is None and not (v.size and np.all(np.isfinite(v)) and np.max(v) > 0):
        ctx.observe('bandwidth-skipped(all-zero or non-finite smoothed spectrum)')
        return
    ratio, sig_ratio = c.get('ratio'), c.get('sig_ratio')
    rk = {} if ratio is None else {'ratio': ratio}
    _call(ctx, 'bandwidth==first/last above ratio*max', 'calc_bandwidth_freqs', eqsig.im.calc_bandwidth_freqs, s, **rk)
    _call(ctx, 'bandwidth==first/last above ratio*max', 'calc_bandwidth_f_min', eqsig.im.calc_bandwidth_f_min, s, **rk)
    _call(ctx, 'bandwidth==first/last above ratio*max', 'calc_bandwidth_f_max', eqsig.im.calc_bandwidth_f_max, s, **rk)
    sk = {} if sig_ratio is None else {'ratio': sig_ratio}
    _call(ctx, 'sigrange==first/last above max/ratio', 'get_sig_freq_range', eqsig.get_sig_freq_range, s, **sk)


def run_case(eqsig, ctx, case):
    global CASE
    CASE = case
    try:
        with np.errstate(all='ignore'):
            if case.get('kind') == 'signal':
                run_signal_case(eqsig, ctx, case)
            else:
                run_func_case(eqsig, ctx, case)
    finally:
        CASE = None


def run_shard(ctx):
    import warnings
    warnings.simplefilter('ignore')
    eqsig = core.import_eqsig()
    install(ctx)
    rng = ctx.rng
    n_func, n_sig = N_CASES[ctx.tier]
    n_func = n_func // ctx.nshards
    n_sig = n_sig // ctx.nshards
    for i in range(n_func + n_sig):
        if ctx.out_of_time():
            ctx.observe('stopped-by-budget')
            break
        # interleave the two kinds so that a budget stop keeps both represented
        tot = n_func + n_sig
        if ((i + 1) * n_sig) // tot != (i * n_sig) // tot:
            case, cls = gen_signal_case(rng)
        else:
            case, cls = gen_func_case(rng)
        if case['kind'] == 'func':
            smp = {'kind': 'func', 'n_freqs': len(case['freqs']), 'with_zero_bin': bool(case['freqs'][0] == 0),
                   'targets': case['targets'] if case['targets'] is None else case['targets'][:6], 'band': case['band'],
                   'alpha': case['alpha'], 'class': cls}
        else:
            smp = {'kind': 'signal', 'n': len(case['values']), 'dt': case['dt'], 'how': case['how'], 'band': case['band'],
                   'ratio': case['ratio'], 'sig_ratio': case['sig_ratio'], 'class': cls}
        ctx.case(core.digest(case), nontrivial=_nontrivial(case), cls=cls.rsplit(':', 1)[0] if case['kind'] == 'func' else
                 ':'.join(cls.split(':')[::2]), sample=smp)
        run_case(eqsig, ctx, case)
    ctx.note('monitored_calls', dict(attach.CALLS))


def replay(w):
    """Re-execute the recorded case (complete inputs under 'case') on the current tree; returns the violations seen."""
    import warnings
    warnings.simplefilter('ignore')
    eqsig = core.import_eqsig()
    ctx = core.Ctx(PROP_ID, 'quick', 0, 0, 1)
    install(ctx)
    case = w.get('case', w)
    if case.get('band_fn') and case.get('ratio') is not None and case['band_fn'] == 'get_sig_freq_range':
        case = dict(case, sig_ratio=case['ratio'], ratio=None)
    run_case(eqsig, ctx, case)
    return ['%s: %s' % (v['clause'], v['msg']) for v in ctx.violations if not v.get('finding')]
