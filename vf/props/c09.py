"""C09 - cumulative intensity measures: definition, monotonicity, scaling laws, standardised CAV.

Monitors: post-conditions on every call of eqsig.im.calc_arias_intensity / calc_cav / calc_cav_dp / calc_isv /
calc_integral_of_abs_velocity / calc_cumulative_abs_displacement / calc_integral_of_abs_acceleration /
calc_unit_kinetic_energy (length, monotone, final value against the scalar quadrature of vf/oracles/quadrature.py;
for records of one or two samples the verdict is counted a second time under its own clause; for CAVdp the window/gate
oracle with the one-panel-per-window slack of the statement and the knife-edge rule; the signal object bit-for-bit
unchanged by the call). Everything expected is derived from a snapshot of (values, dt)
taken at call entry - never from the object's derived caches.
Trace relations (sign reversal, alpha scaling, zero padding), twin-object / caller-array purity and "first result
intact after a second call" / "f(A); f(B); f(A)" are evaluated by the driver over the monitored calls; so are the
comparison of every series returned for an object with a history (mutators, assignments through attribute names,
refused operations, copies and pickles) with the series of a fresh object, and the independence of copies.
"""
import copy
import pickle
import warnings
import weakref

import numpy as np

from vf import attach, core, gen
from vf.oracles import quadrature as Q

PROP_ID = 'C09'
TECHNIQUE = ('runtime post-condition monitors on the eight eqsig.im cumulative-measure functions with scalar quadrature '
             'oracles fed from a call-entry snapshot (two-sided knife-edge oracle for the CAVdp gate, bit-for-bit purity of '
             'the signal object); sign/scale/zero-padding trace relations, same-object histories (incl. assignment through '
             'attribute names and refused operations), fresh-object comparison, copy/deepcopy/pickle independence, twin '
             'objects and back-to-back / f(A);f(B);f(A) calls over the recorded executions')
RULE = ('cases = (record, dt) pairs driven through the public eqsig.im functions on eqsig.AccSignal (for the '
        'acceleration-based measures also eqsig.Signal) objects, positionally and by keyword. '
        'Quadrature part: record classes of vf/gen.py (noise, walk, sine, chirp, beat, impulse, hat, step, quake, alt, '
        'plateau, const, zeropad, intnoise) with modifiers (plateau at start/end, extreme at first/last sample, end right '
        'after a sign change, end at 0, large offset on a small signal), n in {1,2,3,..} around every power of two up to '
        '4097, 5000 and a few records past 2**16, amplitudes 1e-12..1e12, dt nice/reciprocal/log-uniform 1e-9..1e3 as '
        'float / np.float64 / np.float32 / int, containers float64 / float32 / int64 / int32 / int16 / int8 / uint8 / '
        'uint16 (narrow types filled to ~95% of their range) / list / tuple / int list / mixed list / strided and '
        'reversed views / read-only arrays; every case is also run as -x, 2^k*x, alpha*x and (when it ends in 0) '
        'zero-padded. CAVdp part: durations 2..12 s (some up to 40 s, one long record per shard) plus 0..pps-1 extra '
        'samples, dt in {0.1,0.05,0.04,0.025,0.02,0.01,0.005,0.0025,0.002}, {1,0.5,0.25,0.2,0.125,0.001,0.0005} and '
        'reciprocals 1/k (k=49,93,98,99,...), classes envelope-noise / all-below / quake / exact-gate (built in g '
        'units on exactly representable levels incl. 0.025 and its two neighbours) / boundary-spike (a spike just '
        'before a window boundary over distinct per-window background levels) / generic (amplitudes 1e-12..1e12 g) / '
        'near-gate-inexact (window maxima within 4 ulp of 0.025*9.81 in m/s2: knife-edge rule), gate-crossing spikes at '
        'the first sample, the last sample, the end of the last window and on shared window boundaries, containers '
        'float64 / float32 / int16 / list / view / read-only. Same-object histories: one object, 3..8 '
        'monitored calls drawn with repeats from all eight measures (CAVdp when in its quantifier), interleaved with '
        'reads of velocity/displacement/pgv/pgd/pga, the mutators add_constant / reset_values (same, shorter, longer) '
        '/ butter_pass / remove_average / remove_poly / rebase_displacement / set_zero_residual_velocity / '
        'set_zero_residual_displacement and an explicit regeneration of the velocity (trap=True); non-trivial = the '
        'velocity changes sign at least 3 times. Twin objects: A, B built from one caller array and C from A.values; A is '
        'mutated and measured, then the caller array, B and C and their measures must be bit-for-bit what they were. '
        'Back to back: each measure on two different records of one shape, first result compared after the second '
        'call. Shapes the statement does not forbid (applied to ~25-35% of the records of both parts): one-sided '
        '(all negative / all positive), tail-heavy, monotone / trend dominated, runs of exact zeros inside, both ends at '
        'the peak, one sample 1e3..1e12 times larger than the rest, a constant record with one changed sample. Steps: '
        'gen.awkward_dt (quotient-awkward) in the quadrature part; for CAVdp every integer rate 1..2048, all ~290 '
        'k <= 4096 whose reciprocal floors to k-1, rates 2**j-1..2**j+1, nice steps moved by 1-3 ulp, up to 300 s at '
        '<= 50 samples/s. Derived objects: an analysed AccSignal A is turned into D by deepcopy+reset_values, '
        'deepcopy+add_constant, interp_to_approx_dt / resample_to_approx_dt (incl. target == current), combine_at_angle '
        '(incl. 0, 90, 180 degrees), a Cluster member, or AccSignal(real(fas2signal(A.fa_spectrum))); every measure on D '
        'is judged against D\'s own values, D is corrected in place, A must be bit-for-bit unchanged. The deprecated '
        'AccSignal.generate_cumulative_stats attributes (arias_intensity, cav) are judged by the Arias/CAV final '
        'clauses. Every defining integral is evaluated with the dt handed to the constructor (recorded by a monitor on '
        'Signal.__init__), steps incl. 1/k for k = 3, 6, 7, 11, 13, 120, 128, 240, 256, 512. Extreme scales: records at '
        '1e+-165..1e+-220, gen.special_scale (tiny / huge / 1e-150 vs 1e150 in one record / ripple on a baseline / counts '
        'above 2**24) with the linear measures (CAV, |a|, |v| integrals, CAVdp) and amplitudes 1e-130..1e130 with all '
        'measures, float64 / list containers, rescaled so that nothing the linear measures form leaves 1e-295..1e300. '
        'Assignment through the public attribute names (round 3): `sig.values = y` on cold / warm objects with y another '
        'record of the same length, shorter, longer (by 1, 17, one second, up to three seconds), 1-3 entries, or an expression '
        'of the current values (zeros appended / prepended, scaled, negated, head, tail, every other sample as a view of the '
        'object\'s own buffer, the buffer itself) in the forms float64 / list / tuple / int16 / int32 / float32 / int list / '
        'mixed list / strided view / read-only; `sig.dt = ...` (2dt, dt/2, dt, another nice step, np.float64 / np.float32), '
        'response_times / smooth_fa_freqs / smooth_fa_frequencies with 1-3 entries as list / tuple / array, label, npts; then '
        'EVERY measure (CAVdp when the record the object then shows is inside its quantifier), a second mutation and more '
        'measures; the same operations also appear inside the random histories and the twin cases. Whatever `sig.values` '
        'shows after the assignment is the record (the clean tree ignores the assignment). Operations that raise inside '
        'histories: reset_values(ragged list), add_series / add_signal with a wrong length, another step, a non-signal (and '
        'the accepted forms), butter_pass with a corner at / above Nyquist, at 0, negative, scalar or 3 entries; a record with '
        'nan / inf put in by reset_values, read and measured (counted, not judged), then replaced by a finite one. Every '
        'series returned inside a history / assignment / twin / derived / protocol scenario is also compared with the same '
        'measure of a FRESH object built from the values the object showed at call entry and the caller\'s step. Object '
        'protocols: copy.copy / copy.deepcopy / pickle (protocol 2 and highest) of an AccSignal / Signal / Cluster member in '
        'the cache states cold, velocity+displacement read, peaks read, Fourier spectrum read, smoothed spectrum read, '
        'response spectrum read, all measures called; then a mutation (reset_values same / other length, add_constant, '
        'in-place rebase_displacement; after copy.copy only the rebinding reset_values until the buffers are separate) and all '
        'measures on the copy and on the original, in both orders. f(A); f(B); f(A): B of the same or another length, the '
        'third call on the same or a new object. Silent (all-zero) records and strictly one-signed records (no zero, no sign '
        'change) in both parts. '
        'Degenerate records (round 4): records of ONE sample (three in five) and TWO samples (second sample 0 / equal / '
        'opposite / random / 1e-9 / -3 times the first) whose first sample is not zero (1e-3..1e3, some 1e-12..1e12, whole '
        'numbers), in all container forms in turn incl. bool array / list of bools (a flag channel: 1.0 where set), steps from '
        '{0.01, 0.005, 0.02, 0.0025, 0.1, 1, 0.5, 2, 1/3, 1/128, 1/49, 7.3e-4, 12.5}, log-uniform 1e-6..1e3 and gen.dt as float '
        '/ np.float64 / np.float32 / int, through EVERY measure (positionally, by keyword, generate_cumulative_stats, '
        'eqsig.Signal for the acceleration-based ones) with the sign / scale / zero-pad relations, and reached on a warm '
        'object (longer record -> reset_values(short); short -> longer -> short); bool records also in the quadrature part. '
        'Round 5: the step in further scalar forms - np.int64 / 0-d int64 array (1, 2, 5), True / np.True_ / 0-d bool array '
        '(the step 1), 0-d float64 / float32 arrays (any step) - in the quadrature, short-record and CAVdp parts (CAVdp: the same '
        'step value as np.float64 / 0-d float64, as (0-d) float32 when it is a float32 number, as int / np.int64 / bool forms '
        'when it is 1; half of all dt = 1 cases), and in ~12-15% of the histories, assignments, twins and back-to-back cases; the '
        'caller\'s own 0-d step array is snapshotted at every monitored call like the record. True flag forms of '
        'generate_displacement_and_velocity_series(trap=...) inside histories: True / np.True_ / 0-d bool array / 1 / '
        'np.int64(1). bool records (on/off pulse trains) also in the CAVdp part, in `sig.values = ...`, reset_values and '
        'add_series. Settings outside the band of the data given through the attribute names (response_times [0], [0, dt, 1], '
        '[dt/2], whole numbers; smoothing frequencies above Nyquist, 1e-9, a single one; list / tuple / array), then every '
        'measure on the cold / warm object. Back to back: after f(A); f(B); f(A) all three result arrays are overwritten in '
        'place and the call is repeated on the same and on a new object. A few CAVdp cases with an np.float16 step (observed '
        'as pending-finding when the tree raises on it). '
        'distinct = digest(values, dt, part); non-trivial = record with a non-zero sample.')
ASSUMPTIONS = ['NaN-free real records, n >= 1, dt > 0; complex-typed records (raw fas2signal output) are counted, never judged',
               'a record is the sequence of real numbers its container holds: integer containers of any width are '
               'judged against the float64 quadrature of their values; float32 records are judged with the unit '
               'round-off of float32 (rtol (n+10)*2^-23), everything else with rtol 1e-10',
               'velocity is, by definition (C08), the cumulative trapezoid of the record with v[0]=0; the oracle '
               'computes it from (values, dt) at call entry and never reads the object\'s cached series; '
               'generate_displacement_and_velocity_series(trap=False) is not driven',
               '"rectangle sum" does not fix the side (all-sample, left or right sum), but it is ONE rule for all records: the '
               'rule(s) that reproduce the tree\'s |a| and |v| integrals on three exactly representable probe records of 3-5 '
               'samples (where the three sums differ) are the ones every record is judged with, the one- and two-sample '
               'records included (every-sample rule: int|a| of a one-sample record is |a0|*dt, not 0); if no rule fits the '
               'probes all three stay accepted',
               'a bool record is the sequence 1.0 (True) / 0.0 (False), like an integer container',
               'CAVdp is judged only when 1/dt is an integer up to rounding and the record spans >= 2 s; '
               'the gate is decided strictly only for records built in g units whose a/9.81 reproduces them exactly, '
               'otherwise a window maximum within 4 ulp of 0.025 may fall on either side',
               'mutators and reads inside histories are not judged here (an exception in one is an observation); '
               'velocity-based measures are not driven on eqsig.Signal (it has no velocity)',
               'the time step of a record is the number handed to the Signal/AccSignal constructor; objects made by '
               'deepcopy are judged with the step they store',
               'energy-type measures (Arias, ISV, unit kinetic energy) are judged only where squares of the samples and '
               'velocities are normal doubles (amplitudes within 1e-130..1e130 in the extreme classes)',
               'the record of an object is what its `values` attribute shows at call entry - after `sig.values = y` that is '
               'y converted like the constructor would, or the old record when the assignment is ignored (clean tree); after '
               'an accepted `sig.dt = h` (no setter in the clean tree) h is the caller\'s step; npts / time are not judged '
               'themselves, only the measures built on them',
               'the fresh-object comparison uses rtol * final value of the series per sample (1e-10; float32 unit '
               'round-off for float32 records): two evaluations of one function on equal inputs, so any valid '
               'implementation passes; silent records must give all-zero series (0 <= tolerance 0 + subnormal floor)',
               'copy / pickle failures, and what the copied object\'s non-C09 observables (peaks, spectra) show, are not '
               'judged here; non-finite records are counted, never judged',
               'a step is the number float(dt) of whatever scalar form the constructor was handed (Python / numpy float, int, '
               'bool, 0-d array): True is the step 1; the object must keep the form it was given (0-d array: same dtype), and a '
               'measure must leave a 0-d step array - the object\'s and the caller\'s own - bit-for-bit unchanged (judged by '
               'the purity clause); np.float16 / np.longdouble steps are outside the forms judged (float16 with CAVdp is driven '
               'and counted only)',
               'every true value of the trap flag of generate_displacement_and_velocity_series (True, np.True_, 0-d True, 1) '
               'asks for the trapezoid velocity the velocity-based measures are defined on',
               'a result array belongs to the caller: after it has been overwritten the same call returns bit-for-bit what it '
               'returned the first time (same object or a new one of the same record and step)',
               'oracle vf/oracles/quadrature.py is correct (scalar trapezoid / rectangle sums, fsum)']
RTOL = 1e-10
EPS32 = float(np.finfo(np.float32).eps)
TINY32 = float(np.finfo(np.float32).tiny)
G = Q.G
CTX = None
HINT = {'exact_g': False}


def n_shards(tier):
    return 16


# ---------------------------------------------------------------------------------------------------- monitors
FINAL_CLAUSE = {'arias': 'arias.final==pi/2g*trapz(a^2)', 'cav': 'cav.final==trapz|a|', 'isv': 'isv.final==trapz(v^2)',
                'abs_acc': 'abs_acc.final==rect|a|', 'abs_vel': 'abs_vel.final==rect|v|', 'cad': 'cad.final==rect|v|',
                'uke': 'uke.final==sum|d(v|v|/2)|'}
FN = {'arias': 'calc_arias_intensity', 'cav': 'calc_cav', 'isv': 'calc_isv', 'abs_acc': 'calc_integral_of_abs_acceleration',
      'abs_vel': 'calc_integral_of_abs_velocity', 'cad': 'calc_cumulative_abs_displacement',
      'uke': 'calc_unit_kinetic_energy', 'cavdp': 'calc_cav_dp'}
PARAM = {'arias': 'acc_sig', 'cav': 'acc_sig', 'isv': 'acc_sig', 'abs_acc': 'asig', 'abs_vel': 'asig', 'cad': 'asig',
         'uke': 'acc_signal', 'cavdp': 'asig'}
PURITY = 'purity.signal-unchanged-by-call'
OWNS = 'ownership.result-owns-its-data'
DERIVED = 'purity.derived-object-independent'
DT_KEPT = 'object.dt == dt given (bit-for-bit)'
TWIN = 'purity.twin-objects+caller-array'
STATE = 'state.first-result-intact'
THIRD = 'state.f(A);f(B);f(A)-third==first'
FRESH = 'history.series==fresh-object(values,dt)'
PROTO = 'purity.copy/deepcopy/pickle-independent'
SHORT = 'short-record(n<=2).series==defining-quadrature'
OVERWRITE = 'ownership.results-overwritten-then-same-call==first'


def _mins(f, cd, rel, pad, pur, twin, state, derived, ctor, fresh, proto, third, short, over):
    m = {}
    for k in ('arias', 'cav', 'isv', 'abs_acc', 'abs_vel', 'cad', 'uke'):
        m[FINAL_CLAUSE[k]] = f
        m[k + '.length'] = f
        m[k + '.monotone'] = f
    m.update({'cavdp.final==windows+-panel': int(cd * 0.4), 'cavdp.zero-when-no-window-qualifies': int(cd * 0.09),
              'cavdp.in[0,CAV/g]': int(cd * 0.5), 'cavdp.monotone': int(cd * 0.5), 'cavdp.length': int(cd * 0.5),
              'cavdp.gate-decided-exactly': int(cd * 0.06),
              'relation.sign': rel, 'relation.scale.pow2': rel, 'relation.scale.random': rel, 'relation.zero-pad': pad,
              PURITY: pur, OWNS: pur, TWIN: twin, STATE: state, DERIVED: derived, DT_KEPT: ctor,
              FRESH: fresh, PROTO: proto, THIRD: third, SHORT: short, OVERWRITE: over})
    return m


# about 50% of what a normal run reaches
MIN_EVALS = {'quick': _mins(5500, 1600, 8000, 1500, 45000, 120, 900, 150, 8000, 19000, 160, 900, 16000, 1800),
             'thorough': _mins(110000, 27000, 160000, 30000, 900000, 2400, 18000, 3000, 160000, 380000, 3300, 18000, 260000, 36000)}


def _sig(args, kwargs):
    return args[0] if args else next(iter(kwargs.values()))


# scenario being driven (so that a witness taken inside it can be replayed from fresh objects)
SCEN = {'cur': None}


def _scen():
    s = SCEN['cur']
    if s is None:
        return None
    d = dict(s)
    if 'ops' in d:
        d['ops'] = list(d['ops'])
    return d


def _wit(key, acc, dt, **kw):
    d = {'fn': FN[key], 'acc': np.asarray(acc), 'dt': float(dt)}
    sc = _scen()
    if sc is not None:
        d['scenario'] = sc
    d.update(kw)
    return d


def _prec(acc_in, n):
    """(rtol, unit round-off) the record's dtype allows."""
    if np.asarray(acc_in).dtype == np.float32:
        return (n + 10) * EPS32, EPS32
    return RTOL, Q.EPS


def _underflow(acc_in, n, dt):
    """Absolute floor for float32 records: squares and products below the smallest normal float32 lose up to that
    much each (micro-amplitude records with tiny dt)."""
    if np.asarray(acc_in).dtype == np.float32:
        return 4 * (n + 1) * TINY32 * max(1.0, dt)
    return 0.0


_VEL = {'key': None, 'val': None}


def _velocity(acc, dt, eps):
    """Oracle velocity of the record, computed from (values, dt) only - never from the object's cached series, which
    an earlier call on the same object may have altered. Returns (v list, rounding bound, sum |v|)."""
    key = (acc.tobytes(), dt, eps)
    if _VEL['key'] != key:
        v, err = Q.velocity(acc.tolist(), dt, eps)
        _VEL['key'], _VEL['val'] = key, (v, err, sum(abs(x) for x in v))
    return _VEL['val']


def _real_record(acc_in):
    """float64 values of the record, or None for a complex-typed record: the statement's integrals of a^2, |a|, v^2
    are defined for real records only, so complex-typed records (e.g. the raw output of fas2signal) are counted, not
    judged; a user analyses their real part (which the derived-object workload does)."""
    a = np.asarray(acc_in)
    if a.dtype.kind == 'c':
        return None
    return np.asarray(a, dtype=float)


SIDE = {}      # 'abs_acc' / 'abs_vel' / 'cad' -> the rectangle rules ('all', 'left', 'right') the tree under test uses
PROBES = [([1.0, -2.0, 4.0], 1.0), ([3.0, 0.5, -0.25, 2.0, 5.0], 0.25), ([-0.5, 8.0, 1.0, 1.0], 2.0)]


def _probe_sides(eqsig):
    """"rectangle sums" does not say which samples are counted (all / left / right), but it is ONE rule for every record:
    the rule(s) that reproduce the tree's results on three exactly representable records of 3-5 samples, where the three
    sums differ, are the ones every record - the one- and two-sample records included - is judged with. No rule fits all
    probes (or a probe raises): nothing is narrowed; the final-value clauses of ordinary records decide."""
    SIDE.clear()
    with attach.paused():
        for key in ('abs_acc', 'abs_vel', 'cad'):
            fit = {'all', 'left', 'right'}
            try:
                for rec, h in PROBES:
                    got = float(np.asarray(getattr(eqsig.im, FN[key])(eqsig.AccSignal(np.array(rec), h)), dtype=float)[-1])
                    y = rec if key == 'abs_acc' else Q.velocity(rec, h)[0]
                    fit &= {side for side, ref in Q.rectangle_finals(y, h).items() if abs(got - ref) <= 1e-12 * abs(ref)}
            except Exception:
                fit = set()
            if fit:
                SIDE[key] = fit


def _rect_refs(key, finals):
    return sorted(set(finals[side] for side in (SIDE.get(key) or finals)))


def _shape_clauses(ctx, key, acc, dt, result, n):
    """length and monotonicity; returns the series as float array, or None when there is no final value to judge."""
    try:
        r = np.asarray(result)
        r = np.asarray(r, dtype=float) if r.dtype.kind != 'c' else np.zeros((0, 0))     # a complex series for a real record
    except Exception:
        r = np.zeros((0, 0))
    ctx.check(r.ndim == 1 and r.shape[0] == n, key + '.length', lambda: _wit(key, acc, dt, got_shape=list(r.shape)),
              '%s returned shape %s for a record of %d samples' % (FN[key], r.shape, n))
    if r.ndim != 1 or r.shape[0] == 0:
        return None
    mono = bool(np.all(np.isfinite(r))) and (r.shape[0] < 2 or bool(np.all(np.diff(r) >= 0)))
    if mono:
        ctx.ok(key + '.monotone')
    else:
        step = float(np.min(np.diff(r))) if r.shape[0] > 1 else None
        ctx.violation(key + '.monotone', _wit(key, acc, dt, min_step=step),
                      '%s series is not finite and non-decreasing (min step %r) for a %s record of %d samples'
                      % (FN[key], step, np.asarray(acc).dtype, n))
    return r    # the final value of a wrong-length (non-empty) series is still judged


def check_quadrature(ctx, key, acc_in, dt, result):
    """Post-condition of the seven quadrature-defined measures; acc_in, dt = the object's values and step at call
    entry. Everything expected is derived from these two alone."""
    acc = _real_record(acc_in)
    if acc is None:
        ctx.observe('complex-typed record (not judged)')
        return
    n = acc.shape[0] if acc.ndim == 1 else 0
    if n < 1 or not np.all(np.isfinite(acc)) or not (dt > 0):
        ctx.observe('out-of-domain-call(empty/NaN/dt<=0)')
        return
    r = _shape_clauses(ctx, key, acc_in, dt, result, n)
    if r is None:
        return
    rtol, eps = _prec(acc_in, n)
    got = float(r[-1])
    atol = 0.0
    floor32 = _underflow(acc_in, n, dt)
    if key == 'arias':
        refs = [Q.arias_final(acc.tolist(), dt)]
    elif key == 'cav':
        refs = [Q.cav_final(acc.tolist(), dt)]
    elif key == 'abs_acc':
        refs = _rect_refs(key, Q.rectangle_finals(acc.tolist(), dt))
    else:
        v, verr, sumabs_v = _velocity(acc, dt, eps)
        if key == 'isv':
            refs = [Q.isv_final(v, dt)]
            atol = 2 * verr * sumabs_v * dt
        elif key in ('abs_vel', 'cad'):
            refs = _rect_refs(key, Q.rectangle_finals(v, dt))
            atol = verr * n * dt
        else:
            ref, sumabs_k = Q.unit_kinetic_energy_final(v)
            refs = [ref]
            atol = 8 * eps * sumabs_k + 2 * verr * sumabs_v
    atol += floor32 + 8 * n * 5e-324          # a few subnormal quanta per term (records at 1e-300)
    okk = np.isfinite(got) and any(abs(got - ref) <= atol + rtol * abs(ref) for ref in refs)
    ctx.check(okk, FINAL_CLAUSE[key], lambda: _wit(key, acc_in, dt, got_final=got, expected=refs, atol=atol, rtol=rtol),
              '%s final value %r, defining quadrature of the record gives %r (n=%d dt=%r dtype=%s%s)'
              % (FN[key], got, refs, n, dt, np.asarray(acc_in).dtype,
                 ', step %d of a %s scenario' % (len(SCEN['cur'].get('ops', [])), SCEN['cur']['kind']) if SCEN['cur'] else ''))
    if n <= 2:
        # the degenerate records counted on their own: a one-sample record spans no trapezoid panel (Arias, CAV, ISV, unit
        # kinetic energy and - because v[0] = 0 - the |v| sums are 0) but it does hold one rectangle: int|a| = |a0|*dt under
        # the every-sample rule the tree uses on longer records
        ctx.check(okk and r.shape[0] == n, SHORT,
                  lambda: _wit(key, acc_in, dt, got_final=got, got_shape=list(r.shape), expected=refs, atol=atol, rtol=rtol,
                               rectangle_side=sorted(SIDE.get(key) or [])),
                  '%s on a record of %d sample(s) %r (dt=%r, %s): series %r, defining quadrature gives a final value of %r%s'
                  % (FN[key], n, acc.tolist(), dt, np.asarray(acc_in).dtype, r.tolist()[:4], refs,
                     ' (rectangle rule of the longer records: %s)' % '/'.join(sorted(SIDE[key])) if SIDE.get(key) else ''))


def cavdp_in_quantifier(acc, dt):
    """(inside, pps): 1/dt an integer up to rounding, finite record spanning at least two seconds."""
    n = acc.shape[0] if acc.ndim == 1 else 0
    in_dom, pps = Q.samples_per_second(dt) if dt > 0 else (False, 0)
    return bool(n >= 1 and np.all(np.isfinite(acc)) and in_dom and (n - 1) >= 2 * pps), pps


def check_cav_dp(ctx, acc_in, dt, result):
    acc = _real_record(acc_in)
    if acc is None:
        ctx.observe('complex-typed record (not judged)')
        return
    n = acc.shape[0] if acc.ndim == 1 else 0
    inside, pps = cavdp_in_quantifier(acc, dt)
    if not inside:
        ctx.observe('cavdp.out-of-quantifier-call')
        return
    exact = bool(HINT['exact_g']) and bool(np.all((acc / G) * G == acc))
    r = _shape_clauses(ctx, 'cavdp', acc_in, dt, result, n)
    if r is None:
        return
    rtol, eps = _prec(acc_in, n)
    got = float(r[-1])
    a = acc.tolist()
    wins = Q.cav_dp_windows(a, dt, pps, exact_g=exact, eps=eps)
    cav_g = Q.cav_final(a, dt) / G
    wit = lambda: _wit('cavdp', acc_in, dt, exact_g=exact, got_final=got, cav_over_g=cav_g, pps=pps,
                       windows=[(w['w'], w['status'], w['max_g'], w['integral'], w['panel']) for w in wins][:64])
    ctx.check(np.isfinite(got) and 0.0 <= got <= cav_g * (1 + rtol), 'cavdp.in[0,CAV/g]', wit,
              'CAVdp final %r outside [0, CAV/9.81 = %r]' % (got, cav_g))
    live = [w for w in wins if w['status'] != 'out']
    if any(w['status'] == 'ambiguous' for w in wins):
        ctx.observe('cavdp.case-with-ambiguous-window(either side accepted)')
    if exact and any(abs(w['max_g'] - Q.GATE_G) <= 4 * Q.EPS * Q.GATE_G for w in wins):
        ctx.ok('cavdp.gate-decided-exactly')      # counts the cases in which >= vs > at the gate is decidable
    if not live:
        ctx.check(got == 0.0, 'cavdp.zero-when-no-window-qualifies', wit,
                  'CAVdp final %r although no one-second window reaches 0.025 g (largest window max %r g)'
                  % (got, max(w['max_g'] for w in wins)))
        return
    adm = Q.cav_dp_admissible(wins)
    okk = np.isfinite(got) and any(abs(got - e) <= al + rtol * e for e, al in adm)
    e0, a0 = adm[-1]
    ctx.check(okk, 'cavdp.final==windows+-panel', wit,
              'CAVdp final %r, sum over qualifying windows %r +- %r (one panel per window), %d windows (%d in, %d ambiguous), '
              'dt=%r n=%d dtype=%s' % (got, e0, a0, len(wins), sum(w['status'] == 'in' for w in wins),
                                       sum(w['status'] == 'ambiguous' for w in wins), dt, n, np.asarray(acc_in).dtype))


def _bytes_equal(a, b):
    a, b = np.asarray(a), np.asarray(b)
    return a.dtype == b.dtype and a.shape == b.shape and a.tobytes() == b.tobytes()


LAZY = ('_velocity', '_displacement', '_cached_disp_and_velo')      # a measure may fill this cache, never change it


def _snap_value(v):
    if isinstance(v, np.ndarray):
        return np.array(v, copy=True)
    try:
        return copy.deepcopy(v)
    except Exception:
        return v


def _same(a, b):
    if isinstance(a, np.ndarray) or isinstance(b, np.ndarray):
        return isinstance(a, np.ndarray) and isinstance(b, np.ndarray) and _bytes_equal(a, b)
    try:
        return type(a) is type(b) and bool(a == b)
    except Exception:
        return a is b


GIVEN_DT = weakref.WeakKeyDictionary()      # signal object -> the dt its constructor was given (the caller's step)
GIVEN_DT_ARRAY = weakref.WeakKeyDictionary()    # signal object -> the caller's own 0-d step array (mutable: `dt /= 2` reaches it)


def _post_init(args, kwargs, result, pre):
    """Signal.__init__(self, values, dt, ...): the object must hold exactly the step it was given; the defining
    integrals of every later measure on this object are evaluated with THAT step, not with what the object stores."""
    self = args[0]
    given = args[2] if len(args) > 2 else kwargs.get('dt')
    try:
        g = float(given)
    except Exception:
        return
    if not (g > 0) or not np.isfinite(g):
        return
    try:
        GIVEN_DT[self] = g
        if isinstance(given, np.ndarray):
            GIVEN_DT_ARRAY[self] = given
    except TypeError:
        pass
    try:
        kept = float(self.dt).hex() == g.hex() and type(self.dt) is type(given)
        if isinstance(given, np.ndarray):
            kept = kept and self.dt.dtype == given.dtype and self.dt.shape == given.shape
    except Exception:
        kept = False
    if kept:
        CTX.ok(DT_KEPT)
    else:
        vals = np.asarray(self.values)
        CTX.violation(DT_KEPT, {'fn': 'constructor', 'sigcls': type(self).__name__, 'acc': vals[:64], 'dt': g,
                                'dt_kind': _dt_kind(given), 'stored': repr(self.dt)},
                      '%s(values, dt=%r) stores dt=%r' % (type(self).__name__, given, self.dt))


def _caller_dt(asig):
    try:
        return GIVEN_DT.get(asig, float(asig.dt))
    except TypeError:
        return float(asig.dt)


def _pre(args, kwargs):
    """Snapshot of the object at call entry: the post-condition is judged against what the function was given,
    whatever the call (or an earlier one) did to the object; the purity clause compares the whole instance state."""
    asig = _sig(args, kwargs)
    try:
        given = GIVEN_DT_ARRAY.get(asig)
    except TypeError:
        given = None
    return {'obj': asig, 'acc': np.array(asig.values, copy=True), 'dt': _caller_dt(asig),
            'state': {k: _snap_value(v) for k, v in vars(asig).items()},
            'dt_array': None if given is None else (given, np.array(given, copy=True))}


def check_purity(ctx, key, snap, result):
    asig = snap['obj']
    before, now = snap['state'], vars(asig)
    warm = bool(before.get('_cached_disp_and_velo', False))
    changed = []
    for k in sorted(set(before) | set(now)):
        if k in LAZY and not warm:
            continue
        if k not in before or k not in now or not _same(before[k], now[k]):
            changed.append(k)
    if not _bytes_equal(asig.values, snap['acc']):
        changed.append('values')
    if snap.get('dt_array') is not None and not _bytes_equal(*snap['dt_array']):
        changed.append("the caller's own 0-d step array (%r -> %r)" % (snap['dt_array'][1], snap['dt_array'][0]))
    if not changed:
        ctx.ok(PURITY)
    else:
        ctx.violation(PURITY, _wit(key, snap['acc'], snap['dt'], changed=changed),
                      '%s changed the state of the signal object it was given: %s (n=%d)'
                      % (FN[key], ', '.join(changed), len(snap['acc'])))
    res = np.asarray(result)
    alias = [k for k, v in now.items() if isinstance(v, np.ndarray) and v.size and res.size and np.may_share_memory(res, v)]
    if not alias:
        ctx.ok(OWNS)
    else:
        ctx.violation(OWNS, _wit(key, snap['acc'], snap['dt'], aliases=alias),
                      '%s returned an array sharing memory with %s of the signal object' % (FN[key], ', '.join(alias)))


def _mk_post(key):
    def post(args, kwargs, result, pre):
        if key == 'cavdp':
            check_cav_dp(CTX, pre['acc'], pre['dt'], result)
        else:
            check_quadrature(CTX, key, pre['acc'], pre['dt'], result)
        check_purity(CTX, key, pre, result)
    return post


def install(ctx):
    global CTX
    CTX = ctx
    import eqsig
    for key, name in FN.items():
        attach.wrap(eqsig.im, name, _mk_post(key), pre=_pre)
    attach.wrap_method(eqsig.Signal, '__init__', _post_init)
    _probe_sides(eqsig)


# ---------------------------------------------------------------------------------------------------- histories
QUAD_KEYS = ['arias', 'cav', 'isv', 'abs_acc', 'abs_vel', 'cad', 'uke']
ACC_KEYS = ['arias', 'cav', 'abs_acc']              # need only values and dt: also valid on eqsig.Signal
SQUARE_LAW = ('arias', 'isv', 'uke')
PAD_KEYS = ('arias', 'cav', 'abs_acc')
METHODS = ('remove_average', 'remove_poly', 'rebase_displacement', 'set_zero_residual_velocity',
           'set_zero_residual_displacement', 'generate_displacement_and_velocity_series')


DT_FORMS = {'float': float, 'np.float64': np.float64, 'np.float32': np.float32, 'np.float16': np.float16, 'int': int,
            'np.int64': np.int64, 'np.bool_': np.bool_, 'bool': bool,
            '0d-f64': lambda v: np.array(float(v)), '0d-f32': lambda v: np.array(float(v), dtype=np.float32),
            '0d-i64': lambda v: np.array(int(v)), '0d-bool': lambda v: np.array(bool(v))}
INT_LIKE_FORMS = ('int', 'np.int64', '0d-i64')          # whole-number steps
BOOL_FORMS = ('np.bool_', 'bool', '0d-bool')            # only the step 1 (True)
ANY_VALUE_FORMS = ('np.float64', '0d-f64')              # hold every double
F32_FORMS = ('np.float32', '0d-f32')


def _mk_dt(dt, kind):
    return DT_FORMS.get(kind, float)(dt)


def same_value_form(rng, dt):
    """The step dt (a Python float) in another scalar form that holds EXACTLY the same number: np.float64 / 0-d float64
    array always; np.float32 / 0-d float32 array when dt is a float32 number; int / np.int64 / 0-d int64 array when it is
    whole; True / np.True_ / 0-d bool array when it is 1."""
    d = float(dt)
    forms = list(ANY_VALUE_FORMS)
    if float(np.float32(d)) == d:
        forms += list(F32_FORMS)
    if d == int(d) and 1 <= d < 2 ** 31:
        forms += list(INT_LIKE_FORMS) * 2
    if d == 1.0:
        forms += list(BOOL_FORMS) * 2
    return _mk_dt(d, forms[int(rng.integers(len(forms)))])


def new_scalar_form(rng, dt):
    """A step in one of the scalar forms added in round 5 (value changed where the form needs it: whole steps 1, 2, 5 for
    the integer forms, 1 for the boolean ones, the float32 neighbour for the 0-d float32 array)."""
    kind = ['np.int64', '0d-i64', 'np.bool_', 'bool', '0d-bool', '0d-f64', '0d-f64', '0d-f32'][int(rng.integers(8))]
    if kind in INT_LIKE_FORMS:
        return _mk_dt(int(rng.choice([1, 2, 5])), kind)
    if kind in BOOL_FORMS:
        return _mk_dt(1, kind)
    return _mk_dt(float(dt), kind)


def _dt_kind(dt):
    if isinstance(dt, np.ndarray):
        return {'f': '0d-f32' if dt.dtype == np.float32 else '0d-f64', 'b': '0d-bool'}.get(dt.dtype.kind, '0d-i64')
    if isinstance(dt, np.bool_):
        return 'np.bool_'
    if isinstance(dt, bool):
        return 'bool'
    if isinstance(dt, np.float16):
        return 'np.float16'
    if isinstance(dt, np.integer):
        return 'np.int64'
    if isinstance(dt, np.float32):
        return 'np.float32'
    if isinstance(dt, np.float64):
        return 'np.float64'
    if isinstance(dt, (int, np.integer)) and not isinstance(dt, bool):
        return 'int'
    return 'float'


def _twin_dt(asig):
    """The caller's step in the form the object holds it (float / np.float32 ...), for building a fresh object."""
    g = _caller_dt(asig)
    try:
        if float(asig.dt).hex() == float(g).hex():
            return np.array(asig.dt, copy=True) if isinstance(asig.dt, np.ndarray) else asig.dt
    except Exception:
        pass
    return g


def _record_in_domain(values):
    try:
        a = np.asarray(values)
        return bool(a.dtype.kind in 'fiub' and a.ndim == 1 and a.shape[0] >= 1 and np.all(np.isfinite(a.astype(float))))
    except Exception:
        return False


def _fresh_compare(ctx, eqsig, asig, key, acc0, dt_obj, series):
    """The series just returned for an object with a history (mutators, assignments through attribute names, refused
    operations, copies) against the same measure of a FRESH object built from the values the object showed at call
    entry and the caller's step: the measures are functions of (record, dt) only."""
    if not _record_in_domain(acc0):
        return
    try:
        dtf = float(dt_obj)
    except Exception:
        return
    acc = np.asarray(acc0, dtype=float)
    n = acc.shape[0]
    if not (dtf > 0) or (key == 'cavdp' and not cavdp_in_quantifier(acc, dtf)[0]):
        return
    cls_name = type(asig).__name__ if type(asig).__name__ in ('AccSignal', 'Signal') else 'AccSignal'
    try:
        with attach.paused():
            f_sig = getattr(eqsig, cls_name)(np.array(acc0, copy=True), dt_obj)
            f = np.asarray(getattr(eqsig.im, FN[key])(f_sig), dtype=float)
    except Exception:
        ctx.observe('fresh-object-raised(not judged)')
        return
    if f.ndim != 1 or f.shape[0] == 0 or not np.all(np.isfinite(f)):
        ctx.observe('fresh-object-series-not-finite(not judged)')
        return
    s = np.asarray(series, dtype=float)
    rtol = _prec(acc0, n)[0]
    tol = rtol * abs(float(f[-1])) + _underflow(acc0, n, dtf) + 8 * n * 5e-324
    okk = s.shape == f.shape and bool(np.all(np.abs(s - f) <= tol))
    worst = float(np.max(np.abs(s - f))) if s.shape == f.shape else None
    ctx.check(okk, FRESH, lambda: _wit(key, acc0, dtf, got_shape=list(s.shape), fresh_shape=list(f.shape), max_abs_diff=worst,
                                       fresh_final=float(f[-1]), tol=tol),
              '%s on an object with a history: shape %s, a fresh %s of the values it shows (n=%d, dt=%r) gives shape %s, '
              'largest difference %r (final %r)%s'
              % (FN[key], s.shape, cls_name, n, dtf, f.shape, worst, float(f[-1]),
                 ', step %d of a %s scenario' % (len(SCEN['cur'].get('ops', [])), SCEN['cur']['kind']) if SCEN['cur'] else ''))


VALUE_FORMS = ('array', 'list', 'tuple', 'f32', 'view', 'readonly')
FLAG_FORMS = {'True': lambda: True, 'np.True_': lambda: np.True_, '0d-bool': lambda: np.array(True), '1': lambda: 1,
              'np.int64(1)': lambda: np.int64(1)}
FLAG_KINDS = sorted(FLAG_FORMS)


def _as_form(y, form):
    y = np.asarray(y)
    if form == 'list':
        return y.tolist()
    if form == 'tuple':
        return tuple(y.tolist())
    if form == 'f32':
        return y.astype(np.float32)
    if form == 'view':
        buf = np.empty(2 * y.size, dtype=y.dtype)
        buf[::2] = y
        buf[1::2] = -7
        return buf[::2]
    if form == 'readonly':
        c = np.array(y, copy=True)
        c.flags.writeable = False
        return c
    return np.array(y, copy=True)


def _assigned_values(asig, expr, arg, form):
    """What the user assigns to `asig.values`: a given container, or an expression of the object's current values."""
    if expr == 'given':
        return arg
    cur = np.asarray(asig.values)
    if expr == 'pad':
        y = np.append(cur, np.zeros(int(arg)))
    elif expr == 'prepad':
        y = np.append(np.zeros(int(arg)), cur)
    elif expr == 'scale':
        y = cur * arg
    elif expr == 'neg':
        y = -cur
    elif expr == 'head':
        y = cur[:max(1, int(arg))]
    elif expr == 'tail':
        y = cur[-max(1, int(arg)):]
    elif expr == 'every-other':
        return cur[::2] if form == 'array' else _as_form(cur[::2], form)      # 'array': a strided view of the object's own buffer
    elif expr == 'self':
        return asig.values if form == 'array' else _as_form(cur, form)         # the object's own buffer handed back
    else:
        raise ValueError(expr)
    return _as_form(y, form)


def _apply(ctx, eqsig, asig, op, out, exact=False):
    """One operation on one object: ['call', key(, 'kw')] (monitored measure), ['stats'] (deprecated object entry point
    calling arias + cav), ['read', attr], ['add_constant', c], ['reset_values', array], ['butter_pass', [lo, hi]],
    ['method', name, [args]], ['assign_values', expr, arg, form] (asig.values = ...), ['set_attr', name, value]
    (asig.<name> = value), ['add_series', array], ['add_signal', array or None, dt factor]."""
    kind = op[0]
    label = kind
    try:
        if kind == 'call':
            key = op[1]
            out[key] = None
            f = getattr(eqsig.im, FN[key])
            twin = bool(SCEN['cur'] and SCEN['cur'].get('twin'))
            if twin:
                acc0, dt_obj = np.array(asig.values, copy=True), _twin_dt(asig)
            r = f(**{PARAM[key]: asig}) if len(op) > 2 and op[2] == 'kw' else f(asig)
            out[key] = np.asarray(r, dtype=float)
            if twin:
                _fresh_compare(ctx, eqsig, asig, key, acc0, dt_obj, out[key])
            return r
        if kind == 'stats':
            acc0, dt0 = np.array(asig.values, copy=True), _caller_dt(asig)
            asig.generate_cumulative_stats()
            ctx.observe('object.generate_cumulative_stats-call')
            rec = _real_record(acc0)
            if rec is not None and rec.size:
                rtol = _prec(acc0, rec.size)[0]
                under = _underflow(acc0, rec.size, dt0)
                for k2, attr, ref in (('arias', 'arias_intensity', Q.arias_final(rec.tolist(), dt0)),
                                      ('cav', 'cav', Q.cav_final(rec.tolist(), dt0))):
                    got = float(np.real(getattr(asig, attr)))
                    ctx.check(abs(got - ref) <= under + rtol * abs(ref), FINAL_CLAUSE[k2],
                              lambda: _wit(k2, acc0, dt0, via='generate_cumulative_stats', attribute=attr, got_final=got, expected=ref),
                              'AccSignal.%s = %r after generate_cumulative_stats(), defining quadrature gives %r' % (attr, got, ref))
        elif kind == 'read':
            getattr(asig, op[1])
        elif kind == 'add_constant':
            asig.add_constant(op[1])
        elif kind == 'reset_values':
            asig.reset_values(op[1])
        elif kind == 'butter_pass':
            asig.butter_pass(op[1] if not isinstance(op[1], list) else tuple(op[1]))
        elif kind == 'method' and op[1] in METHODS:
            label = op[1]
            getattr(asig, op[1])(*op[2])
        elif kind == 'regen_velocity':
            # generate_displacement_and_velocity_series(trap=<true in some form>): every true flag asks for the trapezoid rule
            label = 'regen_velocity(trap=%s)' % op[1]
            asig.generate_displacement_and_velocity_series(trap=FLAG_FORMS[op[1]]())
        elif kind == 'assign_values':
            label = 'assign_values.' + op[1]
            before = np.array(asig.values, copy=True)
            asig.values = _assigned_values(asig, op[1], op[2], op[3])
            now = np.asarray(asig.values)
            ctx.observe('assign_values:' + ('record-as-before(ignored or same)' if _bytes_equal(now, before) else 'record-changed'))
        elif kind == 'set_attr':
            label = 'set_attr.' + op[1]
            if op[1] == 'dt':
                old, value = asig.dt, op[2]
                asig.dt = value                      # no setter in the clean tree: raises
                new = asig.dt
                same_old = type(new) is type(old) and float(new).hex() == float(old).hex()
                same_new = type(new) is type(value) and float(new).hex() == float(value).hex()
                ctx.check(same_old or same_new, DT_KEPT, lambda: _wit('cav', asig.values, float(value), assigned=repr(value), stored=repr(new)),
                          'after `sig.dt = %r` on an object with dt %r the object holds %r (neither of them)' % (value, old, new))
                if same_new and not same_old:
                    try:
                        GIVEN_DT[asig] = float(value)        # an accepted assignment: this is the caller's step from now on
                    except TypeError:
                        pass
            else:
                setattr(asig, op[1], op[2])
        elif kind == 'add_series':
            asig.add_series(op[1])
        elif kind == 'add_signal':
            other = None if op[1] is None else eqsig.Signal(op[1], _twin_dt(asig) * op[2])
            asig.add_signal(other)
        else:
            raise ValueError(kind)
        if kind != 'stats':
            ctx.observe('history.' + label)
    except Exception as e:
        if kind == 'call' and np.asarray(asig.values).dtype.kind == 'c':
            ctx.observe('complex-typed record (not judged)')
        elif kind == 'call' and not _record_in_domain(asig.values):
            ctx.observe('out-of-domain-call-raised(empty/NaN/not 1-d)')
        elif kind == 'call' and op[1] == 'cavdp' and isinstance(asig.dt, np.float16) and isinstance(e, (ValueError, OverflowError)) \
                and ('NaN' in str(e) or 'infinity' in str(e)):
            # round(1 / np.float16(0.5), 6) forms 2e6 in half precision -> inf -> nan: ruled outside the quantifier (a half-precision step is no time step of the statement; float16 stays probe-only as in C08)
            ctx.observe('ruled outside the quantifier: half-precision (float16) time step, calc_cav_dp raises')
        elif kind == 'call' and op[1] == 'cavdp' and not cavdp_in_quantifier(np.real(np.asarray(asig.values)).astype(float), _caller_dt(asig))[0]:
            ctx.observe('cavdp.out-of-quantifier-call-raised')      # e.g. after a shorter reset: under 2 s
        elif kind == 'call':
            clause = 'cavdp.final==windows+-panel' if op[1] == 'cavdp' else op[1] + '.length'
            ctx.exception(clause, _wit(op[1], asig.values, asig.dt, exact_g=bool(exact)), e)
        elif kind == 'stats':
            ctx.exception('arias.length', _wit('arias', asig.values, asig.dt), e)
        else:
            ctx.observe('history.%s-raised(not judged by C09)' % label)
    return None


def run_history(ctx, eqsig, values, dt, ops, exact=False, sigcls='AccSignal', twin=False):
    """Drive ONE signal object through a sequence of operations (see _apply). Every monitored call is judged by its
    normal post-condition against the object's values at that moment; with twin=True every returned series is also
    compared with the series of a fresh object built from those values. Returns {key: last series returned (or None)}."""
    out = {}
    asig = getattr(eqsig, sigcls)(values, dt)
    SCEN['cur'] = {'kind': 'history', 'acc0': np.array(values), 'dt': float(dt), 'dt_kind': _dt_kind(dt), 'ops': [],
                   'sigcls': sigcls, 'exact_g': bool(exact), 'twin': bool(twin)}
    HINT['exact_g'] = bool(exact)
    try:
        for op in ops:
            SCEN['cur']['ops'].append(op)
            _apply(ctx, eqsig, asig, op, out, exact)
    finally:
        SCEN['cur'] = None
        HINT['exact_g'] = False
    return out


def measure(ctx, eqsig, values, dt, keys=QUAD_KEYS, via_object=False, kw=False):
    """All measures in a fixed order on one fresh AccSignal; returns {key: series or None}."""
    ops = ([['stats']] if via_object else []) + [['call', k] + (['kw'] if kw else []) for k in keys]
    out = run_history(ctx, eqsig, values, dt, ops)
    return {k: out.get(k) for k in keys}


def twin_case(ctx, eqsig, x, dt, ops):
    """A and B built from the same caller array, C from A.values; A is driven through `ops` (mutators + measures);
    afterwards the caller array, B, C and every measure of B and C must be bit-for-bit what they were before."""
    x0 = np.array(x, copy=True)
    SCEN['cur'] = {'kind': 'twin', 'acc0': x0, 'dt': float(dt), 'dt_kind': _dt_kind(dt), 'ops': [], 'twin': True}
    # arrays the caller hands to A later on (reset_values, `A.values = y`, add_series): they stay the caller's
    handed = [(op[0], arr, np.array(arr, copy=True)) for op in ops
              for arr in ([op[1]] if op[0] in ('reset_values', 'add_series') else [op[2]] if op[0] == 'assign_values' and op[1] == 'given' else [])
              if isinstance(arr, np.ndarray)]
    try:
        a_sig = eqsig.AccSignal(x, dt)
        b_sig = eqsig.AccSignal(x, dt)
        c_sig = eqsig.AccSignal(a_sig.values, dt)
        before = {}
        _ = [_apply(ctx, eqsig, b_sig, ['call', k], before) for k in QUAD_KEYS]
        before = {k: (None if v is None else v.copy()) for k, v in before.items()}
        out = {}
        for op in ops:
            SCEN['cur']['ops'].append(op)
            _apply(ctx, eqsig, a_sig, op, out)
        bad = []
        if not _bytes_equal(x, x0):
            bad.append('caller array')
        if not _bytes_equal(b_sig.values, x0):
            bad.append('values of the twin built from the same array')
        if not _bytes_equal(c_sig.values, x0):
            bad.append('values of the twin built from A.values')
        for kind_h, arr, arr0 in handed:
            if not _bytes_equal(arr, arr0):
                bad.append('caller array handed to A by %s' % kind_h)
                break
        for name, obj in (('B', b_sig), ('C', c_sig)):
            after = {}
            _ = [_apply(ctx, eqsig, obj, ['call', k], after) for k in QUAD_KEYS]
            for k in QUAD_KEYS:
                if before[k] is None or after[k] is None or not _bytes_equal(before[k], after[k]):
                    bad.append('%s of twin %s' % (FN[k], name))
        ctx.check(not bad, TWIN, lambda: {'fn': 'twin', 'acc': x0, 'dt': float(dt), 'scenario': _scen(), 'changed': bad},
                  'after mutating and measuring one AccSignal, changed: %s' % ', '.join(bad))
    finally:
        SCEN['cur'] = None


def back_to_back(ctx, eqsig, x1, x2, dt, keys, kw=False, third='same'):
    """f(A); f(B); f(A): each measure on two different records (same recipe; same or different length), the first
    result still held. After the second call the first result must be bit-for-bit what was returned and share no
    memory with the second; the third call - on the same object A (third='same') or on a new object built from the
    same record (third='fresh') - must return bit-for-bit the first result: a result depends on the arguments only."""
    SCEN['cur'] = {'kind': 'back2back', 'acc0': np.array(x1), 'acc2': np.array(x2), 'dt': float(dt), 'dt_kind': _dt_kind(dt),
                   'keys': list(keys), 'kw': bool(kw), 'third': third}
    try:
        s1, s2 = eqsig.AccSignal(x1, dt), eqsig.AccSignal(x2, dt)
        for key in keys:
            op = ['call', key] + (['kw'] if kw else [])
            r1 = _apply(ctx, eqsig, s1, op, {})
            if r1 is None:
                continue
            c1 = np.array(r1, copy=True)
            r2 = _apply(ctx, eqsig, s2, op, {})
            if r2 is None:
                continue
            okk = _bytes_equal(r1, c1) and not np.shares_memory(np.asarray(r1), np.asarray(r2))
            ctx.check(okk, STATE, lambda: {'fn': 'back2back', 'acc': np.array(x1), 'dt': float(dt), 'scenario': _scen(),
                                           'measure': key},
                      '%s: result for the first record changed (or shares memory) after the call on a second record '
                      '(n=%d, second n=%d)' % (FN[key], len(x1), len(x2)))
            s3 = s1 if third == 'same' else eqsig.AccSignal(np.array(x1, copy=True), dt)
            r3 = _apply(ctx, eqsig, s3, op, {})
            if r3 is None:
                continue
            ctx.check(_bytes_equal(np.asarray(r3), c1), THIRD,
                      lambda: {'fn': 'back2back', 'acc': np.array(x1), 'dt': float(dt), 'scenario': _scen(), 'measure': key},
                      '%s: f(A); f(B); f(A) - the third result differs from the first (A n=%d, B n=%d, third on %s object)'
                      % (FN[key], len(x1), len(x2), 'the same' if third == 'same' else 'a new'))
            # a result belongs to the caller: every array handed out so far is overwritten (the user scales a series in
            # place, reuses it as a work buffer); the same call on the same object and on a new object built from the same
            # record must still return the first value
            locked = 0
            for r in (r1, r2, r3):
                try:
                    np.asarray(r)[...] = -7.5
                except ValueError:
                    locked += 1
            if locked:
                ctx.observe('result-array-read-only(not overwritten)')
            for where, s4 in (('the same', s1), ('a new', eqsig.AccSignal(np.array(x1, copy=True), dt))):
                r4 = _apply(ctx, eqsig, s4, op, {})
                if r4 is None:
                    continue
                ctx.check(_bytes_equal(np.asarray(r4), c1), OVERWRITE,
                          lambda: {'fn': 'back2back', 'acc': np.array(x1), 'dt': float(dt), 'scenario': _scen(), 'measure': key},
                          '%s: after every earlier result array was overwritten in place by the caller, the same call on %s '
                          'object differs from the first result (n=%d)' % (FN[key], where, len(x1)))
    finally:
        SCEN['cur'] = None


def ctx_rng_bit(x):
    """deterministic coin from the record (keeps replay identical)"""
    return bool(int(np.asarray(x).shape[0]) % 2)


DERIVATIONS = ('deepcopy+reset', 'deepcopy+add', 'interp', 'resample', 'combine', 'cluster', 'fas2signal')


def derived_case(ctx, eqsig, x, x2, dt, how, param):
    """A is analysed ("warm": every measure called, velocity memo filled); the library (or deepcopy + a public
    mutator) derives D from it; every measure on D is judged by the normal post-conditions against D's own current
    values (a memo carried over from A would show as a wrong final value); D must own its data: correcting D in place
    leaves A's values and every measure of A bit-for-bit what they were."""
    SCEN['cur'] = {'kind': 'derived', 'acc0': np.array(x), 'acc2': np.array(x2), 'dt': float(dt), 'dt_kind': _dt_kind(dt),
                   'how': how, 'param': param, 'twin': True}
    try:
        x0 = np.array(x, copy=True)
        a_sig = eqsig.AccSignal(x, dt)
        before = {}
        _ = [_apply(ctx, eqsig, a_sig, ['call', k], before) for k in QUAD_KEYS]
        before = {k: (None if v is None else v.copy()) for k, v in before.items()}
        others = []
        try:
            if how == 'deepcopy+reset':
                d_sig = copy.deepcopy(a_sig)
                d_sig.reset_values(x2)
            elif how == 'deepcopy+add':
                d_sig = copy.deepcopy(a_sig)
                d_sig.add_constant(param)
            elif how == 'interp':
                d_sig = eqsig.interp_to_approx_dt(a_sig, target_dt=param)
            elif how == 'resample':
                d_sig = eqsig.resample_to_approx_dt(a_sig, target_dt=param)
            elif how == 'combine':
                b_sig = eqsig.AccSignal(x2, dt)
                b_sig.velocity
                others.append((b_sig, np.array(b_sig.values, copy=True)))
                d_sig = eqsig.combine_at_angle(a_sig, b_sig, param)
            elif how == 'cluster':
                d_sig = eqsig.Cluster([a_sig.values, x2], dt, stypes='acc').signal_by_index(0)
            elif how == 'fas2signal':
                raw = eqsig.fas2signal(a_sig.fa_spectrum, a_sig.dt, stype='acc')       # complex-typed, real by construction
                if ctx_rng_bit(x0):
                    _apply(ctx, eqsig, raw, ['call', 'cav'], {})                       # counted as an observation, not judged
                d_sig = eqsig.AccSignal(np.real(raw.values), raw.dt)                    # what a user must analyse
            else:
                raise ValueError(how)
        except Exception:
            ctx.observe('derived.%s-raised(not judged by C09)' % how)
            return
        ctx.observe('derived.' + how)
        inside = cavdp_in_quantifier(np.real(np.asarray(d_sig.values)).astype(float), _caller_dt(d_sig))[0]
        out = {}
        for k in QUAD_KEYS + (['cavdp'] if inside else []):
            _apply(ctx, eqsig, d_sig, ['call', k], out)
        bad = []
        if d_sig is a_sig or np.shares_memory(np.asarray(d_sig.values), np.asarray(a_sig.values)):
            bad.append('derived object shares its values with the source')
        for o_sig, _o in others:
            if d_sig is o_sig or np.shares_memory(np.asarray(d_sig.values), np.asarray(o_sig.values)):
                bad.append('derived object shares its values with the second source')
        try:
            d_sig.add_constant(0.5 * (float(np.max(np.abs(x0))) or 1.0))      # correct the derived record ...
            d_sig.rebase_displacement()                                        # ... also with the in-place -= style
        except Exception:
            ctx.observe('derived.correction-raised(not judged by C09)')
        if not _bytes_equal(a_sig.values, x0):
            bad.append('values of the source object')
        for o_sig, o0 in others:
            if not _bytes_equal(o_sig.values, o0):
                bad.append('values of the second source object')
        after = {}
        _ = [_apply(ctx, eqsig, a_sig, ['call', k], after) for k in QUAD_KEYS]
        for k in QUAD_KEYS:
            if before[k] is None or after[k] is None or not _bytes_equal(before[k], after[k]):
                bad.append('%s of the source object' % FN[k])
        ctx.check(not bad, DERIVED, lambda: {'fn': 'derived', 'acc': x0, 'dt': float(dt), 'scenario': _scen(), 'changed': bad},
                  'object derived by %s(%r): %s' % (how, param, ', '.join(bad)))
    finally:
        SCEN['cur'] = None


PROTOCOLS = ('copy', 'deepcopy', 'pickle')
WARM_STATES = ('cold', 'velocity', 'peaks', 'spectra', 'smooth', 'response', 'measures')
WARM_READS = {'velocity': ['velocity', 'displacement'], 'peaks': ['pga', 'pgv', 'pgd'], 'spectra': ['fa_spectrum', 'fa_freqs'],
              'smooth': ['smooth_fa_spectrum'], 'response': ['s_a', 's_d']}
MUTATIONS = ('reset', 'add', 'inplace')


def _keys_for(sig):
    keys = list(QUAD_KEYS if hasattr(type(sig), 'velocity') else ACC_KEYS)      # (the class: no lazy read triggered)
    try:
        if cavdp_in_quantifier(np.asarray(sig.values, dtype=float), _caller_dt(sig))[0]:
            keys.append('cavdp')
    except Exception:
        pass
    return keys


def _measure_all(ctx, eqsig, sig):
    out = {}
    for k in _keys_for(sig):
        _apply(ctx, eqsig, sig, ['call', k], out)
    return out


def _mutate(ctx, eqsig, sig, how, x2, amp):
    if how == 'reset':
        _apply(ctx, eqsig, sig, ['reset_values', x2], {})                       # rebinds the values
    elif how == 'inplace' and hasattr(sig, 'rebase_displacement'):
        _apply(ctx, eqsig, sig, ['method', 'rebase_displacement', []], {})      # in place: self._values -= ...
    else:
        _apply(ctx, eqsig, sig, ['add_constant', 0.37 * amp], {})


def protocol_case(ctx, eqsig, x, x2, dt, how, state, order, mut, sigcls='AccSignal', src='plain'):
    """copy.copy / copy.deepcopy / pickle round trip of a signal object in a given cache state, then mutators and measures
    on the copy AND on the original, in both orders. Every measure of either object is judged by the normal
    post-conditions against that object's OWN current values and against a fresh object (a memo, a validity flag or a
    buffer carried over or shared shows there); the object that was not touched must keep its values bit-for-bit, and
    the measures of the first object must not move when the second one is mutated afterwards."""
    SCEN['cur'] = {'kind': 'protocol', 'acc0': np.array(x), 'acc2': np.array(x2), 'dt': float(dt), 'dt_kind': _dt_kind(dt),
                   'how': how, 'state': state, 'order': order, 'mut': mut, 'sigcls': sigcls, 'src': src, 'twin': True}
    try:
        if src == 'cluster':
            a_sig = eqsig.Cluster([np.array(x), np.array(x2)], dt, stypes='acc').signal_by_index(0)
        else:
            a_sig = getattr(eqsig, sigcls)(x, dt)
        amp = float(np.max(np.abs(np.asarray(x, dtype=float)))) or 1.0
        if state == 'measures':
            _measure_all(ctx, eqsig, a_sig)
        else:
            for attr in WARM_READS.get(state, []):
                _apply(ctx, eqsig, a_sig, ['read', attr], {})
        v0 = np.array(a_sig.values, copy=True)
        try:
            if how == 'copy':
                d_sig = copy.copy(a_sig)
            elif how == 'deepcopy':
                d_sig = copy.deepcopy(a_sig)
            elif how == 'pickle':
                d_sig = pickle.loads(pickle.dumps(a_sig, protocol=[2, pickle.HIGHEST_PROTOCOL][len(v0) % 2]))
            else:
                raise ValueError(how)
        except ValueError:
            raise
        except Exception:
            ctx.observe('protocol.%s-raised(not judged by C09)' % how)
            return
        ctx.observe('protocol.' + how)
        ctx.observe('protocol.cache-state.' + state)
        bad = []
        if not _bytes_equal(d_sig.values, v0):
            bad.append('the copy does not hold the record of the original')
        shared = bool(np.shares_memory(np.asarray(a_sig.values), np.asarray(d_sig.values)))
        if shared and how != 'copy':
            bad.append('%s shares the value buffer with the original' % how)
        first, second = (d_sig, a_sig) if order == 'copy-first' else (a_sig, d_sig)
        names = ('copy', 'original') if order == 'copy-first' else ('original', 'copy')
        _mutate(ctx, eqsig, first, 'reset' if shared else mut, x2, amp)
        out1 = _measure_all(ctx, eqsig, first)                 # judged against its own values + fresh object
        if not _bytes_equal(second.values, v0):
            bad.append('values of the untouched %s after the %s was mutated' % (names[1], names[0]))
        _measure_all(ctx, eqsig, second)                       # still the old record: judged against it
        if not np.shares_memory(np.asarray(first.values), np.asarray(second.values)):
            v1 = np.array(first.values, copy=True)
            _mutate(ctx, eqsig, second, mut if mut != 'reset' else 'inplace', x2, amp)
            _measure_all(ctx, eqsig, second)
            if not _bytes_equal(first.values, v1):
                bad.append('values of the %s after the %s was corrected in place' % (names[0], names[1]))
            again = _measure_all(ctx, eqsig, first)
            for k, s1 in out1.items():
                if s1 is None or again.get(k) is None or not _bytes_equal(s1, again[k]):
                    bad.append('%s of the %s after the %s was mutated' % (FN[k], names[0], names[1]))
        else:
            ctx.observe('protocol.objects-still-share-values(in-place step skipped)')
        ctx.check(not bad, PROTO, lambda: {'fn': 'protocol', 'acc': np.array(x), 'dt': float(dt), 'scenario': _scen(), 'changed': bad},
                  '%s of a %s %s (%s): %s' % (how, state, type(a_sig).__name__, order, '; '.join(bad)))
    finally:
        SCEN['cur'] = None


def _final(s):
    return float(s[-1]) if s is not None and s.ndim == 1 and s.shape[0] else None


def relation(ctx, eqsig, x, dt, kind, alpha=None, k=None, base=None, cont=None, keys=None):
    """Evaluate one trace relation between the execution on the record (given as container `cont`, real values x) and
    the execution on the transformed record."""
    x = np.asarray(x, dtype=float)
    cont_arr = np.array(cont if cont is not None else x)
    keys = list(keys) if keys is not None else QUAD_KEYS
    wit = lambda **kw: dict({'fn': 'relation', 'kind': kind, 'acc': x, 'acc_base': cont_arr, 'dt': float(dt),
                             'dt_kind': _dt_kind(dt), 'alpha': alpha, 'k': k, 'keys': keys}, **kw)
    if base is None:
        base = measure(ctx, eqsig, cont_arr, dt, keys=keys)
    floor, eps_base = _prec(cont_arr, x.shape[0])
    under = _underflow(cont_arr, x.shape[0], float(dt))

    def vel_atol(rec, rounded_input=False):
        """Conditioning of the velocity-based finals of `rec`: a float32 base is evaluated in float32 (velocity off by
        up to eps*sum|panel|), and a transformed record alpha*x is itself rounded sample by sample, which moves the
        velocity by up to eps*dt*sum|a| - far more than rtol of the result when the velocity is a small difference of
        large accelerations (offset or alternating records). Same propagation as in the post-condition."""
        rec = np.asarray(rec, dtype=float)
        v, verr, sv = _velocity(rec, float(dt), eps_base)
        if rounded_input:
            verr += Q.EPS * float(dt) * float(np.sum(np.abs(rec)))
        sv += len(v) * verr
        return {'isv': 4 * verr * sv * float(dt), 'abs_vel': 2 * verr * len(v) * float(dt), 'cad': 2 * verr * len(v) * float(dt),
                'uke': 4 * verr * sv + 16 * eps_base * (sum(0.5 * t * t for t in v) if 'uke' in keys else 0.0)}
    if kind == 'sign':
        other = measure(ctx, eqsig, -x, dt, keys=keys)
        at = vel_atol(x) if floor > RTOL else {}
        for key in keys:
            f0, f1 = _final(base[key]), _final(other[key])
            if f0 is None or f1 is None:
                continue
            ctx.check(abs(f1 - f0) <= at.get(key, 0.0) + under + floor * abs(f0), 'relation.sign',
                      lambda: wit(measure=key, f_x=f0, f_minus_x=f1),
                      '%s final %r for x (%s) but %r for -x' % (FN[key], f0, cont_arr.dtype, f1))
    elif kind in ('scale.pow2', 'scale.random'):
        other = measure(ctx, eqsig, x * alpha, dt, keys=keys)
        exact_rel = kind == 'scale.pow2' and floor <= RTOL      # power-of-two scaling of a float64 record is exact
        rtol = 1e-14 if exact_rel else floor
        at = {} if exact_rel else vel_atol(x * alpha, rounded_input=(kind == 'scale.random'))
        for key in keys:
            f0, f1 = _final(base[key]), _final(other[key])
            if f0 is None or f1 is None:
                continue
            fac = alpha * alpha if key in SQUARE_LAW else abs(alpha)
            ctx.check(abs(f1 - fac * f0) <= at.get(key, 0.0) + under * max(1.0, fac) + rtol * abs(fac * f0), 'relation.' + kind,
                      lambda: wit(measure=key, f_x=f0, f_alpha_x=f1, factor=fac, atol=at.get(key, 0.0)),
                      '%s final %r for x (%s), %r for %r*x, expected factor %r' % (FN[key], f0, cont_arr.dtype, f1, alpha, fac))
    elif kind == 'zero-pad':
        if x.shape[0] == 0 or x[-1] != 0:
            ctx.observe('zero-pad-skipped(record does not end at 0)')
            return
        xp = np.concatenate([cont_arr, np.zeros(k, dtype=cont_arr.dtype)])
        pad_keys = [q for q in PAD_KEYS if q in keys]
        other = measure(ctx, eqsig, xp, dt, keys=pad_keys)
        n = x.shape[0]
        for key in pad_keys:
            s0, s1 = base[key], other[key]
            if s0 is None or s1 is None or s0.shape != (n,) or s1.shape != (n + k,):
                continue
            scale = abs(s0[-1])
            okk = bool(np.all(np.abs(s1[:n] - s0) <= under + floor * scale)) and abs(s1[-1] - s0[-1]) <= under + floor * scale
            ctx.check(okk, 'relation.zero-pad', lambda: wit(measure=key, f_x=float(s0[-1]), f_padded=float(s1[-1])),
                      '%s changes when %d zeros are appended to a record ending at 0: final %r -> %r, max prefix change %r'
                      % (FN[key], k, float(s0[-1]), float(s1[-1]), float(np.max(np.abs(s1[:n] - s0)))))
    else:
        raise ValueError(kind)


# ---------------------------------------------------------------------------------------------------- workload
CAVDP_NICE_DT = [0.1, 0.05, 0.04, 0.025, 0.02, 0.01, 0.005, 0.0025, 0.002]
CAVDP_EDGE_DT = [1.0, 0.5, 0.25, 0.2, 0.125, 0.001, 0.0005]
CAVDP_RECIP_K = [49, 93, 99, 49, 93, 99, 98, 103, 107, 161, 186, 196, 198, 3, 7, 120, 128, 256, 512]
LONG_DECIMAL_K = [3, 7, 120, 128, 256, 512, 240, 6, 11, 13]      # 1/k needs more than six decimals
FLOOR_FAIL_K = [k for k in range(1, 4097) if int(1.0 / (1.0 / k)) != k]      # 1/(1/k) floors to k-1 (all of them, ~290)
GATE = Q.GATE_G
_LEVELS_BELOW = [m / 4096.0 for m in range(0, 100)]      # background levels in g, all < 0.0245
INT_RANGE = {'i8': (np.int8, 127), 'i16': (np.int16, 32767), 'i32': (np.int32, 2 ** 31 - 1), 'u8': (np.uint8, 255),
             'u16': (np.uint16, 65535)}


def to_container(rng, x, kind):
    """(container handed to eqsig, the real values it holds as float64 array)."""
    x = np.asarray(x, dtype=float)
    m = float(np.max(np.abs(x))) if x.size else 0.0
    if kind in INT_RANGE:
        dtype, top = INT_RANGE[kind]
        unit = x / m if m > 0 else x
        if kind.startswith('u'):
            xi = np.round((unit + 1.0) * 0.5 * 0.95 * top)
        else:
            xi = np.round(unit * 0.95 * top)
        c = xi.astype(dtype)
        return c, c.astype(float)
    if kind == 'i64':
        xi = x if (np.all(x == np.round(x)) and m < 1e6) else np.round(x / m * 1000.0) if m > 0 else np.round(x)
        c = xi.astype(np.int64)
        return c, c.astype(float)
    if kind == 'f32':
        c = x.astype(np.float32)
        return c, c.astype(float)
    if kind in ('bool', 'list-bool'):          # a trigger / clipping-flag channel: the record is 1.0 where set, 0.0 elsewhere
        c = (x > 0) if np.any(x > 0) else (x != 0)
        return (c if kind == 'bool' else [bool(v) for v in c]), c.astype(float)
    if kind == 'list':
        return x.tolist(), x
    if kind == 'tuple':
        return tuple(x.tolist()), x
    if kind == 'list-int':
        xi = x if (np.all(x == np.round(x)) and m < 1e6) else (np.round(x / m * 1000.0) if m > 0 else np.round(x))
        return [int(v) for v in xi], np.asarray(xi, dtype=float)
    if kind == 'mixed':
        xi = np.where(np.arange(x.size) % 2 == 0, np.round(x), x)
        return [int(v) if i % 2 == 0 else float(v) for i, v in enumerate(xi)], np.asarray(xi, dtype=float)
    if kind == 'view':
        buf = np.empty(2 * x.size)
        buf[::2] = x
        buf[1::2] = -7.0
        return buf[::2], x
    if kind == 'rview':
        return x[::-1].copy()[::-1], x
    if kind == 'readonly':
        c = x.copy()
        c.flags.writeable = False
        return c, x
    return x, x


SHAPES = ['one-sided-neg', 'one-sided-pos', 'tail-heavy', 'trend', 'interior-zeros', 'both-ends-extreme', 'spike-dominated',
          'single-changed-sample']


def reshape(rng, x):
    """One of the record shapes the statement does not forbid, applied to a drawn record (same length, same peak
    magnitude unless the shape itself is about magnitudes). Returns (x, tag)."""
    x = np.array(x, dtype=float)
    n = x.shape[0]
    m = float(np.max(np.abs(x))) if n else 0.0
    tag = SHAPES[int(rng.integers(len(SHAPES)))]
    if n < 4 or m == 0:
        return x, None
    if tag == 'one-sided-neg':
        x = -np.abs(x)
    elif tag == 'one-sided-pos':
        x = np.abs(x)
    elif tag == 'tail-heavy':                  # all the action in the last 1/k of the record
        cut = n - max(2, n // int(rng.integers(3, 12)))
        x[:cut] *= 0.0 if rng.random() < 0.5 else 1e-4
    elif tag == 'trend':                       # monotone / trend dominated
        ramp = np.linspace(rng.uniform(-1, 1), rng.uniform(-1, 1), n)
        if rng.random() < 0.5:
            x = np.sort(x) if rng.random() < 0.5 else np.sort(x)[::-1].copy()
        else:
            x = m * ramp / max(float(np.max(np.abs(ramp))), 1e-300) + 0.01 * x
    elif tag == 'interior-zeros':              # runs of exact zeros inside the record
        for _ in range(int(rng.integers(1, 5))):
            a = int(rng.integers(1, n - 1))
            x[a:min(n - 1, a + int(rng.integers(1, max(2, n // 5))))] = 0.0
    elif tag == 'both-ends-extreme':           # cut out of a longer record: both ends at the peak
        x[0] = 1.2 * m * rng.choice([-1.0, 1.0])
        x[-1] = 1.2 * m * rng.choice([-1.0, 1.0])
    elif tag == 'spike-dominated':             # one sample 1e3 .. 1e12 times larger than everything else
        j = int(rng.integers(n))
        x *= 10.0 ** -rng.uniform(3, 12)
        x[j] = m * rng.choice([-1.0, 1.0])
    elif tag == 'single-changed-sample':       # a constant record with one sample changed
        x = np.full(n, m * rng.choice([-1.0, 1.0]) * rng.uniform(0.2, 1.0))
        x[int(rng.integers(n))] *= rng.choice([-1.0, 0.0, 1.0 + 2.0 ** -20, 3.0])
    return x, tag


def cavdp_case(rng, cls=None, long=False):
    """Returns (acc, dt, class, exact_g)."""
    u = rng.random()
    if long:
        dt = 0.0005
        pps = 2000
    elif u < 0.27:
        k = CAVDP_RECIP_K[int(rng.integers(len(CAVDP_RECIP_K)))]
        dt, pps = 1.0 / k, k
    elif u < 0.37:
        # any integer rate: every k whose reciprocal floors wrongly (up to 4096), uniform 1..2048, rates around 2**j
        v = rng.random()
        if v < 0.45:
            k = FLOOR_FAIL_K[int(rng.integers(len(FLOOR_FAIL_K)))]
        elif v < 0.85:
            k = int(rng.integers(1, 2049))
        else:
            k = max(1, 2 ** int(rng.integers(1, 12)) + int(rng.integers(-1, 2)))
        dt, pps = 1.0 / k, k
    elif u < 0.47:
        dt = CAVDP_EDGE_DT[int(rng.integers(len(CAVDP_EDGE_DT)))]
        pps = int(round(1.0 / dt))
    else:
        dt = CAVDP_NICE_DT[int(rng.integers(len(CAVDP_NICE_DT)))]
        pps = int(round(1.0 / dt))
        if rng.random() < 0.12:         # the same step a few ulp off (0.1 + 0.2 - 0.2, a step read from a file ...)
            for _ in range(int(rng.integers(1, 4))):
                dt = float(np.nextafter(dt, rng.choice([0.0, 1.0])))
    nwin = int(rng.integers(2, 13)) if rng.random() < 0.88 else int(rng.integers(13, 41))
    if pps <= 50 and rng.random() < 0.1:
        nwin = int(rng.integers(41, 301))       # minutes of a coarsely sampled record
    nwin = max(2, min(nwin, 25000 // pps))
    if long:
        nwin = 33
    extra = 0 if rng.random() < 0.3 else int(rng.integers(0, pps))
    n = nwin * pps + 1 + extra
    if cls is None:
        cls = ['envelope-noise', 'all-below', 'quake', 'exact-gate', 'boundary-spike', 'generic', 'near-gate-inexact', 'silent'][
            int(rng.choice(8, p=[0.21, 0.11, 0.1, 0.2, 0.2, 0.11, 0.05, 0.02]))]
    if pps < 4 and cls in ('exact-gate', 'boundary-spike', 'near-gate-inexact'):
        cls = 'envelope-noise'
    t = np.arange(n) * dt
    exact = False
    if cls == 'envelope-noise':
        env = np.exp(-((t - rng.uniform(0, t[-1])) / rng.uniform(0.5, max(1.0, t[-1] / 2))) ** 2)
        x = rng.normal(size=n) * env
        x *= G * GATE * rng.uniform(0.5, 6.0) / max(np.max(np.abs(x)), 1e-300)
    elif cls == 'all-below':
        x, _ = gen.record(rng, n, allow_const=True)
        m = np.max(np.abs(x))
        x = x * (G * GATE * rng.uniform(0.05, 0.98) / m) if m > 0 else x
    elif cls == 'quake':
        x, _ = gen.record(rng, n, cls='quake', amp=1.0)
        x = x * (G * rng.uniform(0.01, 0.3) / max(np.max(np.abs(x)), 1e-300))
    elif cls == 'generic':
        x, _ = gen.record(rng, n, allow_const=True)
        m = np.max(np.abs(x))
        e = rng.uniform(-0.5, 1.2) if rng.random() < 0.7 else rng.uniform(-12, 12)
        v = rng.random()
        if v < 0.12:
            e = rng.uniform(165, 220) * (1 if rng.random() < 0.5 else -1)     # squares of samples under/overflow
        x = x * (G * GATE * 10.0 ** e / m) if m > 0 else x
        if 0.12 <= v < 0.24 and m > 0:
            x, tag = gen.special_scale(rng, x)
            top = float(np.max(np.abs(x)))
            if top > 1e290:
                x = x * (1e290 / top)
            cls += tag
    elif cls == 'near-gate-inexact':
        # record in m/s2 whose window maxima lie within a few ulp of 0.025*9.81: a/9.81 is inexact, so the knife-edge
        # rule applies (either side of the gate is accepted for these windows)
        x = rng.uniform(-1.0, 1.0, size=n) * G * GATE * rng.uniform(0.3, 0.9)
        for w in range(nwin):
            if rng.random() < 0.6:
                v = G * GATE
                for _ in range(int(rng.integers(0, 5))):
                    v = np.nextafter(v, rng.choice([0.0, 1.0]))
                x[int(rng.integers(w * pps + 1, (w + 1) * pps))] = v * rng.choice([-1.0, 1.0])
    elif cls == 'exact-gate':
        # record defined in g units on exactly representable levels; the window maxima sit at, one ulp below, one ulp
        # above the gate, on dyadic levels either side, or stay at the background
        q = rng.choice(_LEVELS_BELOW, size=n) * rng.choice([-1.0, 1.0], size=n)
        peaks = [GATE, np.nextafter(GATE, 0.0), np.nextafter(GATE, 1.0), 2.0 ** -5, 0.03, None]
        for w in range(nwin + 1):
            lo, hi = w * pps, min((w + 1) * pps, n - 1)
            if hi - lo < 2:
                continue
            pk = peaks[int(rng.choice(6, p=[0.3, 0.25, 0.15, 0.1, 0.05, 0.15]))]
            if pk is None:
                continue
            pos = rng.integers(lo + 1, hi, size=int(rng.integers(1, 4)))
            if rng.random() < 0.15:
                pos = [lo if rng.random() < 0.5 else hi]       # the tie sits on a window boundary / the first sample
            for j in pos:
                q[j] = pk * rng.choice([-1.0, 1.0])
        x = G * q
        bad = (x / G) != q
        x[bad] = 0.0
        q[bad] = 0.0
        exact = bool(np.all(x / G == q))
    elif cls == 'boundary-spike':
        # distinct background level per window, spikes above the gate a few samples before a window boundary: the
        # result depends on every window being exactly [w*pps, (w+1)*pps]
        lev = rng.uniform(0.002, 0.02, size=nwin + 2)
        widx = np.minimum(np.arange(n) // pps, nwin + 1)
        x = lev[widx] * rng.uniform(0.3, 1.0, size=n) * rng.choice([-1.0, 1.0], size=n)
        for w in range(1, nwin + 1):
            if rng.random() < 0.5:
                d = int(rng.integers(1, max(2, min(w, pps - 1))))
                x[w * pps - d] = rng.uniform(0.03, 0.08) * rng.choice([-1.0, 1.0])
        x = x * G
    elif cls == 'silent':
        x = np.zeros(n)                            # a silent channel is a valid record: every measure is identically 0
    else:
        raise ValueError(cls)
    x = np.asarray(x, dtype=float)
    if cls in ('envelope-noise', 'quake', 'generic', 'all-below') and rng.random() < 0.35:
        x, tag = reshape(rng, x)
        if tag:
            cls += '+' + tag
    elif cls in ('envelope-noise', 'quake', 'generic', 'all-below') and rng.random() < 0.1 and np.any(x != 0):
        # strictly one-signed: no zero sample and no sign change anywhere
        x = float(rng.choice([-1.0, 1.0])) * (np.abs(x) + float(np.max(np.abs(x))) * float(rng.choice([1e-9, 1e-3, 0.5])))
        cls += '+strictly-one-signed'
    if cls in ('envelope-noise', 'quake', 'generic', 'boundary-spike') and rng.random() < 0.4:
        # the extreme of the record at the first sample, the last sample (outside every window when the record has a
        # partial last second), the end of the last window, or on a boundary shared by two windows
        j = [0, n - 1, nwin * pps, int(rng.integers(1, nwin + 1)) * pps][int(rng.integers(4))]
        x = x.copy()
        x[j] = G * rng.uniform(0.03, 0.2) * rng.choice([-1.0, 1.0]) * max(1.0, np.max(np.abs(x)) / (0.03 * G))
        cls += '+edge-extreme'
    return x, dt, cls, exact


def run_cavdp(ctx, eqsig, x, dt, exact, kw=False, sigcls='AccSignal'):
    run_history(ctx, eqsig, x, dt, [['call', 'cavdp'] + (['kw'] if kw else [])], exact=exact, sigcls=sigcls)


HIST_CLASSES = ['sine', 'chirp', 'beat', 'noise', 'quake', 'alt', 'intnoise', 'zeropad', 'walk', 'hat']
READS = ['velocity', 'displacement', 'pgv', 'pgd', 'pga']


def _hist_record(rng, in_dom=None):
    """(x, dt, n, pps or None, class, in_dom): the record of a history; in_dom = inside the CAVdp quantifier."""
    cls = HIST_CLASSES[int(rng.integers(len(HIST_CLASSES)))]
    if in_dom is None:
        in_dom = rng.random() < 0.5
    pps = None
    if in_dom:
        dt = CAVDP_NICE_DT[int(rng.integers(len(CAVDP_NICE_DT)))] if rng.random() < 0.7 else \
            1.0 / CAVDP_RECIP_K[int(rng.integers(len(CAVDP_RECIP_K)))]
        pps = int(round(1.0 / dt))
        n = int(rng.integers(2, 7)) * pps + 1 + int(rng.integers(0, pps))
        if n > 3000:
            n = 2 * pps + 1 + int(rng.integers(0, pps))
    else:
        dt = gen.dt(rng)
        n = int(rng.choice([5, 13, 50, 200, 1000]))
    x, _ = gen.record(rng, n, cls=cls)
    x = np.asarray(x, dtype=float)
    if rng.random() < 0.85 and cls not in ('alt', 'hat'):
        # use the drawn shape as the velocity: its increments as acceleration give a velocity that oscillates about 0
        x = np.diff(x - np.mean(x), prepend=0.0)
        cls += '-diff'
    m = float(np.max(np.abs(x)))
    if in_dom and m > 0:
        x = x * (G * GATE * rng.uniform(0.5, 6.0) / m)
    return x, dt, n, pps, cls, in_dom


def _other_record(rng, length, amp):
    y, _ = gen.record(rng, length, cls=HIST_CLASSES[int(rng.integers(len(HIST_CLASSES)))])
    return np.asarray(y, dtype=float) * (amp / max(float(np.max(np.abs(y))), 1e-300))


ASSIGN_CONTAINERS = ['f64', 'list', 'tuple', 'i16', 'i32', 'f32', 'list-int', 'view', 'readonly', 'mixed', 'bool', 'list-bool']
ASSIGN_EXPRS = ['given-same', 'given-shorter', 'given-longer', 'given-few', 'pad', 'prepad', 'scale', 'neg', 'head', 'tail',
                'every-other', 'self']


def assign_op(rng, n, pps, amp, expr=None):
    """`sig.values = ...` in every container form the constructor accepts: another record of the same length, a shorter
    one, a longer one, 1-3 entries; or an expression of the current values (zero padding at either end, scaling, sign
    reversal, a cut, every other sample, the object's own array). In the clean tree the assignment is silently ignored;
    whatever `sig.values` shows afterwards is the record every later measure is judged against."""
    if expr is None:
        expr = ASSIGN_EXPRS[int(rng.choice(len(ASSIGN_EXPRS), p=[.12, .12, .14, .05, .14, .05, .07, .05, .08, .06, .06, .06]))]
    sec = pps if pps else max(1, n // 4)
    if expr.startswith('given'):
        if expr == 'given-same':
            length = n
        elif expr == 'given-shorter':
            length = [max(2, n // 2), max(2, n - sec), max(2, n - 1), max(2, n - int(rng.integers(1, sec + 1)))][int(rng.integers(4))]
        elif expr == 'given-longer':
            length = [n + 17, n + sec, n + 1, n + int(rng.integers(1, 3 * sec + 1))][int(rng.integers(4))]
        else:
            length = int(rng.integers(1, 4))
        y = _other_record(rng, length, amp)
        ckind = ASSIGN_CONTAINERS[int(rng.integers(len(ASSIGN_CONTAINERS)))]
        cont, _ = to_container(rng, y, ckind)
        return ['assign_values', 'given', cont, ckind], expr + '/' + ckind
    form = VALUE_FORMS[int(rng.integers(len(VALUE_FORMS)))]
    if expr in ('pad', 'prepad'):
        arg = int([1, 7, sec, 2 * sec + 3, int(rng.integers(1, 3 * sec + 1))][int(rng.integers(5))])
    elif expr == 'scale':
        arg = float(rng.choice([2.0, 0.5, -1.0, 9.81, 1 / 9.81, 0.01]))
    elif expr in ('head', 'tail'):
        arg = int([n - 1, n - sec, n // 2, n - int(rng.integers(1, sec + 1))][int(rng.integers(4))])
        arg = max(2, arg)
    else:
        arg = None
    return ['assign_values', expr, arg, form], expr + '/' + form


def attr_op(rng, dt):
    """Assignment through the other public attribute names (dt has no setter in the clean tree: the attempt raises)."""
    u = rng.random()
    if u < 0.45:
        new = [dt * 2, dt / 2, dt, 0.01, 0.02, 0.005, np.float64(dt * 2), np.float32(dt)][int(rng.integers(8))]
        return ['set_attr', 'dt', new]
    few = [float(v) for v in np.sort(rng.uniform(0.2, 4.0, size=int(rng.integers(1, 4))))]
    d = float(dt)
    if u < 0.6 and rng.random() < 0.5:
        # settings outside the band of the data: only T = 0, periods at / below 2 dt, one entry, whole numbers
        few = [[0.0], [0.0, d, 1.0], [0.5 * d], [d, 2 * d, 3 * d], [0, 1, 2], [1e-6, 1e3]][int(rng.integers(6))]
    elif 0.6 <= u < 0.75 and rng.random() < 0.5:
        # smoothing frequencies above the Nyquist frequency / below the first Fourier frequency / a single one
        few = [[0.6 / d, 2.0 / d], [0.5 / d], [1e-9, 1.0], [1.0 / d], [1, 2, 400000]][int(rng.integers(5))]
    few = [few, tuple(few), np.array(few)][int(rng.integers(3))]
    if u < 0.6:
        return ['set_attr', 'response_times', few]
    if u < 0.75:
        return ['set_attr', ['smooth_fa_freqs', 'smooth_fa_frequencies'][int(rng.integers(2))], few]
    if u < 0.85:
        return ['set_attr', 'label', 'renamed']
    return ['set_attr', 'npts', int(rng.integers(1, 50))]


def raising_ops(rng, n, dt, amp, pool=QUAD_KEYS):
    """An operation the clean code refuses (the object must be as it was, or completely updated), or a non-finite record
    accepted silently and replaced later on."""
    u = rng.random()
    if u < 0.16:
        return [['reset_values', [[0.1 * amp, 0.2 * amp], [0.3 * amp]]]]                     # ragged: np.array raises
    if u < 0.36:
        length = [n, n + 1, max(1, n - 1), 2 * n][int(rng.integers(4))]                      # same length: accepted
        y = _other_record(rng, length, amp)
        return [['add_series', (y > 0) if rng.random() < 0.15 else y]]                        # bool series: adds 1.0 where set
    if u < 0.56:
        v = rng.random()
        if v < 0.2:
            return [['add_signal', None, 1.0]]                                               # not a Signal
        length, fac = [(n, 1.0), (n, 2.0), (n + 3, 1.0), (n, 1.0 + 2.0 ** -40)][int(rng.integers(4))]
        return [['add_signal', _other_record(rng, length, amp), fac]]
    if u < 0.76:
        nyq = 0.5 / dt
        return [['butter_pass', [[0.1 * nyq, 1.2 * nyq], [0.1 * nyq, nyq], [0.0, 0.5 * nyq], [0.1 * nyq, 0.2 * nyq, 0.3 * nyq],
                                 0.2 * nyq, [-0.1 * nyq, 0.5 * nyq]][int(rng.integers(6))]]]
    y = _other_record(rng, [n, n, n + 5][int(rng.integers(3))], amp)
    y[int(rng.integers(len(y)))] = [np.nan, np.inf, -np.inf][int(rng.integers(3))]
    keys = [k for k in pool if k != 'cavdp']
    key = keys[int(rng.integers(len(keys)))]
    return [['reset_values', y], ['read', READS[int(rng.integers(len(READS)))]], ['call', key],
            ['reset_values', _other_record(rng, [n, len(y)][int(rng.integers(2))], amp)]]


def history_case(rng):
    """One record + a random same-object history: 3..8 monitored calls drawn with repeats from all measures (CAVdp
    when the record is inside its quantifier), interleaved with reads of derived series, public mutators, assignments
    through the public attribute names and operations that raise.
    Returns (acc, dt, ops, class, number of sign changes of the velocity, signal class)."""
    x, dt, n, pps, cls, in_dom = _hist_record(rng)
    m = float(np.max(np.abs(x)))
    sigcls = 'Signal' if rng.random() < 0.1 else 'AccSignal'
    pool = (QUAD_KEYS if sigcls == 'AccSignal' else ACC_KEYS) + (['cavdp'] if in_dom else [])
    amp = m if m > 0 else 1.0

    def other(length):
        return _other_record(rng, length, amp)
    ops = []
    for _ in range(int(rng.integers(3, 9))):
        w = rng.random()
        if w < 0.12:
            ops.append(assign_op(rng, n, pps, amp)[0])
        elif w < 0.18:
            ops.append(attr_op(rng, dt))
        elif w < 0.28:
            ops.extend(raising_ops(rng, n, dt, amp, pool))
        u = rng.random()
        if u < 0.22 and sigcls == 'AccSignal':
            ops.append(['read', READS[int(rng.integers(len(READS)))]])
        elif u < 0.28:
            ops.append(['add_constant', float(rng.uniform(-0.3, 0.3) * amp)])
        elif u < 0.36:
            length = [n, n, max(2, n // 2), n + 17][int(rng.integers(4))]
            y = other(length)
            ops.append(['reset_values', (y > 0) if rng.random() < 0.12 else y])      # a bool record: 1.0 where set
        elif u < 0.42 and dt <= 0.025 and n >= 100:
            ops.append(['butter_pass', [float(rng.uniform(0.1, 1.0)), float(rng.uniform(5.0, min(15.0, 0.4 / dt)))]])
        elif u < 0.52:
            name = METHODS[int(rng.integers(len(METHODS)))]
            args = {'remove_poly': [int(rng.integers(0, 3))], 'generate_displacement_and_velocity_series': [True]}.get(name, [])
            if name == 'generate_displacement_and_velocity_series' and rng.random() < 0.8:
                ops.append(['regen_velocity', FLAG_KINDS[int(rng.integers(len(FLAG_KINDS)))]])
            else:
                ops.append(['method', name, args])
        ops.append(['call', pool[int(rng.integers(len(pool)))]] + (['kw'] if rng.random() < 0.3 else []))
    v = np.concatenate([[0.0], np.cumsum(0.5 * dt * (x[1:] + x[:-1]))])
    sg = np.sign(v[v != 0])
    return x, dt, ops, cls, int(np.sum(sg[1:] != sg[:-1])), sigcls


def assign_case(rng):
    """Assignment through an attribute name as the subject: an object in some cache state, `sig.values = ...` (or
    `sig.dt = ...`), then EVERY measure (CAVdp when the record the object then shows is inside its quantifier), a second
    mutation, some measures again. Returns (x, dt, ops, class, signal class)."""
    x, dt, n, pps, cls, in_dom = _hist_record(rng, in_dom=rng.random() < 0.7)
    amp = float(np.max(np.abs(x))) or 1.0
    sigcls = 'Signal' if rng.random() < 0.12 else 'AccSignal'
    pool = list(QUAD_KEYS if sigcls == 'AccSignal' else ACC_KEYS) + (['cavdp'] if in_dom else [])
    ops = []
    u = rng.random()
    if u < 0.3:
        pass                                                    # cold object
    elif u < 0.55 and sigcls == 'AccSignal':
        ops += [['read', a] for a in rng.permutation(READS)[:int(rng.integers(1, 4))].tolist()]
    elif u < 0.8:
        ops += [['call', k] for k in rng.permutation(pool)[:int(rng.integers(1, len(pool) + 1))].tolist()]
    else:
        ops += [['read', 'fa_spectrum'], ['read', 'smooth_fa_spectrum']]
    w = rng.random()
    if w < 0.15:
        # user-given settings (often outside the band of the data), then every measure on the cold / warm object: a
        # measure reads, it never tidies what the user set
        op = attr_op(rng, dt)
        while op[1] not in ('response_times', 'smooth_fa_freqs', 'smooth_fa_frequencies'):
            op = attr_op(rng, dt)
        tag = 'setting'
    elif w < 0.87:
        op, tag = assign_op(rng, n, pps, amp)
    else:
        op = ['set_attr', 'dt', [dt * 2, dt / 2, dt, np.float64(dt / 2), 1.0 / (2 * pps) if pps else dt * 4][int(rng.integers(5))]]
        tag = 'dt'
    ops.append(op)
    ops += [['call', k] + (['kw'] if rng.random() < 0.2 else []) for k in rng.permutation(pool).tolist()]
    v = rng.random()
    if v < 0.25:
        ops.append(assign_op(rng, n, pps, amp)[0])
    elif v < 0.45:
        ops.append(['reset_values', _other_record(rng, [n, n + 17, max(2, n // 2)][int(rng.integers(3))], amp)])
    elif v < 0.6 and sigcls == 'AccSignal':
        ops.append(['method', 'rebase_displacement', []])
    elif v < 0.75:
        ops.append(['add_constant', float(rng.uniform(-0.3, 0.3) * amp)])
    if v < 0.75:
        ops += [['call', k] for k in rng.permutation(pool)[:3].tolist()]
    return x, dt, ops, cls + ':' + tag, sigcls


QUAD_N = [1, 2, 3, 4, 5, 7, 8, 9, 13, 15, 16, 17, 31, 32, 33, 50, 63, 64, 65, 127, 128, 129, 200, 255, 256, 257, 511,
          512, 513, 1000, 1023, 1024, 1025, 2047, 2048, 2049, 4095, 4096, 4097, 5000]
QUAD_N_P = np.array([1.0 / (1.0 + k / 400.0) for k in QUAD_N])
QUAD_N_P = QUAD_N_P / QUAD_N_P.sum()
CONTAINERS = ['f64', 'list', 'tuple', 'list-int', 'mixed', 'i64', 'i32', 'i16', 'i8', 'u8', 'u16', 'f32', 'view', 'rview',
              'readonly', 'bool']
CONTAINER_P = [0.38, 0.05, 0.03, 0.03, 0.03, 0.05, 0.04, 0.05, 0.05, 0.05, 0.05, 0.08, 0.04, 0.02, 0.03, 0.02]


def quadrature_case(rng, n=None):
    """Returns (x, dt, class): dt may be a float, np.float64, np.float32 or int."""
    if n is None:
        n = int(rng.choice(QUAD_N, p=QUAD_N_P))
    x, cls = gen.record(rng, n)
    x = np.asarray(x, dtype=float).copy()
    u = rng.random()
    if u < 0.15:                                   # amplitude decades 1e-12 .. 1e12
        m = np.max(np.abs(x))
        if m > 0:
            x *= 10.0 ** rng.uniform(-12, 12) / m
            cls += '+scaled'
    elif u < 0.22:                                 # large offset on a small signal
        m = np.max(np.abs(x))
        off = float(rng.choice([-1.0, 1.0]) * 10.0 ** rng.uniform(0, 6))
        x = off + (x / m if m > 0 else x) * abs(off) * 10.0 ** rng.uniform(-9, -3)
        cls += '+offset'
    u = rng.random()
    if n >= 4:
        k = int(rng.integers(1, max(2, n // 4)))
        if u < 0.06:
            x[:k] = x[k]
            cls += '+plateau-start'
        elif u < 0.12:
            x[-k:] = x[-k - 1]
            cls += '+plateau-end'
        elif u < 0.17:
            x[0] = 1.5 * max(np.max(np.abs(x)), 1e-300) * rng.choice([-1.0, 1.0])
            cls += '+extreme-first'
        elif u < 0.22:
            x[-1] = 1.5 * max(np.max(np.abs(x)), 1e-300) * rng.choice([-1.0, 1.0])
            cls += '+extreme-last'
        elif u < 0.27 and x[-2] != 0:
            x[-1] = -x[-2] * rng.uniform(0.01, 1.0)
            cls += '+ends-after-sign-change'
    if rng.random() < 0.25:
        x, tag = reshape(rng, x)
        if tag:
            cls += '+' + tag
    if x[-1] != 0 and rng.random() < 0.3:
        x[-1] = 0.0
        cls += '+endzero'
    u = rng.random()
    if u < 0.02:
        x = np.zeros(n)                            # a silent channel is a valid record: every measure is identically 0
        cls += '+silent'
    elif u < 0.06 and np.any(x != 0):
        # strictly one-signed: no zero sample and no sign change anywhere
        x = float(rng.choice([-1.0, 1.0])) * (np.abs(x) + float(np.max(np.abs(x))) * float(rng.choice([1e-9, 1e-3, 0.5])))
        cls += '+strictly-one-signed'
    u = rng.random()
    if u < 0.2:
        dt = float(10.0 ** rng.uniform(-9, 3))
    elif u < 0.3:
        dt = gen.awkward_dt(rng, int(rng.integers(2, 13)))
    elif u < 0.42:
        dt = 1.0 / LONG_DECIMAL_K[int(rng.integers(len(LONG_DECIMAL_K)))]
    else:
        dt = gen.dt(rng)
    u = rng.random()
    if u < 0.05:
        dt = np.float64(dt)
    elif u < 0.10:
        dt = np.float32(dt)
    elif u < 0.13:
        dt = int(rng.choice([1, 2, 5]))
    elif u < 0.19:
        dt = new_scalar_form(rng, dt)              # np.int64 / np.bool_ / True / 0-d float64, float32, int64, bool arrays
    return x, dt, cls


LINEAR_KEYS = ['cav', 'abs_acc', 'abs_vel', 'cad']     # scale-free (degree 1) in the record: judged at every finite scale


def extreme_case(rng):
    """(x, dt, class, keys). Either a record at a scale where a SQUARE or PRODUCT of two samples under/overflows
    (gen.record(extreme) amplitudes 1e+-165..1e+-220, gen.special_scale): only the linear measures are defined there;
    or an amplitude anywhere in 1e-130..1e130 with all measures (squares stay normal doubles). The record is rescaled,
    if necessary, so that nothing the linear measures (and their alpha <= 10 relations) form leaves 1e-295..1e300."""
    n = int(rng.choice(QUAD_N, p=QUAD_N_P))
    n = max(n, 2)
    dt = float(10.0 ** rng.uniform(-3, 1))
    x, cls = gen.record(rng, n, allow_const=True)
    x = np.asarray(x, dtype=float)
    m = float(np.max(np.abs(x)))
    if m == 0:
        x = x + 1.0
        m = 1.0
    u = rng.random()
    if u < 0.35:
        x = x / m * 10.0 ** (rng.uniform(165, 220) * (1 if rng.random() < 0.5 else -1))
        cls, keys = cls + '/extreme-scale', LINEAR_KEYS
    elif u < 0.7:
        x, tag = gen.special_scale(rng, x)
        cls += tag
        keys = LINEAR_KEYS if tag in ('-extreme-tiny', '-extreme-huge', '-extreme-range') else QUAD_KEYS
    else:
        x = x / m * 10.0 ** rng.uniform(-130, 130)
        cls, keys = cls + '/wide-scale', QUAD_KEYS
    span = n * dt
    log_hi = np.log10(float(np.max(np.abs(x)))) + 2 * np.log10(max(span, 1.0)) + 1.0       # bounds in logs: no overflow here
    if log_hi > 300:
        x = x * 10.0 ** (300 - log_hi)
    log_lo = np.log10(float(np.max(np.abs(x)))) + 2 * np.log10(min(dt, 1.0)) - 1.0
    if log_lo < -295:
        x = x * 10.0 ** (-295 - log_lo)
    return x, dt, cls, keys


def extreme_block(ctx, eqsig, rng, c):
    x, dt, cls, keys = extreme_case(rng)
    ckind = 'f64' if rng.random() < 0.7 else 'list'       # no float32 / integer containers at these scales
    cont, xr = to_container(rng, x, ckind)
    ctx.case(core.digest(xr, dt, ckind, 'extreme'), nontrivial=True, cls='extreme-%s/%s' % (cls, 'linear' if keys is LINEAR_KEYS else 'all'),
             sample={'fn': 'measures at an extreme scale', 'n': len(xr), 'dt': dt, 'class': cls, 'keys': keys,
                     'max_abs': float(np.max(np.abs(xr)))})
    base = measure(ctx, eqsig, cont, dt, keys=keys, kw=(c % 2 == 0))
    relation(ctx, eqsig, xr, dt, 'sign', base=base, cont=cont, keys=keys)
    relation(ctx, eqsig, xr, dt, 'scale.pow2', alpha=float(rng.choice([-4.0, -2.0, -0.5, 0.25, 2.0, 4.0])), base=base, cont=cont, keys=keys)
    relation(ctx, eqsig, xr, dt, 'scale.random', alpha=float(rng.choice([-1.0, 1.0]) * 10.0 ** rng.uniform(-1, 1)), base=base,
             cont=cont, keys=keys)


def quad_block(ctx, eqsig, rng, x, dt, cls, ckind, c):
    if ckind == 'f32':
        # validity range of the float32 allowance: nothing a float32 evaluation forms may overflow (3.4e38)
        m, span = float(np.max(np.abs(x))) if len(x) else 0.0, len(x) * float(dt)
        if max(m * m * max(span, 1.0), (m * span) ** 2 * max(span, 1.0) * max(len(x), 1)) > 1e30:
            ctx.observe('f32-container-not-used(record outside the float32 range)')
            ckind = 'f64'
    cont, xr = to_container(rng, x, ckind)
    ctx.case(core.digest(xr, dt, ckind, 'quad'), nontrivial=bool(np.any(xr != 0)),
             cls='quad-%s/%s' % (cls.split('+')[0], ckind),
             sample={'fn': 'all seven quadrature measures + relations', 'n': len(xr), 'dt': dt, 'class': cls,
                     'container': ckind, 'head': xr[:8]})
    for m in cls.split('+')[1:]:
        ctx.observe('modifier.' + m)
    base = measure(ctx, eqsig, cont, dt, via_object=(c % 10 == 0), kw=(c % 4 == 1))
    relation(ctx, eqsig, xr, dt, 'sign', base=base, cont=cont)
    a2 = float(rng.choice([-1.0, 1.0]) * 2.0 ** int(rng.integers(-6, 7)))
    if a2 == 1.0:
        a2 = -4.0
    relation(ctx, eqsig, xr, dt, 'scale.pow2', alpha=a2, base=base, cont=cont)
    ar = float(rng.choice([-1.0, 1.0]) * 10.0 ** rng.uniform(-3, 3))
    relation(ctx, eqsig, xr, dt, 'scale.random', alpha=ar, base=base, cont=cont)
    if xr[-1] == 0:
        relation(ctx, eqsig, xr, dt, 'zero-pad', k=int(rng.choice([1, 2, 7, 50, 300])), base=base, cont=cont)


SHORT_CONTAINERS = CONTAINERS + ['list-bool']
SHORT_DT = [0.01, 0.005, 0.02, 0.0025, 0.1, 1.0, 0.5, 2.0, 1.0 / 3, 1.0 / 128, 1.0 / 49, 7.3e-4, 12.5]


def short_case(rng, c):
    """A record of ONE sample (three cases in five) or TWO samples whose first sample is not zero, in the container form
    number c (all forms in turn), with a step from a fixed list / log-uniform 1e-6..1e3 as float / np.float64 /
    np.float32 / int. Returns (x, dt, class, container kind)."""
    ckind = SHORT_CONTAINERS[c % len(SHORT_CONTAINERS)]
    n = 1 if rng.random() < 0.6 else 2
    a0 = float(rng.choice([-1.0, 1.0])) * (float(10.0 ** rng.uniform(-3, 3)) if rng.random() < 0.8 else float(10.0 ** rng.uniform(-12, 12)))
    if rng.random() < 0.3:
        a0 = float(np.round(a0)) or 1.0                              # whole numbers (counts)
    if ckind in ('u8', 'u16', 'bool', 'list-bool'):
        a0 = abs(a0)                                                 # these forms map the most negative value to 0 / False
    if ckind == 'mixed' and abs(a0) < 1.0:
        a0 = float(np.sign(a0)) * (1.0 + abs(a0))                    # its first entry is rounded to an int: keep it non-zero
    x = [a0]
    tag = 'one-sample'
    if n == 2:
        second = ['zero', 'same', 'opposite', 'random', 'small', 'large'][int(rng.integers(6))]
        x.append({'zero': 0.0, 'same': a0, 'opposite': -a0, 'random': float(rng.normal()) * abs(a0), 'small': a0 * 1e-9,
                  'large': -a0 * 3.0}[second])
        tag = 'two-sample(second %s)' % second
    u = rng.random()
    dt = float(SHORT_DT[int(rng.integers(len(SHORT_DT)))]) if u < 0.6 else float(10.0 ** rng.uniform(-6, 3)) if u < 0.85 else gen.dt(rng)
    u = rng.random()
    if u < 0.08:
        dt = np.float64(dt)
    elif u < 0.16:
        dt = np.float32(dt)
    elif u < 0.22:
        dt = int(rng.choice([1, 2, 5]))
    elif u < 0.34:
        dt = new_scalar_form(rng, dt)
    return np.array(x), dt, tag, ckind


def short_block(ctx, eqsig, rng, c):
    """One/two-sample records through EVERY measure (positionally, by keyword, through generate_cumulative_stats, on
    eqsig.Signal for the acceleration-based ones) with the sign / scale / zero-padding relations; then the same record
    reached on an object with a history (a longer record replaced by the short one and the other way round)."""
    x, dt, tag, ckind = short_case(rng, c)
    cont, xr = to_container(rng, x, ckind)
    if xr[0] == 0:
        ctx.observe('short-record-first-sample-lost-in-container(not driven)')
        return
    quad_block(ctx, eqsig, rng, x, dt, 'short-' + tag, ckind, c)
    cont, xr = to_container(rng, x, ckind if ckind != 'f32' or float(np.max(np.abs(x))) < 1e12 else 'f64')
    if c % 3 == 0:
        run_history(ctx, eqsig, cont, dt, [['call', k] for k in ACC_KEYS], sigcls='Signal')
    amp = float(np.max(np.abs(xr)))
    longer = _other_record(rng, int(rng.choice([2, 3, 17, 200])), amp)
    if c % 2 == 0:       # warm object holding a longer record, then the short one
        ops = [['call', k] for k in QUAD_KEYS] + [['reset_values', cont]] + [['call', k] for k in rng.permutation(QUAD_KEYS).tolist()]
        run_history(ctx, eqsig, longer, dt, ops, twin=True)
    else:                # warm object holding the short record, then a longer one, then the short one again
        ops = ([['call', k] for k in rng.permutation(QUAD_KEYS).tolist()] + [['reset_values', longer]] +
               [['call', k] for k in QUAD_KEYS] + [['reset_values', cont], ['read', 'velocity']] + [['call', k] for k in QUAD_KEYS])
        run_history(ctx, eqsig, cont, dt, ops, twin=True)


def run_shard(ctx):
    warnings.simplefilter('ignore')
    eqsig = core.import_eqsig()
    install(ctx)
    rng = ctx.rng
    quick = ctx.tier == 'quick'
    n_quad = (2400 if quick else 48000) // ctx.nshards
    n_cavdp = (960 if quick else 16000) // ctx.nshards
    n_hist = (960 if quick else 16000) // ctx.nshards
    n_twin = (240 if quick else 4800) // ctx.nshards
    n_b2b = (240 if quick else 4800) // ctx.nshards
    n_derived = (480 if quick else 9600) // ctx.nshards
    n_extreme = (320 if quick else 6400) // ctx.nshards
    n_long = 1 if quick else 4
    n_assign = (640 if quick else 12800) // ctx.nshards
    n_proto = (336 if quick else 6720) // ctx.nshards
    n_short = (544 if quick else 8160) // ctx.nshards                 # 2 (quick) / 30 (thorough) rounds over the 17 container forms
    # -- one- and two-sample records, every container form --------------------------------------------------------
    off = int(rng.integers(len(SHORT_CONTAINERS)))
    for c in range(n_short):
        short_block(ctx, eqsig, rng, c + off)
    # -- CAVdp part -------------------------------------------------------------------------------------------
    for c in range(n_cavdp + 1):
        x, dt, cls, exact = cavdp_case(rng, long=(c == n_cavdp))
        ckind = 'f64'
        if not exact and rng.random() < 0.17:
            ckind = ['f32', 'i16', 'list', 'view', 'readonly', 'bool'][int(rng.integers(6))]     # bool: an on/off pulse train of 1 m/s2
        if c != n_cavdp and (rng.random() < 0.12 or (dt == 1.0 and rng.random() < 0.5)):
            dt = same_value_form(rng, dt)               # the same step as np.float64 / 0-d array / (np.)float32 / int-like / True
        if ckind == 'i16':
            cont = np.round(x / (G * GATE)).clip(-30000, 30000).astype(np.int16)     # integer m/s2: 0 below, >= 1 above the gate
            xr = cont.astype(float)
        else:
            cont, xr = to_container(rng, x, ckind)
        ctx.case(core.digest(xr, float(dt), _dt_kind(dt), ckind, 'cavdp'), nontrivial=bool(np.any(xr != 0)), cls='cavdp-%s/%s' % (cls, ckind),
                 sample={'fn': 'calc_cav_dp', 'n': len(xr), 'dt': float(dt), 'dt_form': _dt_kind(dt), 'class': cls, 'exact_g': exact, 'container': ckind,
                         'max_g': float(np.max(np.abs(xr)) / G)})
        run_cavdp(ctx, eqsig, cont, dt, exact, kw=(c % 3 == 1), sigcls='Signal' if c % 11 == 5 else 'AccSignal')
    for c in range(1 if quick else 8):
        # half-precision step (0.5, 0.25, 0.125, 1 are float16 numbers): outside the scalar forms judged; counted, and
        # observed as pending-finding when calc_cav_dp raises on it
        h = np.float16([0.5, 0.25, 0.125, 1.0][(ctx.shard + c) % 4])
        pps16 = int(round(1.0 / float(h)))
        x16 = rng.normal(size=int(rng.integers(2, 7)) * pps16 + 1 + int(rng.integers(0, pps16))) * G * GATE * 3.0
        ctx.observe('cavdp.float16-step-case(not judged)')
        with attach.paused():
            _apply(ctx, eqsig, eqsig.AccSignal(x16, h), ['call', 'cavdp'], {})
    # -- same-object histories --------------------------------------------------------------------------------
    for c in range(n_hist):
        x, dt, ops, cls, nsign, sigcls = history_case(rng)
        ckind = 'f64' if rng.random() < 0.8 else ['list', 'view', 'readonly'][int(rng.integers(3))]
        cont, _ = to_container(rng, x, ckind)
        if rng.random() < 0.12:
            dt = same_value_form(rng, dt)
        ctx.case(core.digest(x, float(dt), _dt_kind(dt), repr(core.jsonable(ops)), 'hist'), nontrivial=nsign >= 3,
                 cls='history-' + cls + ('' if nsign >= 3 else '(velocity keeps its sign)'),
                 sample={'fn': 'same-object history', 'n': len(x), 'dt': float(dt), 'dt_form': _dt_kind(dt), 'class': cls, 'velocity_sign_changes': nsign,
                         'signal_class': sigcls,
                         'ops': [op if op[0] != 'reset_values' else ['reset_values', '<array of %d>' % len(op[1])] for op in ops]})
        run_history(ctx, eqsig, cont, dt, ops, sigcls=sigcls, twin=True)
    # -- assignment through the public attribute names --------------------------------------------------------
    for c in range(n_assign):
        x, dt, ops, cls, sigcls = assign_case(rng)
        ckind = 'f64' if rng.random() < 0.7 else ['list', 'tuple', 'view', 'readonly', 'f32'][int(rng.integers(5))]
        cont, xr = to_container(rng, x, ckind)
        if rng.random() < 0.12:
            dt = same_value_form(rng, dt)
        ctx.case(core.digest(xr, float(dt), _dt_kind(dt), repr(core.jsonable(ops)), 'assign'), nontrivial=bool(np.any(xr != 0)),
                 cls='assign-' + cls.split(':')[1].split('/')[0],
                 sample={'fn': 'assignment through an attribute name, then every measure', 'n': len(xr), 'dt': float(dt), 'dt_form': _dt_kind(dt), 'class': cls,
                         'signal_class': sigcls, 'container': ckind,
                         'ops': [op if op[0] not in ('reset_values', 'assign_values', 'add_series', 'add_signal') else
                                 [op[0], op[1] if op[0] == 'assign_values' else '<array>'] for op in ops]})
        run_history(ctx, eqsig, cont, dt, ops, sigcls=sigcls, twin=True)
    # -- copy / deepcopy / pickle of an object in every cache state ----------------------------------------------
    for c in range(n_proto):
        x1, dt, _, _, cls, _ = _hist_record(rng)
        x2 = _other_record(rng, [len(x1), len(x1), len(x1) + 17, max(2, len(x1) // 2)][int(rng.integers(4))], float(np.max(np.abs(x1))) or 1.0)
        how = PROTOCOLS[c % 3]
        state = WARM_STATES[(c // 3) % len(WARM_STATES)]
        order = ['copy-first', 'orig-first'][int(rng.integers(2))]
        mut = MUTATIONS[int(rng.integers(3))]
        sigcls = 'Signal' if rng.random() < 0.12 else 'AccSignal'
        src = 'cluster' if (sigcls == 'AccSignal' and len(x2) == len(x1) and rng.random() < 0.15) else 'plain'
        ctx.case(core.digest(x1, x2, dt, how, state, order, mut, sigcls, src, 'protocol'), nontrivial=bool(np.any(x1 != 0)),
                 cls='protocol-%s/%s' % (how, state),
                 sample={'fn': 'copy protocol', 'n': len(x1), 'dt': dt, 'how': how, 'cache_state': state, 'order': order,
                         'mutation': mut, 'signal_class': sigcls, 'source': src})
        protocol_case(ctx, eqsig, x1, x2, dt, how, state, order, mut, sigcls=sigcls, src=src)
    # -- twin objects and back-to-back calls ------------------------------------------------------------------
    for c in range(n_twin):
        x, dt, ops, cls, nsign, _ = history_case(rng)
        ops = [op for op in ops if op[0] != 'call' or op[1] != 'cavdp'] + [['method', 'rebase_displacement', []], ['call', 'uke']]
        if rng.random() < 0.15:
            dt = same_value_form(rng, dt)          # a 0-d step array is shared by A, B and C like the record is
        ctx.case(core.digest(x, float(dt), _dt_kind(dt), repr(core.jsonable(ops)), 'twin'), nontrivial=bool(np.any(x != 0)), cls='twin-' + cls)
        twin_case(ctx, eqsig, x, dt, ops)
    for c in range(n_b2b):
        x1, dt, _, cls, _, _ = history_case(rng)
        in_dom, pps = Q.samples_per_second(float(dt))
        n2 = len(x1) if c % 4 != 3 else len(x1) + [1, 17, pps if in_dom else 5, len(x1)][int(rng.integers(4))]     # other shape
        x2, _ = gen.record(rng, n2)
        m2 = float(np.max(np.abs(x2)))
        x2 = np.asarray(x2, dtype=float) * ((np.max(np.abs(x1)) or 1.0) / (m2 if m2 > 0 else 1.0))
        keys = QUAD_KEYS + (['cavdp'] if in_dom and len(x1) - 1 >= 2 * pps else [])
        if rng.random() < 0.15:
            dt = same_value_form(rng, dt)
        ctx.case(core.digest(x1, x2, float(dt), _dt_kind(dt), 'b2b'), nontrivial=bool(np.any(x1 != 0) and (len(x1) != len(x2) or np.any(x1 != x2))),
                 cls='back2back-' + cls + ('' if n2 == len(x1) else '(other shape)'))
        back_to_back(ctx, eqsig, x1, x2, dt, keys, kw=(c % 3 == 0), third=['same', 'fresh'][c % 2])
    for c in range(n_derived):
        x1, dt, _, cls, _, _ = history_case(rng)
        x2, _ = gen.record(rng, len(x1))
        x2 = np.asarray(x2, dtype=float) * ((np.max(np.abs(x1)) or 1.0) / (float(np.max(np.abs(x2))) or 1.0))
        how = DERIVATIONS[c % len(DERIVATIONS)]
        param = None
        if how == 'deepcopy+add':
            param = float(rng.uniform(-1, 1) * (np.max(np.abs(x1)) or 1.0))
        elif how in ('interp', 'resample'):
            param = float(dt) * float(rng.choice([1.0, 0.5, 2.0, 0.3, 1.7]))      # incl. target == current
        elif how == 'combine':
            param = float(rng.choice([0.0, 90.0, 30.0, -45.0, 180.0]))               # incl. the angles where nothing needs doing
        ctx.case(core.digest(x1, x2, dt, how, param, 'derived'), nontrivial=bool(np.any(x1 != 0)), cls='derived-' + how)
        derived_case(ctx, eqsig, x1, x2, dt, how, param)
    # -- quadrature part + relations --------------------------------------------------------------------------
    for c in range(n_long):
        x, dt, cls = quadrature_case(rng, n=int(rng.choice([2 ** 16 + 1, 2 ** 16 + 1000, 100003])))
        quad_block(ctx, eqsig, rng, x, dt, cls + '+long', ['f64', 'f32', 'i16'][int(rng.choice(3, p=[.6, .2, .2]))], c + 2)
    for c in range(n_extreme):
        extreme_block(ctx, eqsig, rng, c)
    for c in range(n_quad):
        x, dt, cls = quadrature_case(rng)
        quad_block(ctx, eqsig, rng, x, dt, cls, CONTAINERS[int(rng.choice(len(CONTAINERS), p=CONTAINER_P))], c)
        if ctx.out_of_time():
            ctx.observe('stopped-by-budget')
            break
    ctx.note('monitored_calls', dict(attach.CALLS))
    ctx.note('rtol_final', RTOL)


def replay(w):
    """Re-execute one witness against the current tree; return the list of violation messages."""
    warnings.simplefilter('ignore')
    eqsig = core.import_eqsig()
    ctx = core.Ctx(PROP_ID, 'quick', 0, 0, 1)
    install(ctx)
    sc = w.get('scenario')
    if w.get('fn') == 'relation':
        relation(ctx, eqsig, np.asarray(w['acc']), _mk_dt(w['dt'], w.get('dt_kind', 'float')), w['kind'], alpha=w.get('alpha'),
                 k=w.get('k'), cont=np.asarray(w['acc_base']) if w.get('acc_base') is not None else None, keys=w.get('keys'))
    elif w.get('fn') == 'constructor':
        getattr(eqsig, w.get('sigcls', 'AccSignal'))(np.asarray(w['acc']), _mk_dt(w['dt'], w.get('dt_kind', 'float')))
    elif sc:
        # the case is the whole scenario up to and including the judged call
        dt = _mk_dt(sc['dt'], sc.get('dt_kind', 'float'))
        if sc['kind'] == 'history':
            run_history(ctx, eqsig, np.asarray(sc['acc0']), dt, sc['ops'], exact=sc.get('exact_g', False),
                        sigcls=sc.get('sigcls', 'AccSignal'), twin=sc.get('twin', False))
        elif sc['kind'] == 'twin':
            twin_case(ctx, eqsig, np.asarray(sc['acc0']), dt, sc['ops'])
        elif sc['kind'] == 'derived':
            derived_case(ctx, eqsig, np.asarray(sc['acc0']), np.asarray(sc['acc2']), dt, sc['how'], sc.get('param'))
        elif sc['kind'] == 'back2back':
            back_to_back(ctx, eqsig, np.asarray(sc['acc0']), np.asarray(sc['acc2']), dt, sc['keys'], kw=sc.get('kw', False),
                         third=sc.get('third', 'same'))
        elif sc['kind'] == 'protocol':
            protocol_case(ctx, eqsig, np.asarray(sc['acc0']), np.asarray(sc['acc2']), dt, sc['how'], sc['state'], sc['order'],
                          sc['mut'], sigcls=sc.get('sigcls', 'AccSignal'), src=sc.get('src', 'plain'))
        else:
            raise ValueError(sc['kind'])
    else:
        key = [k for k, name in FN.items() if name == w['fn']][0]
        run_history(ctx, eqsig, np.asarray(w['acc']), float(w['dt']), [['call', key]], exact=w.get('exact_g', False))
    return ['%s: %s' % (v['clause'], v['msg']) for v in ctx.violations]
