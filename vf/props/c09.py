"""C09 - cumulative intensity measures: definition, monotonicity, scaling laws, standardised CAV.

Monitors: post-conditions on every call of eqsig.im.calc_arias_intensity / calc_cav / calc_cav_dp / calc_isv /
calc_integral_of_abs_velocity / calc_cumulative_abs_displacement / calc_integral_of_abs_acceleration /
calc_unit_kinetic_energy (length, monotone, final value against the scalar quadrature of vf/oracles/quadrature.py;
for CAVdp the window/gate oracle with the one-panel-per-window slack of the statement and the knife-edge rule).
Trace relations (sign reversal, alpha scaling, zero padding) are evaluated by the driver over the monitored calls.
"""
import warnings

import numpy as np

from vf import attach, core, gen
from vf.oracles import quadrature as Q

PROP_ID = 'C09'
TECHNIQUE = ('runtime post-condition monitors on the eight eqsig.im cumulative-measure functions with scalar quadrature '
             'oracles (two-sided knife-edge oracle for the CAVdp gate); sign/scale/zero-padding trace relations over '
             'the recorded executions')
RULE = ('cases = (record, dt) pairs driven through the public eqsig.im functions on eqsig.AccSignal objects. '
        'Quadrature part: record classes of vf/gen.py (noise, walk, sine, chirp, beat, impulse, hat, step, quake, alt, '
        'plateau, const, zeropad, intnoise), n in [2, 5000], dt nice/reciprocal/log-uniform, containers float64 / '
        'int64 / list; every case is also run as -x, 2^k*x, alpha*x and (when it ends in 0) zero-padded. CAVdp part: '
        'durations 2..12 s plus 0..pps-1 extra samples, dt in {0.1,0.05,0.04,0.025,0.02,0.01,0.005,0.0025,0.002} and '
        'reciprocals 1/k (k=49,93,98,99,...), classes envelope-noise / all-below / quake / exact-gate (built in g '
        'units on exactly representable levels incl. 0.025 and its two neighbours) / boundary-spike (a spike just '
        'before a window boundary over distinct per-window background levels) / generic / near-gate-inexact (window '
        'maxima within 4 ulp of 0.025*9.81 in m/s2: knife-edge rule). Same-object histories: one AccSignal, 3..8 '
        'monitored calls drawn with repeats from all eight measures (CAVdp when in its quantifier), interleaved with '
        'reads of velocity/displacement/pgv/pgd/pga and the mutators add_constant / reset_values / butter_pass; '
        'non-trivial = the velocity changes sign at least 3 times. distinct = digest(values, dt, part); '
        'non-trivial = record with a non-zero sample.')
ASSUMPTIONS = ['NaN-free real records, n >= 2, dt > 0; float64 arithmetic (float32 containers are not driven)',
               'velocity is, by definition (C08), the cumulative trapezoid of the record with v[0]=0; the oracle '
               'computes it from (values, dt) at call entry and never reads the object\'s cached series; '
               'generate_displacement_and_velocity_series(trap=False) is not driven',
               '"rectangle sum" does not fix the side: all-sample, left and right sums are all accepted for the '
               '|a| and |v| integrals',
               'CAVdp is judged only when 1/dt is an integer up to rounding and the record spans >= 2 s; '
               'the gate is decided strictly only for records built in g units whose a/9.81 reproduces them exactly, '
               'otherwise a window maximum within 4 ulp of 0.025 may fall on either side',
               'oracle vf/oracles/quadrature.py is correct (scalar trapezoid / rectangle sums, fsum)']
RTOL = 1e-10
G = Q.G
CTX = None
HINT = {'exact_g': False}

def n_shards(tier):
    return 16


# ---------------------------------------------------------------------------------------------------- monitors
FINAL_CLAUSE = {'arias': 'arias.final==pi/2g*trapz(a^2)', 'cav': 'cav.final==trapz|a|', 'isv': 'isv.final==trapz(v^2)',
                'abs_acc': 'abs_acc.final==rect|a|', 'abs_vel': 'abs_vel.final==rect|v|', 'cad': 'cad.final==rect|v|',
                'uke': 'uke.final==sum|d(v|v|/2)|'}
FN = {'arias': 'calc_arias_intensity', 'cav': 'calc_cav', 'isv': 'calc_isv', 'abs_acc': 'calc_integral_of_abs_acceleration',
      'abs_vel': 'calc_integral_of_abs_velocity', 'cad': 'calc_cumulative_abs_displacement',
      'uke': 'calc_unit_kinetic_energy', 'cavdp': 'calc_cav_dp'}


def _mins(f, cd, rel, pad):
    m = {}
    for k in ('arias', 'cav', 'isv', 'abs_acc', 'abs_vel', 'cad', 'uke'):
        m[FINAL_CLAUSE[k]] = f
        m[k + '.length'] = f
        m[k + '.monotone'] = f
    m.update({'cavdp.final==windows+-panel': int(cd * 0.4), 'cavdp.zero-when-no-window-qualifies': int(cd * 0.09),
              'cavdp.in[0,CAV/g]': int(cd * 0.5), 'cavdp.monotone': int(cd * 0.5), 'cavdp.length': int(cd * 0.5),
              'cavdp.gate-decided-exactly': int(cd * 0.09),
              'relation.sign': rel, 'relation.scale.pow2': rel, 'relation.scale.random': rel, 'relation.zero-pad': pad})
    return m


# about 50% of what a normal run reaches
MIN_EVALS = {'quick': _mins(4800, 960, 8000, 1500), 'thorough': _mins(96000, 16000, 160000, 30000)}


def _sig(args, kwargs):
    return args[0] if args else next(iter(kwargs.values()))


# same-object history being driven (so that a witness taken inside it can be replayed from the fresh object)
HIST = {'on': False, 'acc0': None, 'dt': None, 'ops': []}


def _wit(key, acc, dt, **kw):
    d = {'fn': FN[key], 'acc': np.asarray(acc), 'dt': float(dt)}
    if HIST['on']:
        d['history'] = {'acc0': HIST['acc0'], 'dt': HIST['dt'], 'ops': list(HIST['ops'])}
    d.update(kw)
    return d


_VEL = {'key': None, 'val': None}


def _velocity(acc, dt):
    """Oracle velocity of the record, computed from (values, dt) only - never from the object's cached series, which
    an earlier call on the same object may have altered. Returns (v list, rounding bound, sum |v|)."""
    key = (acc.tobytes(), dt)
    if _VEL['key'] != key:
        v, err = Q.velocity(acc.tolist(), dt)
        _VEL['key'], _VEL['val'] = key, (v, err, sum(abs(x) for x in v))
    return _VEL['val']


def _shape_clauses(ctx, key, acc, dt, result, n):
    """length and monotonicity; returns the series as float array, or None when there is no final value to judge."""
    try:
        r = np.asarray(result, dtype=float)
    except Exception:
        r = np.zeros((0, 0))
    ctx.check(r.ndim == 1 and r.shape[0] == n, key + '.length', lambda: _wit(key, acc, dt, got_shape=list(r.shape)),
              '%s returned shape %s for a record of %d samples' % (FN[key], r.shape, n))
    if r.ndim != 1 or r.shape[0] == 0:
        return None
    mono = bool(np.all(np.isfinite(r))) and (r.shape[0] < 2 or bool(np.all(np.diff(r) >= 0)))
    if mono:
        ctx.ok(key + '.monotone')
    else:
        step = float(np.min(np.diff(r))) if r.shape[0] > 1 else None
        ctx.violation(key + '.monotone', _wit(key, acc, dt, min_step=step),
                      '%s series is not finite and non-decreasing (min step %r)' % (FN[key], step))
    return r    # the final value of a wrong-length (non-empty) series is still judged


def check_quadrature(ctx, key, acc_in, dt, result):
    """Post-condition of the seven quadrature-defined measures; acc_in, dt = the object's values and step at call
    entry. Everything expected is derived from these two alone."""
    acc = np.asarray(acc_in, dtype=float)
    n = acc.shape[0] if acc.ndim == 1 else 0
    if n < 1 or not np.all(np.isfinite(acc)) or not (dt > 0):
        ctx.observe('out-of-domain-call(empty/NaN/dt<=0)')
        return
    r = _shape_clauses(ctx, key, acc_in, dt, result, n)
    if r is None:
        return
    got = float(r[-1])
    atol = 0.0
    if key == 'arias':
        refs = [Q.arias_final(acc.tolist(), dt)]
    elif key == 'cav':
        refs = [Q.cav_final(acc.tolist(), dt)]
    elif key == 'abs_acc':
        refs = sorted(set(Q.rectangle_finals(acc.tolist(), dt).values()))
    else:
        v, verr, sumabs_v = _velocity(acc, dt)
        if key == 'isv':
            refs = [Q.isv_final(v, dt)]
            atol = 2 * verr * sumabs_v * dt
        elif key in ('abs_vel', 'cad'):
            refs = sorted(set(Q.rectangle_finals(v, dt).values()))
            atol = verr * n * dt
        else:
            ref, sumabs_k = Q.unit_kinetic_energy_final(v)
            refs = [ref]
            atol = 8 * Q.EPS * sumabs_k + 2 * verr * sumabs_v
    okk = np.isfinite(got) and any(abs(got - ref) <= atol + RTOL * abs(ref) for ref in refs)
    ctx.check(okk, FINAL_CLAUSE[key], lambda: _wit(key, acc_in, dt, got_final=got, expected=refs, atol=atol),
              '%s final value %r, defining quadrature of the record gives %r (n=%d dt=%r%s)'
              % (FN[key], got, refs, n, dt, ', call %d of a same-object history' % len(HIST['ops']) if HIST['on'] else ''))


def check_cav_dp(ctx, acc_in, dt, result):
    acc = np.asarray(acc_in, dtype=float)
    n = acc.shape[0] if acc.ndim == 1 else 0
    in_dom, pps = Q.samples_per_second(dt) if dt > 0 else (False, 0)
    if n < 1 or not np.all(np.isfinite(acc)) or not in_dom or (n - 1) < 2 * pps:
        ctx.observe('cavdp.out-of-quantifier-call')
        return
    exact = bool(HINT['exact_g']) and bool(np.all((acc / G) * G == acc))
    r = _shape_clauses(ctx, 'cavdp', acc_in, dt, result, n)
    if r is None:
        return
    got = float(r[-1])
    a = acc.tolist()
    wins = Q.cav_dp_windows(a, dt, pps, exact_g=exact)
    cav_g = Q.cav_final(a, dt) / G
    wit = lambda: _wit('cavdp', acc_in, dt, exact_g=exact, got_final=got, cav_over_g=cav_g, pps=pps,
                       windows=[(w['w'], w['status'], w['max_g'], w['integral'], w['panel']) for w in wins])
    ctx.check(np.isfinite(got) and 0.0 <= got <= cav_g * (1 + RTOL), 'cavdp.in[0,CAV/g]', wit,
              'CAVdp final %r outside [0, CAV/9.81 = %r]' % (got, cav_g))
    live = [w for w in wins if w['status'] != 'out']
    if any(w['status'] == 'ambiguous' for w in wins):
        ctx.observe('cavdp.case-with-ambiguous-window(either side accepted)')
    if exact and any(abs(w['max_g'] - Q.GATE_G) <= 4 * Q.EPS * Q.GATE_G for w in wins):
        ctx.ok('cavdp.gate-decided-exactly')      # counts the cases in which >= vs > at the gate is decidable
    if not live:
        ctx.check(got == 0.0, 'cavdp.zero-when-no-window-qualifies', wit,
                  'CAVdp final %r although no one-second window reaches 0.025 g (largest window max %r g)'
                  % (got, max(w['max_g'] for w in wins)))
        return
    adm = Q.cav_dp_admissible(wins)
    okk = np.isfinite(got) and any(abs(got - e) <= al + RTOL * e for e, al in adm)
    e0, a0 = adm[-1]
    ctx.check(okk, 'cavdp.final==windows+-panel', wit,
              'CAVdp final %r, sum over qualifying windows %r +- %r (one panel per window), %d windows (%d in, %d ambiguous), '
              'dt=%r n=%d' % (got, e0, a0, len(wins), sum(w['status'] == 'in' for w in wins),
                              sum(w['status'] == 'ambiguous' for w in wins), dt, n))


def _pre(args, kwargs):
    """Snapshot of the object's record at call entry: the post-condition is judged against what the function was
    given, whatever the call (or an earlier one) did to the object."""
    asig = _sig(args, kwargs)
    return np.array(asig.values, copy=True), float(asig.dt)


def _mk_post(key):
    def post(args, kwargs, result, pre):
        acc, dt = pre
        if key == 'cavdp':
            check_cav_dp(CTX, acc, dt, result)
        else:
            check_quadrature(CTX, key, acc, dt, result)
    return post


def install(ctx):
    global CTX
    CTX = ctx
    import eqsig
    for key, name in FN.items():
        attach.wrap(eqsig.im, name, _mk_post(key), pre=_pre)


# ---------------------------------------------------------------------------------------------------- histories
QUAD_KEYS = ['arias', 'cav', 'isv', 'abs_acc', 'abs_vel', 'cad', 'uke']
SQUARE_LAW = ('arias', 'isv', 'uke')
PAD_KEYS = ('arias', 'cav', 'abs_acc')


def run_history(ctx, eqsig, values, dt, ops, exact=False):
    """Drive ONE AccSignal through a sequence of operations: ['call', key] (monitored measure), ['stats'] (deprecated
    object entry point calling arias + cav), ['read', attr], ['add_constant', c], ['reset_values', array],
    ['butter_pass', [lo, hi]]. Every monitored call is judged by its normal post-condition against the object's
    values at that moment. Returns {key: last series returned (or None)}."""
    out = {}
    asig = eqsig.AccSignal(values, dt)
    HIST.update(on=True, acc0=np.array(values), dt=float(dt), ops=[])
    HINT['exact_g'] = bool(exact)
    try:
        for op in ops:
            HIST['ops'].append(op)
            kind = op[0]
            try:
                if kind == 'call':
                    out[op[1]] = None
                    out[op[1]] = np.asarray(getattr(eqsig.im, FN[op[1]])(asig), dtype=float)
                elif kind == 'stats':
                    asig.generate_cumulative_stats()
                    ctx.observe('object.generate_cumulative_stats-call')
                elif kind == 'read':
                    getattr(asig, op[1])
                elif kind == 'add_constant':
                    asig.add_constant(op[1])
                elif kind == 'reset_values':
                    asig.reset_values(op[1])
                elif kind == 'butter_pass':
                    asig.butter_pass(tuple(op[1]))
                else:
                    raise ValueError(kind)
                if kind not in ('call', 'stats'):
                    ctx.observe('history.' + kind)
            except Exception as e:
                if kind == 'call':
                    clause = 'cavdp.final==windows+-panel' if op[1] == 'cavdp' else op[1] + '.length'
                    ctx.exception(clause, _wit(op[1], asig.values, asig.dt, exact_g=bool(exact)), e)
                elif kind == 'stats':
                    ctx.exception('arias.length', _wit('arias', asig.values, asig.dt), e)
                else:
                    ctx.observe('history.%s-raised(not judged by C09)' % kind)
    finally:
        HIST['on'] = False
        HINT['exact_g'] = False
    return out


def measure(ctx, eqsig, values, dt, keys=QUAD_KEYS, via_object=False):
    """All measures in a fixed order on one fresh AccSignal; returns {key: series or None}."""
    ops = ([['stats']] if via_object else []) + [['call', k] for k in keys]
    out = run_history(ctx, eqsig, values, dt, ops)
    return {k: out.get(k) for k in keys}


def _final(s):
    return float(s[-1]) if s is not None and s.ndim == 1 and s.shape[0] else None


def relation(ctx, eqsig, x, dt, kind, alpha=None, k=None, base=None):
    """Evaluate one trace relation between the execution on x and the execution on the transformed record."""
    x = np.asarray(x)
    wit = lambda **kw: dict({'fn': 'relation', 'kind': kind, 'acc': x, 'dt': float(dt), 'alpha': alpha, 'k': k}, **kw)
    if base is None:
        base = measure(ctx, eqsig, x, dt)
    if kind == 'sign':
        other = measure(ctx, eqsig, -x, dt)
        for key in QUAD_KEYS:
            f0, f1 = _final(base[key]), _final(other[key])
            if f0 is None or f1 is None:
                continue
            ctx.check(abs(f1 - f0) <= RTOL * abs(f0), 'relation.sign', lambda: wit(measure=key, f_x=f0, f_minus_x=f1),
                      '%s final %r for x but %r for -x' % (FN[key], f0, f1))
    elif kind in ('scale.pow2', 'scale.random'):
        other = measure(ctx, eqsig, x * alpha, dt)
        rtol = 1e-14 if kind == 'scale.pow2' else RTOL
        for key in QUAD_KEYS:
            f0, f1 = _final(base[key]), _final(other[key])
            if f0 is None or f1 is None:
                continue
            fac = alpha * alpha if key in SQUARE_LAW else abs(alpha)
            ctx.check(abs(f1 - fac * f0) <= rtol * abs(fac * f0), 'relation.' + kind,
                      lambda: wit(measure=key, f_x=f0, f_alpha_x=f1, factor=fac),
                      '%s final %r for x, %r for %r*x, expected factor %r' % (FN[key], f0, f1, alpha, fac))
    elif kind == 'zero-pad':
        if x.shape[0] == 0 or x[-1] != 0:
            ctx.observe('zero-pad-skipped(record does not end at 0)')
            return
        xp = np.concatenate([x, np.zeros(k, dtype=x.dtype)])
        other = measure(ctx, eqsig, xp, dt, keys=PAD_KEYS)
        n = x.shape[0]
        for key in PAD_KEYS:
            s0, s1 = base[key], other[key]
            if s0 is None or s1 is None or s0.shape != (n,) or s1.shape != (n + k,):
                continue
            scale = abs(s0[-1])
            okk = bool(np.all(np.abs(s1[:n] - s0) <= RTOL * scale)) and abs(s1[-1] - s0[-1]) <= RTOL * scale
            ctx.check(okk, 'relation.zero-pad', lambda: wit(measure=key, f_x=float(s0[-1]), f_padded=float(s1[-1])),
                      '%s changes when %d zeros are appended to a record ending at 0: final %r -> %r, max prefix change %r'
                      % (FN[key], k, float(s0[-1]), float(s1[-1]), float(np.max(np.abs(s1[:n] - s0)))))
    else:
        raise ValueError(kind)


# ---------------------------------------------------------------------------------------------------- workload
CAVDP_NICE_DT = [0.1, 0.05, 0.04, 0.025, 0.02, 0.01, 0.005, 0.0025, 0.002]
CAVDP_RECIP_K = [49, 93, 99, 49, 93, 99, 98, 103, 107, 161, 186, 196, 198]
GATE = Q.GATE_G
_LEVELS_BELOW = [m / 4096.0 for m in range(0, 100)]      # background levels in g, all < 0.0245


def cavdp_case(rng, cls=None):
    """Returns (acc, dt, class, exact_g)."""
    if rng.random() < 0.4:
        k = CAVDP_RECIP_K[int(rng.integers(len(CAVDP_RECIP_K)))]
        dt, pps = 1.0 / k, k
    else:
        dt = CAVDP_NICE_DT[int(rng.integers(len(CAVDP_NICE_DT)))]
        pps = int(round(1.0 / dt))
    nwin = int(rng.integers(2, 13))
    extra = 0 if rng.random() < 0.3 else int(rng.integers(0, pps))
    n = nwin * pps + 1 + extra
    if cls is None:
        cls = ['envelope-noise', 'all-below', 'quake', 'exact-gate', 'boundary-spike', 'generic', 'near-gate-inexact'][
            int(rng.choice(7, p=[0.22, 0.12, 0.1, 0.2, 0.22, 0.09, 0.05]))]
    t = np.arange(n) * dt
    exact = False
    if cls == 'envelope-noise':
        env = np.exp(-((t - rng.uniform(0, t[-1])) / rng.uniform(0.5, max(1.0, t[-1] / 2))) ** 2)
        x = rng.normal(size=n) * env
        x *= G * GATE * rng.uniform(0.5, 6.0) / max(np.max(np.abs(x)), 1e-300)
    elif cls == 'all-below':
        x, _ = gen.record(rng, n, allow_const=True)
        m = np.max(np.abs(x))
        x = x * (G * GATE * rng.uniform(0.05, 0.98) / m) if m > 0 else x
    elif cls == 'quake':
        x, _ = gen.record(rng, n, cls='quake', amp=1.0)
        x = x * (G * rng.uniform(0.01, 0.3) / max(np.max(np.abs(x)), 1e-300))
    elif cls == 'generic':
        x, _ = gen.record(rng, n, allow_const=True)
        m = np.max(np.abs(x))
        x = x * (G * GATE * 10.0 ** rng.uniform(-0.5, 1.2) / m) if m > 0 else x
    elif cls == 'near-gate-inexact':
        # record in m/s2 whose window maxima lie within a few ulp of 0.025*9.81: a/9.81 is inexact, so the knife-edge
        # rule applies (either side of the gate is accepted for these windows)
        x = rng.uniform(-1.0, 1.0, size=n) * G * GATE * rng.uniform(0.3, 0.9)
        for w in range(nwin):
            if rng.random() < 0.6:
                v = G * GATE
                for _ in range(int(rng.integers(0, 5))):
                    v = np.nextafter(v, rng.choice([0.0, 1.0]))
                x[int(rng.integers(w * pps + 1, (w + 1) * pps))] = v * rng.choice([-1.0, 1.0])
    elif cls == 'exact-gate':
        # record defined in g units on exactly representable levels; the window maxima sit at, one ulp below, one ulp
        # above the gate, on dyadic levels either side, or stay at the background
        q = rng.choice(_LEVELS_BELOW, size=n) * rng.choice([-1.0, 1.0], size=n)
        peaks = [GATE, np.nextafter(GATE, 0.0), np.nextafter(GATE, 1.0), 2.0 ** -5, 0.03, None]
        for w in range(nwin + 1):
            lo, hi = w * pps, min((w + 1) * pps, n - 1)
            if hi - lo < 2:
                continue
            pk = peaks[int(rng.choice(6, p=[0.3, 0.25, 0.15, 0.1, 0.05, 0.15]))]
            if pk is None:
                continue
            for j in rng.integers(lo + 1, hi, size=int(rng.integers(1, 4))):
                q[j] = pk * rng.choice([-1.0, 1.0])
        x = G * q
        bad = (x / G) != q
        x[bad] = 0.0
        q[bad] = 0.0
        exact = bool(np.all(x / G == q))
    elif cls == 'boundary-spike':
        # distinct background level per window, spikes above the gate a few samples before a window boundary: the
        # result depends on every window being exactly [w*pps, (w+1)*pps]
        lev = rng.uniform(0.002, 0.02, size=nwin + 2)
        widx = np.minimum(np.arange(n) // pps, nwin + 1)
        x = lev[widx] * rng.uniform(0.3, 1.0, size=n) * rng.choice([-1.0, 1.0], size=n)
        for w in range(1, nwin + 1):
            if rng.random() < 0.5:
                d = int(rng.integers(1, max(2, min(w, pps - 1))))
                x[w * pps - d] = rng.uniform(0.03, 0.08) * rng.choice([-1.0, 1.0])
        x = x * G
    else:
        raise ValueError(cls)
    return np.asarray(x, dtype=float), dt, cls, exact


def run_cavdp(ctx, eqsig, x, dt, exact):
    run_history(ctx, eqsig, x, dt, [['call', 'cavdp']], exact=exact)


HIST_CLASSES = ['sine', 'chirp', 'beat', 'noise', 'quake', 'alt', 'intnoise', 'zeropad', 'walk', 'hat']
READS = ['velocity', 'displacement', 'pgv', 'pgd', 'pga']


def history_case(rng):
    """One record + a random same-object history: 3..8 monitored calls drawn with repeats from all measures (CAVdp
    when the record is inside its quantifier), interleaved with reads of derived series and public mutators.
    Returns (acc, dt, ops, class, number of sign changes of the velocity)."""
    cls = HIST_CLASSES[int(rng.integers(len(HIST_CLASSES)))]
    in_dom = rng.random() < 0.5
    if in_dom:
        dt = CAVDP_NICE_DT[int(rng.integers(len(CAVDP_NICE_DT)))] if rng.random() < 0.7 else \
            1.0 / CAVDP_RECIP_K[int(rng.integers(len(CAVDP_RECIP_K)))]
        pps = int(round(1.0 / dt))
        n = int(rng.integers(2, 7)) * pps + 1 + int(rng.integers(0, pps))
        if n > 3000:
            n = 2 * pps + 1 + int(rng.integers(0, pps))
    else:
        dt = gen.dt(rng)
        n = int(rng.choice([5, 13, 50, 200, 1000]))
    x, _ = gen.record(rng, n, cls=cls)
    x = np.asarray(x, dtype=float)
    if rng.random() < 0.85 and cls not in ('alt', 'hat'):
        # use the drawn shape as the velocity: its increments as acceleration give a velocity that oscillates about 0
        x = np.diff(x - np.mean(x), prepend=0.0)
        cls += '-diff'
    m = float(np.max(np.abs(x)))
    if in_dom and m > 0:
        x = x * (G * GATE * rng.uniform(0.5, 6.0) / m)
        m = float(np.max(np.abs(x)))
    pool = QUAD_KEYS + (['cavdp'] if in_dom else [])
    ops = []
    for _ in range(int(rng.integers(3, 9))):
        u = rng.random()
        if u < 0.25:
            ops.append(['read', READS[int(rng.integers(len(READS)))]])
        elif u < 0.32:
            ops.append(['add_constant', float(rng.uniform(-0.3, 0.3) * (m if m > 0 else 1.0))])
        elif u < 0.38:
            y, _ = gen.record(rng, n, cls=HIST_CLASSES[int(rng.integers(len(HIST_CLASSES)))])
            ops.append(['reset_values', np.asarray(y, dtype=float) * ((m if m > 0 else 1.0) / max(float(np.max(np.abs(y))), 1e-300))])
        elif u < 0.44 and dt <= 0.025 and n >= 100:
            ops.append(['butter_pass', [float(rng.uniform(0.1, 1.0)), float(rng.uniform(5.0, min(15.0, 0.4 / dt)))]])
        ops.append(['call', pool[int(rng.integers(len(pool)))]])
    v = np.concatenate([[0.0], np.cumsum(0.5 * dt * (x[1:] + x[:-1]))])
    sg = np.sign(v[v != 0])
    return x, dt, ops, cls, int(np.sum(sg[1:] != sg[:-1]))


def quadrature_case(rng):
    n = int(rng.choice([2, 3, 4, 5, 8, 13, 50, 200, 1000, 5000], p=[.05, .05, .05, .05, .1, .1, .2, .2, .15, .05]))
    x, cls = gen.record(rng, n)
    dt = gen.dt(rng)
    if x[-1] != 0 and rng.random() < 0.3:
        x = x.copy()
        x[-1] = 0.0
        cls += '+endzero'
    return x, dt, cls


def run_shard(ctx):
    warnings.simplefilter('ignore')
    eqsig = core.import_eqsig()
    install(ctx)
    rng = ctx.rng
    n_quad = (2400 if ctx.tier == 'quick' else 48000) // ctx.nshards
    n_cavdp = (960 if ctx.tier == 'quick' else 16000) // ctx.nshards
    # -- CAVdp part -------------------------------------------------------------------------------------------
    for c in range(n_cavdp):
        x, dt, cls, exact = cavdp_case(rng)
        ctx.case(core.digest(x, dt, 'cavdp'), nontrivial=bool(np.any(x != 0)), cls='cavdp-' + cls,
                 sample={'fn': 'calc_cav_dp', 'n': len(x), 'dt': dt, 'class': cls, 'exact_g': exact,
                         'max_g': float(np.max(np.abs(x)) / G)})
        run_cavdp(ctx, eqsig, x, dt, exact)
    # -- same-object histories --------------------------------------------------------------------------------
    for c in range((960 if ctx.tier == 'quick' else 16000) // ctx.nshards):
        x, dt, ops, cls, nsign = history_case(rng)
        ctx.case(core.digest(x, dt, repr(core.jsonable(ops)), 'hist'), nontrivial=nsign >= 3,
                 cls='history-' + cls + ('' if nsign >= 3 else '(velocity keeps its sign)'),
                 sample={'fn': 'same-object history', 'n': len(x), 'dt': dt, 'class': cls, 'velocity_sign_changes': nsign,
                         'ops': [op if op[0] != 'reset_values' else ['reset_values', '<array>'] for op in ops]})
        run_history(ctx, eqsig, x, dt, ops)
    # -- quadrature part + relations --------------------------------------------------------------------------
    for c in range(n_quad):
        x, dt, cls = quadrature_case(rng)
        cont, ckind = x, 'f64'
        u = rng.random()
        if u < 0.1:
            cont, ckind = x.tolist(), 'list'
        elif u < 0.25 and np.all(x == np.round(x)) and np.max(np.abs(x)) < 1e6:
            cont, ckind = x.astype(np.int64), 'i64'
        ctx.case(core.digest(x, dt, 'quad'), nontrivial=bool(np.any(x != 0)), cls='quad-' + cls.split('+')[0],
                 sample={'fn': 'all seven quadrature measures + relations', 'n': len(x), 'dt': dt, 'class': cls,
                         'container': ckind, 'head': x[:8]})
        base = measure(ctx, eqsig, cont, dt, via_object=(c % 10 == 0))
        relation(ctx, eqsig, x, dt, 'sign', base=base)
        a2 = float(rng.choice([-1.0, 1.0]) * 2.0 ** int(rng.integers(-6, 7)))
        if a2 == 1.0:
            a2 = -4.0
        relation(ctx, eqsig, x, dt, 'scale.pow2', alpha=a2, base=base)
        ar = float(rng.choice([-1.0, 1.0]) * 10.0 ** rng.uniform(-3, 3))
        relation(ctx, eqsig, x, dt, 'scale.random', alpha=ar, base=base)
        if x[-1] == 0:
            relation(ctx, eqsig, x, dt, 'zero-pad', k=int(rng.choice([1, 2, 7, 50, 300])), base=base)
        if ctx.out_of_time():
            ctx.observe('stopped-by-budget')
            break
    ctx.note('monitored_calls', dict(attach.CALLS))
    ctx.note('rtol_final', RTOL)


def replay(w):
    """Re-execute one witness against the current tree; return the list of violation messages."""
    warnings.simplefilter('ignore')
    eqsig = core.import_eqsig()
    ctx = core.Ctx(PROP_ID, 'quick', 0, 0, 1)
    install(ctx)
    acc = np.asarray(w['acc'])
    dt = float(w['dt'])
    if w.get('fn') == 'relation':
        relation(ctx, eqsig, acc, dt, w['kind'], alpha=w.get('alpha'), k=w.get('k'))
    elif w.get('history'):
        # the case is the whole history of the object up to and including the judged call
        h = w['history']
        run_history(ctx, eqsig, np.asarray(h['acc0']), float(h['dt']), h['ops'], exact=w.get('exact_g', False))
    else:
        key = [k for k, name in FN.items() if name == w['fn']][0]
        run_history(ctx, eqsig, acc, dt, [['call', key]], exact=w.get('exact_g', False))
    return ['%s: %s' % (v['clause'], v['msg']) for v in ctx.violations]
