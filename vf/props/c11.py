"""C11 - local-peak detection is sound and complete on every series.

Monitor: post-condition on every call of get_peak_array_indices / get_peak_indices / get_n_cyc_array (wherever the call
comes from) against a run-length reference, plus the literal assertions of the statement evaluated independently.
Workload: exhaustive enumeration of a 5-level alphabet (every rise/fall/flat pattern) + random series.
"""
import itertools

import numpy as np

from vf import attach, core, gen
from vf.oracles import peaks as O

PROP_ID = 'C11'
TECHNIQUE = 'runtime post-condition monitor with run-length reference oracle; exhaustive small-alphabet + random workload'
RULE = ('cases = (series, ptype | opt,start) calls of the real functions. Exhaustive part: every sequence over the '
        'alphabet {0..4} of length 2..7 (quick) / 2..8 (thorough), each as float64, int64 and shifted by -2 '
        '(distinct by construction; non-trivial = non-constant). Random part: noise / plateau-rich integer walks / '
        'flat starts and ends / repeated extremes, lengths up to 5000; distinct = digest of (values, options), '
        'non-trivial = non-constant series.')
ASSUMPTIONS = ['NaN-free real input', 'constant series are outside the statement (counted, not judged)',
               'oracle vf/oracles/peaks.py is correct (25-line run-length reference)']
EXHAUSTIVE = {'quick': 'all sequences over {0,1,2,3,4} of length 2..7 x {float, int, shifted -2} x ptype {all,max,min}',
              'thorough': 'all sequences over {0,1,2,3,4} of length 2..8 x {float, int, shifted -2} and of length 9 as float x ptype {all,max,min}'}
MIN_EVALS = {'quick': {'peaks.all==reference': 200000, 'peaks.max==reference': 200000, 'peaks.min==reference': 200000,
                       'ncyc==reference': 2000, 'peaks.assertions': 200000},
             'thorough': {'peaks.all==reference': 2500000, 'peaks.max==reference': 2500000,
                          'peaks.min==reference': 2500000, 'ncyc==reference': 20000, 'peaks.assertions': 2500000}}

CTX = None


def n_shards(tier):
    return 16


# ---------------------------------------------------------------------------------------------------- monitors
def _wit(values, **kw):
    d = {'values': np.asarray(values), 'container': type(values).__name__}
    d.update(kw)
    return d


def check_peaks(ctx, values, ptype, result):
    """The post-condition proper. values as passed by the caller."""
    vals = np.asarray(values, dtype=float).tolist()
    if len(set(vals)) < 2:
        ctx.observe('constant-series-call')
        return
    ref_all, ref_max, ref_min = O.turning_points(vals)
    ref = {'all': ref_all, 'max': ref_max, 'min': ref_min}.get(ptype, ref_all)
    got = [int(i) for i in np.asarray(result).tolist()]
    clause = 'peaks.%s==reference' % (ptype if ptype in ('max', 'min') else 'all')
    ctx.check(got == ref, clause, lambda: _wit(values, fn='get_peak_array_indices', ptype=ptype, got=got, expected=ref),
              'get_peak_array_indices(%s..., %r) -> %s, expected %s' % (vals[:12], ptype, got[:20], ref[:20]))
    if ptype not in ('max', 'min'):
        # literal assertions of the statement, independent of the reference
        n = len(vals)
        a_ok = len(got) >= 2 and got[0] == 0 and all(b > a for a, b in zip(got, got[1:]))
        if a_ok:
            last = got[-1]
            a_ok = all(v == vals[last] for v in vals[last:]) and (last == 0 or vals[last - 1] != vals[last])
        if a_ok:
            prev_dir = 0
            for a, b in zip(got, got[1:]):
                seg = vals[a:b + 1]
                up = all(y >= x for x, y in zip(seg, seg[1:]))
                dn = all(y <= x for x, y in zip(seg, seg[1:]))
                d = 1 if (up and seg[-1] > seg[0]) else (-1 if (dn and seg[-1] < seg[0]) else 0)
                if d == 0 or d == prev_dir:
                    a_ok = False
                    break
                prev_dir = d
        ctx.check(a_ok, 'peaks.assertions', lambda: _wit(values, fn='get_peak_array_indices', ptype=ptype, got=got),
                  'assertion set (ascending, starts 0, ends at final run, monotone segments, alternation) broken: %s -> %s'
                  % (vals[:12], got[:20]))


def check_ncyc(ctx, values, opt, start, result):
    import eqsig
    vals = np.asarray(values, dtype=float).tolist()
    if len(set(vals)) < 2:
        ctx.observe('constant-series-call')
        return
    if opt == 'all':
        pk = O.turning_points(vals)[0]
    else:
        with attach.paused():
            pk = [int(i) for i in eqsig.fns.peaks_and_crossings.get_switched_peak_array_indices(values)]
    ref = np.array(O.n_cyc_reference(len(vals), pk, start))
    got = np.asarray(result, dtype=float)
    okk = got.shape == ref.shape and bool(np.all(np.abs(got - ref) <= 1e-12 * (1 + np.abs(ref))))
    ctx.check(okk, 'ncyc==reference', lambda: _wit(values, fn='get_n_cyc_array', opt=opt, start=start, got=got, expected=ref),
              'get_n_cyc_array(%s, %r, %r)' % (vals[:12], opt, start))
    if okk:
        ctx.check(bool(np.all(np.diff(got) >= 0)) and len(got) == len(vals), 'ncyc.monotone+length',
                  lambda: _wit(values, fn='get_n_cyc_array', opt=opt, start=start, got=got))


def _post_peaks(args, kwargs, result, pre):
    values = args[0] if args else kwargs['values']
    ptype = args[1] if len(args) > 1 else kwargs.get('ptype', 'all')
    check_peaks(CTX, values, ptype, result)


def _post_peak_indices(args, kwargs, result, pre):
    asig = args[0] if args else kwargs['asig']
    check_peaks(CTX, asig.values, 'all', result)
    CTX.ok('get_peak_indices(signal) monitored')


def _post_ncyc(args, kwargs, result, pre):
    values = args[0] if args else kwargs['values']
    opt = args[1] if len(args) > 1 else kwargs.get('opt', 'all')
    start = args[2] if len(args) > 2 else kwargs.get('start', 'origin')
    check_ncyc(CTX, values, opt, start, result)


def install(ctx):
    """Attach the C11 monitors to the imported eqsig (idempotent per process)."""
    global CTX
    CTX = ctx
    import eqsig
    pc = eqsig.fns.peaks_and_crossings
    attach.wrap(pc, 'get_peak_array_indices', _post_peaks)
    attach.wrap(pc, 'get_peak_indices', _post_peak_indices)
    attach.wrap(pc, 'get_n_cyc_array', _post_ncyc)


# ---------------------------------------------------------------------------------------------------- workload
def _call_all(eqsig, seq, ctx):
    for ptype in ('all', 'max', 'min'):
        try:
            eqsig.get_peak_array_indices(seq, ptype=ptype)
        except Exception as e:
            ctx.exception('peaks.%s==reference' % ptype, _wit(seq, fn='get_peak_array_indices', ptype=ptype), e)


def random_series(rng, n):
    k = int(rng.integers(0, 7))
    if k == 0:
        x = rng.normal(size=n)
    elif k == 1:   # plateau-rich integer walk
        x = np.cumsum(rng.integers(-1, 2, size=n)).astype(float)
    elif k == 2:   # flat start and end
        x = np.cumsum(rng.integers(-2, 3, size=n)).astype(float)
        a = int(rng.integers(1, max(2, n // 4)))
        b = int(rng.integers(1, max(2, n // 4)))
        x[:a] = x[a - 1] if rng.random() < 0.5 else x[0]
        x[-b:] = x[-b]
    elif k == 3:   # repeated extremes
        x = np.clip(np.cumsum(rng.integers(-2, 3, size=n)), -3, 3).astype(float)
    elif k == 4:
        x, _ = gen.record(rng, n, cls='plateau')
    elif k == 5:   # few levels, real valued
        x = rng.choice(rng.normal(size=4), size=n)
    else:
        x = np.round(rng.normal(size=n), 1)
    name = ['noise', 'intwalk', 'flatends', 'clipped', 'plateau', 'fewlevels', 'rounded'][k]
    r = rng.random()
    if r > 0.8 and r <= 0.9:      # numerically special scales (see gen.special_scale)
        x, suffix = gen.special_scale(rng, x)
        return x, name + suffix
    if r > 0.9:       # huge dynamic range inside one record: one (or the first) sample is 1e3..1e12 times larger than the steps of
        # the rest (a rebase such as values - values[0] would round the small steps away)
        x = x * 10 ** rng.uniform(-12, -3)
        j = 0 if rng.random() < 0.6 else int(rng.integers(len(x)))
        x[j] = rng.choice([-1.0, 1.0]) * 10 ** rng.uniform(0, 9)
        if rng.random() < 0.5:
            x[1:] += 0.5
        name += '-outlier'
        return x, name
    if r < 0.15:      # smooth, finely sampled: steps near the extremum are far below 1e-8 but not zero
        x = np.cos(10 ** rng.uniform(-5, -2) * (np.arange(n) - rng.uniform(0, n))) * 10 ** rng.uniform(-3, 3)
        name = 'smooth-fine'
    elif r < 0.45:    # amplitude scales 1e-12 .. 1e6 (micro-amplitude records), optionally on a large offset
        x = x * 10 ** rng.uniform(-12, 6)
        if rng.random() < 0.3:
            x = x + rng.choice([1.0, -1e3, 1e-6])
        name += '-scaled'
    return x, name


def run_shard(ctx):
    eqsig = core.import_eqsig()
    install(ctx)
    maxlen = 7 if ctx.tier == 'quick' else 9      # thorough: length 9 as float64 only
    # -- exhaustive part: shard by position in the enumeration ------------------------------------------------
    idx = 0
    n_enum = 0
    n_nontriv = 0
    for L in range(2, maxlen + 1):
        for seq in itertools.product(range(5), repeat=L):
            idx += 1
            if idx % ctx.nshards != ctx.shard:
                continue
            nontriv = len(set(seq)) > 1
            for variant in ((0, 1, 2, 3, 4, 5) if L <= 6 else ((0, 1, 2) if L <= 8 else (0,))):
                if variant == 0:
                    s = np.array(seq, dtype=float)
                elif variant == 4:
                    s = (np.array(seq, dtype=float) - 2.0) * 1e-200    # products of two steps underflow
                elif variant == 5:
                    s = (np.array(seq, dtype=float) - 2.0) * 1e200     # products of two steps overflow
                elif variant == 1:
                    s = np.array(seq, dtype=np.int64)
                elif variant == 2:
                    s = np.array(seq, dtype=float) - 2.0
                else:
                    s = np.array(seq, dtype=float) * 3e-10 + 1.0    # micro steps on an offset
                n_enum += 1
                n_nontriv += nontriv
                if not nontriv:
                    continue
                _call_all(eqsig, s, ctx)
            if idx % 5000 == 1 and nontriv:
                ctx.sample({'fn': 'get_peak_array_indices', 'values': list(seq), 'ptypes': ['all', 'max', 'min']})
    ctx.cases_enumerated(n_enum, n_nontriv, cls='exhaustive-alphabet5')
    ctx.exhaustive['alphabet5_sequences_x3_variants'] = n_enum
    # cycle counter on a slice of the enumeration (lengths <= 6) + lists
    idx = 0
    for L in range(2, 7):
        for seq in itertools.product(range(5), repeat=L):
            idx += 1
            if idx % ctx.nshards != ctx.shard or len(set(seq)) < 2:
                continue
            s = np.array(seq, dtype=float) - (2.0 if idx % 2 else 0.0)
            for opt in ('all', 'switched'):
                for start in ('origin', 'peak'):
                    try:
                        eqsig.get_n_cyc_array(s, opt=opt, start=start)
                    except Exception as e:
                        ctx.exception('ncyc==reference', _wit(s, fn='get_n_cyc_array', opt=opt, start=start), e)
            ctx.cases_enumerated(1, 1, cls='exhaustive-ncyc')
    # -- random part ------------------------------------------------------------------------------------------
    n_rand = (2000 if ctx.tier == 'quick' else 50000) // ctx.nshards + 1
    rng = ctx.rng
    for c in range(n_rand):
        n = int(rng.choice([2, 3, 5, 8, 13, 50, 200, 1000, 5000], p=[.05, .05, .1, .1, .1, .2, .2, .15, .05]))
        if c == 0 and (ctx.tier != 'quick' or ctx.shard % 4 == 0):
            n = int(rng.choice([65535, 65536, 65537, 70001, 131073]))     # a few long series past 2**16
        x, cls = random_series(rng, n)
        nontriv = len(set(x.tolist())) > 1
        cont = x
        if rng.random() < 0.12:
            # narrow / unsigned integer dtypes using most of their range (products of adjacent steps overflow the dtype)
            dt_ = [np.int8, np.int16, np.int32, np.uint8, np.uint16][int(rng.integers(5))]
            ii = np.iinfo(dt_)
            cont = rng.integers(ii.min // 2 if ii.min < 0 else 0, ii.max // 2, size=n).astype(dt_)
            if rng.random() < 0.5:
                cont = np.repeat(cont, 2)[:n]          # with plateaus
            x = cont.astype(float)
            cls = 'narrow-int'
        elif rng.random() < 0.2:
            cont = x.tolist()
        elif rng.random() < 0.2 and np.all(x == np.round(x)):
            cont = x.astype(np.int64)
        elif rng.random() < 0.12:
            cont, vk = gen.view_form(rng, x)          # strided / negative-stride / read-only view of the same numbers
            cls += '-' + vk
        ctx.case(core.digest(x, 'rand'), nontrivial=nontriv, cls='random-' + cls,
                 sample={'fn': 'get_peak_array_indices+get_n_cyc_array', 'n': n, 'class': cls, 'head': x[:10]})
        if not nontriv:
            continue
        _call_all(eqsig, cont, ctx)
        if c % 3 == 0:
            try:
                sig = eqsig.AccSignal(x, 0.01)
                eqsig.fns.peaks_and_crossings.get_peak_indices(sig)
            except Exception as e:
                ctx.exception('peaks.all==reference', _wit(x, fn='get_peak_indices'), e)
        opt = 'all' if rng.random() < 0.6 else 'switched'
        start = 'origin' if rng.random() < 0.5 else 'peak'
        try:
            eqsig.get_n_cyc_array(cont, opt=opt, start=start)
        except Exception as e:
            ctx.exception('ncyc==reference', _wit(x, fn='get_n_cyc_array', opt=opt, start=start), e)
    ctx.note('monitored_calls', dict(attach.CALLS))


def replay(w):
    """Re-execute one witness against the current tree; return the list of violation messages."""
    eqsig = core.import_eqsig()
    ctx = core.Ctx(PROP_ID, 'quick', 0, 0, 1)
    install(ctx)
    values = w['values']
    if w.get('container') == 'list':
        values = list(np.asarray(values).tolist())
    if w.get('fn') == 'get_n_cyc_array':
        eqsig.get_n_cyc_array(values, opt=w['opt'], start=w['start'])
    elif w.get('fn') == 'get_peak_indices':
        eqsig.fns.peaks_and_crossings.get_peak_indices(eqsig.AccSignal(values, 0.01))
    else:
        eqsig.get_peak_array_indices(values, ptype=w.get('ptype', 'all'))
    return ['%s: %s' % (v['clause'], v['msg']) for v in ctx.violations]
