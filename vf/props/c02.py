"""C02 - the response operator is linear, causal, shift-, batching- and refinement-invariant.

Offline trace checker: the driver issues groups of RELATED calls of the real functions under a tag; recording monitors on
nigam_and_jennings_response / pseudo_response_spectra / true_response_spectra log arguments and full outputs; after each
group the relation is decided on the recorded outputs. The oracle is the other execution(s) of the same code.
"""
import numpy as np

from vf import attach, core, gen, trace

PROP_ID = 'C02'
TECHNIQUE = 'offline trace checker over tagged groups of related executions of the real response functions'
RULE = ('cases = groups of related calls: lin (a, b, alpha*a+beta*b; alpha,beta in {+-2^k, random, 0, -1}), scale (spectra of a '
        'and alpha*a), causal (two records equal up to a split index), shift (k prepended zeros on a record starting at 0), '
        'perm/batch (period list permuted, reversed, split into singletons/partitions), refine (all integer factors 2..8, own '
        'np.interp), objlin (AccSignal spectra before/after the values are replaced by alpha*a through the public API), objrefine '
        '(AccSignal spectra with min_dt_ratio = r in 2..8 against min_dt_ratio = 1, first period chosen so that the step rule selects factor r, '
        'half of the steps drawn where dt/(dt/r) != r in floating point, half of the records tail-heavy). '
        'Records: 14 shape classes (4 %: extreme scales 1e+-165..1e+-220 where squares of samples under/overflow), n in [4,400] (thorough up to 5000), 1..6 periods per group (4 %: 31..129 at and around powers of two), dt log-uniform/nice, T/dt over [0.2,2e4], '
        'xi in {0,.05,.5,.99,.99999,1-1e-7,1-1e-10,U(0,1)}, integer-valued period containers with a leading 0 in the permutation/batching groups, extreme time bases. distinct = digest of the group inputs; non-trivial = base record not identically zero.')
ASSUMPTIONS = ['relations are judged with rtol 1e-9 (linearity) / 1e-12 (causality, shift, permutation, batching; currently '
               'bit-identical, the count of bit-identical groups is reported) relative to the natural response scale '
               'max(|u|, |v|/w, |a|max/w^2) plus the double-precision rounding envelope of the recurrence',
               'refinement: both sides are within their C01 allowance of the same exact solution',
               'spectral acceleration of periods with 6*dt/r <= T < 6*dt under refinement falls under the open finding '
               'C02/sa-pga-substitution']
MIN_EVALS = {'quick': {'lin.series': 1500, 'scale.spectra': 450, 'causal.prefix-unchanged': 600, 'shift.delayed-by-k': 600,
                       'perm.row-depends-on-period-only': 200, 'batch.row-depends-on-period-only': 550,
                       'refine.original-instants-unchanged': 1400, 'refine.spectra-never-decrease': 8000,
                       'objlin.spectra-scale': 50, 'objrefine.spectra-never-decrease': 1200},
             'thorough': {'lin.series': 22000, 'scale.spectra': 6500, 'causal.prefix-unchanged': 9000,
                          'shift.delayed-by-k': 9000, 'perm.row-depends-on-period-only': 3000,
                          'batch.row-depends-on-period-only': 8000, 'refine.original-instants-unchanged': 21000,
                          'refine.spectra-never-decrease': 120000, 'objlin.spectra-scale': 750,
                          'objrefine.spectra-never-decrease': 18000}}
K3 = 'C02/sa-pga-substitution'
NO_TESTSUITE = True     # relations between executions: single calls made by the repository's tests carry no verdict
EPS = float(np.finfo(float).eps)
CTX = None


def n_shards(tier):
    return 16


# --------------------------------------------------------------------------------------------- recording monitors
def _rec(name):
    def post(args, kwargs, result, pre):
        trace.record(name, (args, kwargs), result)
    return post


def install(ctx):
    global CTX
    CTX = ctx
    import eqsig
    attach.wrap(eqsig.sdof, 'nigam_and_jennings_response', _rec('nj'))
    attach.wrap(eqsig.sdof, 'pseudo_response_spectra', _rec('pseudo'))
    attach.wrap(eqsig.sdof, 'true_response_spectra', _rec('true'))


def recorded(tag, fn):
    ev = [e for e in trace.take(tag) if e['fn'] == fn]
    return ev


# --------------------------------------------------------------------------------------------- tolerances
def stated_tol(T, dt, n):
    w = 2 * np.pi / T
    return 1e-6 + 5e-8 * (n - 1) * dt / T + EPS / (w * dt) ** 3


def envelope(T, dt, n, xi, amax):
    w = 2 * np.pi / T
    Mu = 2 * xi / (w ** 3 * dt) + 1 / w ** 2
    Mv = (1 + 2 * xi * xi) / (w * w * dt) + xi / w
    s = n - 1
    K = 16.0
    return K * EPS * amax * (s * Mu + s * s * dt * Mv), K * EPS * amax * (s * Mv + s * s * dt * w * w * Mu)


def scales(u, v, T, amax):
    """natural response scale per series for one period row"""
    w = 2 * np.pi / T
    su = max(float(np.max(np.abs(u))), float(np.max(np.abs(v))) / w, amax / w ** 2)
    return su, su * w, su * w * w


def rows_close(ctx, clause, got, ref, periods, dt, xi, amax, n, rtol, wit, what, lead0):
    """compare triples of (P, n) arrays row by row under rtol*natural scale + rounding envelope"""
    bit = True
    for j, T in enumerate(periods):
        if T == 0:
            okk = all(np.array_equal(g[j], r[j]) for g, r in zip(got, ref))
            ctx.check(okk, clause, wit, '%s: T=0 row differs' % what)
            continue
        su, sv, sa = scales(ref[0][j], ref[1][j], T, amax)
        Eu, Ev = envelope(T, dt, n, xi, amax)
        w = 2 * np.pi / T
        allowed = (rtol * su + Eu, rtol * sv + Ev, rtol * sa + w * w * Eu + 2 * xi * w * Ev)
        errs = [float(np.max(np.abs(g[j] - r[j]))) if g[j].shape == r[j].shape else float('inf') for g, r in zip(got, ref)]
        okk = all(e <= a for e, a in zip(errs, allowed))
        bit = bit and all(e == 0 for e in errs)
        ctx.check(okk, clause, wit, '%s: row %d T=%g (T/dt=%.4g) xi=%g err(u,v,a)=%s allowed=%s' % (what, j, T, T / dt, xi, errs, allowed))
    return bit


# --------------------------------------------------------------------------------------------- group drivers
XIS = [0.0, 0.05, 0.5, 0.99, 0.99999, 1 - 1e-7, 1 - 1e-10]


def draw_base(rng, tier, need_zero_start=False):
    if tier == 'quick' or rng.random() < 0.85:
        n = int(rng.integers(4, 401))
    else:
        n = int(rng.integers(400, 5001))
    x, cls = gen.record(rng, n, wide=True, extreme=True)
    if need_zero_start:
        x = x.copy()
        x[0] = 0.0
    dt = gen.dt(rng, 'log' if rng.random() < 0.6 else 'nice')
    if rng.random() < 0.1:
        dt = float(10 ** (rng.uniform(-9, -3) if rng.random() < 0.6 else rng.uniform(0, 3)))
    P = int(rng.integers(1, 7))
    if rng.random() < 0.04:        # period-list length at and around vectorisation block sizes
        P = int(rng.choice([31, 32, 33, 63, 64, 65, 127, 128, 129]))
        if n > 150:
            x, n = x[:150], 150
            if need_zero_start:
                x = x.copy()
                x[0] = 0.0
    ratios = np.clip(10 ** rng.uniform(np.log10(0.2), np.log10(2e4), size=P), 0.2 * (1 + 1e-9), 2e4)
    for k in range(P):
        if rng.random() < 0.2:
            ratios[k] = [0.5, 1.0, 2.0, 5.9, 6.0, 6.1, 20.0][int(rng.integers(7))]
    periods = ratios * dt
    if rng.random() < 0.25:
        periods = np.concatenate([[0.0], periods])
    xi = float(XIS[int(rng.integers(len(XIS)))]) if rng.random() < 0.7 else float(rng.uniform(0, 1))
    return x, cls, dt, periods, xi


def draw_scalar(rng, cls=''):
    if rng.random() < 0.05 and 'extreme-scale' not in cls:
        # extreme but valid scale factors: alpha*a is a normal double array whose SQUARES under/overflow (a zero test or a norm
        # computed through squares then sees a silent record, or inf)
        return float(rng.choice([-1.0, 1.0]) * 10.0 ** (rng.uniform(165, 200) * (1 if rng.random() < 0.5 else -1)))
    k = int(rng.integers(5))
    if k == 0:
        return float(rng.choice([-1.0, 1.0]) * 2.0 ** int(rng.integers(-6, 7)))
    if k == 1:
        return float(rng.normal() * 10 ** rng.uniform(-2, 2))
    if k == 2:
        return -1.0
    if k == 3:
        return 0.0
    return float(rng.uniform(-3, 3))


def g_lin(ctx, eqsig, g):
    rng = ctx.rng
    a, cls, dt, periods, xi = draw_base(rng, ctx.tier)
    b, cls2 = gen.record(rng, len(a))
    al, be = draw_scalar(rng, cls), draw_scalar(rng, cls)
    c = al * a + be * b
    tag = 'lin:g%d:' % g
    wit = lambda: {'kind': 'lin', 'a': a, 'b': b, 'alpha': al, 'beta': be, 'dt': dt, 'periods': periods, 'xi': xi}
    ctx.case(core.digest(a, b, al, be, dt, periods, xi), nontrivial=bool(a.any() or b.any()), cls='lin/%s+%s' % (cls, cls2),
             sample={'kind': 'lin', 'n': len(a), 'alpha': al, 'beta': be, 'dt': dt, 'T/dt': periods / dt, 'xi': xi})
    entry = eqsig.sdof.response_series if rng.random() < 0.5 else eqsig.sdof.nigam_and_jennings_response
    for name, rec in (('a', a), ('b', b), ('c', c)):
        trace.set_tag(tag + name)
        entry(rec, dt, periods, xi)
    trace.set_tag(None)
    ev = {e['tag'][len(tag):]: e['result'] for e in recorded(tag, 'nj')}
    if len(ev) != 3:
        ctx.violation('lin.series', wit(), 'trace incomplete: %s' % sorted(ev))
        return
    Ra, Rb, Rc = ev['a'], ev['b'], ev['c']
    n = len(a)
    for j, T in enumerate(periods):
        if T == 0:
            comb = [al * Ra[k][j] + be * Rb[k][j] for k in range(3)]
            okk = all(np.max(np.abs(comb[k] - Rc[k][j])) <= 1e-12 * (abs(al) * np.max(np.abs(a)) + abs(be) * np.max(np.abs(b))) for k in range(3))
            ctx.check(bool(okk), 'lin.series', wit, 'T=0 row not linear')
            continue
        sa_ = scales(Ra[0][j], Ra[1][j], T, float(np.max(np.abs(a))))
        sb_ = scales(Rb[0][j], Rb[1][j], T, float(np.max(np.abs(b))))
        amax = abs(al) * float(np.max(np.abs(a))) + abs(be) * float(np.max(np.abs(b)))
        Eu, Ev = envelope(T, dt, n, xi, amax)
        w = 2 * np.pi / T
        env = (Eu, Ev, w * w * Eu + 2 * xi * w * Ev)
        okk = True
        msg = ''
        for k in range(3):
            err = float(np.max(np.abs(Rc[k][j] - (al * Ra[k][j] + be * Rb[k][j]))))
            allowed = 1e-9 * (abs(al) * sa_[k] + abs(be) * sb_[k]) + 3 * env[k]
            if not err <= allowed:
                okk = False
                msg = 'series %d row %d T/dt=%.4g xi=%g: |R(c)-alpha R(a)-beta R(b)|=%.3g allowed %.3g' % (k, j, T / dt, xi, err, allowed)
        ctx.check(okk, 'lin.series', wit, msg)


def g_scale(ctx, eqsig, g):
    """spectra scale by |alpha| and ignore sign"""
    rng = ctx.rng
    a, cls, dt, periods, xi = draw_base(rng, ctx.tier)
    al = draw_scalar(rng, cls)
    if al == 0:
        al = -1.0
    tag = 'scale:g%d:' % g
    wit = lambda: {'kind': 'scale', 'a': a, 'alpha': al, 'dt': dt, 'periods': periods, 'xi': xi}
    ctx.case(core.digest(a, al, dt, periods, xi, 'scale'), nontrivial=bool(a.any()), cls='scale/' + cls,
             sample={'kind': 'scale', 'n': len(a), 'alpha': al, 'dt': dt, 'T/dt': periods / dt, 'xi': xi})
    for name, rec in (('a', a), ('c', al * a)):
        trace.set_tag(tag + name)
        eqsig.sdof.pseudo_response_spectra(rec, dt, periods, xi)
        eqsig.sdof.true_response_spectra(rec, dt, periods, xi)
    trace.set_tag(None)
    evs = trace.take(tag)
    for fn in ('pseudo', 'true'):
        ev = {e['tag'][len(tag):]: e['result'] for e in evs if e['fn'] == fn}
        if len(ev) != 2:
            ctx.violation('scale.spectra', wit(), 'trace incomplete')
            continue
        n = len(a)
        amax = float(np.max(np.abs(a))) * abs(al)
        okk = True
        msg = ''
        for q in range(3):
            A, C = np.asarray(ev['a'][q], dtype=float), np.asarray(ev['c'][q], dtype=float)
            for j, T in enumerate(periods):
                if T == 0:
                    al_ok = abs(C[j] - abs(al) * A[j]) <= 1e-12 * abs(al) * max(A[j], float(np.max(np.abs(a))))
                else:
                    w = 2 * np.pi / T
                    Eu, Ev = envelope(T, dt, n, xi, amax)
                    env = (Eu, max(Ev, w * Eu), w * w * Eu + 2 * xi * w * Ev)[q]
                    al_ok = abs(C[j] - abs(al) * A[j]) <= 1e-9 * abs(al) * max(A[j], float(np.max(np.abs(a))) / w ** (2 - q)) + 3 * env
                if not al_ok:
                    okk = False
                    msg = '%s spectra quantity %d row %d: S(alpha a)=%r vs |alpha| S(a)=%r' % (fn, q, j, C[j], abs(al) * A[j])
        ctx.check(okk, 'scale.spectra', wit, msg)


def g_causal(ctx, eqsig, g):
    rng = ctx.rng
    a, cls, dt, periods, xi = draw_base(rng, ctx.tier)
    n = len(a)
    i = int(rng.integers(1, n))            # samples 0..i-1 shared
    b = a.copy()
    y, _ = gen.record(rng, n)
    b[i:] = y[i:] + (1.0 if np.array_equal(y[i:], a[i:]) else 0.0)
    tag = 'causal:g%d:' % g
    wit = lambda: {'kind': 'causal', 'a': a, 'b': b, 'split': i, 'dt': dt, 'periods': periods, 'xi': xi}
    ctx.case(core.digest(a, b, i, dt, periods, xi), nontrivial=bool(a.any()), cls='causal/' + cls,
             sample={'kind': 'causal', 'n': n, 'split': i, 'dt': dt, 'T/dt': periods / dt, 'xi': xi})
    for name, rec in (('base', a), ('alt', b)):
        trace.set_tag(tag + name)
        eqsig.sdof.response_series(as_form(rng, rec), dt, periods, xi)
    trace.set_tag(None)
    ev = {e['tag'][len(tag):]: e['result'] for e in recorded(tag, 'nj')}
    if len(ev) != 2:
        ctx.violation('causal.prefix-unchanged', wit(), 'trace incomplete')
        return
    got = [r[:, :i] for r in ev['alt']]
    ref = [r[:, :i] for r in ev['base']]
    bit = rows_close(ctx, 'causal.prefix-unchanged', got, ref, periods, dt, xi, float(np.max(np.abs(a))) + 1e-300, n, 1e-12, wit,
                     'samples before split %d changed' % i, periods[0] == 0)
    if bit:
        ctx.observe('causal: bit-identical groups')


def g_shift(ctx, eqsig, g):
    rng = ctx.rng
    a, cls, dt, periods, xi = draw_base(rng, ctx.tier, need_zero_start=True)
    k = int(rng.integers(1, 65))
    b = np.concatenate([np.zeros(k), a])
    n = len(a)
    tag = 'shift:g%d:' % g
    wit = lambda: {'kind': 'shift', 'a': a, 'k': k, 'dt': dt, 'periods': periods, 'xi': xi}
    ctx.case(core.digest(a, k, dt, periods, xi, 'shift'), nontrivial=bool(a.any()), cls='shift/' + cls,
             sample={'kind': 'shift', 'n': n, 'k': k, 'dt': dt, 'T/dt': periods / dt, 'xi': xi})
    for name, rec in (('base', a), ('shifted', b)):
        trace.set_tag(tag + name)
        eqsig.sdof.response_series(as_form(rng, rec), dt, periods, xi)
    trace.set_tag(None)
    ev = {e['tag'][len(tag):]: e['result'] for e in recorded(tag, 'nj')}
    if len(ev) != 2:
        ctx.violation('shift.delayed-by-k', wit(), 'trace incomplete')
        return
    sh = ev['shifted']
    lead_ok = all(not r[:, :k + 1][(periods != 0)].any() for r in sh[:2])
    ctx.check(lead_ok, 'shift.leading-zero-response', wit, 'response not zero during the %d prepended zeros' % k)
    got = [r[:, k:] for r in sh]
    bit = rows_close(ctx, 'shift.delayed-by-k', got, list(ev['base']), periods, dt, xi, float(np.max(np.abs(a))) + 1e-300, n + k, 1e-12, wit,
                     'shift by %d zeros' % k, periods[0] == 0)
    if bit:
        ctx.observe('shift: bit-identical groups')


def g_perm(ctx, eqsig, g, batch=False):
    rng = ctx.rng
    a, cls, dt, periods, xi = draw_base(rng, ctx.tier)
    int_periods = rng.random() < 0.2
    if int_periods:     # integer-valued period containers (lists/tuples/arrays of ints), usually with a leading 0
        dt = float(rng.choice([0.01, 0.02, 0.05, 0.1, 0.25]))
        k = int(rng.integers(2, 6))
        periods = np.sort(rng.choice(np.arange(1, 8), size=k, replace=False)).astype(float)
        if rng.random() < 0.75:
            periods = np.concatenate([[0.0], periods])
    lead0 = periods[0] == 0
    body = periods[1:] if lead0 else periods
    if len(body) < 2:
        body = np.concatenate([body, body * 1.7 + dt])
        periods = np.concatenate([[0.0], body]) if lead0 else body
    n = len(a)
    kind = 'batch' if batch else 'perm'
    clause = '%s.row-depends-on-period-only' % kind
    tag = '%s:g%d:' % (kind, g)
    wit = lambda: {'kind': kind, 'a': a, 'dt': dt, 'periods': periods, 'xi': xi}
    ctx.case(core.digest(a, dt, periods, xi, kind), nontrivial=bool(a.any()), cls=kind + '/' + cls,
             sample={'kind': kind, 'n': n, 'dt': dt, 'T/dt': periods / dt, 'xi': xi})
    dig_a, dig_p = core.digest(a), core.digest(periods)
    trace.set_tag(tag + 'base')
    fn = [eqsig.sdof.response_series, eqsig.sdof.pseudo_response_spectra, eqsig.sdof.true_response_spectra][int(rng.integers(3))]
    fname = {eqsig.sdof.response_series: 'nj', eqsig.sdof.pseudo_response_spectra: 'pseudo', eqsig.sdof.true_response_spectra: 'true'}[fn]
    if int_periods:
        ip = [int(t) for t in periods]
        fn(a, dt, [ip, tuple(ip), np.array(ip, dtype=np.int64)][int(rng.integers(3))], xi)
    else:
        fn(a, dt, periods, xi)
    subsets = []
    if not batch:
        order = rng.permutation(len(body)) if rng.random() < 0.7 else np.arange(len(body))[::-1]
        subsets.append(list(order))
    else:
        idx = list(rng.permutation(len(body)))
        if rng.random() < 0.5:
            subsets = [[i] for i in idx]
        else:
            cut = int(rng.integers(1, len(idx)))
            subsets = [idx[:cut], idx[cut:]]
    for si, sub in enumerate(subsets):
        p = body[sub]
        if lead0 and rng.random() < 0.7:
            p = np.concatenate([[0.0], p])
        trace.set_tag(tag + 'sub%d' % si)
        if int_periods and rng.random() < 0.5:
            ip = [int(t) for t in p]
            fn(a, dt, [ip, tuple(ip), np.array(ip, dtype=np.int64)][int(rng.integers(3))], xi)
        else:
            fn(a, dt, [p, list(p), tuple(p)][int(rng.integers(3))], xi)
    trace.set_tag(None)
    ctx.check(core.digest(a) == dig_a and core.digest(periods) == dig_p, 'arguments-unchanged', wit, 'record or period array modified by the calls')
    evs = [e for e in trace.take(tag) if e['fn'] == fname]
    base = [e for e in evs if e['tag'].endswith('base')]
    if len(base) != 1 or len(evs) != 1 + len(subsets):
        ctx.violation(clause, wit(), 'trace incomplete')
        return
    base = [np.asarray(r) for r in base[0]['result']]
    off = 1 if lead0 else 0
    amax = float(np.max(np.abs(a))) + 1e-300
    for si, sub in enumerate(subsets):
        e = [e for e in evs if e['tag'].endswith('sub%d' % si)][0]
        res = [np.asarray(r) for r in e['result']]
        p_used = np.asarray(e['args'][0][2], dtype=float)
        o2 = 1 if p_used[0] == 0 else 0
        okk = True
        msg = ''
        bit = True
        for pos, bi in enumerate(sub):
            T = body[bi]
            for q in range(3):
                gv = res[q][o2 + pos]
                rv = base[q][off + bi]
                err = float(np.max(np.abs(gv - rv)))
                w = 2 * np.pi / T
                sc = max(float(np.max(np.abs(rv))), amax / w ** 2 * (w ** q if fname != 'nj' else w ** q))
                Eu, Ev = envelope(T, dt, n, xi, amax)
                allowed = 1e-12 * sc + (Eu, max(Ev, w * Eu), w * w * Eu + 2 * xi * w * Ev)[q]
                bit = bit and err == 0
                if not err <= allowed:
                    okk = False
                    msg = '%s: period %g result depends on its position/batch (quantity %d err %.3g allowed %.3g)' % (fname, T, q, err, allowed)
        if o2 and lead0:
            for q in range(3):
                if not np.array_equal(res[q][0], base[q][0]):
                    okk = False
                    msg = 'T=0 row differs between batches'
        ctx.check(okk, clause, wit, msg)
        if bit:
            ctx.observe(kind + ': bit-identical sub-calls')


def as_form(rng, rec):
    """the same float64 numbers in another argument form (list, strided view, read-only array): exact relations are unaffected"""
    k = int(rng.integers(6))
    if k == 0:
        return [float(t) for t in rec]
    if k == 1:
        return gen.view_form(rng, rec)[0]
    return rec


def refine_record(a, r):
    n = len(a)
    return np.interp(np.arange((n - 1) * r + 1) / r, np.arange(n), a)


def g_refine(ctx, eqsig, g):
    rng = ctx.rng
    a, cls, dt, periods, xi = draw_base(rng, ctx.tier)
    if len(a) > 1200:
        a = a[:1200]
    r = int(rng.integers(2, 9))
    periods = periods[periods != 0]
    periods = periods[(periods / (dt / r) <= 2e4) & (periods / dt >= 0.2)]
    if len(periods) == 0:
        ctx.observe('refine: group skipped (refined T/dt leaves [0.2,2e4])')
        return
    b = refine_record(a, r)
    how = 'own np.interp'
    if rng.random() < 0.5:
        # refinement by the library's own tool (anchored in fns/time_step.py): the refined record must contain the original
        # samples at every r-th instant; a constant tail / a dropped last sample (even=True) does not touch those instants
        even = bool(rng.random() < 0.5)
        how = 'interp_array_to_approx_dt(even=%s)' % even
        with attach.paused():
            b_lib, dt_lib = eqsig.interp_array_to_approx_dt(a, dt, dt / r * (1 + 1e-9), even=even)
        b_lib = np.asarray(b_lib, dtype=float)
        ok_lib = abs(dt_lib - dt / r) <= 1e-12 * dt and len(b_lib) >= (len(a) - 1) * r
        ctx.check(ok_lib, 'refine.library-refinement-factor', lambda: {'kind': 'refine-lib', 'a': a, 'r': r, 'dt': dt, 'even': even},
                  'interp_array_to_approx_dt(dt/%d) returned step %r and %d samples for %d input samples' % (r, dt_lib, len(b_lib), len(a)))
        if not ok_lib:
            return
        b = b_lib
    n = len(a)
    tag = 'refine:g%d:' % g
    wit = lambda: {'kind': 'refine', 'a': a, 'r': r, 'dt': dt, 'periods': periods, 'xi': xi, 'how': how}
    ctx.case(core.digest(a, r, dt, periods, xi, 'refine'), nontrivial=bool(a.any()), cls='refine/' + cls,
             sample={'kind': 'refine', 'n': n, 'r': r, 'dt': dt, 'T/dt': periods / dt, 'xi': xi})
    for name, rec, d in (('x1', a, dt), ('xr', b, dt / r)):
        trace.set_tag(tag + name)
        eqsig.sdof.response_series(rec, d, periods, xi)
        eqsig.sdof.pseudo_response_spectra(rec, d, periods, xi)
        eqsig.sdof.true_response_spectra(rec, d, periods, xi)
    trace.set_tag(None)
    evs = trace.take(tag)
    nj = {}
    for e in evs:
        if e['fn'] == 'nj' and e['tag'][len(tag):] not in nj:
            nj[e['tag'][len(tag):]] = e['result']
    if len(nj) != 2:
        ctx.violation('refine.original-instants-unchanged', wit(), 'trace incomplete')
        return
    amax = float(np.max(np.abs(a))) + 1e-300
    allow_rel = []
    for j, T in enumerate(periods):
        w = 2 * np.pi / T
        u1, v1 = nj['x1'][0][j], nj['x1'][1][j]
        ur, vr = nj['xr'][0][j], nj['xr'][1][j]
        su = max(float(np.max(np.abs(ur))), float(np.max(np.abs(vr))) / w, amax / w ** 2)
        t1 = stated_tol(T, dt, n)
        t2 = stated_tol(T, dt / r, len(b))
        E1 = envelope(T, dt, n, xi, amax)
        E2 = envelope(T, dt / r, len(b), xi, amax)
        au = (t1 + t2) * su + E1[0] + E2[0]
        av = (t1 + t2) * su * w + E1[1] + E2[1]
        m = min(len(ur[::r]), len(u1))
        eu = float(np.max(np.abs(ur[::r][:m] - u1[:m])))
        ev = float(np.max(np.abs(vr[::r][:m] - v1[:m])))
        ctx.check(eu <= au and ev <= av, 'refine.original-instants-unchanged', wit,
                  'row %d T/dt=%.4g xi=%g r=%d: err_u=%.3g (allowed %.3g) err_v=%.3g (allowed %.3g)' % (j, T / dt, xi, r, eu, au, ev, av))
        allow_rel.append((au, av, w * w * au + 2 * xi * w * av, su))
    for fn in ('pseudo', 'true'):
        ev = {e['tag'][len(tag):]: e['result'] for e in evs if e['fn'] == fn}
        if len(ev) != 2:
            ctx.violation('refine.spectra-never-decrease', wit(), 'trace incomplete (%s)' % fn)
            continue
        for j, T in enumerate(periods):
            w = 2 * np.pi / T
            au, av, aa, su = allow_rel[j]
            for q, name in enumerate(('s_d', 's_v', 's_a')):
                s1 = float(np.asarray(ev['x1'][q])[j])
                sr = float(np.asarray(ev['xr'][q])[j])
                if fn == 'pseudo':
                    allowed = au * w ** q
                else:
                    allowed = (au, av, aa)[q]
                okk = sr >= s1 - allowed
                fin = None
                if not okk and q == 2 and 6 * dt / r <= T * (1 + 1e-12) and T < 6 * dt * (1 + 1e-12):
                    # raw side substitutes PGA (T < 6 dt), refined side integrates: mechanism of the open finding
                    sd_r = float(np.asarray(ev['xr'][0])[j]) if fn == 'pseudo' else None
                    if fn == 'pseudo':
                        if abs(sr - w * w * sd_r) <= 1e-9 * sr + 1e-300 and abs(s1 - amax) <= 1e-12 * amax:
                            fin = K3
                    else:
                        if abs(s1 - amax) <= 1e-12 * amax:
                            fin = K3
                ctx.check(okk, 'refine.spectra-never-decrease', wit,
                          '%s %s row %d T/dt=%.4g xi=%g r=%d: refined %r < raw %r - %.3g' % (fn, name, j, T / dt, xi, r, sr, s1, allowed), finding=fin)


def g_objlin(ctx, eqsig, g):
    """object level: spectra of an AccSignal before/after its values are replaced by alpha*a through the public API"""
    rng = ctx.rng
    a, cls, dt, periods, xi = draw_base(rng, ctx.tier)
    periods = np.sort(periods[periods != 0])
    al = draw_scalar(rng, cls)
    if al == 0:
        al = 2.0
    wit = lambda: {'kind': 'objlin', 'a': a, 'alpha': al, 'dt': dt, 'periods': periods, 'xi': xi}
    ctx.case(core.digest(a, al, dt, periods, xi, 'objlin'), nontrivial=bool(a.any()), cls='objlin/' + cls,
             sample={'kind': 'objlin', 'n': len(a), 'alpha': al, 'dt': dt, 'T/dt': periods / dt})
    sig = eqsig.AccSignal(a, dt, response_times=periods)
    mode = int(rng.integers(3))
    if mode == 0:
        s1 = [np.array(sig.s_d), np.array(sig.s_v), np.array(sig.s_a)]
    else:
        sig.gen_response_spectrum(xi=xi)
        s1 = [np.array(sig.s_d), np.array(sig.s_v), np.array(sig.s_a)]
    how = int(rng.integers(3))
    if not 1e-6 < abs(al) < 1e6:
        how = 0       # a + (alpha - 1) * a equals alpha * a only while alpha - 1 is computed without cancellation
    if how == 0:
        sig.reset_values(al * a)
    elif how == 1:
        sig.add_series((al - 1.0) * a)
    else:
        other = eqsig.AccSignal((al - 1.0) * a, dt)
        sig.add_signal(other)
    if mode == 0 or rng.random() < 0.5:
        s2 = [np.array(sig.s_d), np.array(sig.s_v), np.array(sig.s_a)]     # lazy read after the mutation
        xi_eff = 0.05 if mode == 0 else None
    else:
        sig.gen_response_spectrum(xi=xi)
        s2 = [np.array(sig.s_d), np.array(sig.s_v), np.array(sig.s_a)]
        xi_eff = xi
    if mode != 0 and xi_eff is None:
        # lazy regeneration after an explicit xi: the statement does not say which damping a lazy read uses; compare
        # with a fresh object at the default instead of with |alpha|*s1
        ctx.observe('objlin: lazy read after explicit xi (not judged)')
        return
    amax = float(np.max(np.abs(a))) + 1e-300
    okk = True
    msg = ''
    for q in range(3):
        for j, T in enumerate(periods):
            w = 2 * np.pi / T
            sc = max(s1[q][j], amax / w ** (2 - q))
            if not abs(s2[q][j] - abs(al) * s1[q][j]) <= 1e-8 * abs(al) * sc:
                okk = False
                msg = 'after values -> alpha*a (alpha=%g, via %s) spectrum %d row %d is %r, expected |alpha|*%r' % (
                    al, ['reset_values', 'add_series', 'add_signal'][how], q, j, s2[q][j], s1[q][j])
    ctx.check(okk, 'objlin.spectra-scale', wit, msg)


def g_objrefine(ctx, eqsig, g):
    """object level: AccSignal.gen_response_spectrum(min_dt_ratio=r) integrates an internally refined record; since refinement
    leaves the response at the original instants unchanged, the spectra it reports are never below those of min_dt_ratio=1
    (the raw samples), for every factor the step rule selects (2..8), every dt (incl. those where dt/(dt/r) != r in floating
    point) and records whose strongest response comes at the very end (nothing of the record may be lost on the way)"""
    rng = ctx.rng
    a, cls, dt, periods, xi = draw_base(rng, 'quick')
    r = int(rng.integers(2, 9))
    if rng.random() < 0.5:
        dt = gen.awkward_dt(rng, r)
        cls += '/awkward-dt'
    n = len(a)
    tail = rng.random() < 0.5
    if tail:
        a = a * ((np.arange(n) + 1.0) / n) ** 3
        cls += '/tail-heavy'
    if not np.any(a):
        a = a.copy()
        a[-1] = 1.0
    P = int(rng.integers(1, 6))
    tmin = rng.uniform(0.5, 20.0 / r) * dt
    periods = np.sort(np.concatenate([[tmin], tmin * 10 ** rng.uniform(0, np.log10(300 * dt / tmin), size=P - 1)]))
    wit = lambda: {'kind': 'objrefine', 'a': a, 'r': r, 'dt': dt, 'periods': periods, 'xi': xi}
    ctx.case(core.digest(a, r, dt, periods, xi, 'objrefine'), nontrivial=True, cls='objrefine/' + cls,
             sample={'kind': 'objrefine', 'n': n, 'r': r, 'dt': dt, 'T/dt': periods / dt, 'xi': xi})
    ctx.keyset('objrefine (r, int(dt/(dt/r))==r)').add((r, int(dt / (dt / r)) == r))
    sig = eqsig.AccSignal(as_form(rng, a), dt, response_times=periods)
    order = [1, r] if rng.random() < 0.5 else [r, 1]
    S = {}
    for ratio in order:
        if rng.random() < 0.5:
            sig.gen_response_spectrum(xi=xi, min_dt_ratio=ratio)
        else:
            sig.generate_response_spectrum(response_times=periods, xi=xi, min_dt_ratio=ratio)
        S[ratio] = [np.array(sig.s_d, dtype=float), np.array(sig.s_v, dtype=float), np.array(sig.s_a, dtype=float)]
    amax = float(np.max(np.abs(a))) + 1e-300
    for j, T in enumerate(periods):
        w = 2 * np.pi / T
        su = max(float(S[r][0][j]), float(S[1][0][j]), amax / w ** 2)
        E1 = envelope(T, dt, n, xi, amax)
        E2 = envelope(T, dt / r, n * r, xi, amax)
        au = (stated_tol(T, dt, n) + stated_tol(T, dt / r, n * r)) * su + E1[0] + E2[0]
        for q, name in enumerate(('s_d', 's_v', 's_a')):
            s1, sr = float(S[1][q][j]), float(S[r][q][j])
            okk = sr >= s1 - au * w ** q
            fin = None
            if not okk and q == 2 and T < 6 * dt * (1 + 1e-12) and abs(s1 - amax) <= 1e-12 * amax \
                    and abs(sr - w * w * float(S[r][0][j])) <= 1e-9 * sr + 1e-300:
                fin = K3       # raw side substitutes PGA (T < 6 dt), refined side reports w^2 S_d: the open finding
            ctx.check(okk, 'objrefine.spectra-never-decrease', wit,
                      'AccSignal %s row %d T/dt=%.4g xi=%g dt=%r: min_dt_ratio=%d gives %r < %r (min_dt_ratio=1) - %.3g'
                      % (name, j, T / dt, xi, dt, r, sr, s1, au * w ** q), finding=fin)


GROUPS = [('lin', g_lin, 3), ('scale', g_scale, 1.5), ('causal', g_causal, 1.5), ('shift', g_shift, 1.5),
          ('perm', lambda c, e, g: g_perm(c, e, g, False), 1.5), ('batch', lambda c, e, g: g_perm(c, e, g, True), 1.5),
          ('refine', g_refine, 3), ('objlin', g_objlin, 0.6), ('objrefine', g_objrefine, 1.2)]


def run_shard(ctx):
    eqsig = core.import_eqsig()
    install(ctx)
    ngroups = (4000 if ctx.tier == 'quick' else 60000) // ctx.nshards + 1
    wts = np.array([w for _, _, w in GROUPS])
    wts = wts / wts.sum()
    for g in range(ngroups):
        k = int(ctx.rng.choice(len(GROUPS), p=wts))
        name, fn, _ = GROUPS[k]
        try:
            fn(ctx, eqsig, g)
        except Exception as e:
            trace.set_tag(None)
            trace.clear()
            ctx.exception({'lin': 'lin.series', 'scale': 'scale.spectra', 'causal': 'causal.prefix-unchanged', 'shift': 'shift.delayed-by-k',
                           'perm': 'perm.row-depends-on-period-only', 'batch': 'batch.row-depends-on-period-only',
                           'refine': 'refine.original-instants-unchanged', 'objlin': 'objlin.spectra-scale',
                           'objrefine': 'objrefine.spectra-never-decrease'}[name],
                          {'kind': name, 'group': g, 'shard': ctx.shard, 'seed': ctx.seed, 'note': 'exception inside group driver'}, e)
    ctx.note('monitored_calls', dict(attach.CALLS))


def replay(w):
    """Witnesses hold the base inputs of the group; the group is re-driven deterministically for lin/causal/shift/refine."""
    eqsig = core.import_eqsig()
    ctx = core.Ctx(PROP_ID, 'quick', 0, 0, 1)
    install(ctx)
    kind = w.get('kind')
    dt, periods, xi = w.get('dt'), w.get('periods'), w.get('xi')
    S = eqsig.sdof
    out = []
    if kind == 'lin':
        a, b, al, be = w['a'], w['b'], w['alpha'], w['beta']
        Ra, Rb, Rc = S.response_series(a, dt, periods, xi), S.response_series(b, dt, periods, xi), S.response_series(al * a + be * b, dt, periods, xi)
        for k in range(3):
            for j, T in enumerate(periods):
                sc = abs(al) * max(np.max(np.abs(Ra[k][j])), 1e-300) + abs(be) * max(np.max(np.abs(Rb[k][j])), 1e-300)
                if T and np.max(np.abs(Rc[k][j] - al * Ra[k][j] - be * Rb[k][j])) > 1e-6 * sc + 1e-9 * (abs(al) * np.max(np.abs(a)) + abs(be) * np.max(np.abs(b))) / (2 * np.pi / T) ** (2 - k):
                    out.append('lin: series %d row %d not linear' % (k, j))
    elif kind == 'causal':
        i = w['split']
        R1, R2 = S.response_series(w['a'], dt, periods, xi), S.response_series(w['b'], dt, periods, xi)
        if any(np.max(np.abs(R1[k][:, :i] - R2[k][:, :i])) > 1e-9 * (np.max(np.abs(R1[k])) + 1e-300) for k in range(3)):
            out.append('causal: prefix changed')
    elif kind == 'shift':
        k = w['k']
        R1 = S.response_series(w['a'], dt, periods, xi)
        R2 = S.response_series(np.concatenate([np.zeros(k), w['a']]), dt, periods, xi)
        if any(np.max(np.abs(R2[q][:, k:] - R1[q])) > 1e-9 * (np.max(np.abs(R1[q])) + 1e-300) for q in range(3)):
            out.append('shift: response not delayed by k')
    elif kind == 'refine':
        r = w['r']
        b = refine_record(w['a'], r)
        R1 = S.response_series(w['a'], dt, periods, xi)
        R2 = S.response_series(b, dt / r, periods, xi)
        for j, T in enumerate(periods):
            tol = stated_tol(T, dt, len(w['a'])) + stated_tol(T, dt / r, len(b))
            wv = 2 * np.pi / T
            su = max(float(np.max(np.abs(R2[0][j]))), float(np.max(np.abs(R2[1][j]))) / wv, float(np.max(np.abs(w['a']))) / wv ** 2)
            E1 = envelope(T, dt, len(w['a']), xi, float(np.max(np.abs(w['a']))))
            E2 = envelope(T, dt / r, len(b), xi, float(np.max(np.abs(w['a']))))
            if np.max(np.abs(R2[0][j][::r] - R1[0][j])) > tol * su + E1[0] + E2[0]:
                out.append('refine: row %d changed at the original instants' % j)
        P1, P2 = S.pseudo_response_spectra(w['a'], dt, periods, xi), S.pseudo_response_spectra(b, dt / r, periods, xi)
        for j, T in enumerate(periods):
            if T >= 6 * dt and P2[0][j] < P1[0][j] * (1 - 1e-4):
                out.append('refine: S_d decreased for row %d' % j)
    else:
        out_note = 'replay of kind %r re-runs the scaling relation only' % kind
        a = w.get('a')
        if a is not None:
            al = w.get('alpha', -1.0) or -1.0
            p = np.asarray(periods, dtype=float)
            P1, P2 = S.pseudo_response_spectra(a, dt, p, xi), S.pseudo_response_spectra(al * np.asarray(a), dt, p, xi)
            if np.max(np.abs(np.asarray(P2[0]) - abs(al) * np.asarray(P1[0]))) > 1e-8 * (np.max(np.abs(P1[0])) * abs(al) + 1e-300):
                out.append('scale: S_d does not scale with |alpha|')
            if kind == 'objrefine':
                sig = eqsig.AccSignal(a, dt, response_times=p)
                sig.gen_response_spectrum(xi=xi, min_dt_ratio=1)
                s1 = np.array(sig.s_d)
                sig.gen_response_spectrum(xi=xi, min_dt_ratio=w['r'])
                s2 = np.array(sig.s_d)
                if np.any(s2 < s1 * (1 - 1e-6) - 1e-300):
                    out.append('objrefine: S_d with min_dt_ratio=%d below the raw-sample S_d' % w['r'])
            if kind == 'objlin':
                sig = eqsig.AccSignal(a, dt, response_times=p[p != 0])
                s1 = np.array(sig.s_d)
                sig.reset_values(al * np.asarray(a))
                s2 = np.array(sig.s_d)
                if np.max(np.abs(s2 - abs(al) * s1)) > 1e-8 * abs(al) * (np.max(s1) + 1e-300):
                    out.append('objlin: object spectra stale / not scaled after reset_values')
    return out
