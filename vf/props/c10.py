"""C10 - significant and bracketed durations locate threshold crossings exactly.

Monitors: post-conditions on every execution of eqsig.im.calc_sig_dur_vals / calc_sig_dur / calc_significant_duration /
calc_brac_dur / calc_bracketed_duration (wherever the call comes from, e.g. AccSignal.generate_duration_stats). The oracle
(vf/oracles/durations.py) recomputes the cumulative measure from the record in exact integer arithmetic and evaluates the
index set of the definition; what a floating-point implementation may answer differently is an explicit uncertainty band
(two-sided knife-edge rule), which is zero when the arithmetic is exact (integer-valued records with representable
fraction*total, for the cumulative squares and for the custom measure's own output), so strict vs non-strict inequalities
are decided there. Arias comparisons always keep a band (the rounding of the constant pi/(2*9.81)*dt is not fixed).
Every call is judged against private copies of its arguments taken AT CALL ENTRY (pre hooks; the object's derived caches
are never read) and every array argument is compared bit-for-bit after the call (purity clause).
The driver adds the relations between executions (scaling, zero prepending, nesting, monotonicity, se pair vs scalar,
object with a history vs fresh object, same call repeated after another input of the same shape).
Round 3 (checklist items 22-27): copy.copy / copy.deepcopy / pickle round trips of AccSignals (plain and Cluster members) in
every cache state with reads, mutators, attribute assignments and refused operations on the copy and on the original in both
orders (_run_protocol); assignments through the public attribute names and operations the clean code refuses also inside the
ordinary histories; f(A); f(B); f(A) with B another draw of another shape at non-default options; fractions and thresholds at
the edges of their admissible range; silent and strictly one-signed records in every container.
Round 5 (checklist items 28-33): every numeric argument (dt, start, end, threshold) and the object's dt in its scalar forms -
np.float32, np.int64, np.bool_, Python int, MUTABLE 0-d arrays and one-entry arrays (snapshotted at call entry like records,
one object reused by all calls of a case, compared afterwards: purity.scalar-argument-unchanged) -, the se flag as True /
np.True_ / 0-d bool array / 1; bool-dtype records (arrays, views, lists of Python bools; 1-4 samples as well); user-given
settings outside the band of the data left alone by the duration functions (purity.settings-unchanged); a custom measure that
hands out a table held by the caller (purity.measure-output-unchanged). Item 30: the functions have no sentinels beyond
start = 0 / end = 1 (already judged); item 32: results are immutable scalars / tuples of scalars; item 33: the oracle has ONE
convention (open band on exact cumulative values), its band is a rounding band that is zero where the arithmetic is exact.
"""
import itertools
import traceback
import warnings
from fractions import Fraction

import numpy as np

from vf import attach, core, gen
from vf.oracles import durations as O

PROP_ID = 'C10'
TECHNIQUE = ('runtime post-condition monitors with an exact-integer reference of the definition (two-sided at knife edges, '
             'strict where the arithmetic is exact) + offline relations over the recorded results')
RULE = ('a case = (record, dt, 3-5 fraction pairs incl. a nested pair and sometimes start=0 / end=1 exactly, threshold specs, '
        'custom measures (monotone: cumsum|a|, CAV, cumsum(a^2)*dt; NON-monotone: signed cumsum(a), cumsum(a|a|), a measure '
        'overshooting its final value, a measure dipping below the start fraction after entering the band - integer-valued '
        'and exact on integer records), scale exponent, number of prepended zeros, optional object history with later '
        'rounds). Records: '
        'shared generator classes (noise, walk, sine, quake, impulse, step, const, zero-padded, integer-valued ...) with n in '
        '[1, 3000] plus a few records past 2**16 per run, records built for exact ties (constant +-c of length 16m / 16m+1, '
        '{-1,0,1} records with a multiple of 16 non-zero samples, small integers), lengths 1..4 and 2**k-1, 2**k, 2**k+1, '
        'plateaus / zeros / the extreme at the first or last sample, sign change right before the end; amplitudes 1e-12..1e12 '
        'and small signals on offsets up to 1e6; containers/dtypes float64, float32, int64, int32, int16, int8, uint8, uint16 '
        '(both without overflow and using the whole range incl. the minimum), lists / tuples of floats, of ints, mixed, '
        'non-contiguous (strided, reversed) and read-only arrays; dt nice, 1/k, log-uniform 1e-3..1, powers of two, 1e-9..1e-3, '
        '1..1e3, as float / np.float64 / int; fractions (0.05,0.95), (0.05,0.75), dyadic k/16, powers of two, uniform, as '
        'Python floats and np.float64, positional / keyword / defaults; thresholds 0, equal to some |a_i|, between the two '
        'largest distinct |a_i| (one exceeder), fractions of the peak, above the peak, as float / np.float64 / int. One '
        'argument array is reused by every array-level call of a case and compared bit-for-bit after each call; every call '
        'is judged against a private copy of its arguments taken at call entry. History cases build the AccSignal, read '
        'derived quantities / regenerate them with non-default options / call the deprecated generate_* methods / call the '
        'duration functions, then replace (same, shorter, longer, strided or read-only array), filter, add to, correct in '
        'place (rebase_displacement, set_zero_residual_*, remove_rolling_average, direct edit of .values) or continue with a '
        'twin built from the values; up to two later rounds mutate again and repeat the monitored calls in shuffled order '
        'with repeats, each compared with a fresh object. A second record of the same shape is processed between two '
        'identical calls (process-wide state). Audit round 2: record shapes (both ends large, ramp, one-sided negative, exact '
        'zeros inside, Nyquist component, square wave, tail-heavy, single step, single changed sample, one sample 1e3..1e9 '
        'times larger than the rest, spikes at both ends), lengths up to 4097, awkward time steps (gen.awkward_dt), objects '
        'the LIBRARY derives from analysed objects (deepcopy, interp_to_approx_dt, resample_to_approx_dt, combine_at_angle, '
        'Cluster members, fas2signal = complex-valued records), every cheap public observable of the object read on deep '
        'copies before / after the analysis calls, first calls re-called on the same object, attributes left by '
        'generate_duration_stats compared with calc_sig_dur_vals. The functions have no secondary array arguments and no '
        'int()/floor()/ceil() of a quotient (checklist items 8, 9: nothing to size). Wave 5: extreme-scale records - '
        'bracketed duration on gen.special_scale records (1e-300..1e-165, 1e155..1e300, 1e-150 next to 1e150 in one record, '
        'ripple on a baseline, counts above 2**24) with thresholds scaled with the record; significant durations on records '
        'whose largest |a| is 1e-150 or 1e150 exactly or anywhere in 1e-150..1e-100 / 1e100..1e150. Exhaustive part: every sequence over {-2..2} of length 1..5 (quick) / 1..6 '
        '(thorough) as float64 / int64 / int8 in plain, read-only, strided and reversed layout. Round 3 (items 22-27): '
        'protocol cases (2 of 15) - an AccSignal (from array / list / tuple / read-only / strided data, 25 % a Cluster member) '
        'cold or warm after 1-3 reads (Fourier / smoothed spectrum, velocity, displacement, peaks, response spectrum, Stockwell '
        'memo, generate_*_stats, the duration functions) is copied by copy.copy, copy.deepcopy or pickle protocol 0-5; 2-4 steps '
        'on the copy or the original (mutators - only value-rebinding ones after copy.copy, judged once the buffers are '
        'separate -, reads, assignment of values / dt / npts / time / label / response_times / smooth_fa_* as list, tuple, '
        'ndarray, int list with 1, 2, 3, n, n+-k entries, refused operations: add_series / add_signal with wrong length, '
        'time step or type, filter corners above Nyquist / reversed, ragged reset, bad options; reset to a record with nan / '
        'inf of the same, shorter or longer length followed by an in-place repair by the caller); after each step the '
        'monitored calls run on the touched object, the other one and the touched one again. The same assignment / refused / '
        'non-finite / silent operations are also mutators of the ordinary histories. f(A); f(B); f(A) additionally with B '
        'another draw of length n, n/2, n-1, n+1, 2n+3 at a random fraction pair, se form, custom measure, threshold and '
        'through the deprecated aliases. 25 % of the cases get a fraction pair at the edges of 0 < start < end < 1 (start '
        '1e-12..1e-3, end 1-1e-12..1-2**-53, bands 1e-6 / 0.1 % wide, bounds within 1e-9..1e-3 relative of the normalised '
        'cumulative squares of two samples); 35 % get thresholds one ulp below some |a_i|, within 1e-12..1e-3 of it, and '
        '5e-324 / 1e-300 / the smallest normal. Container cases: 12 % silent (all-zero) and 18 % strictly one-signed records in '
        'each of the 14 containers. Round 5 (items 28-33): 40 % of the cases (and every third enumerated sequence) pass start / '
        'end / threshold as 0-d arrays, one-entry arrays, np.float32 (float32-representable values), np.int64 / int / np.bool_ '
        '(0 and 1, integer thresholds) and se as np.bool_, 0-d bool array, int - the same array object for the same value in '
        'every call of the case; dt as 0-d float / int array, np.float32 (then the rounded number is the caller\'s step), '
        'np.int64, np.True_ (never for float32 records). Containers bool / list of Python bools (pulses of random widths, '
        'thresholded noise, all-True, silent; n also 1..4; plain, strided, reversed, read-only) and 0/1 sequences of the '
        'enumerated block as dtype bool. 20 % of generic / shape / history / edge / tie cases construct the object with '
        'response_times (0, 0.5 dt, 1.9 dt, 2 dt, ordinary) and smooth_fa_freqs (1e-3 .. 4 x Nyquist) of 1-4 entries as list / '
        'tuple / array; the stored settings (response_times, smooth_fa_freqs, dt, label) are compared dtype/shape/bytes before '
        'and after every block of duration calls. Custom measure "held" returns one caller-held table per record (the same '
        'object at every call). distinct = digest of the '
        'complete case; non-trivial = record with a non-zero sample.')
ASSUMPTIONS = ['NaN/inf-free real records (numpy arrays of any real dtype, lists, tuples) or AccSignal objects',
               '0 <= start < end <= 1 (the boundary values 0 and 1 are judged by the same definition), threshold >= 0, '
               'se in {True, False}',
               'records without a sample strictly inside the band are outside the statement (IndexError there is counted, '
               'not judged)',
               'float32 records are driven with float32-representable thresholds and Python-float fractions (numpy compares / '
               'multiplies a float32 array with a Python float in float32, with np.float64 in float64: knife edges move)',
               'zero-prepending shift is judged for the Arias measure only when the record starts with a zero sample (the '
               'trapezoid between the last added zero and a non-zero first sample adds intensity)',
               'a floating-point evaluation may resolve samples within 4(n+8)u RELATIVE TO THE BOUND either way (u = unit '
               'roundoff of the record dtype; valid for running sums of non-negative terms without under/overflow: the '
               'workload keeps |a| in 1e-18..1e24 for float64 and 1e-7..1e7 for float32); exact ties are decided strictly '
               'when every operation is exact',
               'energy-type measures (cumulative squares, Arias) are judged only while max|a| lies in 1e-150..1e150 (squares '
               'normal); outside they legitimately under/overflow and calls are observations. Squares of the smaller samples '
               'may be subnormal: the band has an absolute floor of 2n*2**-1074 (Arias: divided by the constant factor)',
               'times are index*dt compared with rtol 1e-12 relative to max(time, dt): valid for every dt > 0 and n < 2**40',
               'complex records (library-made by fas2signal) count through |a| (numpy abs) for the bracketed duration and '
               'through their real part for the cumulative measures when |imag| <= 1e-9 max|real|, else not judged',
               'failures of the history operations themselves (filters on too short records, np.trapz in generate_*_stats, '
               'in-place corrections on read-only data) are observations, not C10 verdicts',
               'records with nan / inf samples stay outside the quantifier (calls on them are observations), also when an '
               'object holds them temporarily; the object is judged again once its values are finite',
               'pickling / copying failures of an object are not C10 verdicts (observed); a shallow copy is judged only after '
               'a rebinding operation separated the value buffers',
               'assignments that the clean classes reject (dt, npts, time) or ignore (values) are driven, not judged by '
               'themselves: the calls that follow are judged against the object\'s values and dt at call entry',
               'edge thresholds are rounded to the record dtype for float32 records; edge fractions keep the two-sided band '
               '(4(n+8)u relative to the bound), so a bound closer than that to a sample is accepted either way',
               'custom measures need not be monotone: the definition is applied literally to the measure\'s own output; a '
               'non-positive final value leaves no sample strictly inside (outside the statement)',
               'numeric arguments are judged with the value they had at call entry (float() of the scalar / 0-d / one-entry '
               'array); a TypeError / ValueError for a one-entry array (ndim 1) is an observation - such arrays are judged only '
               'when the function accepts them; bool records count True as 1, False as 0',
               'np.float32 scalars: the float32 number itself is the caller\'s value (dt, fraction, threshold); float32 forms of '
               'fractions and the new dt forms are not combined with float32 records (promotion moves knife edges)',
               'settings are compared as stored (dtype, shape, bytes), not by container type',
               'oracle vf/oracles/durations.py is correct']
EXHAUSTIVE = {'quick': 'all sequences over {-2,-1,0,1,2} of length 1..5 x fractions {(1/4,3/4),(1/8,1/2),(1/2,15/16)} x '
                       'thresholds {0,1,2} (array-level, Arias with dt=0.5, custom cumsum|x|, bracketed)',
              'thorough': 'all sequences over {-2,-1,0,1,2} of length 1..6 x fractions {(1/4,3/4),(1/8,1/2),(1/2,15/16)} x '
                          'thresholds {0,1,2} (array-level, Arias with dt=0.5, custom cumsum|x|, bracketed)'}
_MIN_QUICK = {   # ~50 % of what a normal quick run reaches (minimum over seeds 0-3)
    'sigvals.start/end==definition': 19000, 'sigvals.duration==definition': 20000,
    'sigdur.arias.start/end==definition': 22000, 'sigdur.arias.duration==definition': 15000,
    'sigdur.custom.start/end==definition': 14500, 'sigdur.custom.duration==definition': 11000,
    'sigdur.custom-nonmonotone.start/end==definition': 7000, 'sigdur.custom-nonmonotone.duration==definition': 7000,
    'alias.significant_duration.duration==definition': 10000,
    'sig.0<=start<=end<=T': 110000, 'sig.lower-tie-excluded(exact)': 5000, 'sig.upper-tie-excluded(exact)': 7500,
    'sig.boundary-fraction(start=0|end=1)': 2000,
    'brac.start/end==definition': 35000, 'brac.duration==definition': 41000, 'brac.none-exceeds->(None,None)/0': 21000,
    'alias.bracketed_duration.duration==definition': 8500, 'brac.threshold==|a_i| decided strictly': 39000,
    'brac.single-exceeder(se=True)': 9000, 'brac.single-exceeder(se=False)': 10500,
    'purity.argument-unchanged': 220000, 'purity.object-observables-unchanged': 500,
    'rel.same-object-recall': 7500, 'rel.generate_duration_stats==calc_sig_dur_vals': 200,
    'brac.complex-record(fas2signal) judged': 2000,
    'rel.se-pair-difference==scalar': 51000, 'rel.scale-pow2-invariant': 8500, 'rel.scale-any-invariant': 1200,
    'rel.zero-prepend-shift': 4500, 'rel.nested-fractions': 14000, 'rel.brac-monotone-threshold': 17000,
    'rel.brac-joint-scale-invariant': 14000, 'rel.history==fresh': 13000, 'rel.repeat-after-other-input': 2700,
    # round 3 (checklist items 22-27)
    'rel.copy-protocol==fresh': 43000, 'rel.after-assignment==fresh': 9500, 'rel.after-refused-op==fresh': 8400,
    'rel.repeat-after-other-draw(any shape)': 1900, 'sig.edge-fraction(within 1e-3 of 0|1|each other)': 1300,
    'brac.threshold within 1e-9 of some |a_i| (not equal)': 4000, 'brac.silent-record->(None,None)/0': 850,
    # round 5 (checklist items 28-33)
    'form.0-d/one-entry array argument judged': 100000, 'form.numpy scalar (float32/int/bool_) argument judged': 45000,
    'form.se flag not a Python bool (np.bool_/0-d/int) judged': 33000, 'purity.scalar-argument-unchanged': 100000,
    'purity.measure-output-unchanged': 8000, 'purity.settings-unchanged': 5500,
    'purity.settings-unchanged(user-given, outside the data band)': 300, 'sigvals.bool-record judged': 220}
_THOROUGH_FACTOR = {k: 6 for k in ('form.0-d/one-entry array argument judged', 'form.numpy scalar (float32/int/bool_) argument judged',
                                   'form.se flag not a Python bool (np.bool_/0-d/int) judged', 'purity.scalar-argument-unchanged',
                                   'purity.measure-output-unchanged', 'sigvals.bool-record judged')}
MIN_EVALS = {'quick': _MIN_QUICK, 'thorough': {k: v * _THOROUGH_FACTOR.get(k, 10) for k, v in _MIN_QUICK.items()}}

CTX = None
CURRENT = {'case': None, 'fm': None}
HARNESS = {'crash': None}
MEASURES = {}          # name -> callable(asig) (custom cumulative measures used by the workload)
_FAIL = object()
TIME_RTOL = 1e-12


def n_shards(tier):
    return 16


# ================================================================================================ reference
def _mant(dtype):
    dtype = np.dtype(dtype)
    if dtype == np.float32:
        return 24
    if dtype == np.float16:
        return 11
    return 53


_CACHE = {}


def _exact_cum(arr, measure):
    """Exact cumulative measure of the record (cached: the same record is used by many calls of one case)."""
    key = (measure, arr.dtype.str, arr.tobytes())
    hit = _CACHE.get(key)
    if hit is not None:
        return hit
    ints, den = O.to_ints(arr.tolist())
    cum = O.cum_squares(ints) if measure == 'squares' else O.cum_trapezoid_squares(ints)
    if len(_CACHE) > 12:
        _CACHE.clear()
    _CACHE[key] = (cum, den)
    return cum, den


class Ref(object):
    pass


def sig_reference(arr, dt, s, e, measure, im_vals=None, widen=None):
    """Acceptable (first, last) indices of the definition for one call. measure: 'squares' | 'arias' | 'custom'."""
    n = len(arr)
    if measure == 'custom':
        mv = np.asarray(im_vals)
        mant = _mant(mv.dtype)
        cum, _ = O.to_ints(mv.tolist())
        cum_exact = True                 # the measure's own output IS the compared quantity
    else:
        mant = _mant(arr.dtype)
        cum, den = _exact_cum(arr, measure)
        # integer-valued (up to a power of two) and small: every order of summation of the squares is exact. The Arias
        # series carries the factor pi/(2*9.81)*dt whose rounding depends on the order of operations the statement does
        # not fix, so Arias comparisons are never treated as exact (ties there are ambiguous).
        cum_exact = measure == 'squares' and cum[-1] < 2 ** (mant - 10)
    u = 2.0 ** -mant
    tot = cum[-1]
    r = Ref()
    r.n = n
    r.tot_zero = tot == 0
    bands, ties_exact = [], []
    for f in (s, e):
        thr = Fraction(f) * tot
        prod_exact = measure != 'arias' and O.representable(Fraction(f), mant) and O.representable(thr, mant)
        band = Fraction(0)
        if not cum_exact:
            # rounding of a running sum of non-negative terms is relative to THAT partial sum; at a bound the partial sum is
            # the bound itself, so the band scales with the bound (local scale), not with the total (checklist item 10)
            band += Fraction(4 * (n + 8) * u * (1 + 1e-6)) * abs(thr)
            # absolute floor: squares of samples below ~1e-154 are subnormal / flush to zero (each loses up to 2**-1074, for
            # Arias before the factor pi/(2*9.81)*dt/2 is applied); matters only for records near 1e-150 and a bound at 0
            floor = Fraction(2 * n * den * den, 2 ** 1074)
            if measure == 'arias':
                floor = floor * 16 / Fraction(min(float(dt), 1.0))
            band += floor
        if not prod_exact:
            band += Fraction(3 * u) * abs(thr)
        if measure == 'arias':
            band += Fraction(4 * u) * abs(thr)      # roundings of the constant factor on both sides
        if widen:
            band += Fraction(widen) * abs(tot)
        bands.append(band)
        ties_exact.append(cum_exact and prod_exact and not widen)
    status, ties_lo, ties_hi = O.classify(cum, s, e, bands[0], bands[1], ties_exact[0], ties_exact[1])
    r.firsts, r.lasts, r.definite = O.candidates(status)
    r.n_amb = sum(1 for st in status if st == O.AMB)
    r.ties_lo = ties_lo if ties_exact[0] else 0
    r.ties_hi = ties_hi if ties_exact[1] else 0
    return r


def _index_of(t, dt):
    """Index k with t == k*dt (rtol 1e-12), else None."""
    try:
        t = float(t)
    except (TypeError, ValueError):
        return None
    if not np.isfinite(t):
        return None
    k = int(round(t / dt))
    ref = k * dt
    return k if abs(t - ref) <= TIME_RTOL * max(abs(ref), dt) else None


def _is_pair(result):
    return isinstance(result, (tuple, list)) and len(result) == 2


def _scalar(result):
    if isinstance(result, (tuple, list, np.ndarray)) and np.ndim(result) > 0:
        return None
    try:
        return float(result)
    except (TypeError, ValueError):
        return None


# ================================================================================================ monitors
def _witness(call, got=None):
    if CURRENT['case'] is not None:
        call = dict(call, values='n=%d (rebuilt from the case)' % len(call['values']))
    d = {'case': CURRENT['case'], 'call': call}
    if got is not None:
        d['got'] = repr(got)
    return d


def _clean(arr, mode='sig'):
    """The record as the oracle uses it, or None when outside the quantifier. Complex records (the library's own fas2signal
    produces them) count through |a| for the bracketed duration and through their real part for the cumulative measures
    when the imaginary part is rounding noise."""
    arr = np.asarray(arr)
    if arr.ndim != 1 or arr.size < 1 or arr.dtype.kind not in 'fiucb':
        return None
    if arr.dtype.kind == 'b':      # on/off records (item 29): True counts as 1 (the library casts kind 'b' to float on purpose)
        return arr.astype(np.int8)
    if arr.dtype.kind == 'c':
        if not np.all(np.isfinite(arr)):
            return None
        if mode == 'brac':
            return np.abs(arr)
        if np.max(np.abs(arr.imag)) > 1e-9 * np.max(np.abs(arr.real)):
            return None
        return np.array(arr.real)
    if arr.dtype.kind == 'f' and not np.all(np.isfinite(arr)):
        return None
    return arr


def _snap(a):
    """Private copy of an array argument at call entry (None for non-arrays)."""
    if isinstance(a, np.ndarray):
        return np.array(a)
    return None


def _f(v):
    """A numeric argument as a Python float: Python / numpy scalars (np.bool_ included), 0-d arrays, one-entry arrays."""
    if isinstance(v, np.ndarray) and v.ndim > 0:
        if v.size != 1:
            raise TypeError('not a scalar')
        v = v.reshape(-1)[0]
    return float(v)


def _nsnap(v):
    """Private copy of a numeric argument at call entry: 0-d and one-entry arrays are MUTABLE (item 28)."""
    return np.array(v) if isinstance(v, np.ndarray) else v


def _many(*vals):
    """Some numeric argument is an array with ndim > 0 (a one-entry array): judged when accepted, observed when refused."""
    return any(isinstance(v, np.ndarray) and v.ndim > 0 for v in vals)


def _purity_num(ctx, call, snap, now, what):
    if not isinstance(snap, np.ndarray):
        return
    ctx.check(isinstance(now, np.ndarray) and _unchanged(snap, now), 'purity.scalar-argument-unchanged', lambda: _witness(call),
              '%s: the caller\'s array-valued scalar %s = %r differs from its value at call entry %r' % (call['fn'], what, now, snap))


def _unchanged(snap, now):
    now = np.asarray(now)
    return snap.dtype == now.dtype and snap.shape == now.shape and snap.tobytes() == np.ascontiguousarray(now).tobytes()


def _purity(ctx, call, snap, now, what):
    if snap is None:
        return
    ctx.check(_unchanged(snap, now), 'purity.argument-unchanged', lambda: _witness(call),
              '%s: %s differs bit-for-bit from its value at call entry' % (call['fn'], what))


def _squares_normal(arr):
    """Range of validity of the energy-type measures: the largest |a| lies within 1e-150 .. 1e150 (or the record is all zero)."""
    if arr.dtype.kind != 'f':
        return True
    m = float(np.max(np.abs(arr)))
    return m == 0 or 1e-150 <= m <= 1e150


def check_sig(ctx, name, call, arr, dt, s, e, se, measure, result, im_vals=None):
    """Post-condition of one significant-duration call. name: clause prefix; arr: the record AT CALL ENTRY."""
    arr = _clean(arr)
    rec_bool = np.asarray(call['values']).dtype.kind == 'b'
    try:
        s, e, dt = _f(s), _f(e), _f(dt)
    except (TypeError, ValueError):
        arr = None
    if arr is None or not (0 <= s < e <= 1) or not (dt > 0):
        ctx.observe('%s: call outside the quantifier (record/fractions/dt)' % name)
        return
    if measure == 'custom' and _clean(im_vals) is None:
        ctx.observe('%s: custom measure output not a finite series' % name)
        return
    if measure != 'custom' and not _squares_normal(arr):
        ctx.observe('%s: max|a| outside 1e-150..1e150, sums of squares legitimately under/overflow (not judged)' % name)
        return
    ref = sig_reference(arr, dt, s, e, measure, im_vals)
    if not ref.firsts:
        ctx.observe('%s: returned although no sample is strictly inside (premise false, not judged)' % name)
        return
    if not ref.definite:
        ctx.observe('%s: premise decided by rounding only (judged two-sided)' % name)
    firsts, lasts = ref.firsts, set(ref.lasts)
    dur_total = (ref.n - 1) * dt
    if se:
        clause = name + '.start/end==definition'
        if not _is_pair(result):
            ctx.violation(clause, _witness(call, result), '%s(se=True) did not return a (start, end) pair: %r' % (call['fn'], result))
            return
        i0, i1 = _index_of(result[0], dt), _index_of(result[1], dt)
        okk = i0 is not None and i1 is not None and i0 in set(firsts) and i1 in lasts and i0 <= i1
        ctx.check(okk, clause, lambda: _witness(call, result),
                  '%s(n=%d, %s, dt=%r, start=%r, end=%r, se=True) -> %r (indices %r, %r); definition gives first in %s, last in %s'
                  % (call['fn'], ref.n, arr.dtype, dt, s, e, result, i0, i1, firsts[:5], sorted(lasts)[:5]))
        if okk:
            st, en = float(result[0]), float(result[1])
            ctx.check(0 <= st <= en <= dur_total * (1 + TIME_RTOL), 'sig.0<=start<=end<=T', lambda: _witness(call, result),
                      '0 <= %r <= %r <= %r broken' % (st, en, dur_total))
    else:
        clause = name + '.duration==definition'
        got = _scalar(result)
        okk = False
        if got is not None and np.isfinite(got):
            k = int(round(got / dt))
            for f in firsts:
                if (f + k) in lasts and k >= 0:
                    refd = (f + k) * dt - f * dt
                    if abs(got - refd) <= TIME_RTOL * max((f + k) * dt, dt):
                        okk = True
                        break
        ctx.check(okk, clause, lambda: _witness(call, result),
                  '%s(n=%d, %s, dt=%r, start=%r, end=%r) -> %r; definition gives first in %s, last in %s (x dt)'
                  % (call['fn'], ref.n, arr.dtype, dt, s, e, result, firsts[:5], sorted(lasts)[:5]))
        if okk:
            ctx.check(0 <= got <= dur_total * (1 + TIME_RTOL), 'sig.0<=start<=end<=T', lambda: _witness(call, result),
                      '0 <= duration %r <= %r broken' % (got, dur_total))
    if okk:
        if ref.ties_lo:
            ctx.ok('sig.lower-tie-excluded(exact)')
        if ref.ties_hi:
            ctx.ok('sig.upper-tie-excluded(exact)')
        if ref.n_amb:
            ctx.observe('sig: ambiguous (knife-edge) samples accepted two-sided')
        if s == 0 or e == 1:
            ctx.ok('sig.boundary-fraction(start=0|end=1)')
        if 0 < s <= 1e-3 or 1 - 1e-3 <= e < 1 or e - s <= 1e-3:
            ctx.ok('sig.edge-fraction(within 1e-3 of 0|1|each other)')
        if rec_bool:
            ctx.ok('sigvals.bool-record judged')
        _form_markers(ctx, (call.get('dt'), call.get('start'), call.get('end')), call.get('se'))


def check_brac(ctx, name, call, arr, dt, threshold, se, result):
    arr = _clean(arr, 'brac')
    try:
        th = _f(threshold)
        dt = _f(dt)
    except (TypeError, ValueError):
        th = float('nan')
    if arr is None or not (th >= 0) or not (dt > 0):
        ctx.observe('%s: call outside the quantifier (record/threshold/dt)' % name)
        return
    vals = arr.tolist()
    ref = O.bracket(vals, th)
    if np.asarray(call['values']).dtype.kind == 'c':
        ctx.ok('brac.complex-record(fas2signal) judged')
    if ref is None:
        if se:
            okk = _is_pair(result) and result[0] is None and result[1] is None
        else:
            g = _scalar(result)
            okk = g is not None and g == 0
        ctx.check(okk, name + '.none-exceeds->(None,None)/0', lambda: _witness(call, result),
                  '%s(threshold=%r, se=%r): no |a_i| exceeds (max %r) but got %r'
                  % (call['fn'], th, se, max(abs(v) for v in vals), result))
        if okk and not np.any(arr):
            ctx.ok('brac.silent-record->(None,None)/0')
        if okk:
            _form_markers(ctx, (call.get('dt'), call.get('threshold')), call.get('se'))
        return
    f, l = ref
    if se:
        clause = name + '.start/end==definition'
        if not _is_pair(result):
            ctx.violation(clause, _witness(call, result), '%s(se=True) did not return a pair: %r' % (call['fn'], result))
            return
        okk = _index_of(result[0], dt) == f and _index_of(result[1], dt) == l
    else:
        clause = name + '.duration==definition'
        g = _scalar(result)
        okk = g is not None and np.isfinite(g) and abs(g - (l * dt - f * dt)) <= TIME_RTOL * max(l * dt, dt) \
            and int(round(g / dt)) == l - f
    ctx.check(okk, clause, lambda: _witness(call, result),
              '%s(n=%d, %s, dt=%r, threshold=%r, se=%r) -> %r; first/last |a_i| > threshold at %d, %d (times %r, %r)'
              % (call['fn'], len(vals), arr.dtype, dt, th, se, result, f, l, f * dt, l * dt))
    if okk:
        if th in (abs(v) for v in vals):
            ctx.ok('brac.threshold==|a_i| decided strictly')
        if f == l:
            ctx.ok('brac.single-exceeder(se=%s)' % bool(se))
        if th > 0 and arr.dtype.kind == 'f':
            d = np.abs(np.abs(arr) - th)
            if np.any((d > 0) & (d <= 1e-9 * th)):
                ctx.ok('brac.threshold within 1e-9 of some |a_i| (not equal)')
        _form_markers(ctx, (call.get('dt'), call.get('threshold')), call.get('se'))


def _form_markers(ctx, nums, flag):
    """Class markers (item 28): a correctly answered call had a numeric argument / the se flag in a non-Python scalar form."""
    for v in nums:
        if isinstance(v, np.ndarray):
            ctx.ok('form.0-d/one-entry array argument judged')
        elif isinstance(v, (np.float32, np.integer, np.bool_)):
            ctx.ok('form.numpy scalar (float32/int/bool_) argument judged')
    if flag is not None and not isinstance(flag, bool):
        ctx.ok('form.se flag not a Python bool (np.bool_/0-d/int) judged')


def _guard(fn):
    """A crash of the monitor itself must make the run inconclusive, never pass silently."""
    def g(*a):
        try:
            return fn(*a)
        except Exception:
            if HARNESS['crash'] is None:
                HARNESS['crash'] = traceback.format_exc()
    return g


def _parse_vals(args, kwargs, with_se=True):
    motion = args[0] if len(args) > 0 else kwargs['motion']
    dt = args[1] if len(args) > 1 else kwargs['dt']
    s = args[2] if len(args) > 2 else kwargs.get('start', 0.05)
    e = args[3] if len(args) > 3 else kwargs.get('end', 0.95)
    se = (args[4] if len(args) > 4 else kwargs.get('se', False)) if with_se else False
    return motion, dt, s, e, se


def _parse_sig(args, kwargs):
    asig = args[0] if len(args) > 0 else kwargs['asig']
    s = args[1] if len(args) > 1 else kwargs.get('start', 0.05)
    e = args[2] if len(args) > 2 else kwargs.get('end', 0.95)
    imf = args[3] if len(args) > 3 else kwargs.get('im', None)
    se = args[4] if len(args) > 4 else kwargs.get('se', False)
    return asig, s, e, imf, se


def _measure_name(imf):
    for k, v in MEASURES.items():
        if v is imf:
            return k
    return getattr(imf, '__name__', repr(imf))


# -- pre hooks: everything the oracle uses is captured AT CALL ENTRY (private copies); the object's caches are never read.
# Numeric arguments and the object's dt may be 0-d / one-entry arrays, which a function can change in place (item 28): they
# are snapshotted like records, the call is judged with the values at entry and the caller's objects are compared afterwards.
@_guard
def _pre_vals(args, kwargs):
    motion = args[0] if len(args) > 0 else kwargs.get('motion')
    dt = args[1] if len(args) > 1 else kwargs.get('dt')
    s = args[2] if len(args) > 2 else kwargs.get('start', 0.05)
    e = args[3] if len(args) > 3 else kwargs.get('end', 0.95)
    se = args[4] if len(args) > 4 else kwargs.get('se', False)
    return {'motion': _snap(motion), 'num': (_nsnap(dt), _nsnap(s), _nsnap(e), _nsnap(se))}


@_guard
def _pre_sig(args, kwargs):
    asig, s, e, imf, se = _parse_sig(args, kwargs)
    st = {'values': np.array(asig.values), 'dt': _nsnap(asig.dt), 'im_vals': None, 'im_raw': None,
          'num': (_nsnap(s), _nsnap(e), _nsnap(se))}
    if imf is not None:
        with attach.paused():
            try:
                raw = imf(asig)
                st['im_vals'] = np.array(raw)
                if isinstance(raw, np.ndarray):
                    st['im_raw'] = raw       # a measure may hand out a table the CALLER holds (item 32): compared after the call
            except Exception:
                st['im_vals'] = None
    return st


@_guard
def _pre_brac(args, kwargs):
    asig = args[0] if len(args) > 0 else kwargs['asig']
    th = args[1] if len(args) > 1 else kwargs.get('threshold')
    se = args[2] if len(args) > 2 else kwargs.get('se', False)
    return {'values': np.array(asig.values), 'dt': _nsnap(asig.dt), 'num': (_nsnap(th), _nsnap(se))}


def _sig_context(args, kwargs, pre):
    asig, s, e, imf, se = _parse_sig(args, kwargs)
    s, e, se = pre['num']
    arr = pre['values']
    dt = pre['dt']
    if imf is None:
        measure, im_vals, mname, name = 'arias', None, None, 'sigdur.arias'
    else:
        measure, mname = 'custom', _measure_name(imf)
        name = 'sigdur.custom-nonmonotone' if mname in NON_MONOTONE else 'sigdur.custom'
        im_vals = pre['im_vals']
    call = {'fn': 'calc_sig_dur', 'values': arr, 'dt': dt, 'start': s, 'end': e, 'se': se, 'im': mname}
    return asig, name, call, arr, dt, s, e, se, measure, im_vals


def _vals_record(motion, pre):
    """The record at call entry: the snapshot for arrays, the (immutable or foreign) argument itself otherwise."""
    return pre['motion'] if pre and pre.get('motion') is not None else motion


def _vals_context(fn, args, kwargs, pre, with_se):
    motion, dt_now, s_now, e_now, se_now = _parse_vals(args, kwargs, with_se)
    dt, s, e, se = pre['num'] if pre and pre.get('num') else (dt_now, s_now, e_now, se_now)
    if not with_se:
        se = False
    rec = _vals_record(motion, pre)
    call = {'fn': fn, 'values': np.asarray(rec), 'dt': dt, 'start': s, 'end': e, 'se': se}
    return motion, rec, call, dt, s, e, se, (dt_now, s_now, e_now)


def _vals_purity(call, pre, motion, nows):
    _purity(CTX, call, pre and pre.get('motion'), motion, 'motion')
    if pre and pre.get('num'):
        for snap, now, what in zip(pre['num'], nows, ('dt', 'start', 'end')):
            _purity_num(CTX, call, snap, now, what)


@_guard
def _post_vals(args, kwargs, result, pre):
    motion, rec, call, dt, s, e, se, nows = _vals_context('calc_sig_dur_vals', args, kwargs, pre, True)
    _vals_purity(call, pre, motion, nows)
    check_sig(CTX, 'sigvals', call, rec, dt, s, e, se, 'squares', result)


@_guard
def _post_alias(args, kwargs, result, pre):
    motion, rec, call, dt, s, e, se, nows = _vals_context('calc_significant_duration', args, kwargs, pre, False)
    _vals_purity(call, pre, motion, nows)
    check_sig(CTX, 'alias.significant_duration', call, rec, dt, s, e, False, 'squares', result)


@_guard
def _post_sig(args, kwargs, result, pre):
    asig, name, call, arr, dt, s, e, se, measure, im_vals = _sig_context(args, kwargs, pre)
    _purity(CTX, call, arr, asig.values, 'asig.values')
    _, s_now, e_now, _, _ = _parse_sig(args, kwargs)
    for snap, now, what in ((dt, asig.dt, 'asig.dt'), (s, s_now, 'start'), (e, e_now, 'end')):
        _purity_num(CTX, call, snap, now, what)
    if call['im'] == 'held' and pre.get('im_raw') is not None and im_vals is not None:
        CTX.check(_unchanged(im_vals, pre['im_raw']), 'purity.measure-output-unchanged', lambda: _witness(call),
                  'calc_sig_dur changed the table that the custom measure handed out (it belongs to the caller)')
    check_sig(CTX, name, call, arr, dt, s, e, se, measure, result, im_vals)


def _onex_common(name, call, arr, dt, s, e, measure, exc, im_vals=None):
    ctx = CTX
    arr = _clean(arr)
    if _many(s, e, dt) and isinstance(exc, (TypeError, ValueError)):
        ctx.observe('%s: one-entry array argument refused with %s (judged only when accepted)' % (name, type(exc).__name__))
        return
    try:
        s, e, dt = _f(s), _f(e), _f(dt)
    except (TypeError, ValueError):
        arr = None
    if arr is None or not (0 <= s < e <= 1) or not (dt > 0) or (measure == 'custom' and _clean(im_vals) is None):
        ctx.observe('%s: call outside the quantifier raised %s' % (name, type(exc).__name__))
        return
    if measure != 'custom' and not _squares_normal(arr):
        ctx.observe('%s: max|a| outside 1e-150..1e150, sums of squares legitimately under/overflow (not judged)' % name)
        return
    if isinstance(exc, IndexError):
        ref = sig_reference(arr, dt, s, e, measure, im_vals)
        if not ref.definite:
            ctx.observe('%s: IndexError, no sample (definitely) strictly inside: outside the statement' % name)
            return
    ctx.exception(name + '.start/end==definition', _witness(call), exc)


@_guard
def _onex_vals(args, kwargs, exc, pre):
    motion, rec, call, dt, s, e, se, nows = _vals_context('calc_sig_dur_vals', args, kwargs, pre, True)
    _onex_common('sigvals', call, rec, dt, s, e, 'squares', exc)


@_guard
def _onex_alias(args, kwargs, exc, pre):
    motion, rec, call, dt, s, e, se, nows = _vals_context('calc_significant_duration', args, kwargs, pre, False)
    _onex_common('alias.significant_duration', call, rec, dt, s, e, 'squares', exc)


@_guard
def _onex_sig(args, kwargs, exc, pre):
    asig, name, call, arr, dt, s, e, se, measure, im_vals = _sig_context(args, kwargs, pre)
    _onex_common(name, call, arr, dt, s, e, measure, exc, im_vals)


def _parse_brac(args, kwargs, with_se=True):
    asig = args[0] if len(args) > 0 else kwargs['asig']
    th = args[1] if len(args) > 1 else kwargs['threshold']
    se = (args[2] if len(args) > 2 else kwargs.get('se', False)) if with_se else False
    return asig, th, se


def _brac_context(fn, args, kwargs, pre, with_se):
    asig, th_now, _ = _parse_brac(args, kwargs, with_se)
    th, se = pre['num']
    if not with_se:
        se = False
    arr = pre['values']
    call = {'fn': fn, 'values': arr, 'dt': pre['dt'], 'threshold': th, 'se': se}
    return asig, arr, call, th, se, th_now


def _post_brac_factory(fn, name, with_se):
    @_guard
    def post(args, kwargs, result, pre):
        asig, arr, call, th, se, th_now = _brac_context(fn, args, kwargs, pre, with_se)
        _purity(CTX, call, arr, asig.values, 'asig.values')
        _purity_num(CTX, call, pre['dt'], asig.dt, 'asig.dt')
        _purity_num(CTX, call, th, th_now, 'threshold')
        check_brac(CTX, name, call, arr, pre['dt'], th, se, result)
    return post


_post_brac = _post_brac_factory('calc_brac_dur', 'brac', True)
_post_brac_alias = _post_brac_factory('calc_bracketed_duration', 'alias.bracketed_duration', False)


def _onex_brac_factory(fn, name, with_se):
    @_guard
    def onex(args, kwargs, exc, pre):
        asig, arr, call, th, se, th_now = _brac_context(fn, args, kwargs, pre, with_se)
        if _clean(arr, 'brac') is None:
            CTX.observe('%s: call outside the quantifier raised %s' % (name, type(exc).__name__))
            return
        if _many(th, pre['dt']) and isinstance(exc, (TypeError, ValueError)):
            CTX.observe('%s: one-entry array argument refused with %s (judged only when accepted)' % (name, type(exc).__name__))
            return
        CTX.exception(name + '.start/end==definition', _witness(call), exc)
    return onex


def _m_overshoot(a):
    m = np.cumsum(np.abs(np.asarray(a.values, dtype=float)))
    n = len(m)
    i, j = int(0.3 * n), int(0.45 * n)
    out = m.copy()
    out[i:min(j, n - 1)] += m[-1]
    return out


def _m_dip(a):
    m = np.cumsum(np.abs(np.asarray(a.values, dtype=float)))
    n = len(m)
    i, j = int(0.55 * n), min(int(0.75 * n), n - 1)
    out = m.copy()
    out[i:j] = np.floor(m[i:j] / 4.0)
    return out


HELD = {}


def _m_held(a):
    """A measure that hands out a table the CALLER holds (one array object per record, the same object at every call, like a
    user-side lru_cache): calc_sig_dur may read it, never write to it (item 32)."""
    v = np.asarray(a.values)
    key = (v.dtype.str, v.tobytes())
    t = HELD.get(key)
    if t is None:
        if len(HELD) > 6:
            HELD.clear()
        t = HELD[key] = np.array(np.cumsum(np.abs(v)), dtype=float)
    return t


NON_MONOTONE = ['signed', 'signed_sq', 'overshoot', 'dip']


def install(ctx):
    """Attach the C10 monitors to the imported eqsig (idempotent per process)."""
    global CTX
    CTX = ctx
    import eqsig
    im = eqsig.im
    if not MEASURES:
        MEASURES['cumabs'] = lambda a: np.cumsum(np.abs(a.values))
        MEASURES['cav'] = getattr(im.calc_cav, '__vf_orig__', im.calc_cav)
        MEASURES['isq_dt'] = lambda a: np.cumsum(np.asarray(a.values, dtype=float) ** 2) * a.dt
        # NON-monotone user measures: the definition (first / last sample strictly inside the band) applies literally
        MEASURES['signed'] = lambda a: np.cumsum(np.asarray(a.values, dtype=float))                  # signed build-up
        MEASURES['signed_sq'] = lambda a: np.cumsum(np.asarray(a.values, dtype=float) * np.abs(a.values))
        MEASURES['overshoot'] = _m_overshoot      # transient excursion above the final value
        MEASURES['dip'] = _m_dip                  # falls below the start fraction again after entering the band
        MEASURES['held'] = _m_held                # hands out the caller's own table
    if getattr(im.calc_sig_dur_vals, '__vf_c10__', False):
        return
    attach.wrap(im, 'calc_sig_dur_vals', _post_vals, pre=_pre_vals, on_exception=_onex_vals).__vf_c10__ = True
    attach.wrap(im, 'calc_significant_duration', _post_alias, pre=_pre_vals, on_exception=_onex_alias)
    attach.wrap(im, 'calc_sig_dur', _post_sig, pre=_pre_sig, on_exception=_onex_sig)
    attach.wrap(im, 'calc_brac_dur', _post_brac, pre=_pre_brac, on_exception=_onex_brac_factory('calc_brac_dur', 'brac', True))
    attach.wrap(im, 'calc_bracketed_duration', _post_brac_alias, pre=_pre_brac,
                on_exception=_onex_brac_factory('calc_bracketed_duration', 'alias.bracketed_duration', False))


# ================================================================================================ driver
def _call(f):
    """Run one public call; exceptions inside monitored functions were already judged by the on_exception monitors."""
    try:
        return f()
    except Exception:
        return _FAIL


def _same(a, b):
    """Exact equality of two results (pairs, scalars, None, _FAIL)."""
    if a is _FAIL or b is _FAIL:
        return a is b
    try:
        if _is_pair(a) and _is_pair(b):
            return all((x is None and y is None) or (x is not None and y is not None and float(x) == float(y))
                       for x, y in zip(a, b))
        if _is_pair(a) or _is_pair(b):
            return False
        return float(a) == float(b)
    except (TypeError, ValueError):
        return False


def _shifted(base, moved, k, dt):
    """moved is base shifted by k samples (both (start, end) pairs of times)."""
    if not (_pair_ok(base) and _pair_ok(moved)):
        return False
    i = [_index_of(base[0], dt), _index_of(base[1], dt), _index_of(moved[0], dt), _index_of(moved[1], dt)]
    if any(v is None for v in i):
        return False
    return i[2] == i[0] + k and i[3] == i[1] + k


def _pair_ok(p):
    return p is not _FAIL and _is_pair(p) and _scalar(p[0]) is not None and _scalar(p[1]) is not None


def _se_relation(ctx, case, what, pair, scal, dt):
    if pair is _FAIL or scal is _FAIL:
        return
    if _is_pair(pair) and pair[0] is None:
        okk = _scalar(scal) == 0
    elif _pair_ok(pair) and _scalar(scal) is not None:
        okk = abs((float(pair[1]) - float(pair[0])) - float(scal)) <= TIME_RTOL * max(abs(float(pair[1])), dt)
    else:
        okk = False
    ctx.check(okk, 'rel.se-pair-difference==scalar', lambda: {'case': case, 'relation': what, 'pair': repr(pair), 'scalar': repr(scal)},
              '%s: se=True gave %r, se=False gave %r' % (what, pair, scal))


def _thresholds(cur, specs):
    """Resolve threshold specs against the current record (deterministic)."""
    vals = (np.abs(cur) if cur.dtype.kind == 'c' else cur).tolist()
    av = sorted(set(abs(v) for v in vals), reverse=True)
    out = []
    for sp in specs:
        kind = sp[0]
        if kind == 'zero':
            th = 0.0
        elif kind == 'rank':
            th = av[min(int(sp[1]), len(av) - 1)]
        elif kind == 'between':
            r = min(int(sp[1]), len(av) - 1)
            th = (av[r] + (av[r + 1] if r + 1 < len(av) else 0.0)) / 2.0
        elif kind == 'frac':
            th = float(sp[1]) * av[0]
        elif kind == 'above':
            th = av[0] * 2.0 + 1.0
        elif kind == 'below':        # the neighbouring number just below some |a_i|: that sample exceeds, by one ulp (item 26)
            r = min(int(sp[1]), len(av) - 1)
            th = float(np.nextafter(np.float32(av[r]), np.float32(0))) if cur.dtype == np.float32 else float(np.nextafter(av[r], 0.0))
        elif kind == 'rel':          # within 1e-3 .. 1e-12 (relative) of some |a_i|, either side
            r = min(int(sp[1]), len(av) - 1)
            th = av[r] * (1.0 + float(sp[2]))
        else:
            th = float(sp[1])
        th = float(th)
        if cur.dtype == np.float32:
            th = float(np.float32(th))
        out.append(th)
    return out


class Forms(object):
    """The numbers of one case in other scalar forms (item 28). Array-valued forms (0-d, one-entry) are MUTABLE: one object per
    (form, value) is handed to every call of the case that uses the value (item 4), so a function that changes it in place is
    seen by the purity clause of that call and by the judgement of the calls that follow."""
    def __init__(self):
        self.cache = {}

    def _arr(self, kind, v):
        key = (kind, repr(v))
        if key not in self.cache:
            self.cache[key] = np.array(v) if kind == '0d' else np.array([v])
        return self.cache[key]

    def get(self, kind, v):
        v = float(v)
        if kind == '1e':
            return self._arr('1e', v)
        if kind == 'f32' and float(np.float32(v)) == v:
            return np.float32(v)
        if kind == 'i64' and v.is_integer() and abs(v) < 2 ** 53:
            return np.int64(v)
        if kind == 'int' and v.is_integer() and abs(v) < 2 ** 53:
            return int(v)
        if kind == 'bool' and v in (0.0, 1.0):
            return np.bool_(v)
        if kind == '0dint' and v.is_integer() and abs(v) < 2 ** 53:
            return self._arr('0d', int(v))
        return self._arr('0d', v)


def _flag(se, k):
    """The se flag as True / np.True_ / a 0-d bool array / 1 (`se is True` holds for the first only)."""
    k = k % 4
    if k == 1:
        return np.bool_(se)
    if k == 2:
        return np.array(bool(se))
    if k == 3:
        return int(bool(se))
    return bool(se)


FRAC_FORMS = {4: ('0d', '0d'), 5: ('f32', 'f32'), 6: ('bool', 'bool'), 7: ('1e', '0d'), 8: ('int', 'i64'), 9: ('0d', '1e')}


def _th_form(th, j, fm=None):
    """The same threshold as another Python/numpy scalar form."""
    if fm is not None and j % 10 >= 5:
        return fm.get(['0d', 'f32', 'i64', '1e', 'bool'][j % 10 - 5], th)
    if j % 5 == 3:
        return np.float64(th)
    if j % 5 == 4 and float(th).is_integer() and abs(th) < 2 ** 53:
        return int(th)
    return th


def _layout(x, layout):
    """The record in a given memory layout / flag state (same numbers, same dtype)."""
    if layout == 'stride':
        base = np.empty(2 * len(x), dtype=x.dtype)
        base[::2] = x
        base[1::2] = x[::-1]
        return base[::2]
    if layout == 'reversed':
        return np.array(x[::-1])[::-1]
    if layout == 'readonly':
        y = np.array(x)
        y.flags.writeable = False
        return y
    return np.array(x)


def _other_record(x):
    """A different record of the same shape and dtype (for the back-to-back check)."""
    y = np.array(np.roll(x, max(1, len(x) // 3))[::-1])
    if np.array_equal(y, x):
        y = np.array(x)
        y[0] = y[0] + 1
    return y


def _other_for(case, x):
    """The second input B of f(A); f(B); f(A): a permutation of A (same multiset), or the case's own second draw - same shape or
    another shape - brought to A's dtype."""
    other = case.get('other')
    if other is None:
        return _other_record(x)
    other = np.asarray(other)
    if x.dtype.kind == 'f':
        y = np.array(other, dtype=x.dtype)
    else:       # integer / complex records: A's own numbers re-ordered, at the length of the second draw
        y = np.array(np.resize(_other_record(x), len(other)))
    if y.shape == x.shape and np.array_equal(y, x):
        y = _other_record(x)
    return y


def _apply_op(eqsig, ctx, asig, op):
    """One step of an object's history; returns the object to continue with. Failures of the history operations themselves
    are not C10's business."""
    kind = op['op']
    try:
        if kind == 'read':
            if op['what'] == 'swtf':     # the Stockwell memo, filled the way eqsig.stockwell.plot_stock fills it
                if not hasattr(asig, 'swtf') and asig.npts <= 256:
                    asig.swtf = eqsig.stockwell.transform(asig.values)
            else:
                getattr(asig, op['what'])
        elif kind == 'regen':       # explicit regenerations with non-default options
            w = op['what']
            if w == 'fa':
                asig.gen_fa_spectrum(p2_plus=int(op.get('p2_plus', 1)))
            elif w == 'smooth':
                asig.gen_smooth_fa_spectrum(band=int(op.get('band', 20)))
            elif w == 'resp':
                asig.gen_response_spectrum(response_times=np.array([0.2, 0.5, 1.0]), xi=float(op.get('xi', 0.1)))
            else:
                asig.generate_displacement_and_velocity_series(trap=False)
        elif kind == 'gen_duration_stats':
            asig.generate_duration_stats()
            _stats_agree(eqsig, ctx, asig)
        elif kind == 'gen_cumulative_stats':
            asig.generate_cumulative_stats()
        elif kind == 'gen_all_motion_stats':
            asig.generate_all_motion_stats()
            _stats_agree(eqsig, ctx, asig)
        elif kind == 'calc':     # same arguments as the later monitored calls: a result remembered on the object would be hit
            for fr in op.get('fracs') or [(0.05, 0.95)]:
                for se in (False, True):
                    for mname in [None] + list(op.get('measures') or []):
                        try:
                            eqsig.im.calc_sig_dur(asig, start=float(fr[0]), end=float(fr[1]), im=MEASURES[mname] if mname else None, se=se)
                        except IndexError:
                            pass
            for th in op.get('thresholds') or [0.1]:
                eqsig.im.calc_brac_dur(asig, th)
                eqsig.im.calc_brac_dur(asig, th, se=True)
            eqsig.im.calc_bracketed_duration(asig, 0.0)
        elif kind == 'reset_values':
            asig.reset_values(_layout(np.asarray(op['values']), op.get('layout')))
        elif kind == 'add_constant':
            asig.add_constant(op['c'])
        elif kind == 'add_series':
            asig.add_series(np.array(op['values']))
        elif kind == 'add_signal':
            asig.add_signal(eqsig.AccSignal(np.array(op['values']), asig.dt))
        elif kind == 'butter_pass':
            asig.butter_pass(tuple(op['cut_off']))
        elif kind == 'remove_average':
            asig.remove_average()
        elif kind == 'remove_poly':
            asig.remove_poly(int(op['k']))
        elif kind == 'running_average':
            asig.running_average(int(op['width']))
        elif kind in ('rebase_displacement', 'set_zero_residual_velocity', 'set_zero_residual_displacement',
                      'set_zero_residual_displacement_and_velocity', 'remove_rolling_average'):
            getattr(asig, kind)()
        elif kind == 'inplace_edit':     # the caller edits the array handed out by .values
            v = asig.values
            v[int(op['index']) % len(v)] *= op['factor']
        elif kind == 'derive':           # continue with an object the LIBRARY derives from this (analysed, 'warm') object
            import copy
            how = op['how']
            if how == 'deepcopy':
                asig = copy.deepcopy(asig)
            elif how == 'interp':
                asig = eqsig.interp_to_approx_dt(asig, float(asig.dt) * float(op['factor']))
            elif how == 'resample':
                asig = eqsig.fns.time_step.resample_to_approx_dt(asig, float(asig.dt) * float(op['factor']))
            elif how == 'combine':
                other = eqsig.AccSignal(np.resize(np.asarray(op['values'], dtype=float), asig.npts), asig.dt)
                other.velocity      # warm as well
                asig = eqsig.combine_at_angle(asig, other, float(op['angle']))
            elif how == 'cluster':
                cl = eqsig.Cluster([asig.values, np.resize(np.asarray(op['values'], dtype=float), asig.npts)], asig.dt, stypes='acc')
                asig = cl.signal_by_index(int(op['index']))
            else:                        # round trip through the Fourier spectrum: a complex-valued record
                asig = eqsig.fns.frequency.fas2signal(asig.fa_spectrum, asig.dt, stype='acc')
        elif kind == 'assign':           # assignment through a public attribute name after construction (checklist item 23)
            v = op['value']
            form = op.get('form', 'scalar')
            if form == 'list':
                v = [float(q) for q in np.asarray(v).ravel()]
            elif form == 'intlist':
                v = [int(q) for q in np.asarray(v).ravel()]
            elif form == 'tuple':
                v = tuple(float(q) for q in np.asarray(v).ravel())
            elif form == 'array':
                v = np.array(np.asarray(v, dtype=float).ravel())
            setattr(asig, op['what'], v)
            if op.get('then_read'):      # the assigned value is used through an entry point of the object
                getattr(asig, op['then_read'])
        elif kind == 'reject':           # operations the clean code refuses (item 24): the object is judged afterwards
            how = op['how']
            n = asig.npts
            if how == 'add_series_short':
                asig.add_series(np.ones(max(1, n - int(op.get('k', 1)))))
            elif how == 'add_series_long':
                asig.add_series(np.ones(n + int(op.get('k', 1))))
            elif how == 'add_series_list_long':
                asig.add_series([1.0] * (n + int(op.get('k', 1))))
            elif how == 'add_signal_dt':
                asig.add_signal(eqsig.AccSignal(np.ones(n), float(asig.dt) * 2.0))
            elif how == 'add_signal_len':
                asig.add_signal(eqsig.AccSignal(np.ones(n + int(op.get('k', 1))), asig.dt))
            elif how == 'add_signal_type':
                asig.add_signal(np.ones(n))
            elif how == 'butter_above_nyquist':
                asig.butter_pass((0.1 / float(asig.dt), 2.0 / float(asig.dt)))
            elif how == 'butter_reversed':
                asig.butter_pass((0.4 / float(asig.dt), -1.0))
            elif how == 'reset_ragged':
                asig.reset_values([[1.0, 2.0], [3.0]])
            elif how == 'remove_poly_negative':
                asig.remove_poly(-1)
            else:
                asig.set_zero_residual_velocity(timezone='not-a-zone')
        elif kind == 'repair_inplace':   # the caller cleans non-finite samples in the array handed out by .values
            v = asig.values
            v[~np.isfinite(v)] = float(op.get('fill', 0.0))
        elif kind == 'twin':             # continue with a twin built from this object's values; then edit the original
            twin = eqsig.AccSignal(asig.values, asig.dt)
            try:
                asig.values[::2] *= -3
            except Exception:
                pass
            asig = twin
        else:
            raise ValueError(kind)
        ctx.observe('history-op:%s' % _op_name(op))
    except Exception as e:
        ctx.observe('history-op raised (not judged): %s %s' % (_op_name(op), type(e).__name__))
    return asig


def _op_name(op):
    kind = op['op']
    if kind == 'assign':
        return 'assign(%s)' % op['what']
    if kind == 'reject':
        return 'reject(%s)' % op['how']
    return kind


def _stats_agree(eqsig, ctx, asig):
    """Two sites that must agree: the attributes left by the deprecated generate_duration_stats and the array-level function."""
    case = CURRENT['case']
    ref = _call(lambda: eqsig.im.calc_sig_dur_vals(np.array(asig.values), asig.dt, se=True))
    if not _pair_ok(ref):
        return
    got = (getattr(asig, 'sd_start', None), getattr(asig, 'sd_end', None))
    t595 = getattr(asig, 't_595', None)
    okk = _same(got, ref) and _scalar(t595) is not None and abs(float(t595) - (float(ref[1]) - float(ref[0]))) <= TIME_RTOL * max(float(ref[1]), float(asig.dt))
    _rel(ctx, okk, 'rel.generate_duration_stats==calc_sig_dur_vals', case, 'generate_duration_stats()',
         'sd_start, sd_end, t_595 = %r, %r but calc_sig_dur_vals(values, dt, se=True) = %r' % (got, t595, ref))


def _dt_arg(dt, form):
    if form == 'np':
        return np.float64(dt)
    if form == 'int' and float(dt).is_integer():
        return int(dt)
    if form == 'f32':        # the caller's step IS the float32 number (the reference is what the caller passed, item 18)
        return np.float32(dt)
    if form == 'bool' and dt == 1.0:
        return np.True_
    if form in ('i64', 'bool') and float(dt).is_integer():
        return np.int64(dt)
    if form == '0dint' and float(dt).is_integer():
        return np.array(int(dt))
    if form in ('0d', '0dint', 'i64', 'bool'):
        return np.array(float(dt))      # a MUTABLE 0-d array: stored by AccSignal as given, snapshotted by the monitors
    return dt


def _build(eqsig, ctx, case):
    """The AccSignal of the case: fresh from the container, then its history."""
    x = np.asarray(case['values'])
    cont = case.get('container', 'array')
    if cont in ('list', 'intlist'):
        arg = x.tolist()
    elif cont == 'tuple':
        arg = tuple(x.tolist())
    elif cont == 'mixedlist':
        arg = [int(v) if float(v).is_integer() and i % 2 else float(v) for i, v in enumerate(x.tolist())]
    else:
        arg = _layout(x, case.get('layout'))
    kw = {}
    st = case.get('settings')
    if st:      # user-given settings, partly outside the band of the data (periods below 2 dt, frequencies above Nyquist)
        conv = {'list': lambda v: [float(q) for q in v], 'tuple': lambda v: tuple(float(q) for q in v),
                'array': lambda v: np.array(v, dtype=float)}[st.get('form', 'array')]
        kw = {'response_times': conv(np.asarray(st['response_times']).ravel()),
              'smooth_fa_freqs': conv(np.asarray(st['smooth_fa_freqs']).ravel())}
    asig = eqsig.AccSignal(arg, _dt_arg(float(case['dt']), case.get('dt_form')), **kw)
    for op in case.get('history') or []:
        asig = _apply_op(eqsig, ctx, asig, op)
    return asig


def _call_vals(im, x, dt, s, e, se, form, fm=None):
    if form >= 4:
        ks, ke = FRAC_FORMS[form]
        s, e, se = fm.get(ks, s), fm.get(ke, e), _flag(se, form)
        if form % 2:
            return im.calc_sig_dur_vals(x, dt, s, e, se)
        return im.calc_sig_dur_vals(x, dt, start=s, end=e, se=se)
    if form == 0:
        return im.calc_sig_dur_vals(x, dt, start=s, end=e, se=se)
    if form == 1:
        return im.calc_sig_dur_vals(x, dt, s, e, se)
    if form == 3:
        return im.calc_sig_dur_vals(x, np.float64(dt), np.float64(s), end=np.float64(e), se=se)
    if (s, e) == (0.05, 0.95):
        return im.calc_sig_dur_vals(x, dt, se=se) if se else im.calc_sig_dur_vals(x, dt)
    return im.calc_sig_dur_vals(motion=x, dt=dt, end=e, start=s, se=se)


def _call_sig(im, asig, s, e, imf, se, form, fm=None):
    if form >= 4:
        ks, ke = FRAC_FORMS[form]
        s, e, se = fm.get(ks, s), fm.get(ke, e), _flag(se, form + 1)
        if form % 2:
            return im.calc_sig_dur(asig, s, e, imf, se)
        return im.calc_sig_dur(asig, start=s, end=e, im=imf, se=se)
    if form == 0:
        return im.calc_sig_dur(asig, start=s, end=e, im=imf, se=se)
    if form == 1:
        return im.calc_sig_dur(asig, s, e, imf, se)
    if form == 3:
        return im.calc_sig_dur(asig, np.float64(s), np.float64(e), im=imf, se=se)
    if (s, e) == (0.05, 0.95) and imf is None:
        return im.calc_sig_dur(asig, se=se) if se else im.calc_sig_dur(asig)
    return im.calc_sig_dur(asig, end=e, start=s, se=se, im=imf)


def run_case(eqsig, ctx, case):
    CURRENT['case'] = case
    try:
        with warnings.catch_warnings():
            warnings.simplefilter('ignore')
            with np.errstate(all='ignore'):
                _run_case(eqsig, ctx, case)
    finally:
        CURRENT['case'] = None
        CURRENT['fm'] = None


def _rel(ctx, cond, clause, case, what, msg):
    ctx.check(cond, clause, lambda: {'case': case, 'relation': what}, '%s: %s' % (what, msg))


def _near_knife(arr, dt, s, e, measure, im_vals=None):
    r = sig_reference(arr, dt, s, e, measure, im_vals, widen=1e-9)
    return r.n_amb > 0 or not r.definite


PERM, DRAW = 'rel.repeat-after-other-input', 'rel.repeat-after-other-draw(any shape)'


def _others(case, x):
    """The second inputs B of f(A); f(B); f(A) with the clause each is counted under."""
    out = [(_other_record(x), PERM)]
    if case.get('other') is not None:
        out.append((_other_for(case, x), DRAW))
    return out


def _repeat_relation(ctx, case, what, f_first, f_other, clause=PERM):
    """Two different inputs back to back (B a permutation of A, or another draw of the same / another shape); the first result is
    re-checked after the second call: third == first, and the held first result is still what it was."""
    r1 = _call(f_first)
    held = repr(r1)
    _call(f_other)
    r1b = _call(f_first)
    _rel(ctx, _same(r1, r1b) and (r1 is _FAIL or repr(r1) == held), clause, case, what,
         'first call gave %s, the same call after another input of the same shape gave %r (held result now %r)'
         % (held, _show(r1b), _show(r1)))


def _proto_copy(asig, how):
    """The Python object protocols on a signal: copy.copy, copy.deepcopy, a pickle round trip (every protocol number)."""
    import copy
    import pickle
    if how == 'copy':
        return copy.copy(asig)
    if how == 'deepcopy':
        return copy.deepcopy(asig)
    return pickle.loads(pickle.dumps(asig, protocol=int(how[len('pickle'):])))


STEP_CLAUSE = {'assign': 'rel.after-assignment==fresh', 'refuse': 'rel.after-refused-op==fresh'}


def _run_protocol(eqsig, ctx, case):
    """Checklist items 22-24: an AccSignal (plain or a Cluster member) in some cache state is copied with copy.copy /
    copy.deepcopy / a pickle round trip; reads, mutators, attribute assignments and refused operations are then applied to the
    copy and to the original in the order the case prescribes. After every step the monitored calls run on the object just
    touched, on the other one, and on the first again (shuffled, with repeats); the post-condition monitors judge each call
    against the values of ITS object at call entry and the driver compares it with a fresh object of the same values."""
    fracs = [(float(f[0]), float(f[1])) for f in case['fracs']]
    measures = list(case.get('measures') or [])
    dt = float(case['dt'])
    CURRENT['fm'] = Forms() if case.get('scalar_forms') else None
    try:
        a = _build(eqsig, ctx, case)
    except Exception as e:
        ctx.exception('sigdur.arias.start/end==definition', {'case': case, 'where': 'AccSignal construction'}, e)
        return
    how = case['proto']
    try:
        b = _proto_copy(a, how)
    except Exception as e:
        ctx.observe('protocol %s raised %s (not judged)' % (how, type(e).__name__))
        return
    ctx.observe('protocol:%s' % ('pickle' if how.startswith('pickle') else how))
    objs = {'a': a, 'b': b}
    seed = int(case.get('order_seed', 0))
    for k, step in enumerate(case.get('steps') or []):
        tgt = step['obj']
        oth = 'b' if tgt == 'a' else 'a'
        for op in step.get('ops') or []:
            objs[tgt] = _apply_op(eqsig, ctx, objs[tgt], op)
        if how == 'copy':
            # a shallow copy shares the value buffer by definition: judged only once a rebinding operation separated the two
            try:
                shared = np.shares_memory(np.asarray(objs['a'].values), np.asarray(objs['b'].values))
            except Exception:
                shared = True
            if shared:
                ctx.observe('protocol copy: value buffer still shared (not judged)')
                continue
        clause = STEP_CLAUSE.get(step.get('kind'), 'rel.copy-protocol==fresh')
        for j, name in enumerate((tgt, oth, tgt)):
            _object_block(eqsig, ctx, case, objs[name], dt, fracs, measures, full=False, compare_fresh=True,
                          order_seed=seed + 7 * k + j, clause=clause,
                          label=' (%s, step %d on %s, object %s)' % (how, k, tgt, name))


def _run_case(eqsig, ctx, case):
    if case.get('kind') == 'protocol':
        _run_protocol(eqsig, ctx, case)
        return
    im = eqsig.im
    x = _layout(np.asarray(case['values']), case.get('layout'))     # ONE argument object reused by all array-level calls
    dt_arg = _dt_arg(float(case['dt']), case.get('dt_form'))     # ONE object for every array-level call (0-d arrays are mutable)
    dt = float(dt_arg)                                           # the caller's step is the reference (np.float32 rounds it)
    fm = CURRENT['fm'] = Forms() if case.get('scalar_forms') else None
    nform = 10 if fm is not None else 4
    fracs = [(float(f[0]), float(f[1])) for f in case['fracs']]
    k_scale = int(case.get('k_scale', 0))
    factor = case.get('factor')
    k_pad = int(case.get('k_pad', 0))
    measures = list(case.get('measures') or [])
    is_float = x.dtype.kind == 'f'
    form0 = int(case.get('form', 0))
    cont = case.get('container', 'array')
    if cont in ('list', 'intlist'):
        xc = x.tolist()
    elif cont == 'tuple':
        xc = tuple(x.tolist())
    elif cont == 'mixedlist':
        xc = [int(v) if float(v).is_integer() and i % 2 else float(v) for i, v in enumerate(x.tolist())]
    else:
        xc = x

    # ------------------------------------------------------------------------------------------ array level
    vals_pairs = {}
    if case.get('array_level', True) and not case.get('brac_only') and _clean(x) is not None:
        for j, (s, e) in enumerate(fracs):
            form = (j + form0) % nform
            if form >= 3 and x.dtype == np.float32:
                form = 0      # np.float64 fractions change numpy's promotion for float32 records (knife edges move)
            pair = _call(lambda: _call_vals(im, xc, dt_arg, s, e, True, form, fm))
            scal = _call(lambda: _call_vals(im, xc, dt_arg, s, e, False, form, fm))   # same argument forms: the two results are compared
            vals_pairs[(s, e)] = pair
            _se_relation(ctx, case, 'calc_sig_dur_vals(start=%r,end=%r)' % (s, e), pair, scal, dt)
            if (s, e) == (0.05, 0.95) and j % 2 == 0:
                _call(lambda: im.calc_significant_duration(xc, dt_arg))
            elif j % 2:
                _call(lambda: im.calc_significant_duration(xc, dt_arg, s, e))
            else:
                _call(lambda: im.calc_significant_duration(xc, dt_arg, start=s, end=e))
            if not _pair_ok(pair):
                continue
            # amplitude scaling by a power of two: bit-identical comparisons
            if k_scale and j < 2:
                y = x * (2.0 ** k_scale) if is_float else x * (2 ** abs(k_scale))
                if _clean(y) is not None and (not is_float or np.all((y != 0) == (x != 0))):
                    p2 = _call(lambda: im.calc_sig_dur_vals(y, dt_arg, start=s, end=e, se=True))
                    _rel(ctx, _same(pair, p2), 'rel.scale-pow2-invariant', case, 'calc_sig_dur_vals x 2^%d (start=%r,end=%r)' % (k_scale, s, e),
                         '%r vs %r' % (pair, p2))
            if factor and j < 2 and is_float and x.dtype == np.float64:
                if _near_knife(x, dt, s, e, 'squares'):
                    ctx.observe('rel.scale-any: base case within 1e-9 of a bound, not judged')
                else:
                    p3 = _call(lambda: im.calc_sig_dur_vals(x * factor, dt_arg, start=s, end=e, se=True))
                    _rel(ctx, _same(pair, p3), 'rel.scale-any-invariant', case, 'calc_sig_dur_vals x %r (start=%r,end=%r)' % (factor, s, e),
                         '%r vs %r' % (pair, p3))
            if k_pad and j < 2:
                y = np.concatenate([np.zeros(k_pad, dtype=x.dtype), x])
                p4 = _call(lambda: im.calc_sig_dur_vals(y, dt_arg, start=s, end=e, se=True))
                okk = _shifted(pair, p4, k_pad, dt)
                _rel(ctx, okk, 'rel.zero-prepend-shift', case, 'calc_sig_dur_vals, %d zeros prepended (start=%r,end=%r)' % (k_pad, s, e),
                     '%r -> %r, expected shift of %d samples (dt=%r)' % (pair, p4, k_pad, dt))
        _nested(ctx, case, 'calc_sig_dur_vals', fracs, vals_pairs)
        if case.get('repeat'):
            # f(A); f(B); f(A): B a permutation of A, another draw of the same shape or of another shape (item 25), at the
            # default and at non-default fractions, both se forms, the deprecated alias as well
            s, e = fracs[int(case.get('repeat_j', 0)) % len(fracs)]
            se_r = bool(case.get('repeat_se', True))
            for x2, cl in _others(case, x):
                _repeat_relation(ctx, case, 'calc_sig_dur_vals(start=%r,end=%r,se=%r)' % (s, e, se_r),
                                 lambda: im.calc_sig_dur_vals(xc, dt_arg, start=s, end=e, se=se_r),
                                 lambda: im.calc_sig_dur_vals(x2, dt_arg, start=s, end=e, se=se_r), cl)
                if cl == DRAW:
                    _repeat_relation(ctx, case, 'calc_significant_duration(start=%r,end=%r)' % (s, e),
                                     lambda: im.calc_significant_duration(xc, dt_arg, s, e),
                                     lambda: im.calc_significant_duration(x2, dt_arg, s, e), cl)

    # ------------------------------------------------------------------------------------------ object level
    if not case.get('object_level', True):
        return
    try:
        asig = _build(eqsig, ctx, case)
    except Exception as e:
        ctx.exception('sigdur.arias.start/end==definition', {'case': case, 'where': 'AccSignal construction'}, e)
        return
    has_history = bool(case.get('history')) or bool(case.get('rounds'))
    _object_block(eqsig, ctx, case, asig, dt, fracs, measures, full=True, compare_fresh=has_history)
    for r, ops in enumerate(case.get('rounds') or []):
        for op in ops:
            asig = _apply_op(eqsig, ctx, asig, op)
        _object_block(eqsig, ctx, case, asig, dt, fracs, measures, full=False, compare_fresh=True,
                      order_seed=int(case.get('order_seed', 0)) + r)


def _object_block(eqsig, ctx, case, asig, dt, fracs, measures, full, compare_fresh, order_seed=None, clause='rel.history==fresh',
                  label=''):
    """The monitored object-level calls on the object's CURRENT values (+ relations). full=False: the calls of a later
    round, in a shuffled order with repeats, each compared with a fresh object of the same values."""
    im = eqsig.im
    cur = np.array(asig.values)
    dt_obj = asig.dt     # derived objects get the SAME dt object: np.float64 vs float changes numpy's promotion for float32 records
    dt = float(asig.dt)  # the library may have derived this object with another time step
    if _clean(cur, 'brac') is None:
        ctx.observe('object: values after history not a finite series (not judged)')
        return
    obs_before = _observables(asig) if full and case.get('observe_obj') and len(cur) <= 1500 else None
    fresh = eqsig.AccSignal(np.array(cur), dt_obj) if compare_fresh else None
    ths = _thresholds(cur, case.get('thr_specs') or [])
    form0 = int(case.get('form', 0))
    fm = CURRENT['fm']
    nform = 10 if fm is not None else 4
    settings_before = _settings(asig)
    try:
        _object_calls(eqsig, ctx, case, asig, dt, dt_obj, cur, fresh, ths, form0, fm, nform, fracs, measures, full, order_seed,
                      clause, label, obs_before)
    finally:
        # reads must not change settings (item 31): the user-given periods / smoothing frequencies / step are what they were
        now = _settings(asig)
        bad = [k for k in settings_before if settings_before[k][0] != now[k][0]]
        _rel(ctx, not bad, 'purity.settings-unchanged', case, 'AccSignal settings after the duration functions' + label,
             'settings changed: %s' % ', '.join('%s %s -> %s' % (k, settings_before[k][1], now.get(k, (None, None))[1]) for k in bad))
        if not bad and case.get('settings'):
            ctx.ok('purity.settings-unchanged(user-given, outside the data band)')


SETTINGS = ['response_times', 'smooth_fa_freqs', 'dt', 'label']


def _settings(asig):
    """The user-given settings of the object as they are stored (dtype, shape, bytes; no copy of the object, no derived read)."""
    out = {}
    for k in SETTINGS:
        try:
            v = getattr(asig, k)
            a = np.asarray(v)
            out[k] = ((a.dtype.str, a.shape, a.tobytes()), repr(v)[:200])
        except Exception as e:
            out[k] = (('raised', type(e).__name__), 'raised %s' % type(e).__name__)
    return out


def _object_calls(eqsig, ctx, case, asig, dt, dt_obj, cur, fresh, ths, form0, fm, nform, fracs, measures, full, order_seed,
                  clause, label, obs_before):
    im = eqsig.im
    if not full:
        calls = []
        for (s, e) in ([] if case.get('brac_only') else fracs[:2]):
            for mname in [None] + measures[:1] + measures[-1:]:
                imf = MEASURES[mname] if mname else None
                for se in (True, False):
                    calls.append(('calc_sig_dur(im=%s,start=%r,end=%r,se=%s)' % (mname, s, e, se),
                                  lambda o, s=s, e=e, imf=imf, se=se: im.calc_sig_dur(o, start=s, end=e, im=imf, se=se)))
        for j, th in enumerate(ths[:5]):
            tha = _th_form(th, j + form0 + 5, fm) if fm is not None else th
            for se in (True, False):
                sef = _flag(se, j + form0) if fm is not None else se
                calls.append(('calc_brac_dur(threshold=%r,se=%s)' % (th, se), lambda o, th=tha, se=sef: im.calc_brac_dur(o, th, se=se)))
        calls.append(('calc_bracketed_duration(0)', lambda o: im.calc_bracketed_duration(o, 0)))
        rng = np.random.default_rng(order_seed or 0)
        order = list(rng.permutation(len(calls))) + list(rng.integers(0, len(calls), size=4))
        for k in order:
            what, f = calls[int(k)]
            r = _call(lambda: f(asig))
            rf = _call(lambda: f(fresh))
            _rel(ctx, _same(r, rf), clause, case, what + (label or ' (later round)'),
                 'object with history gave %r, fresh object of the same values %r' % (_show(r), _show(rf)))
        return

    cur_float = cur.dtype.kind == 'f'
    k_scale = int(case.get('k_scale', 0))
    k_pad = int(case.get('k_pad', 0))
    scaled = None
    if k_scale:
        ys = cur * (2.0 ** k_scale) if cur_float else cur * (2 ** abs(k_scale))
        if _clean(ys) is not None and (not cur_float or np.all((ys != 0) == (cur != 0))):
            scaled = eqsig.AccSignal(np.array(ys), dt_obj)
    padded = None
    if k_pad:
        padded = eqsig.AccSignal(np.concatenate([np.zeros(k_pad, dtype=cur.dtype), cur]), dt_obj)

    pairs0 = {}
    for mname in ([] if case.get('brac_only') else [None] + measures):
        imf = MEASURES[mname] if mname else None
        pairs = pairs0 if mname is None else {}
        for j, (s, e) in enumerate(fracs):
            if mname and j >= 2:
                break
            form = (j + 1 + form0 + (3 if mname else 0)) % nform
            if form >= 3 and cur.dtype == np.float32:
                form = 0
            pair = _call(lambda: _call_sig(im, asig, s, e, imf, True, form, fm))
            scal = _call(lambda: _call_sig(im, asig, s, e, imf, False, form, fm))
            pairs[(s, e)] = pair
            what = 'calc_sig_dur(im=%s,start=%r,end=%r)' % (mname, s, e)
            _se_relation(ctx, case, what, pair, scal, dt)
            if fresh is not None:
                pf = _call(lambda: im.calc_sig_dur(fresh, start=s, end=e, im=imf, se=True))
                sf = _call(lambda: im.calc_sig_dur(fresh, start=s, end=e, im=imf))
                _rel(ctx, _same(pair, pf) and _same(scal, sf), clause, case, what,
                     'object with history gave %r / %r, fresh object of the same values %r / %r'
                     % (_show(pair), _show(scal), _show(pf), _show(sf)))
            if not _pair_ok(pair):
                continue
            if scaled is not None and j < 2 and mname in (None, 'cumabs'):
                p2 = _call(lambda: im.calc_sig_dur(scaled, start=s, end=e, im=imf, se=True))
                _rel(ctx, _same(pair, p2), 'rel.scale-pow2-invariant', case, what + ' x 2^%d' % k_scale, '%r vs %r' % (pair, _show(p2)))
            if padded is not None and j < 2 and mname in (None, 'cumabs'):
                if mname is None and cur[0] != 0:
                    ctx.observe('rel.zero-prepend: Arias with non-zero first sample (half trapezoid added), not judged')
                else:
                    p4 = _call(lambda: im.calc_sig_dur(padded, start=s, end=e, im=imf, se=True))
                    okk = _shifted(pair, p4, k_pad, dt)
                    _rel(ctx, okk, 'rel.zero-prepend-shift', case, what + ', %d zeros prepended' % k_pad,
                         '%r -> %r, expected shift of %d samples (dt=%r)' % (pair, _show(p4), k_pad, dt))
        _nested(ctx, case, 'calc_sig_dur(im=%s)' % mname, fracs, pairs)

    # ------------------------------------------------------------------------------------------ bracketed
    results = []
    for j, th in enumerate(ths):
        tha = _th_form(th, j + form0, fm)
        yes, no = (_flag(True, j + form0), _flag(False, j + form0 + 1)) if fm is not None else (True, False)
        if j % 2:
            pair = _call(lambda: im.calc_brac_dur(asig, tha, yes))
            scal = _call(lambda: im.calc_brac_dur(asig, threshold=tha))
        else:
            pair = _call(lambda: im.calc_brac_dur(asig, threshold=tha, se=yes))
            scal = _call(lambda: im.calc_brac_dur(asig, tha, se=no) if j % 4 else im.calc_brac_dur(asig, tha))
        what = 'calc_brac_dur(threshold=%r)' % th
        _se_relation(ctx, case, what, pair, scal, dt)
        if j % 3 == 0:
            _call(lambda: im.calc_bracketed_duration(asig, tha) if j % 2 else im.calc_bracketed_duration(asig, threshold=tha))
        results.append((th, pair, scal))
        if fresh is not None:
            pf = _call(lambda: im.calc_brac_dur(fresh, th, se=True))
            sf = _call(lambda: im.calc_brac_dur(fresh, th))
            _rel(ctx, _same(pair, pf) and _same(scal, sf), clause, case, what,
                 'object with history gave %r / %r, fresh object of the same values %r / %r'
                 % (_show(pair), _show(scal), _show(pf), _show(sf)))
        if scaled is not None and cur_float and cur.dtype == np.float64:
            p2 = _call(lambda: im.calc_brac_dur(scaled, th * 2.0 ** k_scale, se=True))
            s2 = _call(lambda: im.calc_brac_dur(scaled, th * 2.0 ** k_scale))
            _rel(ctx, _same(pair, p2) and _same(scal, s2), 'rel.brac-joint-scale-invariant', case, what + ' x 2^%d' % k_scale,
                 '%r / %r vs %r / %r' % (_show(pair), _show(scal), _show(p2), _show(s2)))
    # non-increasing in the threshold
    good = sorted([r for r in results if r[1] is not _FAIL and r[2] is not _FAIL and _is_pair(r[1])], key=lambda r: r[0])
    for (t1, p1, s1), (t2, p2, s2) in zip(good, good[1:]):
        if p1[0] is None:
            okk = p2[0] is None and _scalar(s2) == 0
        elif p2[0] is None:
            okk = _scalar(s2) == 0
        elif _pair_ok(p1) and _pair_ok(p2) and _scalar(s1) is not None and _scalar(s2) is not None:
            okk = float(p1[0]) <= float(p2[0]) and float(p2[1]) <= float(p1[1]) and float(s2) <= float(s1)
        else:
            okk = False
        _rel(ctx, okk, 'rel.brac-monotone-threshold', case, 'thresholds %r < %r' % (t1, t2),
             '%r / %r then %r / %r' % (p1, s1, p2, s2))
    # several analysis calls went through ONE object: the first ones re-called afterwards give the same answers
    if len(ths) > 1:
        s, e = fracs[0]
        first = pairs0.get((s, e))
        if first is not None:
            again = _call(lambda: im.calc_sig_dur(asig, start=s, end=e, se=True))
            _rel(ctx, _same(first, again), 'rel.same-object-recall', case, 'calc_sig_dur(start=%r,end=%r)' % (s, e),
                 'first call %r, re-called after the other analysis calls %r' % (_show(first), _show(again)))
        th0, p0, _ = results[1]
        again = _call(lambda: im.calc_brac_dur(asig, _th_form(th0, 1 + form0, fm), se=True))
        _rel(ctx, _same(p0, again), 'rel.same-object-recall', case, 'calc_brac_dur(threshold=%r)' % th0,
             'first call %r, re-called after the other analysis calls %r' % (_show(p0), _show(again)))
    # the object keeps every public observable (read on deep copies taken before / after the analysis calls)
    if obs_before is not None:
        obs_after = _observables(asig)
        bad = [k for k in obs_before if obs_before[k] != obs_after.get(k)]
        _rel(ctx, not bad, 'purity.object-observables-unchanged', case, 'AccSignal after the duration functions',
             'public observables changed: %s' % bad)
    # process-wide state: another object of the same shape in between, first result re-checked afterwards
    if case.get('repeat') and len(ths) > 1:
        s, e = fracs[int(case.get('repeat_j', 0)) % len(fracs)]
        se_r = bool(case.get('repeat_se', True))
        th = ths[(1 + int(case.get('repeat_j', 0))) % len(ths)]
        for rec2, cl in _others(case, cur):
            other = eqsig.AccSignal(rec2, dt_obj)
            if not case.get('brac_only'):
                _repeat_relation(ctx, case, 'calc_sig_dur(start=%r,end=%r,se=%r)' % (s, e, se_r),
                                 lambda: im.calc_sig_dur(asig, start=s, end=e, se=se_r),
                                 lambda: im.calc_sig_dur(other, start=s, end=e, se=se_r), cl)
                if cl == DRAW and measures:
                    imf = MEASURES[measures[0]]
                    _repeat_relation(ctx, case, 'calc_sig_dur(im=%s,start=%r,end=%r,se=%r)' % (measures[0], s, e, se_r),
                                     lambda: im.calc_sig_dur(asig, start=s, end=e, im=imf, se=se_r),
                                     lambda: im.calc_sig_dur(other, start=s, end=e, im=imf, se=se_r), cl)
            _repeat_relation(ctx, case, 'calc_brac_dur(threshold=%r,se=%r)' % (th, se_r),
                             lambda: im.calc_brac_dur(asig, th, se=se_r), lambda: im.calc_brac_dur(other, th, se=se_r), cl)
            if cl == DRAW:
                _repeat_relation(ctx, case, 'calc_bracketed_duration(threshold=%r)' % th,
                                 lambda: im.calc_bracketed_duration(asig, th), lambda: im.calc_bracketed_duration(other, th), cl)


def _show(r):
    return 'raised' if r is _FAIL else r


OBSERVABLES = ['values', 'dt', 'npts', 'label', 'time', 'velocity', 'displacement', 'pga', 'pgv', 'pgd', 'fa_spectrum',
               'fa_frequencies', 'response_times', 'smooth_fa_frequencies']


def _observables(asig):
    """Digest of every cheap public observable, read on a DEEP COPY (reading fills caches; the object itself is left alone)."""
    import copy
    c = copy.deepcopy(asig)
    out = {}
    with attach.paused():
        for k in OBSERVABLES:
            try:
                v = getattr(c, k)
                out[k] = core.digest(np.asarray(v)) if not isinstance(v, str) else v
            except Exception as e:
                out[k] = 'raised %s' % type(e).__name__
    return out


def _nested(ctx, case, what, fracs, pairs):
    """Widening the fraction interval never shortens the duration (and never moves start later / end earlier)."""
    for (a, b) in itertools.combinations(fracs, 2):
        for outer, inner in ((a, b), (b, a)):
            if outer == inner or not (outer[0] <= inner[0] and inner[1] <= outer[1]):
                continue
            po, pi = pairs.get(outer), pairs.get(inner)
            if not _pair_ok(pi) or po is None:
                continue
            okk = _pair_ok(po) and float(po[0]) <= float(pi[0]) and float(pi[1]) <= float(po[1]) \
                and (float(pi[1]) - float(pi[0])) <= (float(po[1]) - float(po[0]))
            _rel(ctx, okk, 'rel.nested-fractions', case, '%s %r inside %r' % (what, inner, outer),
                 'inner %r, outer %r' % (pi, _show(po)))


# ------------------------------------------------------------------------------------------------ generators
STD_FRACS = [(0.05, 0.95), (0.05, 0.75)]
POW2 = [1.0 / 16, 1.0 / 8, 1.0 / 4, 1.0 / 2]
POW2_DT = [1.0, 0.5, 0.25, 0.125, 1.0 / 64, 1.0 / 128, 1.0 / 1024]
N_CHOICES = [2, 3, 4, 5, 6, 8, 12, 16, 17, 25, 33, 50, 64, 100, 200, 257, 500, 1000, 2000, 3000]
N_P = np.array([3, 3, 3, 3, 3, 4, 4, 5, 5, 5, 6, 7, 7, 8, 8, 7, 7, 5, 3, 2], dtype=float)
N_P /= N_P.sum()
N_EDGE = [1, 1, 2, 2, 3, 3, 4, 7, 8, 9, 15, 16, 17, 31, 32, 33, 63, 64, 65, 127, 128, 129, 255, 256, 257, 511, 512, 513,
          1023, 1024, 1025, 2047, 2048, 2049, 4095, 4096, 4097]
NARROW = {'i8': np.int8, 'i16': np.int16, 'i32': np.int32, 'u8': np.uint8, 'u16': np.uint16}


def gen_fracs(rng, exact_bias):
    """3-5 pairs: a standard one, a nested (outer, inner) couple from the dyadic, power-of-two or uniform pool, sometimes a
    boundary pair (start = 0 and/or end = 1 exactly)."""
    out = [STD_FRACS[int(rng.integers(2))]]
    r = rng.random()
    if r < (0.55 if exact_bias else 0.3):
        k = np.sort(rng.choice(np.arange(1, 16), size=4, replace=False))
        q = [float(v) / 16.0 for v in k]
    elif r < (0.85 if exact_bias else 0.4):
        q = None
        out.append((POW2[0], POW2[3]) if rng.random() < 0.5 else (POW2[1], POW2[3]))
        out.append((POW2[1], POW2[2]) if out[-1][0] == POW2[0] else (POW2[2], POW2[3]))
    else:
        q = np.sort(rng.uniform(0.01, 0.99, size=4)).tolist()
        if q[2] - q[1] < 0.01:
            q[2] = min(0.995, q[1] + 0.01)
            q[3] = max(q[3], q[2] + 0.001)
    if q is not None:
        out.append((q[0], q[3]))
        out.append((q[1], q[2]))
    if rng.random() < 0.25:
        out.append(STD_FRACS[1] if out[0] == STD_FRACS[0] else STD_FRACS[0])
    if rng.random() < 0.2:
        out.append([(0.0, out[1][1]), (out[1][0], 1.0), (0.0, 1.0), (0.0, 0.5)][int(rng.integers(4))])
    return [(float(a), float(b)) for a, b in out]


S_EDGE = [1e-12, 1e-9, 1e-6, 1e-4, 1e-3, 2.0 ** -30, 2.0 ** -10]
E_EDGE = [1 - 1e-12, 1 - 1e-9, 1 - 1e-6, 1 - 1e-4, 1 - 1e-3, 1 - 2.0 ** -53, 1 - 2.0 ** -30, 1 - 2.0 ** -10]


def gen_edge_fracs(rng, x, fracs):
    """Fraction pairs at the edges of 0 < start < end < 1 (checklist item 26): within 1e-3 .. 1e-12 of 0 and of 1, narrow
    bands, and pairs placed within 1e-3 .. 1e-9 (relative) of the normalised cumulative squares of two samples of this record
    (either side: a sample just inside / just outside a bound)."""
    out = []
    r = rng.random()
    s_e = float(S_EDGE[int(rng.integers(len(S_EDGE)))])
    e_e = float(E_EDGE[int(rng.integers(len(E_EDGE)))])
    if r < 0.3:
        out.append((s_e, e_e))
    elif r < 0.45:
        out.append((s_e, fracs[-1][1]))
    elif r < 0.6:
        out.append((fracs[-1][0], e_e))
    elif r < 0.7:
        c = float(rng.uniform(0.05, 0.9))
        out.append((c, c * (1 + 1e-3)) if rng.random() < 0.5 else (c, c + 1e-6))
    else:
        xf = np.asarray(x, dtype=float)
        cum = np.cumsum(xf * xf)
        if np.isfinite(cum[-1]) and cum[-1] > 0:
            q = cum / cum[-1]
            idx = np.flatnonzero((q > 1e-12) & (q < 1 - 1e-9))
            if len(idx) >= 2:
                k1, k2 = np.sort(rng.choice(idx, size=2, replace=False))
                d1 = float(rng.choice([-1.0, 1.0]) * 10.0 ** rng.uniform(-9, -3))
                d2 = float(rng.choice([-1.0, 1.0]) * 10.0 ** rng.uniform(-9, -3))
                a, b = float(q[k1] * (1 + d1)), float(q[k2] * (1 + d2))
                if 0 < a < b < 1:
                    out.append((a, b))
    return [(float(a), float(b)) for a, b in out if 0 < a < b < 1]


def gen_thr_specs(rng):
    specs = [('zero',), ('between', 0), ('rank', 0), ('rank', 1)]
    specs.append(('rank', int(rng.integers(2, 12))))
    specs.append(('between', int(rng.integers(1, 8))))
    specs.append(('frac', float(rng.uniform(0.01, 0.99))))
    if rng.random() < 0.3:
        specs.append(('above',))
    if rng.random() < 0.3:
        specs.append(('abs', float(abs(rng.normal()))))
    if rng.random() < 0.35:      # edges of the admissible range (item 26): next to the peak / to a sample, next to zero
        specs.append(('below', int(rng.integers(0, 4))))
        specs.append(('rel', int(rng.integers(0, 4)), float(rng.choice([-1.0, 1.0]) * 10.0 ** rng.uniform(-12, -3))))
        if rng.random() < 0.5:
            specs.append(('abs', float(rng.choice([5e-324, 1e-300, 2.2250738585072014e-308]))))
    return [list(s) for s in specs]


def gen_tie_record(rng):
    """Records on which cumulative squares / the Arias trapezoid hit dyadic fractions of the total exactly."""
    k = int(rng.integers(0, 4))
    if k == 0:      # constant magnitude: squares tie for n = 16m, Arias for n = 16m + 1
        m = int(rng.integers(1, 13))
        n = 16 * m + int(rng.integers(0, 2))
        c = float(rng.choice([1.0, 2.0, 3.0, 0.5, 0.375, 8.0]))
        sign = rng.choice([-1.0, 1.0], size=n) if rng.random() < 0.6 else np.ones(n)
        return c * sign, 'tie-const'
    if k == 1:      # {-1,0,1}, zero at both ends, multiple of 16 non-zero samples: both measures can tie
        n = int(rng.integers(20, 400))
        x = rng.choice([-1.0, 0.0, 1.0], size=n, p=[0.35, 0.3, 0.35])
        x[0] = 0.0
        nz = int(np.count_nonzero(x))
        extra = (-nz) % 16
        x = np.concatenate([x, rng.choice([-1.0, 1.0], size=extra), [0.0]])
        if np.count_nonzero(x) == 0:
            x[1:17] = 1.0
        return x * float(rng.choice([1.0, 2.0, 0.25])), 'tie-unit-steps'
    if k == 2:      # small integers topped up to a total that is a multiple of 16
        n = int(rng.integers(4, 200))
        x = rng.integers(-2, 3, size=n).astype(float)
        tot = int(np.sum(x * x))
        x = np.concatenate([x, np.ones((-tot) % 16)])
        if not np.any(x):
            x = np.ones(16)
        return x, 'tie-smallint'
    n = int(rng.integers(2, 40))      # very short integer records
    x = rng.integers(-3, 4, size=n).astype(float)
    if not np.any(x):
        x[int(rng.integers(n))] = 1.0
    return x, 'tie-short-int'


def _gen_reads(rng, ops, k, small):
    for _ in range(k):
        r = rng.random()
        if r < 0.38:
            w = ['velocity', 'displacement', 'pga', 'pgv', 'pgd', 'fa_spectrum', 'time', 'npts'][int(rng.integers(8))]
            ops.append({'op': 'read', 'what': w})
        elif r < 0.45:
            ops.append({'op': 'read', 'what': 'smooth_fa_spectrum' if rng.random() < 0.5 else 's_a'})
        elif r < 0.55:
            ops.append({'op': 'regen', 'what': ['fa', 'smooth', 'resp', 'dv'][int(rng.integers(4))], 'p2_plus': int(rng.integers(1, 3)),
                        'band': int(rng.choice([10, 20, 80])), 'xi': float(rng.choice([0.0, 0.02, 0.1, 0.2]))})
        elif r < 0.68:
            ops.append({'op': 'gen_duration_stats'})
        elif r < 0.78:
            ops.append({'op': 'gen_cumulative_stats'})
        elif r < 0.87:
            ops.append({'op': 'gen_all_motion_stats'})
        else:
            ops.append({'op': 'calc', 'threshold': float(abs(rng.normal()) * (0.02 if small else 1.0))})


ASSIGNABLE = ['values', 'values', 'values', 'values', 'dt', 'npts', 'time', 'label', 'response_times', 'smooth_fa_freqs',
              'smooth_fa_frequencies', 'smooth_freq_range', 'smooth_freq_points']
REJECTS = ['add_series_short', 'add_series_long', 'add_series_list_long', 'add_signal_dt', 'add_signal_len', 'add_signal_type',
           'butter_above_nyquist', 'butter_reversed', 'reset_ragged', 'remove_poly_negative', 'bad_timezone']


def _gen_assign(rng, n, dt, amp):
    """setattr through a public name after construction, in every container form the constructor accepts; 1, 2, 3 entries (a
    2-tuple can be mistaken for a range), the current length, longer, shorter."""
    what = ASSIGNABLE[int(rng.integers(len(ASSIGNABLE)))]
    form = ['list', 'tuple', 'array'][int(rng.integers(3))]
    if what == 'values':
        m = int(rng.choice([1, 2, 3, n, n + 1, n + 7, 2 * n + 1, max(1, n - 3)]))
        if rng.random() < 0.2:
            return {'op': 'assign', 'what': what, 'value': np.round(rng.normal(size=m) * 3), 'form': 'intlist'}
        return {'op': 'assign', 'what': what, 'value': rng.normal(size=m) * amp, 'form': form}
    if what == 'dt':
        return {'op': 'assign', 'what': what, 'value': float(dt) * float(rng.choice([2.0, 0.5, 1.0])), 'form': 'scalar'}
    if what == 'npts':
        return {'op': 'assign', 'what': what, 'value': int(n + rng.integers(-3, 6)), 'form': 'scalar'}
    if what == 'time':
        return {'op': 'assign', 'what': what, 'value': np.arange(n + 2) * float(dt), 'form': 'array'}
    if what == 'label':
        return {'op': 'assign', 'what': what, 'value': 'renamed', 'form': 'scalar'}
    if what == 'response_times':
        return {'op': 'assign', 'what': what, 'value': np.sort(rng.uniform(0.1, 2.0, size=int(rng.integers(1, 4)))), 'form': form,
                'then_read': 's_a' if n <= 400 else None}
    if what in ('smooth_fa_freqs', 'smooth_fa_frequencies'):
        return {'op': 'assign', 'what': what, 'value': np.sort(rng.uniform(0.5, 10.0, size=int(rng.integers(1, 4)))), 'form': form,
                'then_read': 'smooth_fa_spectrum' if n <= 1000 else None}
    if what == 'smooth_freq_range':
        return {'op': 'assign', 'what': what, 'value': np.array([0.2, 15.0]), 'form': ['list', 'tuple'][int(rng.integers(2))]}
    return {'op': 'assign', 'what': what, 'value': int(rng.choice([2, 30])), 'form': 'scalar'}


def _gen_reject(rng):
    return {'op': 'reject', 'how': REJECTS[int(rng.integers(len(REJECTS)))], 'k': int(rng.integers(1, 9))}


def _gen_nonfinite(rng, ops, n, amp):
    """reset_values with a record that contains nan / inf samples (same, shorter or longer than the current one)."""
    n = max(2, int(n * float(rng.choice([1.0, 1.0, 0.6, 1.7]))))
    y = rng.normal(size=n) * amp
    for _ in range(int(rng.integers(1, 4))):
        y[int(rng.integers(n))] = float(rng.choice([np.nan, np.inf, -np.inf]))
    ops.append({'op': 'reset_values', 'values': y})
    return n


def _gen_mutation(rng, ops, n, dt, small, keep_length, only=None):
    """One public mutator. n: current length of the object (tracked by the generator); returns the new length."""
    amp = 0.03 if small else 1.0
    r = int(rng.integers(0, 21)) if only is None else int(only[int(rng.integers(len(only)))])
    if keep_length and r in (1, 2):
        r = 0
    if r == 17:      # assignment through a public attribute name (item 23)
        ops.append(_gen_assign(rng, n, dt, amp))
        return n
    if r == 18:      # an operation the clean code refuses (item 24)
        ops.append(_gen_reject(rng))
        return n
    if r in (19, 20):    # non-finite record accepted silently, then cleaned in place by the caller (item 24) / silent record
        if r == 20 and rng.random() < 0.5:
            ops.append({'op': 'reset_values', 'values': np.zeros(n)})
            n2 = max(2, int(n * rng.uniform(0.5, 1.5)))
            ops.append({'op': 'reset_values', 'values': gen.record(rng, n2, allow_const=False)[0] * amp})
            return n2
        n = _gen_nonfinite(rng, ops, n, amp)
        ops.append({'op': 'repair_inplace', 'fill': float(rng.choice([0.0, 1.5 * amp, -amp]))})
        return n
    if r == 0:
        ops.append({'op': 'reset_values', 'values': gen.record(rng, n, allow_const=False)[0] * amp,
                    'layout': [None, 'stride', 'reversed', 'readonly'][int(rng.integers(4))]})
    elif r == 1:
        n = max(2, int(n * rng.uniform(0.3, 0.9)))
        ops.append({'op': 'reset_values', 'values': rng.normal(size=n) * amp})
    elif r == 2:
        n = int(n * rng.uniform(1.1, 2.0)) + 1
        ops.append({'op': 'reset_values', 'values': np.round(rng.normal(size=n) * 3) * (0.015625 if small else 1.0)})
    elif r == 3:
        ops.append({'op': 'add_constant', 'c': float(rng.choice([1.0, -0.5, 0.01, 3.0])) * amp})
    elif r == 4:
        ops.append({'op': 'add_series', 'values': rng.normal(size=n) * amp})
    elif r == 5:
        ops.append({'op': 'add_signal', 'values': np.sin(np.arange(n) * rng.uniform(0.05, 1.0)) * amp})
    elif r == 6:
        nyq = 0.5 / dt
        ops.append({'op': 'butter_pass', 'cut_off': [float(rng.uniform(0.02, 0.1) * nyq), float(rng.uniform(0.3, 0.8) * nyq)]})
    elif r == 7:
        ops.append({'op': 'remove_average'})
    elif r == 8:
        ops.append({'op': 'remove_poly', 'k': int(rng.integers(0, 3))})
    elif r == 9:
        ops.append({'op': 'running_average', 'width': int(rng.integers(2, 6))})
    elif r in (10, 11, 12, 13):
        ops.append({'op': ['rebase_displacement', 'set_zero_residual_velocity', 'set_zero_residual_displacement',
                           'set_zero_residual_displacement_and_velocity'][r - 10]})
    elif r == 14:
        ops.append({'op': 'remove_rolling_average'})
    elif r == 15:
        ops.append({'op': 'inplace_edit', 'index': int(rng.integers(0, n)), 'factor': float(rng.choice([-2.0, 0.0, 3.5, 10.0]))})
    else:
        ops.append({'op': 'twin'})
    return n


def _gen_derive(rng, ops, n, small):
    """The library derives a new object from the (analysed) current one; returns the new length where it is predictable."""
    how = ['deepcopy', 'interp', 'resample', 'combine', 'cluster', 'fas'][int(rng.integers(6))]
    op = {'op': 'derive', 'how': how}
    if how in ('interp', 'resample'):
        op['factor'] = float(rng.choice([0.5, 0.4, 2.0, 3.0, 0.25]))
        n = None
    elif how in ('combine', 'cluster'):
        op['values'] = rng.normal(size=min(n or 64, 64)) * (0.03 if small else 1.0)
        op['angle'] = float(rng.choice([0.0, 30.0, 90.0, 137.5]))
        op['index'] = int(rng.integers(2))
    elif how == 'fas':
        n = None
    ops.append(op)
    return n


def gen_history(rng, n, dt, small):
    """(history ops before the first block of monitored calls, later rounds of ops each followed by another block)."""
    ops = []
    _gen_reads(rng, ops, int(rng.integers(1, 4)), small)
    n = _gen_mutation(rng, ops, n, dt, small, False)
    if rng.random() < 0.5:
        _gen_reads(rng, ops, int(rng.integers(1, 3)), small)
        n = _gen_mutation(rng, ops, n, dt, small, False)
    if rng.random() < 0.3:
        _gen_reads(rng, ops, 1, small)
    if rng.random() < 0.3:
        _gen_reads(rng, ops, 1, small)            # make sure the source is warm
        n = _gen_derive(rng, ops, n, small)
    rounds = []
    for _ in range(int(rng.choice([0, 1, 2], p=[0.4, 0.4, 0.2]))):
        rops = []
        if rng.random() < 0.6:
            _gen_reads(rng, rops, 1, small)
        if n is None or rng.random() < 0.3:
            n = _gen_derive(rng, rops, n, small)
        else:
            n = _gen_mutation(rng, rops, n, dt, small, False)
        if rng.random() < 0.3:
            _gen_reads(rng, rops, 1, small)
        rounds.append(rops)
    return ops, rounds


WARM_READS = ['fa_spectrum', 'smooth_fa_spectrum', 'velocity', 'displacement', 'pga', 'pgv', 'pgd', 's_a', 'swtf']


def _gen_warm(rng, ops, small):
    """One kind of read that fills a cache of the object (spectra, smoothed spectra, velocity / displacement, peaks, response
    spectra, Stockwell), a deprecated generate_* call or the duration functions themselves."""
    r = rng.random()
    if r < 0.6:
        ops.append({'op': 'read', 'what': WARM_READS[int(rng.integers(len(WARM_READS)))]})
    elif r < 0.7:
        ops.append({'op': 'gen_cumulative_stats'})
    elif r < 0.8:
        ops.append({'op': 'gen_duration_stats'})
    else:
        ops.append({'op': 'calc', 'threshold': float(abs(rng.normal()) * (0.02 if small else 1.0))})


def gen_protocol_case(rng):
    """Checklist items 22-24 (see _run_protocol)."""
    n = int(rng.choice([8, 16, 33, 64, 100, 200, 257, 400])) if rng.random() < 0.6 else int(rng.integers(8, 401))
    x, cls = gen.record(rng, n, allow_const=False)
    small = rng.random() < 0.45
    amp = 0.03 if small else 1.0
    if small:
        x = x / (np.max(np.abs(x)) or 1.0) * 0.09 * float(rng.uniform(0.2, 1.0))
    dt = gen.dt(rng)
    how = ['copy', 'deepcopy', 'pickle0', 'pickle2', 'pickle4', 'pickle5', 'copy', 'deepcopy', 'pickle3', 'pickle1'][int(rng.integers(10))]
    history = []
    if rng.random() < 0.25:      # the original is a Cluster member
        history.append({'op': 'derive', 'how': 'cluster', 'values': rng.normal(size=min(n, 64)) * amp, 'angle': 0.0, 'index': int(rng.integers(2))})
    for _ in range(int(rng.choice([0, 1, 2, 3], p=[0.2, 0.4, 0.25, 0.15]))):     # cache state at the moment of the copy
        _gen_warm(rng, history, small)
    rebind = [0, 1, 2, 3, 4]         # operations that rebind the values (all a shallow copy admits)
    steps = []
    length = {'a': n, 'b': n}
    first = ['a', 'b'][int(rng.integers(2))]
    for k in range(int(rng.integers(2, 5))):
        obj = first if k == 0 else ['a', 'b'][int(rng.integers(2))]
        ops = []
        kind = ['mutate', 'mutate', 'reads', 'assign', 'refuse', 'calc'][int(rng.integers(6))]
        if how == 'copy' and k == 0:
            kind = 'mutate'
        if kind == 'mutate':
            if rng.random() < 0.4:
                _gen_warm(rng, ops, small)
            length[obj] = _gen_mutation(rng, ops, length[obj], dt, small, False,
                                        only=rebind if how == 'copy' else list(range(17)))
            if rng.random() < 0.3:
                _gen_warm(rng, ops, small)
        elif kind == 'reads':
            for _ in range(int(rng.integers(1, 3))):
                _gen_warm(rng, ops, small)
        elif kind == 'assign':
            if rng.random() < 0.3:
                _gen_warm(rng, ops, small)
            ops.append(_gen_assign(rng, length[obj], dt, amp))
        elif kind == 'refuse':
            if rng.random() < 0.55:
                ops.append(_gen_reject(rng))
            else:
                length[obj] = _gen_nonfinite(rng, ops, length[obj], amp)
                if rng.random() < 0.75:
                    ops.append({'op': 'repair_inplace', 'fill': float(rng.choice([0.0, 1.5 * amp, -amp]))})
        else:
            _gen_warm(rng, ops, small)
            ops.append({'op': 'calc', 'threshold': float(abs(rng.normal()) * amp)})
        steps.append({'obj': obj, 'kind': kind, 'ops': ops})
    t1 = float(abs(rng.normal()) * amp)
    case = {'kind': 'protocol', 'cls': how if not how.startswith('pickle') else 'pickle', 'proto': how, 'form': int(rng.integers(4)),
            'layout': [None, None, 'readonly', 'stride'][int(rng.integers(4))],
            'dt_form': ['float', 'np', '0d', 'f32', 'float', 'np'][int(rng.integers(6))], 'scalar_forms': bool(rng.random() < 0.4),
            'container': ['array', 'array', 'list', 'tuple'][int(rng.integers(4))], 'repeat': False,
            'fracs': [STD_FRACS[0]] + gen_fracs(rng, cls in ('plateau', 'intnoise', 'alt', 'step', 'impulse'))[:2],
            'measures': [['cumabs'], ['cav'], ['isq_dt'], ['held']][int(rng.integers(4))] + [NON_MONOTONE[int(rng.integers(4))]],
            'k_scale': 0, 'factor': None, 'k_pad': 0,
            'thr_specs': [['zero'], ['abs', t1], ['abs', float(abs(rng.normal()) * amp * 0.3)], ['rank', 0], ['between', 0]],
            'history': history, 'steps': steps, 'order_seed': int(rng.integers(1 << 30)), 'dt': float(dt), 'values': x}
    for op in history + [o for st in steps for o in st['ops']]:
        if op['op'] == 'calc':
            op['fracs'] = case['fracs'][:2]
            op['measures'] = case['measures'][:1]
            op['thresholds'] = [0.0, t1]
            op.pop('threshold', None)
    return case


def gen_shape(rng, n):
    """Record shapes the statement does not forbid (checklist item 11)."""
    k = int(rng.integers(0, 11))
    t = np.arange(n, dtype=float)
    if k == 0:      # cut from the strong part of a longer record: both ends large
        x = rng.normal(size=n) + np.where(t % 2 == 0, 1.0, -1.0) * 0.5
        x[0] = 3.0 * float(rng.choice([-1.0, 1.0]))
        x[-1] = 2.5 * float(rng.choice([-1.0, 1.0]))
    elif k == 1:    # monotone ramp / trend dominated
        x = (t + 1.0) * float(rng.choice([1.0, -1.0, 0.25])) + (rng.normal(size=n) * 0.1 if rng.random() < 0.5 else 0.0)
    elif k == 2:    # one-sided: all the action at negative values
        x = -np.abs(rng.normal(size=n)) - (1.0 if rng.random() < 0.5 else 0.0)
    elif k == 3:    # exact zeros inside
        x = rng.normal(size=n)
        x[rng.random(n) < 0.3] = 0.0
        a = int(rng.integers(0, max(1, n // 2)))
        x[a:a + max(1, n // 5)] = 0.0
        if not np.any(x):
            x[n // 2] = 1.0
    elif k == 4:    # energy exactly at the Nyquist frequency on top of a slow component
        x = np.where(t % 2 == 0, 1.0, -1.0) * float(rng.uniform(0.5, 2.0)) + np.sin(t * rng.uniform(0.01, 0.3)) * float(rng.uniform(0.0, 1.0))
    elif k == 5:    # constant magnitude, alternating sign in blocks (square wave)
        w = int(rng.integers(1, 6))
        x = np.where((t // w) % 2 == 0, 1.0, -1.0) * float(rng.choice([1.0, 0.5, 3.0]))
    elif k == 6:    # tail-heavy: all the action in the last 1/k of the record
        x = np.zeros(n) if rng.random() < 0.5 else rng.normal(size=n) * 1e-4
        m = max(1, n // int(rng.integers(3, 20)))
        x[-m:] = rng.normal(size=m) + 0.1
    elif k == 7:    # a single non-zero step
        x = np.zeros(n)
        x[int(rng.integers(0, n)):] = float(rng.choice([-1.0, 1.0, 0.125]))
    elif k == 8:    # a single changed sample in a constant record
        x = np.full(n, float(rng.choice([1.0, -2.0, 0.5])))
        x[int(rng.integers(0, n))] *= float(rng.choice([2.0, -1.0, 0.0, 1.0 + 2.0 ** -20]))
    elif k == 9:    # dynamic range inside one record: one sample 1e3 .. 1e12 times larger than the others
        x = rng.normal(size=n) * float(10.0 ** rng.uniform(-3, 0))
        x[[0, n // 2, n - 1, int(rng.integers(0, n))][int(rng.integers(4))]] = float(rng.choice([-1.0, 1.0])) * 10.0 ** rng.uniform(3, 9)
    else:           # two spikes of very different size at the ends, quiet in between
        x = rng.normal(size=n) * 1e-6
        x[0] = 10.0 ** rng.uniform(0, 6)
        x[-1] = -10.0 ** rng.uniform(0, 6)
    return np.asarray(x, dtype=float), ['both-ends-large', 'ramp', 'one-sided-negative', 'zeros-inside', 'nyquist', 'square', 'tail-heavy',
                                        'single-step', 'single-changed-sample', 'spike-dynamic-range', 'end-spikes'][k]


def _edge_modifier(rng, x):
    """Plateaus at the ends, the extreme at the first / last sample, a sign change right before the end, zero ends."""
    x = np.array(x, dtype=float)
    n = len(x)
    m = float(np.max(np.abs(x))) or 1.0
    k = int(rng.integers(0, 8))
    w = max(1, min(n // 4, int(rng.integers(1, 6))))
    if k == 0:
        x[0] = m * 1.5 * float(rng.choice([-1.0, 1.0]))
    elif k == 1:
        x[-1] = m * 1.5 * float(rng.choice([-1.0, 1.0]))
    elif k == 2:
        x[:w] = x[0] if x[0] != 0 else m
    elif k == 3:
        x[-w:] = x[-1] if x[-1] != 0 else -m
    elif k == 4 and n >= 2:
        x[-1] = -x[-2] if x[-2] != 0 else m
    elif k == 5:
        x[:w] = 0.0
    elif k == 6:
        x[-w:] = 0.0
    return x, ['extreme-first', 'extreme-last', 'plateau-start', 'plateau-end', 'sign-change-end', 'zero-start', 'zero-end', 'plain'][k]


NEW_DT_FORMS = ['0d', '0d', 'f32', 'i64', '0dint', 'bool']
KINDS = ['generic', 'shape', 'tie', 'history', 'container', 'generic', 'protocol', 'tie', 'history', 'scale', 'edge', 'shape',
         'history', 'extreme', 'protocol']


def gen_case(rng, idx):
    kind = KINDS[idx % len(KINDS)]
    if kind == 'protocol':
        return gen_protocol_case(rng)
    case = {'kind': kind, 'form': int(rng.integers(4)), 'layout': None, 'dt_form': ['float', 'float', 'np', 'int'][int(rng.integers(4))],
            'repeat': bool(rng.random() < 0.35), 'observe_obj': bool(rng.random() < 0.3),
            'scalar_forms': bool(rng.random() < 0.4)}
    if case['scalar_forms'] and rng.random() < 0.75:
        # scalar forms of dt (item 28): mutable 0-d arrays (float / int), np.float32 (the rounded number IS the caller's step),
        # np.int64, np.True_ for dt = 1
        case['dt_form'] = NEW_DT_FORMS[int(rng.integers(len(NEW_DT_FORMS)))]
    if kind == 'tie':
        x, cls = gen_tie_record(rng)
        if rng.random() < 0.3:
            x = x * 2.0 ** int(rng.integers(-6, 7))
        dt = float(rng.choice(POW2_DT)) if rng.random() < 0.7 else gen.dt(rng)
        case['fracs'] = gen_fracs(rng, True)
        case['measures'] = ['cumabs', NON_MONOTONE[int(rng.integers(4))]] + ([['cav'], ['held']][int(rng.integers(2))] if rng.random() < 0.4 else [])
    else:
        if kind == 'edge':
            n = int(N_EDGE[int(rng.integers(len(N_EDGE)))])
        else:
            n = int(rng.choice(N_CHOICES, p=N_P)) if rng.random() < 0.7 else int(rng.integers(2, 3001))
        if kind == 'history':
            n = max(8, min(n, 600))
        x, cls = gen_shape(rng, n) if kind == 'shape' else gen.record(rng, n)
        r = rng.random()
        dt = gen.dt(rng) if r < 0.75 else (float(rng.choice(POW2_DT)) if r < 0.88 else
                                           gen.awkward_dt(rng, int(rng.choice([3, 7, 11, 49, 93]))))
        case['fracs'] = gen_fracs(rng, cls in ('plateau', 'intnoise', 'const', 'alt', 'step', 'impulse'))
        case['measures'] = [['cumabs'], ['cav'], ['isq_dt'], ['cumabs', 'cav'], ['held'], ['held', 'cav']][int(rng.integers(6))] \
            + [NON_MONOTONE[int(rng.integers(4))]]
    case['cls'] = cls
    case['k_scale'] = int(rng.choice([-20, -3, -1, 1, 2, 10, 40]))
    case['factor'] = float(rng.choice([3.7, 1e-3, 0.3, 981.0])) if rng.random() < 0.5 else None
    case['k_pad'] = int(rng.choice([1, 2, 5, 16, 100])) if rng.random() < 0.7 else 0
    case['thr_specs'] = gen_thr_specs(rng)
    case['container'] = 'array'
    if kind == 'edge':
        x, mod = _edge_modifier(rng, x)
        case['cls'] = 'n=%s/%s' % ('1' if len(x) == 1 else ('2-4' if len(x) <= 4 else 'pow2+-1'), mod)
    if kind == 'scale':
        sc = ['micro', 'huge', 'offset', 'dt-tiny', 'dt-huge', 'micro+dt-tiny'][int(rng.integers(6))]
        m = float(np.max(np.abs(x))) or 1.0
        if 'micro' in sc:
            x = x / m * 10.0 ** rng.uniform(-12, -8)
        elif sc == 'huge':
            x = x / m * 10.0 ** rng.uniform(8, 12)
        elif sc == 'offset':
            x = x / m * 10.0 ** rng.uniform(-3, 0) + float(rng.choice([-1.0, 1.0])) * 10.0 ** rng.uniform(3, 6)
        if 'dt-tiny' in sc:
            dt = float(10.0 ** rng.uniform(-9, -3))
        elif sc == 'dt-huge':
            dt = float(10.0 ** rng.uniform(0, 3)) if rng.random() < 0.7 else float(rng.choice([1.0, 2.0, 60.0, 1000.0]))
        case['cls'] = sc
        if 'micro' in sc and rng.random() < 0.6:
            case['history'] = [{'op': ['gen_duration_stats', 'gen_all_motion_stats'][int(rng.integers(2))]}]
    if kind == 'extreme':
        m = float(np.max(np.abs(x))) or 1.0
        if rng.random() < 0.5:
            # bracketed duration is linear in the record: the full range of normal doubles, thresholds scale with the record
            x, suffix = gen.special_scale(rng, x)
            case['brac_only'] = True
            case['cls'] = 'brac' + (suffix or '-plain')
            case['k_scale'] = int(rng.choice([-2, -1, 1, 2]))
        else:
            # sums of squares: |a| within 1e-150 .. 1e150 (squares stay normal doubles), both ends included exactly
            r = int(rng.integers(4))
            amp = [1e-150, 1e150, 10.0 ** rng.uniform(-150, -100), 10.0 ** rng.uniform(100, 150)][r]
            x = x / m * amp
            case['cls'] = 'sig-' + ['1e-150', '1e150', 'tiny', 'huge'][r]
            case['k_scale'] = int(rng.choice([1, 2, 10, 40])) if r in (0, 2) else int(rng.choice([-1, -3, -20]))
        case['factor'] = None
        case['thr_specs'] = [sp for sp in case['thr_specs'] if sp[0] != 'abs']
        if rng.random() < 0.3:
            case['container'] = 'list'
    if kind == 'container':
        c = ['f32', 'i64', 'list', 'tuple', 'i8', 'i16', 'i32', 'u8', 'u16', 'intlist', 'mixedlist', 'stride', 'reversed',
             'readonly', 'bool', 'boollist', 'bool'][int(rng.integers(17))]
        special = None
        r = rng.random()
        if r < 0.12:         # silent record: valid input of the bracketed duration (nothing exceeds), premise false for the others
            x = np.zeros(len(x))
            special = 'silent'
        elif r < 0.3:        # strictly one-signed: no zero, no sign change (integers 1..9 so that every container holds them)
            x = (1.0 + np.round(8.0 * np.abs(x) / (np.max(np.abs(x)) or 1.0))) * float(rng.choice([-1.0, 1.0]))
            special = 'one-signed'
            if c in ('f32', 'list', 'tuple', 'stride', 'reversed', 'readonly') and rng.random() < 0.5:
                x = x * float(rng.choice([0.37, 1e-3, 12.5]))
        case['cls'] = c
        if c in ('bool', 'boollist'):
            # on/off records, rectangular pulses (item 29): dtype bool as array, read-only / strided view or list of Python bools;
            # 1, 2, 3 samples as well. True counts as 1 (NumPy would add bools with OR: the library casts to float on purpose).
            n = len(x) if rng.random() < 0.7 else int(rng.choice([1, 2, 3, 4]))
            r2 = rng.random()
            if special == 'silent':
                y = np.zeros(n, dtype=bool)
            elif special == 'one-signed':
                y = np.ones(n, dtype=bool)
            elif r2 < 0.5:     # rectangular pulses of random widths
                y = np.zeros(n, dtype=bool)
                i = int(rng.integers(0, max(1, n // 4) + 1))
                while i < n:
                    w = int(rng.integers(1, max(2, n // 6) + 1))
                    y[i:i + w] = True
                    i += w + int(rng.integers(1, max(2, n // 6) + 1))
            else:
                y = np.abs(np.asarray(x[:n], dtype=float)) > float(np.median(np.abs(x[:n])))
            if not np.any(y) and special != 'silent':
                y[int(rng.integers(n))] = True
            x = y
            case['factor'] = None
            case['k_scale'] = int(rng.integers(1, 12))
            if c == 'boollist':
                case['container'] = 'list'
            elif rng.random() < 0.4:
                case['layout'] = ['stride', 'reversed', 'readonly'][int(rng.integers(3))]
            case['thr_specs'] = case['thr_specs'] + [['abs', 0.5], ['abs', 1.0]]
        elif c == 'f32':
            x = np.asarray(x, dtype=np.float32)
            if case['dt_form'] in NEW_DT_FORMS:
                case['dt_form'] = 'float'
            case['factor'] = None
            case['k_scale'] = int(rng.choice([-3, -1, 1, 2]))
        elif c in ('i64', 'intlist', 'mixedlist'):
            if not np.all(x == np.round(x)) or np.max(np.abs(x)) > 1e6:
                x = np.round(x / (np.max(np.abs(x)) or 1.0) * 9)
            if c == 'mixedlist':
                x = np.asarray(x, dtype=float)
                x[::3] += 0.5
                case['container'] = c
            else:
                x = np.asarray(x, dtype=np.int64)
                case['factor'] = None
                case['k_scale'] = abs(case['k_scale']) % 12 + 1
                if c == 'intlist':
                    case['container'] = c
        elif c in NARROW:
            info = np.iinfo(NARROW[c])
            big = rng.random() < 0.35           # values using most of the range: squares wrap in the dtype
            lim = info.max if big else int((info.max // 2) ** 0.5)
            y = np.round(x / (np.max(np.abs(x)) or 1.0) * lim)
            if info.min == 0:
                y = np.abs(y)
            elif big and rng.random() < 0.3:
                y[int(rng.integers(len(y)))] = info.min
            x = np.asarray(y, dtype=NARROW[c])
            case['cls'] = c + ('/full-range' if big else '/no-wrap')
            if special:
                case['cls'] = c
            case['factor'] = None
            case['k_scale'] = 0
        elif c in ('stride', 'reversed', 'readonly'):
            case['layout'] = c
        else:
            case['container'] = c
        if special:
            case['cls'] += '/' + special
    if kind == 'history':
        small = rng.random() < 0.45
        if small:
            x = x / (np.max(np.abs(x)) or 1.0) * 0.09 * float(rng.uniform(0.2, 1.0))
        case['history'], case['rounds'] = gen_history(rng, len(x), dt, small)
        case['order_seed'] = int(rng.integers(1 << 30))
        if case['fracs'][0] != STD_FRACS[0]:
            case['fracs'] = [STD_FRACS[0]] + case['fracs']
        for op in case['history'] + [o for r in case['rounds'] for o in r]:
            if op['op'] == 'calc':
                op['fracs'] = case['fracs'][:2]
                op['measures'] = case['measures'][:1]
                op['thresholds'] = [0.0, op.pop('threshold')]
                case['thr_specs'].append(['abs', op['thresholds'][1]])
        case['cls'] = 'small-amplitude' if small else 'normal-amplitude'
        case['array_level'] = bool(rng.random() < 0.3)
        if rng.random() < 0.2:
            case['layout'] = ['stride', 'reversed', 'readonly'][int(rng.integers(3))]
    if case['dt_form'] in ('int', 'i64', '0dint', 'bool') and rng.random() < 0.5 and kind in ('generic', 'edge', 'shape', 'container', 'tie'):
        dt = float(rng.choice([1.0, 2.0, 1.0]))
    if kind in ('generic', 'shape', 'history', 'edge', 'tie') and rng.random() < 0.2:
        # user-given settings outside the band of the data (item 31): periods of 0, below 2 dt; smoothing frequencies at and above
        # the Nyquist frequency; 1-4 entries, as list / tuple / array. The duration functions must leave them alone.
        nyq = 0.5 / float(dt)
        rt = np.array([0.0, 0.5 * dt, 1.9 * dt, 2.0 * dt, float(rng.uniform(0.1, 2.0)), float(rng.uniform(2.0, 5.0))])
        sf = np.array([1e-3 * nyq, 0.3 * nyq, nyq, 1.5 * nyq, 4.0 * nyq])
        rt = np.sort(rng.choice(rt, size=int(rng.integers(1, 5)), replace=False))
        sf = np.sort(rng.choice(sf, size=int(rng.integers(1, 5)), replace=False))
        case['settings'] = {'response_times': rt, 'smooth_fa_freqs': sf, 'form': ['list', 'tuple', 'array'][int(rng.integers(3))]}
        case['observe_obj'] = True
    if rng.random() < 0.25 and not case.get('brac_only'):
        case['fracs'] = case['fracs'] + gen_edge_fracs(rng, x, case['fracs'])
    if case['repeat'] and rng.random() < 0.6:
        # f(A); f(B); f(A) with B another draw of the recipe: same shape or another shape, at the amplitude of A (item 25)
        n = len(x)
        m = int(rng.choice([n, n, max(1, n // 2), n + 1, 2 * n + 3, max(1, n - 1)]))
        y = gen.record(rng, m)[0]
        amp = float(np.max(np.abs(np.asarray(x, dtype=float)))) if len(x) else 0.0
        case['other'] = y / (np.max(np.abs(y)) or 1.0) * (amp if amp > 0 and np.isfinite(amp) else 1.0)
        case['repeat_j'] = int(rng.integers(0, 4))
        case['repeat_se'] = bool(rng.random() < 0.5)
    case['dt'] = float(dt)
    case['values'] = x
    return case


def gen_long_case(rng):
    """A record past 2**16 samples (few per run; only the direct calls, no relations)."""
    n = int(rng.choice([2 ** 16 + 1, 2 ** 16 + int(rng.integers(2, 5000)), 100003]))
    x, cls = gen.record(rng, n, cls=['noise', 'quake', 'zeropad', 'intnoise', 'walk'][int(rng.integers(5))])
    return {'kind': 'long', 'cls': 'n>2**16', 'form': int(rng.integers(4)), 'layout': None, 'dt_form': 'float', 'repeat': False,
            'fracs': [STD_FRACS[0], (0.25, 0.75)], 'measures': [], 'k_scale': 0, 'factor': None, 'k_pad': 0,
            'thr_specs': [['zero'], ['between', 0], ['rank', 1], ['frac', 0.3]], 'container': 'array', 'dt': gen.dt(rng), 'values': x}


def _case_digest(case):
    h = []
    for op in (case.get('history') or []) + [o for r in case.get('rounds') or [] for o in r]:
        h.append([op['op']] + [op[k] for k in sorted(op) if k != 'op'])
    for st in case.get('steps') or []:
        h.append([st['obj']])
        for op in st['ops']:
            h.append([op['op']] + [op[k] for k in sorted(op) if k != 'op'])
    return core.digest(np.asarray(case['values']), case['dt'], case['fracs'], case['thr_specs'], case.get('measures'),
                       case.get('k_scale'), case.get('factor'), case.get('k_pad'), case.get('container'), case.get('layout'),
                       case.get('dt_form'), h, case.get('proto'), case.get('other'), case.get('repeat_j'), case.get('repeat_se'),
                       case.get('scalar_forms'), case.get('settings'))


EXH_FRACS = [(0.25, 0.75), (0.125, 0.5), (0.5, 0.9375)]


def run_exhaustive(eqsig, ctx):
    maxlen = 5 if ctx.tier == 'quick' else 6
    idx = 0
    n_enum = n_nt = 0
    for L in range(1, maxlen + 1):
        for seq in itertools.product(range(-2, 3), repeat=L):
            idx += 1
            if idx % ctx.nshards != ctx.shard:
                continue
            n_enum += 1
            nontriv = any(seq)
            n_nt += nontriv
            dtype = [np.int64, float, float, np.int8][idx % 4]
            if idx % 11 == 0 and all(v in (0, 1) for v in seq):
                dtype = bool
            case = {'kind': 'exhaustive', 'cls': 'exhaustive', 'values': np.array(seq, dtype=dtype),
                    'dt': 0.5, 'fracs': EXH_FRACS, 'measures': ['cumabs', ['signed', 'overshoot', 'dip'][idx % 3]], 'k_scale': 0, 'factor': None, 'k_pad': 0,
                    'thr_specs': [['abs', 0.0], ['abs', 1.0], ['abs', 2.0]], 'container': 'array', 'form': idx % 4,
                    'layout': [None, None, 'readonly', 'stride', 'reversed'][idx % 5], 'repeat': idx % 7 == 0,
                    'dt_form': ['float', '0d', 'f32', 'float', 'np'][idx % 5], 'scalar_forms': idx % 3 == 0}
            run_case(eqsig, ctx, case)
            if idx % 1500 == 1:
                ctx.sample({'fn': 'all five functions', 'values': list(seq), 'dt': 0.5, 'fracs': EXH_FRACS, 'thresholds': [0, 1, 2]})
    ctx.cases_enumerated(n_enum, n_nt, cls='exhaustive-alphabet(-2..2)')
    ctx.exhaustive['alphabet5_sequences'] = n_enum


def _register(ctx, case):
    x = np.asarray(case['values'])
    ctx.case(_case_digest(case), nontrivial=bool(np.any(x != 0)), cls=case['kind'] + ':' + case['cls'],
             sample={'kind': case['kind'], 'class': case['cls'], 'n': len(x), 'dtype': str(x.dtype), 'dt': case['dt'],
                     'fracs': case['fracs'], 'thr_specs': case['thr_specs'], 'measures': case['measures'],
                     'k_scale': case['k_scale'], 'k_pad': case['k_pad'], 'layout': case.get('layout'),
                     'history': [o['op'] for o in case.get('history') or []],
                     'rounds': [[o['op'] for o in r] for r in case.get('rounds') or []], 'proto': case.get('proto'),
                     'steps': [[st['obj'], st['kind']] + [_op_name(o) for o in st['ops']] for st in case.get('steps') or []],
                     'other_n': None if case.get('other') is None else len(case['other']), 'head': x[:8]})


def run_shard(ctx):
    eqsig = core.import_eqsig()
    install(ctx)
    warnings.simplefilter('ignore')
    run_exhaustive(eqsig, ctx)
    rng = ctx.rng
    n_long = (1 if ctx.shard < 4 else 0) if ctx.tier == 'quick' else 3
    for _ in range(n_long):
        case = gen_long_case(rng)
        _register(ctx, case)
        run_case(eqsig, ctx, case)
    n_cases = (4000 if ctx.tier == 'quick' else 64000) // ctx.nshards
    for c in range(n_cases):
        case = gen_case(rng, c + ctx.shard)
        _register(ctx, case)
        run_case(eqsig, ctx, case)
        if HARNESS['crash'] or (c % 64 == 0 and ctx.out_of_time()):
            break
    ctx.note('monitored_calls', dict(attach.CALLS))
    if HARNESS['crash']:
        raise RuntimeError('C10 monitor crashed: ' + HARNESS['crash'])


# ------------------------------------------------------------------------------------------------ replay
def replay(w):
    """Re-execute one witness (the complete case, or the single call when the witness came from a foreign workload)."""
    eqsig = core.import_eqsig()
    ctx = core.Ctx(PROP_ID, 'quick', 0, 0, 1)
    install(ctx)
    case = w.get('case')
    if case:
        run_case(eqsig, ctx, case)
    else:
        call = w['call']
        im = eqsig.im
        with warnings.catch_warnings():
            warnings.simplefilter('ignore')
            try:
                if call['fn'] == 'calc_sig_dur_vals':
                    im.calc_sig_dur_vals(call['values'], call['dt'], start=call['start'], end=call['end'], se=call['se'])
                elif call['fn'] == 'calc_significant_duration':
                    im.calc_significant_duration(call['values'], call['dt'], start=call['start'], end=call['end'])
                elif call['fn'] == 'calc_sig_dur':
                    imf = MEASURES.get(call.get('im')) if call.get('im') else None
                    im.calc_sig_dur(eqsig.AccSignal(call['values'], call['dt']), start=call['start'], end=call['end'], im=imf,
                                    se=call['se'])
                elif call['fn'] == 'calc_brac_dur':
                    im.calc_brac_dur(eqsig.AccSignal(call['values'], call['dt']), call['threshold'], se=call['se'])
                else:
                    im.calc_bracketed_duration(eqsig.AccSignal(call['values'], call['dt']), call['threshold'])
            except Exception:
                pass
    if HARNESS['crash']:
        return ['harness crash: ' + HARNESS['crash']]
    return ['%s: %s' % (v['clause'], v['msg']) for v in ctx.violations if not v.get('finding')]
