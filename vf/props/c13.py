"""C13 - peak-only series conserve total variation; power-law cycle measures are non-decreasing, of the record's length,
mutually inverse and obey the scaling / two-component relations.

Monitors: post-conditions on every call of determine_peaks_only_delta_series, determine_pseudo_cyclic_peak_only_series,
calc_n_cyc_array_w_power_law, calc_cyc_amp_array_w_power_law, calc_cyc_amp_gm_arrays_w_power_law and
calc_cyc_amp_combined_arrays_w_power_law (conservation sums from the raw series; power-law sums recomputed from the
oracle's own excursion maxima). Relations between executions (shift, inverse, scaling, identical components, scalar vs
array b, int vs float input) are evaluated by the driver over the recorded results.
Workload: complete enumeration of {0..4}^n for the two series functions, {-2..2}^n for the power-law functions, and
random real / integer / plateau / offset / micro-amplitude series.
Round 3 (audit items 24-27): purity on the exception path, rejected calls between two in-domain calls, call histories
f(A); f(B); f(A), options next to the ends of their ranges, silent / constant / strictly one-signed records, the two
components in different containers.
Round 5 (audit items 28-33): scalar forms of a_ref / b / cut_off / n_cyc (np.float32, np.int64, bool, np.bool_, mutable 0-d arrays
reused over consecutive calls), bool-dtype records, one- and two-sample records, results owned by the caller (overwritten and
asked for again), tie placement fixed once per tree from probe records.
"""
import itertools
import math
import warnings

import numpy as np

from vf import attach, core, gen, tol
from vf.oracles import cycles as C
from vf.oracles import peaks as P

PROP_ID = 'C13'
TECHNIQUE = ('runtime post-condition monitors (conservation sums; power-law sums over the oracle excursion maxima) + '
             'trace relations over recorded executions; exhaustive small-alphabet + random workload')
RULE = ('cases = calls of the real functions. Exhaustive A: every non-constant sequence over {0..4} of length 2..7 (quick) '
        '/ 2..8 (thorough) through both series functions as float64, shifted by -2 and as int64 / list of ints (quick: '
        'integer variant for lengths <= 6). Exhaustive B: every non-constant sequence over {-2..2} of length 2..5 (quick) / '
        '2..6 (thorough) through the cycle and amplitude functions (float64 and int64; b in {0.3, 0.34, 0.75, 1}, cut_off '
        'in {0, 0.05, 0.1}; inverse and identical-component relations). Random: noise / smooth / integer / plateau / offset / '
        'zero-start / unit-waveform / edge (plateau at start or end, extreme at the first or last sample, ending right after a '
        'sign change) series, n in {2,3,4,5,8,13,50,200,1000,5000} u {2^k-1,2^k,2^k+1: k=6,8,10}, one record > 2**16 on '
        'every fourth shard (thorough: two per shard); amplitude 1e-12..1e12 incl. micro-amplitude records (unit waveform x '
        '2e-8, 1e-11) with and without large constant offsets, integer records up to 9e15 (steps whose products exceed '
        'int64); containers: float64 / int64 arrays, lists and tuples of ints and floats, and on a 120-sample window every '
        'form of {float32, int8, int16, int32, int64, uint8, uint16 (unit-scaled and filling ~90 % of the dtype range), '
        'mixed int/float list, non-contiguous and reversed views, read-only arrays, AccSignal.values} for every function '
        'and both components; b in U(0.05,1] u {0.3,0.34,0.5,0.75,1}, cut_off in {0,0.01,0.0625,0.1} u U(0,0.1), a_ref and '
        'n_cyc in 10^U(-1,1.5) (a_ref relative to the record maximum or absolute); options as python floats, numpy scalars, '
        '0-d arrays, python ints (b=1, cut_off=0, integral a_ref / n_cyc), b as ndarray / list / tuple; every third driver '
        'call by keyword, the others positionally; the same object for both components; back-to-back calls on two inputs of '
        'one shape with the first result re-read afterwards. Audit round 2: record shapes alternation (+offset) / single '
        'step / single impulse / trend and monotone / one-sided negative / tail-heavy / one spike 1e3..1e12 times the other '
        'steps (first, last or inner sample); array b of 1, 2, 3, 5, 31..33, 63..65, 127..129, 256 entries (unsorted, '
        'descending, repeated), permuted; one record x exponent matrix > 2**22 entries on every eighth shard (thorough: '
        'every second). Wave 5: gen.special_scale records (uniformly tiny < 1e-165 / huge > 1e155, 1e-150 ripple vs 1e150 '
        'spike in one record, ripple on a baseline below float32 resolution, integer counts above 2**24) through the two '
        'series functions; the power-law functions with record and a_ref scaled together by 1e+-165..1e+-200 (cycle count: '
        'any b; amplitudes: b in [0.8, 1] so that |p|^(1/b) stays a normal double). Round 3, on every second random case in turn: '
        '(a) items 19/24 - f(A); f(rejected or out-of-statement input derived from A); f(A) for all six functions: constant / '
        'all-zero / one-sample / empty / 2-D / NaN / inf records, components of different lengths (ndarray and list), b = None / '
        '[], a_ref = 0, n_cyc = 0 - arguments judged bit-for-bit on the return AND on the raise path, third result == first; '
        '(b) item 26 - b in {next double above 0.05, 0.05 + U(0, 0.9e-3), 0.05001, 1 - U(0, 0.95e-3), next double below 1, 1}, '
        'cut_off in {0, 5e-324, 1e-300, 1e-12, U(0, 1e-4), 0.1 - U(0, 1e-4), next double below 0.1, 0.1}, a_ref = 1e-6..1e6 x '
        'record maximum, n_cyc = 1e-6..1e8, every second record with one sample 1e3..1e12 times the others; (c) item 27 - '
        'all-zero records (float64 / int64 / float32 / -0.0 arrays, lists and tuples) through the four power-law functions and '
        'as either component of gm / combined; constant non-zero records (2..50 samples, every container); strictly one-signed '
        'non-constant records (offset noise, positive integers, offset sine, free decay; array / list / tuple / int64 / view) '
        'through all six functions; the two components held as different containers / dtypes (list with ndarray, tuple, '
        'read-only, non-contiguous, float32 with float64, int64 / int32 / list of ints with float64); (d) item 25 - f(A); f(B); '
        'f(A) with B of another length (n/2, n-1, n+7, 2n+1; arrays and lists), B = A with two interior samples exchanged, B = A '
        'with exactly one option changed (a_ref, b, cut_off, n_cyc, scalar <-> array b, second component), non-default options. '
        'Round 5, on every audit block (every third random case, 120-sample window): (e) item 29 - both records as on/off pulses '
        '(sample > median) held as bool ndarray / list and tuple of bool / list of np.bool_ / non-contiguous / read-only bool '
        'array through all six functions, and as one component next to a float64 / int64 one; one- and two-sample records '
        '([c], [0], [c,c], [c,-c], [0,c], [c,0], [c,d]; float64 / int64 / float32 / bool arrays, lists, tuples, read-only; scalar '
        'and 3-entry b) through every function (series functions when non-constant), constant records of ONE sample; (f) item 28 - '
        'a_ref, b, cut_off, n_cyc as np.float32 scalars, 0-d float64 / float32 arrays (the same objects through ncyc, combined, '
        'gm, amp, ncyc in turn), np.int64 scalars, 0-d int64 arrays, b = True / np.True_ / 0-d bool, cut_off = False / np.False_ / '
        '0-d bool; values float32-representable, float32 b in {1/16, 1/8, 1/4, 1/2, 1}; (g) item 32 - for all six functions '
        '(ndarray records with ndarray b; tuple records with tuple b = hashable arguments): the result shares no memory with an '
        'argument, every entry of it is overwritten, the same call again gives the first value bit for bit; (h) item 33 - '
        'install() calls ncyc / amp / combined on five probe records with tied maxima and fixes first / last placement for '
        'the tree; every later call is judged with that convention only. '
        'distinct = digest(series, container); non-trivial = non-constant series.')
ASSUMPTIONS = ['NaN-free real input of any real dtype and container (bool records are the numbers 0 / 1, as the library casts '
               'them; integers of magnitude <= 2**53 so that the float64 '
               'oracle holds the same numbers); one-sample records are constant records; constant series are not judged by the two peak-only series functions (excluded by the '
               'statement; the clean code raises IndexError). For the power-law functions a constant record is valid input: all-zero '
               '= no half cycle (cycles and amplitude exactly 0, also as one component of gm / combined), constant c != 0 = one '
               'half cycle of amplitude |c| (one maximal run of one strict sign)',
               'half-cycle peaks = largest |value| of each maximal run of one strict sign (oracles/peaks.excursions); on '
               'ties the step of a cumulative series may sit at the first or at the last sample attaining the maximum - ONE of '
               'the two per tree and function (fixed at install from five probe records; probes that disagree are a violation)',
               'numeric options are judged in every scalar form (python float / int / bool, numpy scalars of any real dtype, '
               '0-d arrays; a 0-d array b is a scalar b, also for the combined function); a float32 b whose reciprocal is not '
               'exact in float32 is outside the range of validity of the 1e-9 tolerance and is not driven',
               'a result belongs to the caller: it shares no memory with an argument and overwriting it has no effect on a later '
               'identical call (bit for bit); a read-only result is not overwritten (counted)',
               'a peak whose amplitude equals cut_off*max|x| to within 4 ulps may be kept or dropped (the statement does '
               'not fix the side and the product is inexact)',
               'cases whose powers (|p|/a_ref)^(1/b) or |p|^(1/b) leave [1e-280, 1e280] are counted, not judged; likewise the inverse '
               'relation when |p|^(1/b)/N = (|p|/N^b)^(1/b), the quotient the amplitude formula forms for N = cycles(a_ref), leaves '
               'that range (a_ref 1e6 times the record maximum with b next to 0.05 gives N ~ 1e-107)',
               'inputs the clean code rejects and non-finite records are not judged by value; their arguments must be unchanged '
               'whether the call returns or raises, and the next in-domain call must reproduce the earlier result bit for bit',
               'conservation sums are compared relative to the total variation (1e-9*TV); power-law values element-wise '
               'relative (1e-9; 1e-6 for b < 0.1): samples before the first counted peak must be exactly 0; the same '
               'tolerances for every dtype (float32 and integer records are judged as the float64 numbers they hold)',
               'the orientation (global sign) of the delta series is not fixed by the statement and is not judged',
               'shift invariance is judged when the shifted input reproduces the differences exactly or when the '
               'smallest step is >= 1000 ulps of the shifted values',
               'argument purity: every ndarray / list argument is compared bit-for-bit (dtype, shape, bytes) before and '
               'after each monitored call; the oracles read the arguments only after that comparison succeeded',
               'array b for the combined function is documented as float and not judged',
               'a final movement smaller than 2 ulps of the largest rebased value |x - x[0]| has no decidable direction: '
               'the pseudo-cyclic sum may then take the value of either direction (extreme dynamic range only)',
               'zero-off-peaks is exact except inside a plateau created by the rounding of x - x[0] (samples closer than 2 '
               'ulps of the largest rebased value) that contains a turning point: valid for any dynamic range',
               'no int()/floor()/ceil() of a float quotient occurs in the six anchored functions (audit item 9 not applicable); '
               'they have no object-level entry point (items 12, 13: only AccSignal.values as an argument, judged by purity)']
EXHAUSTIVE = {'quick': '{0..4}^n, n=2..7 x {float, shifted -2} (+ int for n<=6) x {delta, pseudo-cyclic}; {-2..2}^n, n=2..5 x cycle/amplitude',
              'thorough': '{0..4}^n, n=2..8 x {float, int, shifted -2} x {delta, pseudo-cyclic}; {-2..2}^n, n=2..6 x cycle/amplitude'}
_MIN_QUICK = {'amp.length': 57000, 'amp.nondecreasing': 57000, 'amp.scales-linearly': 1800, 'amp==reference': 180000,
              'args.unchanged': 340000, 'array-b column==scalar-b': 2400,
              'array-b permutation==column permutation': 1400, 'b.accepts-sequences': 1200,
              'combined(x,x)==2^b*amp(x)': 4500, 'combined.length': 10000, 'combined.nondecreasing': 10000,
              'combined==reference': 10000, 'container-form==float64-array': 9500, 'delta.length': 110000,
              'delta.shift-invariant': 51000, 'delta.sum|d|==TV': 110000, 'delta.zero-off-peaks': 110000,
              'delta.|sum d|==|end-start|': 110000, 'gm(x,x)==amp(x)': 5000, 'gm(x,y)==sqrt(amp(x)*amp(y))': 1900,
              'gm.length': 13000, 'gm==sqrt(amp0*amp1)': 54000, 'int-input==float-input': 21000,
              'inverse(cut_off=0)': 5700, 'inverse(cut_off>0)==a_ref*(S_all/S_kept)^b': 3900,
              'long-record(>2**16) driven': 2, 'matrix(n*nb>2**22) driven': 1, 'ncyc.accepts-sequences': 2100,
              'ncyc.joint-scaling-invariant': 2200, 'ncyc.length': 24000, 'ncyc.nondecreasing': 24000,
              'ncyc==reference': 65000, 'option-form==plain-float': 19000, 'pseudo.length': 110000,
              'pseudo.shift-invariant': 51000, 'pseudo.sum==TV/2+offset/2*sign(last move)': 110000,
              'pseudo.zero-off-peaks': 110000, 'result.stable-after-next-call': 1800,
              'special-scale series driven': 230, 'power-law at extreme scale driven': 240,
              # round 3
              'args.unchanged-after-raise': 1300, 'result.same-after-rejected-call': 2000,
              'result.depends-on-arguments-only': 3900, 'edge-parameters driven': 190,
              'silent-record: cycles==0, amplitude==0': 350, 'combined(x,silent)==amp(x)': 350, 'gm(x,silent)==0': 700,
              'constant-record: one half cycle': 350, 'one-signed record driven': 170,
              # round 5 (option-form / container-form raised: scalar forms of the options, bool forms of the records)
              'result.owned-by-caller': 4300, 'short-record(1-2 samples): finite result of the record length': 950,
              'tie-placement: one convention per tree': 24}
# thorough: the enumerations grow 5x (integer variants at every length), the random part 10x (about half of a run)
_MIN_THOROUGH = {'amp.length': 520000, 'amp.nondecreasing': 520000, 'amp.scales-linearly': 18000,
                 'amp==reference': 1700000, 'args.unchanged': 2600000, 'array-b column==scalar-b': 24000,
                 'array-b permutation==column permutation': 14000, 'b.accepts-sequences': 11000,
                 'combined(x,x)==2^b*amp(x)': 35000, 'combined.length': 97000, 'combined.nondecreasing': 97000,
                 'combined==reference': 97000, 'container-form==float64-array': 90000, 'delta.length': 840000,
                 'delta.shift-invariant': 260000, 'delta.sum|d|==TV': 840000, 'delta.zero-off-peaks': 840000,
                 'delta.|sum d|==|end-start|': 840000, 'gm(x,x)==amp(x)': 40000,
                 'gm(x,y)==sqrt(amp(x)*amp(y))': 19000, 'gm.length': 120000, 'gm==sqrt(amp0*amp1)': 520000,
                 'int-input==float-input': 510000, 'inverse(cut_off=0)': 47000,
                 'inverse(cut_off>0)==a_ref*(S_all/S_kept)^b': 32000, 'long-record(>2**16) driven': 8,
                 'matrix(n*nb>2**22) driven': 4, 'ncyc.accepts-sequences': 20000,
                 'ncyc.joint-scaling-invariant': 22000, 'ncyc.length': 220000, 'ncyc.nondecreasing': 220000,
                 'ncyc==reference': 620000, 'option-form==plain-float': 180000, 'pseudo.length': 840000,
                 'pseudo.shift-invariant': 260000, 'pseudo.sum==TV/2+offset/2*sign(last move)': 840000,
                 'pseudo.zero-off-peaks': 840000, 'result.stable-after-next-call': 18000,
                 'special-scale series driven': 2300, 'power-law at extreme scale driven': 2400,
                 # round 3
                 'args.unchanged-after-raise': 12000, 'result.same-after-rejected-call': 18000,
                 'result.depends-on-arguments-only': 35000, 'edge-parameters driven': 1700,
                 'silent-record: cycles==0, amplitude==0': 3100, 'combined(x,silent)==amp(x)': 3100, 'gm(x,silent)==0': 6300,
                 'constant-record: one half cycle': 3100, 'one-signed record driven': 1500,
                 # round 5
                 'result.owned-by-caller': 40000, 'short-record(1-2 samples): finite result of the record length': 9000,
                 'tie-placement: one convention per tree': 24}
MIN_EVALS = {'quick': _MIN_QUICK, 'thorough': _MIN_THOROUGH}
CTX = None

DELTA = 'determine_peaks_only_delta_series'
PSEUDO = 'determine_pseudo_cyclic_peak_only_series'
NCYC = 'calc_n_cyc_array_w_power_law'
AMP = 'calc_cyc_amp_array_w_power_law'
GM = 'calc_cyc_amp_gm_arrays_w_power_law'
COMB = 'calc_cyc_amp_combined_arrays_w_power_law'


def n_shards(tier):
    return 16


def _rt(b):
    return 1e-6 if b < 0.1 else 1e-9




# ---------------------------------------------------------------------------------------------------- input handling
_CACHE = {}


def _domain(values, const_ok=False):
    """(python-float list, oracle excursion peaks) of an in-domain series, else None (not judged). Constant (also silent =
    all-zero) records are in the domain of the power-law functions only (const_ok): the statement excludes them for the
    two peak-only series, whose final movement is undefined then."""
    dom = _domain_any(values)
    if dom is None or (dom[2] and not const_ok):
        return None
    return dom[:2]


def _domain_any(values):
    """(python-float list, oracle excursion peaks, is_constant) or None."""
    if isinstance(values, np.ndarray):
        if values.ndim != 1 or values.dtype.kind not in 'iufb' or (values.dtype.kind == 'f' and values.dtype.itemsize not in (4, 8)):
            return None
        key = ('a', values.dtype.str, values.tobytes())
    elif isinstance(values, (list, tuple)):
        try:
            key = ('l', tuple(values))
            hash(key)
        except TypeError:
            return None
    else:
        return None
    hit = _CACHE.get(key)
    if hit is not None:
        return hit if hit != 0 else None
    res = 0
    try:
        a = np.asarray(values)
        if a.ndim == 1 and a.size >= 1 and a.dtype.kind in 'iufb':      # round 5: bool records, one-sample records
            exact = a.dtype.kind in 'fb' or int(np.max(np.abs(a.astype(object)))) <= 2 ** 53
            a = a.astype(float)
            if exact and np.all(np.isfinite(a)):
                vals = a.tolist()
                res = (vals, C.excursion_peaks(vals), bool(a.min() == a.max()))
    except Exception:
        res = 0
    if len(_CACHE) > 24:
        _CACHE.clear()
    _CACHE[key] = res
    return res if res != 0 else None


def _bs(b):
    """(list of exponents, is_array) or (None, _) when b is neither a scalar nor a 1-D array."""
    if hasattr(b, '__len__'):
        try:
            arr = np.asarray(b, dtype=float)
        except Exception:
            return None, True
        if arr.ndim == 0:
            return [float(arr)], False
        if arr.ndim != 1 or arr.size == 0:
            return None, True
        return arr.tolist(), True
    try:
        return [float(b)], False
    except Exception:
        return None, False


def _b_ok(bs):
    return bs is not None and all(0.05 < v <= 1.0 for v in bs)


def _range_ok(peaks, div, bs, lim=280):
    """All powers (|p|/div)^(1/b) representable far from under/overflow (lim decades)."""
    ms = [m for (_f, _l, m) in peaks if m > 0]
    if not (div > 0) or not math.isfinite(div):
        return False
    if not ms:
        return True         # silent record: no power is formed
    lo, hi = math.log10(min(ms) / div), math.log10(max(ms) / div)
    return all(-lim <= lo / b and hi / b <= lim for b in bs)


def _wit(fn, **kw):
    d = {'fn': fn}
    d.update(kw)
    return d


# ------------------------------------------------------------------------------------------------ monitors: series
def _off_peaks(vals, g, tp):
    """Indices where a peak-only series is non-zero away from the turning points. The series is built from x - x[0]: when
    one sample dwarfs the steps between the others that subtraction rounds, and samples closer than an ulp of the rebased
    values legitimately merge into one plateau - an index inside such a rounding-plateau that contains a turning point is
    not counted (validity range of the exact clause: dynamic range up to 1e12 and beyond)."""
    n = len(vals)
    off = [i for i in range(n) if g[i] != 0 and i not in tp]
    if not off:
        return off
    v0 = vals[0]
    u = 2 * math.ulp(max(abs(v - v0) for v in vals))
    out = []
    for i in off:
        lo = i
        while lo > 0 and abs(vals[lo - 1] - vals[i]) <= u:
            lo -= 1
        hi = i
        while hi < n - 1 and abs(vals[hi + 1] - vals[i]) <= u:
            hi += 1
        if not any(k in tp for k in range(lo, hi + 1)):
            out.append(i)
    return out


def check_delta(ctx, values, result):
    dom = _domain(values)
    if dom is None:
        ctx.observe('delta: constant / out-of-domain series (not judged)')
        return
    vals = dom[0]
    n = len(vals)
    got = np.asarray(result)
    W = lambda: _wit(DELTA, values=values, got=got)
    if not ctx.check(got.shape == (n,), 'delta.length', W, 'delta series has shape %s for a record of %d' % (got.shape, n)):
        return
    g = got.astype(float).tolist()
    tv = P.total_variation(vals)
    tp = set(P.turning_points(vals)[0])
    off = _off_peaks(vals, g, tp)
    ctx.check(not off, 'delta.zero-off-peaks', W, 'delta series of %s non-zero off the peaks at %s: %s' % (vals[:12], off[:8], g[:12]))
    sabs = math.fsum(abs(v) for v in g)
    ctx.check(abs(sabs - tv) <= 1e-9 * tv, 'delta.sum|d|==TV', W,
              'sum|delta|=%r but total variation=%r for %s' % (sabs, tv, vals[:12]))
    ssum = abs(math.fsum(g))
    eo = abs(vals[-1] - vals[0])
    ctx.check(abs(ssum - eo) <= 1e-9 * tv, 'delta.|sum d|==|end-start|', W,
              '|sum delta|=%r but |x_end-x_0|=%r for %s' % (ssum, eo, vals[:12]))


def check_pseudo(ctx, values, result):
    dom = _domain(values)
    if dom is None:
        ctx.observe('pseudo: constant / out-of-domain series (not judged)')
        return
    vals = dom[0]
    n = len(vals)
    got = np.asarray(result)
    W = lambda: _wit(PSEUDO, values=values, got=got)
    if not ctx.check(got.shape == (n,), 'pseudo.length', W, 'pseudo-cyclic series has shape %s for a record of %d' % (got.shape, n)):
        return
    g = got.astype(float).tolist()
    tv = P.total_variation(vals)
    tp = set(P.turning_points(vals)[0])
    off = _off_peaks(vals, g, tp)
    ctx.check(not off, 'pseudo.zero-off-peaks', W, 'pseudo-cyclic series of %s non-zero off the peaks at %s' % (vals[:12], off[:8]))
    s = math.fsum(g)
    exp = C.pseudo_cyclic_sum(vals)
    ok = abs(s - exp) <= 1e-9 * tv
    if not ok:
        # knife edge: a final movement below the rounding unit of the rebased record x - x[0] has no decidable direction
        r = P.runs(vals)
        if abs(r[-1][1] - r[-2][1]) <= 2 * math.ulp(max(abs(v - vals[0]) for v in vals)):
            ok = abs(s - (tv - exp)) <= 1e-9 * tv       # the value for the opposite direction of the last move
    ctx.check(ok, 'pseudo.sum==TV/2+offset/2*sign(last move)', W,
              'sum=%r expected %r (TV=%r, end-start=%r) for %s' % (s, exp, tv, vals[-1] - vals[0], vals[:12]))


# --------------------------------------------------------------------------------------------- monitors: power law
# Round 5 (audit item 33): where the step of a cumulative series sits when several samples of one excursion attain its
# maximum is not fixed by the statement, but it is ONE convention per tree: install() determines it from probe records
# (through the monitored functions, judged two-sided) and every later call is judged with that convention only.
CONV = {'ncyc': None, 'amp': None, 'comb': None}


def _wheres(key, has_ties):
    if not has_ties:
        return ('first',)
    return (CONV[key],) if CONV[key] is not None else ('first', 'last')


def _ncyc_refs(n, peaks, flags, a_ref, b):
    has_edge = 'edge' in flags
    has_ties = any(f != l for (f, l, _m) in peaks)
    for wh in _wheres('ncyc', has_ties):
        for ek in ((True, False) if has_edge else (True,)):
            yield np.array(C.n_cyc_series(n, peaks, a_ref, b, flags, ek, wh))


def check_ncyc(ctx, values, a_ref, b, cut_off, result):
    dom = _domain(values, const_ok=True)
    if dom is None:
        ctx.observe('ncyc: out-of-domain series (not judged)')
        return
    vals, peaks = dom
    bs, is_arr = _bs(b)
    try:
        par_ok = _b_ok(bs) and 0 <= cut_off <= 0.1 and a_ref > 0
    except Exception:
        par_ok = False
    if not par_ok:
        ctx.observe('ncyc: b / cut_off / a_ref outside the quantifier (not judged)')
        return
    a_ref = float(a_ref)
    cut_off = float(cut_off)
    if not _range_ok(peaks, a_ref, bs):
        ctx.observe('ncyc: powers outside [1e-280,1e280] (not judged)')
        return
    n = len(vals)
    got = np.asarray(result, dtype=float)
    W = lambda **kw: _wit(NCYC, values=values, a_ref=a_ref, b=b, cut_off=cut_off, **kw)
    shape_ok = got.shape == (n, len(bs)) or (not is_arr and got.shape == (n,))
    if not ctx.check(shape_ok, 'ncyc.length', lambda: W(got_shape=list(got.shape)),
                     'cycle series has shape %s for a record of %d samples and %d exponents' % (got.shape, n, len(bs))):
        return
    got2 = got.reshape(n, -1)
    ctx.check(bool(np.all(np.diff(got2, axis=0) >= 0)) and bool(np.all(np.isfinite(got2))), 'ncyc.nondecreasing',
              lambda: W(got=got), 'cycle series decreases or is not finite')
    gmax = max([m for (_f, _l, m) in peaks], default=0.0)
    flags = C.keep_flags(peaks, gmax, cut_off)
    for j, bj in enumerate(bs):
        rt = _rt(bj)
        first = None
        ok = False
        for ref in _ncyc_refs(n, peaks, flags, a_ref, bj):
            ok, idx, e, a = tol.worst(got2[:, j], ref, scale=np.abs(ref), rtol=rt)
            if first is None:
                first = (ref, idx, e, a)
            if ok:
                break
        ctx.check(ok, 'ncyc==reference', lambda: W(column=j, expected=first[0], got=got2[:, j]),
                  'N(i) != 1/2*sum_kept(|p|/a_ref)^(1/b): at %s |diff|=%.3g allowed=%.3g (a_ref=%r b=%r cut_off=%r series %s)'
                  % (first[1], first[2], first[3], a_ref, bj, cut_off, vals[:10]))


def _amp_refs(n, peak_lists, n_cyc, b, key='amp'):
    has_ties = any(f != l for pk in peak_lists for (f, l, _m) in pk)
    for wh in _wheres(key, has_ties):
        yield np.array(C.cyc_amp_series(n, peak_lists, n_cyc, b, wh))


def _amp_common(ctx, name, values_list, n_cyc, b):
    """Domain handling shared by the three amplitude monitors -> (doms, bs, is_arr) or None."""
    doms = [_domain(v, const_ok=True) for v in values_list]
    if any(d is None for d in doms) or len(set(len(d[0]) for d in doms)) != 1:
        ctx.observe('%s: out-of-domain series / components of different lengths (not judged)' % name)
        return None
    bs, is_arr = _bs(b)
    try:
        par_ok = _b_ok(bs) and n_cyc > 0 and math.isfinite(n_cyc)
    except Exception:
        par_ok = False
    if not par_ok:
        ctx.observe('%s: b / n_cyc outside the quantifier (not judged)' % name)
        return None
    if not all(_range_ok(d[1], 1.0, bs) for d in doms) or not 1e-20 < n_cyc < 1e20:
        ctx.observe('%s: powers outside [1e-280,1e280] (not judged)' % name)
        return None
    return doms, bs, is_arr


def check_amp(ctx, values, n_cyc, b, result):
    c = _amp_common(ctx, 'amp', [values], n_cyc, b)
    if c is None:
        return
    (dom,), bs, is_arr = c
    vals, peaks = dom
    n = len(vals)
    n_cyc = float(n_cyc)
    got = np.asarray(result, dtype=float)
    W = lambda **kw: _wit(AMP, values=values, n_cyc=n_cyc, b=b, **kw)
    shape_ok = got.shape == (n, len(bs)) or (not is_arr and got.shape in ((n,), (n, 1)))
    if not ctx.check(shape_ok, 'amp.length', lambda: W(got_shape=list(got.shape)),
                     'amplitude series has shape %s for a record of %d samples and %d exponents' % (got.shape, n, len(bs))):
        return
    got2 = got.reshape(n, -1)
    mono = bool(np.all(np.isfinite(got2))) and bool(np.all(np.diff(got2, axis=0) >= -1e-14 * np.max(got2, axis=0)))
    ctx.check(mono, 'amp.nondecreasing', lambda: W(got=got), 'amplitude series decreases or is not finite')
    for j, bj in enumerate(bs):
        first = None
        ok = False
        for ref in _amp_refs(n, [peaks], n_cyc, bj):
            ok, idx, e, a = tol.worst(got2[:, j], ref, scale=np.abs(ref), rtol=_rt(bj))
            if first is None:
                first = (ref, idx, e, a)
            if ok:
                break
        ctx.check(ok, 'amp==reference', lambda: W(column=j, expected=first[0], got=got2[:, j]),
                  'A(i) != (1/2*sum|p|^(1/b)/n_cyc)^b: at %s |diff|=%.3g allowed=%.3g (n_cyc=%r b=%r series %s)'
                  % (first[1], first[2], first[3], n_cyc, bj, vals[:10]))


def check_gm(ctx, values0, values1, n_cyc, b, result):
    c = _amp_common(ctx, 'gm', [values0, values1], n_cyc, b)
    if c is None:
        return
    (d0, d1), bs, is_arr = c
    n = len(d0[0])
    n_cyc = float(n_cyc)
    got = np.asarray(result, dtype=float)
    W = lambda **kw: _wit(GM, values0=values0, values1=values1, n_cyc=n_cyc, b=b, **kw)
    shape_ok = got.shape == (n, len(bs)) or (not is_arr and got.shape in ((n,), (n, 1)))
    if not ctx.check(shape_ok, 'gm.length', lambda: W(got_shape=list(got.shape)), 'gm amplitude series has shape %s' % (got.shape,)):
        return
    got2 = got.reshape(n, -1)
    for j, bj in enumerate(bs):
        first = None
        ok = False
        for wh in _wheres('amp', True):
            a0 = np.array(C.cyc_amp_series(n, [d0[1]], n_cyc, bj, wh))
            a1 = np.array(C.cyc_amp_series(n, [d1[1]], n_cyc, bj, wh))
            ref = np.sqrt(a0) * np.sqrt(a1)      # the geometric mean itself: the product a0*a1 may under/overflow
            ok, idx, e, a = tol.worst(got2[:, j], ref, scale=np.abs(ref), rtol=_rt(bj))
            if first is None:
                first = (ref, idx, e, a)
            if ok:
                break
        ctx.check(ok, 'gm==sqrt(amp0*amp1)', lambda: W(column=j, expected=first[0], got=got2[:, j]),
                  'geometric-mean amplitude != sqrt(A0*A1): at %s |diff|=%.3g allowed=%.3g (n_cyc=%r b=%r)'
                  % (first[1], first[2], first[3], n_cyc, bj))


def check_comb(ctx, values0, values1, n_cyc, b, result):
    if _bs(b)[1]:            # 1-D array / list / tuple; a 0-d array is a scalar form of b (round 5, item 28)
        ctx.observe('combined: array b (documented as float; not judged)')
        return
    c = _amp_common(ctx, 'combined', [values0, values1], n_cyc, b)
    if c is None:
        return
    (d0, d1), bs, _ = c
    n = len(d0[0])
    n_cyc = float(n_cyc)
    bj = bs[0]
    got = np.asarray(result, dtype=float)
    W = lambda **kw: _wit(COMB, values0=values0, values1=values1, n_cyc=n_cyc, b=b, **kw)
    if not ctx.check(got.shape in ((n,), (n, 1)), 'combined.length', lambda: W(got_shape=list(got.shape)),
                     'combined amplitude series has shape %s' % (got.shape,)):
        return
    g = got.reshape(n)
    mono = bool(np.all(np.isfinite(g))) and bool(np.all(np.diff(g) >= -1e-14 * np.max(g)))
    ctx.check(mono, 'combined.nondecreasing', lambda: W(got=got), 'combined amplitude series decreases or is not finite')
    first = None
    ok = False
    for ref in _amp_refs(n, [d0[1], d1[1]], n_cyc, bj, 'comb'):
        ok, idx, e, a = tol.worst(g, ref, scale=np.abs(ref), rtol=_rt(bj))
        if first is None:
            first = (ref, idx, e, a)
        if ok:
            break
    ctx.check(ok, 'combined==reference', lambda: W(expected=first[0], got=g),
              'combined amplitude != (1/2*sum(|p0|^(1/b)+|p1|^(1/b))/n_cyc)^b: at %s |diff|=%.3g allowed=%.3g (n_cyc=%r b=%r)'
              % (first[1], first[2], first[3], n_cyc, bj))


def _arg(args, kwargs, i, name, default=None):
    if len(args) > i:
        return args[i]
    return kwargs.get(name, default)


NAMES = {DELTA: ('values',), PSEUDO: ('values',), NCYC: ('values', 'a_ref', 'b', 'cut_off'), AMP: ('values', 'n_cyc', 'b'),
         GM: ('values0', 'values1', 'n_cyc', 'b'), COMB: ('values0', 'values1', 'n_cyc', 'b')}


# -- argument purity: every array / list argument bit-for-bit unchanged by the call -----------------------------------
def _snap(a):
    if isinstance(a, np.ndarray):
        return (a.dtype.str, a.shape, a.tobytes())
    if isinstance(a, list):
        return list(a)
    return None


def _pre(args, kwargs):
    return [_snap(a) for a in args], {k: _snap(v) for k, v in kwargs.items()}


def _unchanged(a, sn):
    if sn is None:
        return True
    if isinstance(a, np.ndarray):
        return (a.dtype.str, a.shape) == sn[:2] and a.tobytes() == sn[2]
    return len(a) == len(sn) and all(type(u) is type(v) and u == v for u, v in zip(a, sn))


def _restore(a, sn):
    if sn is None:
        return a
    if isinstance(a, np.ndarray):
        return np.frombuffer(sn[2], dtype=sn[0]).reshape(sn[1]).copy()
    return list(sn)


def _purity(fname, args, kwargs, pre):
    """True when every argument still holds the bits it had at call entry (only then are the values judged)."""
    if pre is None:
        return True
    ps, pk = pre
    if all(_unchanged(a, sn) for a, sn in zip(args, ps)) and all(_unchanged(kwargs[k], pk[k]) for k in kwargs):
        CTX.ok('args.unchanged')
        return True
    w = {'fn': fname}
    for i, (a, sn) in enumerate(zip(args, ps)):
        w[NAMES[fname][i]] = _restore(a, sn)
    for k in kwargs:
        w[k] = _restore(kwargs[k], pk[k])
    CTX.violation('args.unchanged', w, '%s modified one of its arguments' % fname)
    return False


def _onex_for(fname):
    """Purity on the exception path (audit item 24): a call that raises must leave its arguments as they were."""
    def onex(args, kwargs, exc, pre):
        if pre is None or isinstance(exc, (KeyboardInterrupt, SystemExit, MemoryError)):
            return
        ps, pk = pre
        if all(_unchanged(a, sn) for a, sn in zip(args, ps)) and all(_unchanged(kwargs[k], pk[k]) for k in kwargs):
            CTX.ok('args.unchanged-after-raise')
            return
        w = {'fn': 'raised-call', 'fname': fname, 'args': [_restore(a, sn) for a, sn in zip(args, ps)],
             'kwargs': {k: _restore(kwargs[k], pk[k]) for k in kwargs}, 'raised': repr(exc)}
        CTX.violation('args.unchanged-after-raise', w, '%s raised %r and left one of its arguments modified' % (fname, exc))
    return onex


def _post_delta(args, kwargs, result, pre):
    if not _purity(DELTA, args, kwargs, pre):
        return
    check_delta(CTX, _arg(args, kwargs, 0, 'values'), result)


def _post_pseudo(args, kwargs, result, pre):
    if not _purity(PSEUDO, args, kwargs, pre):
        return
    check_pseudo(CTX, _arg(args, kwargs, 0, 'values'), result)


def _post_ncyc(args, kwargs, result, pre):
    if not _purity(NCYC, args, kwargs, pre):
        return
    check_ncyc(CTX, _arg(args, kwargs, 0, 'values'), _arg(args, kwargs, 1, 'a_ref'), _arg(args, kwargs, 2, 'b'),
               _arg(args, kwargs, 3, 'cut_off', 0.01), result)


def _post_amp(args, kwargs, result, pre):
    if not _purity(AMP, args, kwargs, pre):
        return
    check_amp(CTX, _arg(args, kwargs, 0, 'values'), _arg(args, kwargs, 1, 'n_cyc'), _arg(args, kwargs, 2, 'b'), result)


def _post_gm(args, kwargs, result, pre):
    if not _purity(GM, args, kwargs, pre):
        return
    check_gm(CTX, _arg(args, kwargs, 0, 'values0'), _arg(args, kwargs, 1, 'values1'), _arg(args, kwargs, 2, 'n_cyc'),
             _arg(args, kwargs, 3, 'b'), result)


def _post_comb(args, kwargs, result, pre):
    if not _purity(COMB, args, kwargs, pre):
        return
    check_comb(CTX, _arg(args, kwargs, 0, 'values0'), _arg(args, kwargs, 1, 'values1'), _arg(args, kwargs, 2, 'n_cyc'),
               _arg(args, kwargs, 3, 'b'), result)


def install(ctx):
    global CTX
    CTX = ctx
    import eqsig
    pc = eqsig.fns.peaks_and_crossings
    attach.wrap(pc, DELTA, _post_delta, pre=_pre, on_exception=_onex_for(DELTA))
    attach.wrap(pc, PSEUDO, _post_pseudo, pre=_pre, on_exception=_onex_for(PSEUDO))
    attach.wrap(eqsig.im, NCYC, _post_ncyc, pre=_pre, on_exception=_onex_for(NCYC))
    attach.wrap(eqsig.im, AMP, _post_amp, pre=_pre, on_exception=_onex_for(AMP))
    attach.wrap(eqsig.im, GM, _post_gm, pre=_pre, on_exception=_onex_for(GM))
    attach.wrap(eqsig.im, COMB, _post_comb, pre=_pre, on_exception=_onex_for(COMB))
    _probe_conventions(eqsig, ctx)


# every probe has an excursion whose maximum is attained by several samples, so that 'first' and 'last' give different series
PROBES = (np.array([1.0, 0.5, 1.0, -2.0, -2.0, 0.0, 3.0, 3.0, 1.0, 3.0]), np.array([2.0, 2.0, 2.0]),
          np.array([0, -1, -1, -1, 0, 1, 0, 1, 0], dtype=np.int64), np.array([-3.0, 1.0, 1.0]), [0.5, 0.5])


def _probe_conventions(eqsig, ctx):
    """Audit item 33: fix the tie placement ('first' / 'last' sample attaining the maximum of an excursion) of THIS tree from
    probe records, separately for the cycle count, the amplitude and the combined amplitude. The probe calls run through the
    monitored functions (judged two-sided, CONV not yet set). Probes that disagree among themselves are a violation; a
    probe matching neither convention has already been reported by the monitors (CONV stays open)."""
    for k in CONV:
        CONV[k] = None
    seen = {'ncyc': [], 'amp': [], 'comb': []}
    im = eqsig.im
    for pr in PROBES:
        vals = [float(v) for v in pr]
        pk = C.excursion_peaks(vals)
        n = len(vals)
        for key, call, ref in (
                ('ncyc', lambda: im.calc_n_cyc_array_w_power_law(pr, 1.5, 0.5, 0.0), lambda wh: C.n_cyc_series(n, pk, 1.5, 0.5, None, True, wh)),
                ('amp', lambda: im.calc_cyc_amp_array_w_power_law(pr, 2.0, 0.5), lambda wh: C.cyc_amp_series(n, [pk], 2.0, 0.5, wh)),
                ('comb', lambda: im.calc_cyc_amp_combined_arrays_w_power_law(pr, _copy(pr), 2.0, 0.5),
                 lambda wh: C.cyc_amp_series(n, [pk, pk], 2.0, 0.5, wh))):
            try:
                got = np.asarray(call(), dtype=float).reshape(-1)
            except Exception:
                seen[key].append(frozenset())
                continue
            m = []
            for wh in ('first', 'last'):
                r = np.array(ref(wh))
                if got.shape == r.shape and tol.close(got, r, scale=np.abs(r), rtol=1e-9):
                    m.append(wh)
            seen[key].append(frozenset(m))
    for key, ms in seen.items():
        if any(not m for m in ms):
            ctx.observe('tie placement of %s left open: a probe matches neither convention (see the monitors)' % key)
            continue
        common = frozenset(('first', 'last')).intersection(*ms)
        if ctx.check(bool(common), 'tie-placement: one convention per tree',
                     lambda: {'fn': 'rel:probe', 'function': key, 'matched': [sorted(m) for m in ms]},
                     '%s: the probe records %s follow different conventions for the sample at which a tied maximum is counted: %s'
                     % (key, [list(np.asarray(q).tolist()) for q in PROBES], [sorted(m) for m in ms])):
            CONV[key] = 'first' if 'first' in common else 'last'
        else:
            CONV[key] = sorted(ms[0])[0]        # the convention of the first (non-degenerate) probe judges every later call


# ------------------------------------------------------------------------------------------------ monitored calls
_STYLE = {'n': 0, 'force': None}


def _style():
    """0 = positional, 1 = everything by keyword (every third driver call), 2 = positional with the optional cut_off by
    keyword; replay forces each style in turn."""
    if _STYLE['force'] is not None:
        return _STYLE['force']
    _STYLE['n'] += 1
    return 1 if _STYLE['n'] % 3 == 0 else (0 if _STYLE['n'] % 2 else 2)


def _by_keyword():
    return _style() == 1


def _series_fn(eqsig, ctx, fname, x):
    try:
        f = getattr(eqsig, fname)
        return np.asarray(f(values=x) if _by_keyword() else f(x))
    except Exception as e:
        ctx.exception(('delta' if fname == DELTA else 'pseudo') + '.length', _wit(fname, values=x), e)
        return None


def _ncyc(eqsig, ctx, x, a_ref, b, cut_off):
    seq = isinstance(x, (list, tuple))
    try:
        f = eqsig.im.calc_n_cyc_array_w_power_law
        k = _style()
        r = f(values=x, a_ref=a_ref, b=b, cut_off=cut_off) if k == 1 else \
            (f(x, a_ref, b, cut_off) if k == 0 else f(x, a_ref, b, cut_off=cut_off))
        r = np.asarray(r, dtype=float)
    except Exception as e:
        # python sequences are "array_like" too: their own clauses, so that the evidence shows how often they were tried
        clause = 'ncyc.accepts-sequences' if seq else ('b.accepts-sequences' if isinstance(b, (list, tuple)) else 'ncyc==reference')
        ctx.exception(clause, _wit(NCYC, values=x, a_ref=a_ref, b=b, cut_off=cut_off), e)
        return None
    if seq:
        ctx.ok('ncyc.accepts-sequences')
    if isinstance(b, (list, tuple)):
        ctx.ok('b.accepts-sequences')
    return r


def _amp(eqsig, ctx, x, n_cyc, b):
    try:
        f = eqsig.im.calc_cyc_amp_array_w_power_law
        r = np.asarray(f(values=x, n_cyc=n_cyc, b=b) if _by_keyword() else f(x, n_cyc, b), dtype=float)
    except Exception as e:
        ctx.exception('b.accepts-sequences' if isinstance(b, (list, tuple)) else 'amp==reference', _wit(AMP, values=x, n_cyc=n_cyc, b=b), e)
        return None
    if isinstance(b, (list, tuple)):
        ctx.ok('b.accepts-sequences')
    return r


def _gm(eqsig, ctx, x, y, n_cyc, b):
    try:
        f = eqsig.im.calc_cyc_amp_gm_arrays_w_power_law
        r = np.asarray(f(values0=x, values1=y, n_cyc=n_cyc, b=b) if _by_keyword() else f(x, y, n_cyc, b), dtype=float)
    except Exception as e:
        ctx.exception('b.accepts-sequences' if isinstance(b, (list, tuple)) else 'gm==sqrt(amp0*amp1)',
                      _wit(GM, values0=x, values1=y, n_cyc=n_cyc, b=b), e)
        return None
    if isinstance(b, (list, tuple)):
        ctx.ok('b.accepts-sequences')
    return r


def _comb(eqsig, ctx, x, y, n_cyc, b):
    try:
        f = eqsig.im.calc_cyc_amp_combined_arrays_w_power_law
        return np.asarray(f(values0=x, values1=y, n_cyc=n_cyc, b=b) if _by_keyword() else f(x, y, n_cyc, b), dtype=float)
    except Exception as e:
        ctx.exception('combined==reference', _wit(COMB, values0=x, values1=y, n_cyc=n_cyc, b=b), e)
        return None


def _invoke(eqsig, ctx, fname, x, params):
    """Call one of the six functions; params = the arguments after the first record."""
    if fname in (DELTA, PSEUDO):
        return _series_fn(eqsig, ctx, fname, x)
    if fname == NCYC:
        return _ncyc(eqsig, ctx, x, *params)
    if fname == AMP:
        return _amp(eqsig, ctx, x, *params)
    return (_gm if fname == GM else _comb)(eqsig, ctx, x, *params)


def _scaled(x, alpha):
    if isinstance(x, np.ndarray):
        return x * alpha
    return type(x)(v * alpha for v in x)


def _shifted(x, c):
    if isinstance(x, np.ndarray):
        return x + c
    return type(x)(v + c for v in x)


def _copy(x):
    return x.copy() if isinstance(x, np.ndarray) else type(x)(x)


# ------------------------------------------------------------------------------------------------- trace relations
def rel_shift(eqsig, ctx, fname, x, c):
    """f(x) == f(x + c)."""
    short = 'delta' if fname == DELTA else 'pseudo'
    xs = _shifted(x, c)
    v0 = np.asarray(x, dtype=float)
    v1 = np.asarray(xs, dtype=float)
    if v0.min() == v0.max():
        return
    d0 = np.diff(v0)
    exact = bool(np.array_equal(d0, np.diff(v1)))
    u = float(np.spacing(max(np.max(np.abs(v0)), np.max(np.abs(v1)))))
    ad = np.abs(d0)
    if not exact and float(ad[ad > 0].min()) < 1e3 * u:
        # the rounding of x + c may merge samples (even flatten the whole series): not the same series any more
        ctx.observe('shift: inexact shift with steps < 1000 ulps (not judged)')
        return
    r0 = _series_fn(eqsig, ctx, fname, x)
    r1 = _series_fn(eqsig, ctx, fname, xs)
    if r0 is None or r1 is None:
        return
    tv = P.total_variation(v0.tolist())
    allowed = 1e-9 * tv + (0.0 if exact else 8 * u)
    ok = r0.shape == r1.shape and float(np.max(np.abs(r0.astype(float) - r1.astype(float)))) <= allowed
    ctx.check(ok, short + '.shift-invariant', lambda: _wit('rel:shift', fname=fname, x=x, c=c, f_x=r0, f_shifted=r1),
              '%s changes under the constant shift %r: %s -> %s vs %s' % (fname, c, v0[:10].tolist(), r0[:10].tolist(), r1[:10].tolist()))


def _in_range(ctx, name, series, b, div=1.0):
    """Relations are judged only where the monitors judge: all powers (|p|/div)^(1/b) inside [1e-280, 1e280]."""
    bs = _bs(b)[0]
    for v in series:
        dom = _domain(v)
        if dom is None or bs is None or not _range_ok(dom[1], div, bs):
            ctx.observe('%s: constant / out-of-domain series or powers outside [1e-280,1e280] (not judged)' % name)
            return False
    return True


def rel_dtype(eqsig, ctx, fname, xi, params):
    """f(integer container) == f(float64 array of the same numbers)."""
    xf = np.asarray(xi, dtype=float)
    W = lambda **kw: _wit('rel:dtype', fname=fname, xi=xi, params=params, **kw)
    if fname == NCYC and not _in_range(ctx, 'dtype', [xf], params[1], params[0]):
        return
    if fname == AMP and not _in_range(ctx, 'dtype', [xf], params[1]):
        return
    if fname in (GM, COMB) and not _in_range(ctx, 'dtype', [xf, np.asarray(params[0], dtype=float)], params[2]):
        return
    pf = list(params)
    if fname in (GM, COMB):
        pf[0] = np.asarray(pf[0], dtype=float)
    ri, rf = _invoke(eqsig, ctx, fname, xi, params), _invoke(eqsig, ctx, fname, xf, pf)
    if ri is None or rf is None:
        return
    ri = np.asarray(ri, dtype=float)
    rf = np.asarray(rf, dtype=float)
    ok = ri.shape == rf.shape and tol.close(ri, rf, scale=np.abs(rf), rtol=1e-12)
    ctx.check(ok, 'int-input==float-input', lambda: W(f_int=ri, f_float=rf),
              '%s differs between integer input (%s) and the same numbers as float64: %s'
              % (fname, type(xi).__name__, tol.describe(ri, rf, scale=np.abs(rf), rtol=1e-12) if ri.shape == rf.shape else 'shapes'))


def rel_inverse(eqsig, ctx, x, a_ref, b, cut_off, at=None):
    """amp(x, N = cycles(x, a_ref)[i], b)[i] == a_ref (cut_off = 0) / a_ref*(S_all/S_kept)^b (cut_off > 0); i = last or at."""
    dom = _domain(x)
    if dom is None or not _range_ok(dom[1], a_ref, [b]) or not _range_ok(dom[1], 1.0, [b]):
        ctx.observe('inverse: out-of-domain / out-of-range case (not judged)')
        return
    vals, peaks = dom
    n = len(vals)
    N = _ncyc(eqsig, ctx, x, a_ref, b, cut_off)
    if N is None:
        return
    i = n - 1 if at is None else int(at)
    clause = 'inverse(cut_off=0)' if cut_off == 0 else 'inverse(cut_off>0)==a_ref*(S_all/S_kept)^b'
    W = lambda **kw: _wit('rel:inverse', x=x, a_ref=a_ref, b=b, cut_off=cut_off, at=at, **kw)
    if N.shape[0] != n:
        return      # reported by ncyc.length
    Ni = float(N.reshape(n, -1)[i, 0])
    if not (Ni > 0 and math.isfinite(Ni)):
        if at is None:
            ctx.violation(clause, W(N=Ni), 'cycles(a_ref) ends at %r for a non-constant series' % Ni)
        return
    if not _range_ok(peaks, Ni ** b, [b]):
        # the amplitude formula forms |p|^(1/b) / N = (|p| / N^b)^(1/b): same range of validity as every other power
        ctx.observe('inverse: powers |p|^(1/b)/N outside [1e-280,1e280] (not judged)')
        return
    A = _amp(eqsig, ctx, x, Ni, b)
    if A is None or A.shape[0] != n:
        return
    Ai = float(A.reshape(n, -1)[i, 0])
    rt = _rt(b)
    if cut_off == 0:
        exps = [a_ref]
    else:
        if at is not None:
            return
        gmax = max(m for (_f, _l, m) in peaks)
        flags = C.keep_flags(peaks, gmax, cut_off)
        s_all, s_keep, s_keep_edge = C.power_sums(peaks, b, flags)
        exps = [a_ref * (s_all / s_keep) ** b]
        if s_keep_edge != s_keep:
            exps.append(a_ref * (s_all / s_keep_edge) ** b)
    ok = any(abs(Ai - e) <= rt * e for e in exps)
    ctx.check(ok, clause, lambda: W(N=Ni, amp=Ai, expected=exps),
              'amp(N=cycles(a_ref=%r)[%d]=%r)[%d] = %r, expected %r (b=%r cut_off=%r series %s)'
              % (a_ref, i, Ni, i, Ai, exps, b, cut_off, vals[:10]))


def _scaling_judgeable(ctx, dom, doms, name):
    """An inexact scaling may merge samples that differ by an ulp and thereby move a peak: such pairs are not judged."""
    if dom is None or doms is None:
        ctx.observe('%s: constant / out-of-domain series (not judged)' % name)
        return False
    if [(f, l) for (f, l, _m) in dom[1]] != [(f, l) for (f, l, _m) in doms[1]]:
        ctx.observe('%s: scaling merged adjacent values and moved a peak (not judged)' % name)
        return False
    return True


def rel_amp_scale(eqsig, ctx, x, n_cyc, b, alpha):
    """amp(alpha*x) == alpha*amp(x)."""
    xs = _scaled(x, alpha)
    dom, doms = _domain(x), _domain(xs)
    if not _scaling_judgeable(ctx, dom, doms, 'amp-scale'):
        return
    if not (_range_ok(dom[1], 1.0, [b]) and _range_ok(doms[1], 1.0, [b])):
        ctx.observe('amp-scale: powers outside [1e-280,1e280] (not judged)')
        return
    A1 = _amp(eqsig, ctx, x, n_cyc, b)
    A2 = _amp(eqsig, ctx, xs, n_cyc, b)
    if A1 is None or A2 is None:
        return
    ref = alpha * A1
    rt = _rt(b)
    ok = A1.shape == A2.shape and tol.close(A2, ref, scale=np.abs(ref), rtol=rt)
    ctx.check(ok, 'amp.scales-linearly', lambda: _wit('rel:amp_scale', x=x, n_cyc=n_cyc, b=b, alpha=alpha, amp=A1, amp_scaled=A2),
              'amp(%r*x) != %r*amp(x): %s (n_cyc=%r b=%r)' % (alpha, alpha, tol.describe(A2, ref, scale=np.abs(ref), rtol=rt)
                                                            if A1.shape == A2.shape else 'shapes', n_cyc, b))


def rel_ncyc_scale(eqsig, ctx, x, a_ref, b, cut_off, alpha):
    """cycles(alpha*x, alpha*a_ref) == cycles(x, a_ref)."""
    dom = _domain(x)
    xs = _scaled(x, alpha)
    doms = _domain(xs)
    if not _scaling_judgeable(ctx, dom, doms, 'ncyc-scale'):
        return
    vals, peaks = dom
    if not (_range_ok(peaks, a_ref, [b]) and _range_ok(doms[1], a_ref * alpha, [b])):
        ctx.observe('ncyc-scale: powers outside [1e-280,1e280] (not judged)')
        return
    if cut_off > 0:
        # keep clear of the cut-off knife edge, which an inexact scaling may cross
        for (v, pk) in (dom, doms):
            gmax = max(m for (_f, _l, m) in pk)
            if any(abs(m - cut_off * gmax) <= 1e-9 * cut_off * gmax for (_f, _l, m) in pk):
                ctx.observe('ncyc-scale: peak on the cut-off knife edge (not judged)')
                return
    N1 = _ncyc(eqsig, ctx, x, a_ref, b, cut_off)
    N2 = _ncyc(eqsig, ctx, xs, a_ref * alpha, b, cut_off)
    if N1 is None or N2 is None:
        return
    rt = _rt(b)
    n = len(vals)
    ok = N1.shape == N2.shape and N1.shape[0] == n and tol.close(N2, N1, scale=np.abs(N1), rtol=rt)
    ctx.check(ok, 'ncyc.joint-scaling-invariant',
              lambda: _wit('rel:ncyc_scale', x=x, a_ref=a_ref, b=b, cut_off=cut_off, alpha=alpha, N=N1, N_scaled=N2),
              'cycles(%r*x, %r*a_ref) != cycles(x, a_ref): final %r vs %r (a_ref=%r b=%r cut_off=%r series %s)'
              % (alpha, alpha, float(N2.ravel()[-1]), float(N1.ravel()[-1]), a_ref, b, cut_off, vals[:10]))


def rel_identical(eqsig, ctx, x, n_cyc, b):
    """combined(x, x) == 2^b * amp(x);  gm(x, x) == amp(x)."""
    if not _in_range(ctx, 'identical', [x], b):
        return
    A1 = _amp(eqsig, ctx, x, n_cyc, b)
    if A1 is None:
        return
    if not hasattr(b, '__len__'):
        Ac = _comb(eqsig, ctx, x, x if len(x) % 2 else _copy(x), n_cyc, b)      # the SAME object for both parameters / a copy
        if Ac is not None:
            ref = 2.0 ** b * A1
            ok = Ac.shape == ref.shape and tol.close(Ac, ref, scale=np.abs(ref), rtol=_rt(b))
            ctx.check(ok, 'combined(x,x)==2^b*amp(x)', lambda: _wit('rel:identical', x=x, n_cyc=n_cyc, b=b, amp=A1, combined=Ac),
                      'combined(x,x) != 2^b*amp(x): %s (n_cyc=%r b=%r)'
                      % (tol.describe(Ac, ref, scale=np.abs(ref), rtol=_rt(b)) if Ac.shape == ref.shape else 'shapes', n_cyc, b))
    Ag = _gm(eqsig, ctx, x, _copy(x) if len(x) % 2 else x, n_cyc, b)
    if Ag is not None:
        ok = Ag.shape == A1.shape and bool(np.all(np.abs(Ag - A1) <= 4 * np.spacing(np.abs(A1))))
        ctx.check(ok, 'gm(x,x)==amp(x)', lambda: _wit('rel:identical', x=x, n_cyc=n_cyc, b=b, amp=A1, gm=Ag),
                  'gm(x,x) != amp(x): %s (n_cyc=%r b=%r)'
                  % (tol.describe(Ag, A1, scale=np.abs(A1), rtol=1e-15) if Ag.shape == A1.shape else 'shapes', n_cyc, b))


def rel_two(eqsig, ctx, x, y, n_cyc, b):
    """gm(x, y) == sqrt(amp(x)*amp(y)) over the recorded executions; combined(x, y) is judged by its monitor."""
    if not _in_range(ctx, 'two-component', [x, y], b):
        return
    A0 = _amp(eqsig, ctx, x, n_cyc, b)
    A1 = _amp(eqsig, ctx, y, n_cyc, b)
    G = _gm(eqsig, ctx, x, y, n_cyc, b)
    if not hasattr(b, '__len__'):
        _comb(eqsig, ctx, x, y, n_cyc, b)
    if A0 is None or A1 is None or G is None:
        return
    ref = np.sqrt(A0) * np.sqrt(A1)
    rt = max(_rt(v) for v in _bs(b)[0])
    ok = G.shape == ref.shape and tol.close(G, ref, scale=np.abs(ref), rtol=rt)
    ctx.check(ok, 'gm(x,y)==sqrt(amp(x)*amp(y))', lambda: _wit('rel:two', x=x, y=y, n_cyc=n_cyc, b=b, amp0=A0, amp1=A1, gm=G),
              'gm(x,y) != sqrt(amp(x)*amp(y)): %s (n_cyc=%r b=%r)'
              % (tol.describe(G, ref, scale=np.abs(ref), rtol=rt) if G.shape == ref.shape else 'shapes', n_cyc, b))


def rel_bcols(eqsig, ctx, x, a_ref, n_cyc, bvec, cut_off, j):
    """Column j of the array-b results == the scalar-b results for bvec[j]."""
    if not (_in_range(ctx, 'array-b', [x], bvec) and _in_range(ctx, 'array-b', [x], bvec, a_ref)):
        return
    n = len(x)
    bj = float(bvec[j])
    Nv = _ncyc(eqsig, ctx, x, a_ref, bvec, cut_off)
    Ns = _ncyc(eqsig, ctx, x, a_ref, bj, cut_off)
    Av = _amp(eqsig, ctx, x, n_cyc, bvec)
    As = _amp(eqsig, ctx, x, n_cyc, bj)
    W = lambda **kw: _wit('rel:bcols', x=x, a_ref=a_ref, n_cyc=n_cyc, bvec=bvec, cut_off=cut_off, j=j, **kw)
    if Nv is not None and Ns is not None:
        ok = Nv.shape == (n, len(bvec)) and Ns.size == n and tol.close(Nv[:, j], Ns.reshape(n), scale=np.abs(Ns.reshape(n)), rtol=1e-12)
        ctx.check(ok, 'array-b column==scalar-b', lambda: W(which='ncyc', col=Nv[:, j] if Nv.ndim == 2 else Nv, scalar=Ns),
                  'cycles: column %d of array b %s differs from scalar b=%r' % (j, list(bvec), bj))
    if Av is not None and As is not None:
        ok = Av.shape == (n, len(bvec)) and As.size == n and tol.close(Av[:, j], As.reshape(n), scale=np.abs(As.reshape(n)), rtol=1e-12)
        ctx.check(ok, 'array-b column==scalar-b', lambda: W(which='amp', col=Av[:, j] if Av.ndim == 2 else Av, scalar=As),
                  'amplitude: column %d of array b %s differs from scalar b=%r' % (j, list(bvec), bj))


def rel_enum(eqsig, ctx, fname, seq, k, with_int=True):
    """One member of the enumerated alphabet: f on the float64 array, on the integer container (int64 array, every 5th a
    list) and on the series shifted by -2 (which moves the first value across zero for part of the alphabet; float and
    integer shifts alternate); then f(int) == f(float) and f(shifted) == f(unshifted)."""
    short = 'delta' if fname == DELTA else 'pseudo'
    xf = np.array(seq, dtype=float)
    xi = np.array(seq, dtype=np.int64) if k % 5 else list(seq)
    xs = _shifted(xf, -2.0) if k % 2 else _shifted(xi, -2)
    if not with_int:        # quick tier, longest sequences: float64 and shifted float64 only
        k |= 1
        xs = _shifted(xf, -2.0)
    rf = _series_fn(eqsig, ctx, fname, xf)
    ri = _series_fn(eqsig, ctx, fname, xi) if with_int else None
    rs = _series_fn(eqsig, ctx, fname, xs)
    W = lambda **kw: _wit('rel:enum', fname=fname, seq=list(seq), k=k, with_int=with_int, **kw)
    if rf is not None and ri is not None:
        ctx.check(rf.shape == ri.shape and bool(np.all(rf == ri)), 'int-input==float-input', lambda: W(f_int=ri, f_float=rf),
                  '%s differs between integer input %s -> %s and float input -> %s' % (fname, list(seq), ri.tolist(), rf.tolist()))
    base = rf if k % 2 else ri
    if base is not None and rs is not None:
        ctx.check(base.shape == rs.shape and bool(np.all(base == rs)), short + '.shift-invariant',
                  lambda: W(f_x=base, f_shifted=rs),
                  '%s changes under the constant shift -2: %s -> %s vs %s' % (fname, list(seq), base.tolist(), rs.tolist()))


B_SIZES = (1, 2, 3, 5, 31, 32, 33, 63, 64, 65, 127, 128, 129, 256)


def draw_bvec(rng, nb):
    """Exponent array of nb entries in (0.05, 1]: unsorted, sometimes descending, sometimes with repeated entries."""
    r = rng.random()
    if r < 0.4 and nb > 1:
        pool = rng.uniform(0.0501, 1.0, size=max(1, nb // 3))
        bv = rng.choice(pool, size=nb)
    else:
        bv = rng.uniform(0.0501, 1.0, size=nb)
    if rng.random() < 0.3:
        bv = np.sort(bv)[::-1].copy()
    if rng.random() < 0.3:
        bv[int(rng.integers(nb))] = float(rng.choice([0.3, 0.34, 1.0]))
    return np.ascontiguousarray(bv, dtype=float)


def rel_bsizes(eqsig, ctx, x, y, a_ref, cut_off, n_cyc, bvec, perm, j):
    """Array-valued b of every size: all columns are judged by the monitors; one column against the scalar call; a
    permutation of the exponents must permute the columns."""
    if not (_in_range(ctx, 'b-sizes', [x, y], bvec) and _in_range(ctx, 'b-sizes', [x], bvec, a_ref)):
        return
    n = len(x)
    nb = len(bvec)
    perm = np.asarray(perm)
    bp = np.ascontiguousarray(bvec[perm])
    W = lambda **kw: _wit('rel:bsizes', x=x, y=y, a_ref=a_ref, cut_off=cut_off, n_cyc=n_cyc, bvec=bvec, perm=perm, j=j, **kw)
    for name, f in (('ncyc', lambda bb: _ncyc(eqsig, ctx, x, a_ref, bb, cut_off)), ('amp', lambda bb: _amp(eqsig, ctx, x, n_cyc, bb)),
                    ('gm', lambda bb: _gm(eqsig, ctx, x, y, n_cyc, bb))):
        R = f(bvec)
        Rp = f(bp)
        Rs = f(float(bvec[j]))
        if R is None or Rp is None or Rs is None:
            continue
        shp = R.shape == (n, nb) and Rp.shape == (n, nb) and Rs.size == n
        ok = shp and tol.close(Rp, R[:, perm], scale=np.abs(R[:, perm]), rtol=1e-12)
        ctx.check(ok, 'array-b permutation==column permutation', lambda: W(which=name, got=Rp, base=R),
                  '%s: permuting the %d exponents does not permute the columns (shapes %s %s)' % (name, nb, R.shape, Rp.shape))
        ok = shp and tol.close(R[:, j], Rs.reshape(n), scale=np.abs(Rs.reshape(n)), rtol=1e-12)
        ctx.check(ok, 'array-b column==scalar-b', lambda: W(which=name, col=R[:, j] if R.ndim == 2 else R, scalar=Rs),
                  '%s: column %d of an array b of %d entries differs from scalar b=%r' % (name, j, nb, float(bvec[j])))


ALL6 = (DELTA, PSEUDO, NCYC, AMP, GM, COMB)
REAL_FORMS = ('noncontig', 'reversed-view', 'readonly', 'list-float', 'tuple-float', 'mixed-list', 'float32', 'accsignal.values')
BOOL_FORMS = ('bool', 'list-bool', 'tuple-bool', 'list-npbool', 'noncontig-bool', 'readonly-bool')
INT_FORMS = ('int8', 'int16', 'int32', 'int64', 'uint8', 'uint16', 'int8-full', 'int16-full', 'int32-full', 'int64-full',
             'uint8-full', 'uint16-full', 'list-int', 'tuple-int', 'mixed-list', 'noncontig-int', 'readonly-int')


def make_forms(eqsig, label, x, y):
    """The two float64 records x, y re-expressed as another container / dtype (same conversion for both); None when the
    form cannot hold them. '-full' integer forms are scaled to ~90 % of the dtype's range (int64: of 2**52, so that the
    float64 twin holds the same numbers) - sums and products of neighbouring samples then exceed the dtype."""
    def both(f):
        return f(x), f(y)
    if label.endswith('bool'):      # round 5 (item 29): on/off records - the float64 twin is rebuilt from the form
        def f(v):
            m = np.asarray(v) > float(np.median(v))
            if label == 'list-bool':
                return [bool(u) for u in m]
            if label == 'tuple-bool':
                return tuple(bool(u) for u in m)
            if label == 'list-npbool':
                return list(m)
            if label == 'noncontig-bool':
                big = np.zeros(2 * len(m), dtype=bool)
                big[::2] = m
                return big[::2]
            if label == 'readonly-bool':
                m.flags.writeable = False
            return m
        return both(f)
    if label.startswith('noncontig'):
        def f(v):
            big = np.zeros(2 * len(v), dtype=np.int64 if label.endswith('int') else float)
            big[::2] = v
            return big[::2]
        return both(f)
    if label == 'reversed-view':
        return both(lambda v: v[::-1].copy()[::-1])
    if label.startswith('readonly'):
        def f(v):
            v = np.array(v, dtype=np.int64 if label.endswith('int') else float)
            v.flags.writeable = False
            return v
        return both(f)
    if label == 'list-float':
        return both(lambda v: [float(u) for u in v])
    if label == 'tuple-float':
        return both(lambda v: tuple(float(u) for u in v))
    if label == 'list-int':
        return both(lambda v: [int(u) for u in v])
    if label == 'tuple-int':
        return both(lambda v: tuple(int(u) for u in v))
    if label == 'mixed-list':
        return both(lambda v: [int(round(u)) if i % 2 == 0 else float(u) for i, u in enumerate(v)])
    if label == 'float32':
        m = max(float(np.max(np.abs(x))), float(np.max(np.abs(y))))
        if not 1e-30 < m < 1e30:
            return None
        with np.errstate(all='ignore'):
            return both(lambda v: v.astype(np.float32))
    if label == 'accsignal.values':
        return both(lambda v: eqsig.AccSignal(v, 0.01).values)
    name = label.split('-')[0]
    info = np.iinfo(name)
    xs, ys = x, y
    if name.startswith('u'):
        lo = min(float(x.min()), float(y.min()))
        xs, ys = x - lo, y - lo
    m = max(float(np.max(np.abs(xs))), float(np.max(np.abs(ys))))
    cap = min(int(info.max), 2 ** 52)
    if m == 0 or m > cap or not (np.all(xs == np.round(xs)) and np.all(ys == np.round(ys))):
        return None
    k = int(0.9 * cap // m) if label.endswith('-full') else 1
    if k < 1:
        return None
    fx, fy = (xs * k).astype(name), (ys * k).astype(name)
    if label.endswith('-full') and not name.startswith('u'):
        for f in (fx, fy):          # the most negative sample takes the dtype's minimum (whose abs() does not fit)
            if f.min() < 0:
                f[int(np.argmin(f))] = max(int(info.min), -cap)
    return fx, fy


def rel_form(eqsig, ctx, label, x, y, a_rel, b, cut_off, n_cyc):
    """Every function on the records held in another container / dtype: judged by the monitors and compared with the
    result for the contiguous float64 array of the same numbers."""
    try:
        forms = make_forms(eqsig, label, x, y)
    except Exception as e:
        ctx.exception('container-form==float64-array', _wit('rel:form', label=label, x=x, y=y, a_rel=a_rel, b=b, cut_off=cut_off, n_cyc=n_cyc), e)
        return
    if forms is None:
        ctx.observe('form %s cannot hold the drawn record (skipped)' % label)
        return
    fx, fy = forms
    bx, by = np.array(fx, dtype=float), np.array(fy, dtype=float)
    if bx.min() == bx.max() or by.min() == by.max():
        ctx.observe('form %s flattens the drawn record (skipped)' % label)
        return
    n = len(bx)
    a_ref = a_rel * float(np.max(np.abs(bx)))
    amp_ok = _in_range(ctx, 'form', [bx, by], b)
    ncyc_ok = _in_range(ctx, 'form', [bx], b, a_ref)
    for fname in ALL6:
        if (fname == NCYC and not ncyc_ok) or (fname in (AMP, GM, COMB) and not amp_ok):
            continue
        pf = {DELTA: [], PSEUDO: [], NCYC: [a_ref, b, cut_off], AMP: [n_cyc, b], GM: [fy, n_cyc, b], COMB: [fy, n_cyc, b]}[fname]
        pb = [by] + pf[1:] if fname in (GM, COMB) else pf
        rf = _invoke(eqsig, ctx, fname, fx, pf)
        rb = _invoke(eqsig, ctx, fname, bx, pb)
        if rf is None or rb is None:
            continue
        rf = np.asarray(rf, dtype=float)
        rb = np.asarray(rb, dtype=float)
        if fname in (DELTA, PSEUDO):
            ok = rf.shape == rb.shape and bool(np.all(rf == rb))
        else:
            rt = 1e-12
            ok = rf.reshape(n, -1).shape == rb.reshape(n, -1).shape and tol.close(rf.reshape(n, -1), rb.reshape(n, -1),
                                                                                  scale=np.abs(rb.reshape(n, -1)), rtol=rt)
        ctx.check(ok, 'container-form==float64-array',
                  lambda: _wit('rel:form', label=label, x=x, y=y, a_rel=a_rel, b=b, cut_off=cut_off, n_cyc=n_cyc, fname=fname,
                               f_form=rf, f_float64=rb),
                  '%s on the %s form of %s... differs from the float64 array of the same numbers: %s vs %s'
                  % (fname, label, bx[:8].tolist(), rf.ravel()[:8].tolist(), rb.ravel()[:8].tolist()))


def rel_b2b(eqsig, ctx, fname, x, px, y, py, tag=None):
    """Two different inputs of one shape back to back: the first result, still held, must not change when the second call
    runs (no shared scratch buffer), the results must not share memory, and repeating the first call reproduces it.
    tag (round 3, audit item 25): the second input has another shape / is the first with two interior samples exchanged
    (same length, ends, sum, extreme) / is the same record with exactly one option changed."""
    if fname == NCYC and not (_in_range(ctx, 'back-to-back', [x], px[1], px[0]) and _in_range(ctx, 'back-to-back', [y], py[1], py[0])):
        return
    if fname == AMP and not (_in_range(ctx, 'back-to-back', [x], px[1]) and _in_range(ctx, 'back-to-back', [y], py[1])):
        return
    if fname in (GM, COMB) and not (_in_range(ctx, 'back-to-back', [x, px[0]], px[2]) and _in_range(ctx, 'back-to-back', [y, py[0]], py[2])):
        return
    r1 = _invoke(eqsig, ctx, fname, x, px)
    if r1 is None:
        return
    keep = r1.copy()
    r2 = _invoke(eqsig, ctx, fname, y, py)
    r3 = _invoke(eqsig, ctx, fname, x, px)
    ok = r1.shape == keep.shape and r1.tobytes() == keep.tobytes()
    ok = ok and (r2 is None or not np.shares_memory(r1, r2))
    ok = ok and r3 is not None and r3.shape == keep.shape and r3.tobytes() == keep.tobytes()
    clause = 'result.stable-after-next-call' if tag is None else 'result.depends-on-arguments-only'
    ctx.check(ok, clause, lambda: _wit('rel:b2b', fname=fname, x=x, px=px, y=y, py=py, tag=tag, first=keep, first_after=r1, again=r3),
              '%s: the result for %s... changed after the next call (%s) / is not reproduced'
              % (fname, np.asarray(x, dtype=float)[:8].tolist(), tag or 'same shape'))


def _same(ctx, got, ref, what, wit):
    if got is None or ref is None:
        return
    n = ref.shape[0]
    ok = got.shape[0] == n and got.reshape(n, -1).shape == ref.reshape(n, -1).shape \
        and tol.close(got.reshape(n, -1), ref.reshape(n, -1), scale=np.abs(ref.reshape(n, -1)), rtol=1e-12)
    ctx.check(ok, 'option-form==plain-float', lambda: wit(which=what, got=got, expected=ref), 'option form %s changes the result' % what)


def rel_optform(eqsig, ctx, x, y, a_ref, b, b2, cut_off, n_cyc):
    """The numeric options in their other accepted forms (numpy scalars, 0-d arrays, python ints, list / tuple b)
    must give the result of the plain python floats / of the ndarray b."""
    W = lambda **kw: _wit('rel:optform', x=x, y=y, a_ref=a_ref, b=b, b2=b2, cut_off=cut_off, n_cyc=n_cyc, **kw)
    bv = np.array([b, b2])
    ai = max(1, int(round(a_ref))) if a_ref < 1e15 else None
    if not (_in_range(ctx, 'option-form', [x, y], [b, b2, 1.0]) and _in_range(ctx, 'option-form', [x], [b, b2, 1.0], a_ref)
            and (ai is None or _in_range(ctx, 'option-form', [x], [1.0], float(ai)))):
        return
    N = _ncyc(eqsig, ctx, x, a_ref, b, cut_off)
    A = _amp(eqsig, ctx, x, n_cyc, b)
    Cb = _comb(eqsig, ctx, x, y, n_cyc, b)
    G = _gm(eqsig, ctx, x, y, n_cyc, b)
    Nv = _ncyc(eqsig, ctx, x, a_ref, bv, cut_off)
    Av = _amp(eqsig, ctx, x, n_cyc, bv)
    Gv = _gm(eqsig, ctx, x, y, n_cyc, bv)
    f8 = np.float64
    _same(ctx, _ncyc(eqsig, ctx, x, f8(a_ref), f8(b), f8(cut_off)), N, 'ncyc(np.float64 scalars)', W)
    _same(ctx, _amp(eqsig, ctx, x, f8(n_cyc), f8(b)), A, 'amp(np.float64 scalars)', W)
    _same(ctx, _comb(eqsig, ctx, x, y, f8(n_cyc), f8(b)), Cb, 'combined(np.float64 scalars)', W)
    _same(ctx, _gm(eqsig, ctx, x, y, f8(n_cyc), f8(b)), G, 'gm(np.float64 scalars)', W)
    _same(ctx, _ncyc(eqsig, ctx, x, np.array(a_ref), np.array(b), np.array(cut_off)), N, 'ncyc(0-d arrays)', W)
    _same(ctx, _amp(eqsig, ctx, x, np.array(n_cyc), np.array(b)), A, 'amp(0-d arrays)', W)
    _same(ctx, _ncyc(eqsig, ctx, x, a_ref, [b, b2], cut_off), Nv, 'ncyc(b list)', W)
    _same(ctx, _ncyc(eqsig, ctx, x, a_ref, (b, b2), cut_off), Nv, 'ncyc(b tuple)', W)
    _same(ctx, _amp(eqsig, ctx, x, n_cyc, [b, b2]), Av, 'amp(b list)', W)
    _same(ctx, _amp(eqsig, ctx, x, n_cyc, (b, b2)), Av, 'amp(b tuple)', W)
    _same(ctx, _gm(eqsig, ctx, x, y, n_cyc, [b, b2]), Gv, 'gm(b list)', W)
    # python ints for integral option values; cut_off = 0 and b = 1 are the boundary values of the quantifier
    ni = max(1, int(round(n_cyc)))
    _same(ctx, _amp(eqsig, ctx, x, ni, 1), _amp(eqsig, ctx, x, float(ni), 1.0), 'amp(int n_cyc, int b=1)', W)
    _same(ctx, _comb(eqsig, ctx, x, y, ni, 1), _comb(eqsig, ctx, x, y, float(ni), 1.0), 'combined(int n_cyc, int b=1)', W)
    if ai is not None:
        _same(ctx, _ncyc(eqsig, ctx, x, ai, 1, 0), _ncyc(eqsig, ctx, x, float(ai), 1.0, 0.0), 'ncyc(int a_ref, int b=1, int cut_off=0)', W)


# ------------------------------------------------------------------------------ round 3 (audit items 24, 25, 26, 27)
REJECT_KINDS = {DELTA: ('constant', 'constant-list', 'zeros', 'len1', 'empty', 'nan', 'inf', '2d'),
                PSEUDO: ('constant', 'constant-list', 'zeros', 'len1', 'empty', 'nan', 'inf', '2d'),
                NCYC: ('nan', 'inf', '2d', 'b-none', 'b-empty', 'a_ref=0', 'empty'),
                AMP: ('nan', 'inf', '2d', 'b-none', 'b-empty', 'n_cyc=0', 'empty'),
                GM: ('short-second', 'long-second', 'short-second-list', 'long-first-list', 'nan-second', 'len1-second', 'b-none'),
                COMB: ('short-second', 'long-second', 'short-second-list', 'long-first-list', 'nan-second', 'len1-second', 'b-none')}


def _rejected_args(fname, x, px, kind):
    """Arguments of the call the clean code rejects or for which the statement promises nothing (built from the in-domain
    call (x, px) and the kind only, so that a witness replays)."""
    xa = np.array(x, dtype=float)
    n = len(xa)
    px = list(px)
    if kind == 'constant':
        return [np.full(n, xa[0])] + px
    if kind == 'constant-list':
        return [[float(xa[0])] * n] + px
    if kind == 'zeros':
        return [np.zeros(n)] + px
    if kind == 'len1':
        return [xa[:1].copy()] + px
    if kind == 'empty':
        return [np.array([], dtype=float)] + px
    if kind in ('nan', 'inf'):
        v = xa.copy()
        v[n // 2] = np.nan if kind == 'nan' else np.inf
        return [v] + px
    if kind == '2d':
        return [np.array([xa, xa])] + px
    if kind == 'b-none':
        return [x] + px[:-1] + [None] if fname != NCYC else [x, px[0], None, px[2]]
    if kind == 'b-empty':
        return [x] + px[:-1] + [[]] if fname != NCYC else [x, px[0], [], px[2]]
    if kind in ('a_ref=0', 'n_cyc=0'):
        return [x, 0.0] + px[1:]
    ya = np.array(px[0], dtype=float)
    if kind == 'short-second':
        return [x, ya[:max(1, n // 2)].copy()] + px[1:]
    if kind == 'long-second':
        return [x, np.concatenate([ya, ya[:3]])] + px[1:]
    if kind == 'short-second-list':
        return [xa.tolist(), ya[:max(1, n - 1)].tolist()] + px[1:]
    if kind == 'long-first-list':
        return [xa.tolist() + [0.5, -0.5], ya.tolist()] + px[1:]
    if kind == 'nan-second':
        v = ya.copy()
        v[n // 3] = np.nan
        return [x, v] + px[1:]
    if kind == 'len1-second':
        return [x, ya[:1].copy()] + px[1:]
    raise ValueError(kind)


def _raw(eqsig, fname):
    return getattr(eqsig, fname) if fname in (DELTA, PSEUDO) else getattr(eqsig.im, fname)


def rel_rejected(eqsig, ctx, fname, x, px, kind):
    """f(A); f(an input the clean code rejects, or one outside the statement, derived from A); f(A) - audit items 19 / 24.
    The arguments of the middle call are judged by the purity monitors on both paths (normal return: args.unchanged;
    raise: args.unchanged-after-raise); its value is not judged. The third result must be the first, bit for bit."""
    if fname == NCYC and not _in_range(ctx, 'rejected', [x], px[1], px[0]):
        return
    if fname == AMP and not _in_range(ctx, 'rejected', [x], px[1]):
        return
    if fname in (GM, COMB) and not _in_range(ctx, 'rejected', [x, px[0]], px[2]):
        return
    r1 = _invoke(eqsig, ctx, fname, x, px)
    if r1 is None:
        return
    keep = r1.copy()
    bad = _rejected_args(fname, x, px, kind)
    f = _raw(eqsig, fname)
    try:
        with np.errstate(all='ignore'):
            f(*bad) if _style() != 1 else f(**dict(zip(NAMES[fname], bad)))
        ctx.observe('rejected / out-of-statement input (%s): returned' % kind)
    except Exception:
        ctx.observe('rejected / out-of-statement input (%s): raised' % kind)
    r3 = _invoke(eqsig, ctx, fname, x, px)
    ok = r3 is not None and r1.tobytes() == keep.tobytes() and r3.shape == keep.shape and r3.tobytes() == keep.tobytes()
    ctx.check(ok, 'result.same-after-rejected-call', lambda: _wit('rel:rejected', fname=fname, x=x, px=px, kind=kind, first=keep, again=r3),
              '%s: the result for %s... differs after a rejected call (%s) in between' % (fname, np.asarray(x, dtype=float)[:8].tolist(), kind))


def _replay_raised(eqsig, ctx, w):
    try:
        _raw(eqsig, w['fname'])(*w['args'], **w.get('kwargs', {}))
    except Exception:
        pass


def _zeros_form(n, zform):
    return {'f64': np.zeros(n), 'int64': np.zeros(n, dtype=np.int64), 'list-int': [0] * n, 'list-float': [0.0] * n,
            'tuple-int': (0,) * n, 'negative-zeros': -np.zeros(n), 'float32': np.zeros(n, dtype=np.float32)}[zform]


ZERO_FORMS = ('f64', 'int64', 'list-int', 'list-float', 'tuple-int', 'negative-zeros', 'float32')


def rel_silent(eqsig, ctx, x, zform, a_ref, n_cyc, b, cut_off):
    """Silent (all-zero) records are valid input of the power-law functions (audit item 27): no half cycle, hence cycles == 0
    and amplitude == 0 at every sample; a silent second component adds nothing to the combined amplitude
    (combined(x, 0) == combined(0, x) == amp(x)) and makes the geometric mean vanish. The monitors judge every call too."""
    if not (_in_range(ctx, 'silent', [x], b) and _in_range(ctx, 'silent', [x], b, a_ref)):
        return
    n = len(x)
    z = _zeros_form(n, zform)
    W = lambda **kw: _wit('rel:silent', x=x, zform=zform, a_ref=a_ref, n_cyc=n_cyc, b=b, cut_off=cut_off, **kw)
    N = _ncyc(eqsig, ctx, z, a_ref, b, cut_off)
    A = _amp(eqsig, ctx, z, n_cyc, b)
    if N is not None and A is not None:
        ok = N.shape[0] == n and A.shape[0] == n and bool(np.all(N == 0)) and bool(np.all(A == 0))
        ctx.check(ok, 'silent-record: cycles==0, amplitude==0', lambda: W(cycles=N, amp=A),
                  'silent record of %d samples (%s): cycles %s..., amplitude %s...' % (n, zform, N.ravel()[:5].tolist(), A.ravel()[:5].tolist()))
    A1 = _amp(eqsig, ctx, x, n_cyc, b)
    if A1 is None:
        return
    rt = max(_rt(v) for v in _bs(b)[0])
    if not hasattr(b, '__len__'):
        for which, Ac in (('combined(x,0)', _comb(eqsig, ctx, x, z, n_cyc, b)), ('combined(0,x)', _comb(eqsig, ctx, z, x, n_cyc, b))):
            if Ac is None:
                continue
            ok = Ac.reshape(n, -1).shape == A1.reshape(n, -1).shape and tol.close(Ac.reshape(n, -1), A1.reshape(n, -1),
                                                                               scale=np.abs(A1.reshape(n, -1)), rtol=rt)
            ctx.check(ok, 'combined(x,silent)==amp(x)', lambda: W(which=which, combined=Ac, amp=A1),
                      '%s != amp(x) for a silent component (%s): %s vs %s' % (which, zform, Ac.ravel()[-3:].tolist(), A1.ravel()[-3:].tolist()))
    for which, G in (('gm(x,0)', _gm(eqsig, ctx, x, z, n_cyc, b)), ('gm(0,x)', _gm(eqsig, ctx, z, x, n_cyc, b))):
        if G is None:
            continue
        ctx.check(G.shape[0] == n and bool(np.all(G == 0)), 'gm(x,silent)==0', lambda: W(which=which, gm=G),
                  '%s is not zero for a silent component (%s): %s' % (which, zform, G.ravel()[-3:].tolist()))


CONST_FORMS = ('f64', 'int64', 'list-int', 'list-float', 'tuple-float', 'float32')


def rel_constant(eqsig, ctx, cval, n, form, a_ref, n_cyc, b, cut_off):
    """A constant non-zero record is one half cycle of amplitude |c| (one maximal run of one strict sign): the cycle count
    ends at 1/2 (|c|/a_ref)^(1/b), the amplitude at (1/2 |c|^(1/b) / n_cyc)^b, and the two are mutually inverse. The
    monitors judge all samples (the step may sit at the first or at the last sample of the plateau)."""
    c = float(cval)
    x = {'f64': lambda: np.full(n, c), 'int64': lambda: np.full(n, int(c), dtype=np.int64), 'list-int': lambda: [int(c)] * n,
         'list-float': lambda: [c] * n, 'tuple-float': lambda: (c,) * n, 'float32': lambda: np.full(n, c, dtype=np.float32)}[form]()
    c = abs(float(np.asarray(x, dtype=float)[0]))
    bs = _bs(b)[0]
    if not (_range_ok([(0, n - 1, c)], a_ref, bs) and _range_ok([(0, n - 1, c)], 1.0, bs)):
        ctx.observe('constant: powers outside [1e-280,1e280] (not judged)')
        return
    W = lambda **kw: _wit('rel:constant', cval=cval, n=n, form=form, a_ref=a_ref, n_cyc=n_cyc, b=b, cut_off=cut_off, **kw)
    N = _ncyc(eqsig, ctx, x, a_ref, b, cut_off)
    A = _amp(eqsig, ctx, x, n_cyc, b)
    if N is None or A is None or N.shape[0] != n or A.shape[0] != n:
        return
    eN = np.array([0.5 * (c / a_ref) ** (1.0 / v) for v in bs])
    eA = np.array([(0.5 * c ** (1.0 / v) / n_cyc) ** v for v in bs])
    rt = max(_rt(v) for v in bs)
    ok = tol.close(N.reshape(n, -1)[-1], eN, scale=eN, rtol=rt) and tol.close(A.reshape(n, -1)[-1], eA, scale=eA, rtol=rt)
    ctx.check(ok, 'constant-record: one half cycle', lambda: W(cycles_end=N.reshape(n, -1)[-1], amp_end=A.reshape(n, -1)[-1], expected=[eN, eA]),
              'constant record %r x %d (%s): final cycles %s expected %s, final amplitude %s expected %s'
              % (cval, n, form, N.reshape(n, -1)[-1].tolist(), eN.tolist(), A.reshape(n, -1)[-1].tolist(), eA.tolist()))
    if not hasattr(b, '__len__'):
        Ni = float(N.reshape(n, -1)[-1, 0])
        if Ni > 0 and math.isfinite(Ni) and 1e-20 < Ni < 1e20:
            Ai = _amp(eqsig, ctx, x, Ni, b)
            if Ai is not None and Ai.shape[0] == n:
                got = float(Ai.reshape(n, -1)[-1, 0])
                ctx.check(abs(got - a_ref) <= rt * a_ref, 'inverse(cut_off=0)', lambda: W(N=Ni, amp=got),
                          'constant record: amp(N=cycles(a_ref=%r)) = %r' % (a_ref, got))


MIXED_REAL = ('f64', 'list', 'tuple', 'readonly', 'noncontig', 'float32', 'bool')
MIXED_INT = ('int64', 'list-int', 'tuple-int', 'int32', 'f64', 'list', 'bool')


def _one_form(v, label):
    if label == 'f64':
        return np.array(v, dtype=float)
    if label == 'list':
        return [float(u) for u in v]
    if label == 'tuple':
        return tuple(float(u) for u in v)
    if label == 'readonly':
        a = np.array(v, dtype=float)
        a.flags.writeable = False
        return a
    if label == 'noncontig':
        big = np.zeros(3 * len(v))
        big[1::3] = v
        return big[1::3]
    if label == 'float32':
        return np.asarray(v, dtype=np.float32)
    if label == 'bool':         # on/off version of the record (round 5)
        return np.asarray(v) > float(np.median(v))
    if label == 'int64':
        return np.asarray(v).astype(np.int64)
    if label == 'int32':
        return np.asarray(v).astype(np.int32)
    if label == 'list-int':
        return [int(u) for u in v]
    if label == 'tuple-int':
        return tuple(int(u) for u in v)
    raise ValueError(label)


def rel_mixed(eqsig, ctx, x, y, lx, ly, n_cyc, b):
    """The two components in DIFFERENT containers / dtypes (list with ndarray, int with float, float32 with float64):
    judged by the monitors and against the float64 arrays of the numbers the forms hold."""
    fx, fy = _one_form(x, lx), _one_form(y, ly)
    bx, by = np.array(fx, dtype=float), np.array(fy, dtype=float)
    if bx.min() == bx.max() or by.min() == by.max() or not _in_range(ctx, 'mixed', [bx, by], b):
        ctx.observe('mixed forms: flattened / out-of-range record (skipped)')
        return
    n = len(bx)
    for fname in ((GM,) if hasattr(b, '__len__') else (GM, COMB)):      # array b: documented for gm only
        rf = _invoke(eqsig, ctx, fname, fx, [fy, n_cyc, b])
        rb = _invoke(eqsig, ctx, fname, bx, [by, n_cyc, b])
        if rf is None or rb is None:
            continue
        ok = rf.reshape(n, -1).shape == rb.reshape(n, -1).shape and tol.close(rf.reshape(n, -1), rb.reshape(n, -1),
                                                                             scale=np.abs(rb.reshape(n, -1)), rtol=1e-12)
        ctx.check(ok, 'container-form==float64-array', lambda: _wit('rel:mixed', x=x, y=y, lx=lx, ly=ly, n_cyc=n_cyc, b=b, fname=fname,
                                                                    f_form=rf, f_float64=rb),
                  '%s on components held as %s / %s differs from the float64 arrays of the same numbers' % (fname, lx, ly))


# ------------------------------------------------------------------------------ round 5 (audit items 28, 29, 32, 33)
F32_B = (0.0625, 0.125, 0.25, 0.5, 1.0)


def _f32(v):
    return float(np.float32(v))


def rel_scalarforms(eqsig, ctx, x, y, a_ref, b, cut_off, n_cyc):
    """Audit item 28: every numeric option as np.float32 scalar, 0-d float64 / float32 array (the SAME mutable objects through
    the four functions in turn; the purity monitors snapshot them), np.int64 scalar, 0-d int64 array, and b = 1 / cut_off = 0
    as True / False, np.True_ / np.False_, 0-d bool arrays - must give the result of the plain python floats. Range of
    validity: the values are float32-representable and b is a power of two, so that 1/b formed from a float32 b is exact
    (a float32 b = 0.3 carries 24 bits and cannot meet the 1e-9 of the monitors: kept out, not judged looser)."""
    a, nc, cu = _f32(a_ref), _f32(n_cyc), _f32(cut_off)
    if cu > 0.1:
        cu = 0.09375
    ai, ni = int(min(max(1, round(a_ref)), 2 ** 53)), int(max(1, round(n_cyc)))
    if not (_in_range(ctx, 'scalar-form', [x, y], [b, 1.0]) and _in_range(ctx, 'scalar-form', [x], [b, 1.0], a)
            and _in_range(ctx, 'scalar-form', [x], [1.0], float(ai))):
        return
    W = lambda **kw: _wit('rel:scalarforms', x=x, y=y, a_ref=a_ref, b=b, cut_off=cut_off, n_cyc=n_cyc, **kw)
    N, A = _ncyc(eqsig, ctx, x, a, b, cu), _amp(eqsig, ctx, x, nc, b)
    G, Cb = _gm(eqsig, ctx, x, y, nc, b), _comb(eqsig, ctx, x, y, nc, b)
    f4 = np.float32
    _same(ctx, _ncyc(eqsig, ctx, x, f4(a), f4(b), f4(cu)), N, 'ncyc(np.float32 scalars)', W)
    _same(ctx, _amp(eqsig, ctx, x, f4(nc), f4(b)), A, 'amp(np.float32 scalars)', W)
    _same(ctx, _gm(eqsig, ctx, x, y, f4(nc), f4(b)), G, 'gm(np.float32 scalars)', W)
    _same(ctx, _comb(eqsig, ctx, x, y, f4(nc), f4(b)), Cb, 'combined(np.float32 scalars)', W)
    for dt in (float, np.float32):
        a0, b0, c0, n0 = np.array(a, dtype=dt), np.array(b, dtype=dt), np.array(cu, dtype=dt), np.array(nc, dtype=dt)
        nm = np.dtype(dt).name
        _same(ctx, _ncyc(eqsig, ctx, x, a0, b0, c0), N, 'ncyc(0-d %s arrays)' % nm, W)
        _same(ctx, _comb(eqsig, ctx, x, y, n0, b0), Cb, 'combined(0-d %s arrays)' % nm, W)
        _same(ctx, _gm(eqsig, ctx, x, y, n0, b0), G, 'gm(0-d %s arrays)' % nm, W)
        _same(ctx, _amp(eqsig, ctx, x, n0, b0), A, 'amp(0-d %s arrays, reused)' % nm, W)
        _same(ctx, _ncyc(eqsig, ctx, x, a0, b0, c0), N, 'ncyc(0-d %s arrays, reused)' % nm, W)
    N1, A1 = _ncyc(eqsig, ctx, x, float(ai), 1.0, 0.0), _amp(eqsig, ctx, x, float(ni), 1.0)
    G1, C1 = _gm(eqsig, ctx, x, y, float(ni), 1.0), _comb(eqsig, ctx, x, y, float(ni), 1.0)
    i8 = np.int64
    for av, nv, one, zero, nm in ((i8(ai), i8(ni), i8(1), i8(0), 'np.int64 scalars'),
                                  (np.array(ai), np.array(ni), np.array(1), np.array(0), '0-d int64 arrays'),
                                  (ai, ni, True, False, 'python ints, b=True, cut_off=False'),
                                  (i8(ai), np.int32(min(ni, 2 ** 31 - 1)), np.True_, np.False_, 'np.True_ / np.False_'),
                                  (np.array(float(ai)), np.array(float(ni)), np.array(True), np.array(False), '0-d bool arrays')):
        if nm.startswith('np.True_') and ni > 2 ** 31 - 1:
            continue
        _same(ctx, _ncyc(eqsig, ctx, x, av, one, zero), N1, 'ncyc(%s)' % nm, W)
        _same(ctx, _amp(eqsig, ctx, x, nv, one), A1, 'amp(%s)' % nm, W)
        _same(ctx, _gm(eqsig, ctx, x, y, nv, one), G1, 'gm(%s)' % nm, W)
        _same(ctx, _comb(eqsig, ctx, x, y, nv, one), C1, 'combined(%s)' % nm, W)


def rel_owned(eqsig, ctx, fname, x, px):
    """Audit item 32: a result belongs to the caller. It shares no memory with an argument; the caller overwrites every entry
    of it; the arguments are untouched by that; the same call made again gives the first value bit for bit (a table handed
    out by reference from a memo / lru_cache would hand back the overwritten entries)."""
    if fname == NCYC and not _in_range(ctx, 'owned', [x], px[1], px[0]):
        return
    if fname == AMP and not _in_range(ctx, 'owned', [x], px[1]):
        return
    if fname in (GM, COMB) and not _in_range(ctx, 'owned', [x, px[0]], px[2]):
        return
    r1 = _invoke(eqsig, ctx, fname, x, px)
    if r1 is None:
        return
    keep = r1.copy()
    arrs = [a for a in [x] + list(px) if isinstance(a, np.ndarray)]
    snaps = [_snap(a) for a in arrs]
    by_id = {id(a): sn for a, sn in zip(arrs, snaps)}
    orig = lambda a: _restore(a, by_id[id(a)]) if isinstance(a, np.ndarray) else a      # the values at call entry
    shared = any(np.shares_memory(r1, a) for a in arrs)
    if r1.flags.writeable:
        r1[...] = -7.25
    else:
        ctx.observe('owned: read-only result (not overwritten)')
    intact = all(_unchanged(a, sn) for a, sn in zip(arrs, snaps))
    r2 = _invoke(eqsig, ctx, fname, x, px) if intact else None
    ok = (not shared) and intact and r2 is not None and r2.shape == keep.shape and r2.tobytes() == keep.tobytes()
    ctx.check(ok, 'result.owned-by-caller',
              lambda: _wit('rel:owned', fname=fname, x=orig(x), px=[orig(a) for a in px], first=keep, again=r2,
                           shares_memory_with_argument=shared, arguments_intact=intact),
              '%s: after the caller overwrote the first result the same call gives something else / the result shares memory '
              'with an argument (shared=%s, arguments intact=%s)' % (fname, shared, intact))


TINY_FORMS = ('f64', 'int64', 'list-float', 'list-int', 'tuple-float', 'float32', 'bool', 'list-bool', 'readonly')


def _tiny_form(vals, form):
    if form in ('bool', 'list-bool'):
        v = [bool(u) for u in vals]
        return np.array(v, dtype=bool) if form == 'bool' else v
    if form in ('int64', 'list-int'):
        v = [int(u) for u in vals]
        return np.array(v, dtype=np.int64) if form == 'int64' else v
    if form == 'list-float':
        return [float(u) for u in vals]
    if form == 'tuple-float':
        return tuple(float(u) for u in vals)
    a = np.array(vals, dtype=np.float32 if form == 'float32' else float)
    if form == 'readonly':
        a.flags.writeable = False
    return a


def rel_tiny(eqsig, ctx, vals, form, a_rel, n_cyc, b, cut_off):
    """Audit item 29: one-sample and two-sample records through every function (a one-sample record has no step but one half
    cycle when non-zero: reductions of empty slices, squeezed axes, 'a lone sample spans nothing' guards). Values are judged
    by the monitors; here: every function returns, with the record's length, finite values."""
    x = _tiny_form(vals, form)
    held = np.asarray(x, dtype=float).tolist()
    n = len(held)
    pk = C.excursion_peaks(held)
    bs = _bs(b)[0]
    gmax = max([m for (_f, _l, m) in pk], default=0.0)
    a_ref = a_rel * (gmax if gmax > 0 else 1.0)
    if not (_range_ok(pk, a_ref, bs) and _range_ok(pk, 1.0, bs)):
        ctx.observe('tiny: powers outside [1e-280,1e280] (not judged)')
        return
    res = []
    if n > 1 and min(held) != max(held):
        res += [_series_fn(eqsig, ctx, DELTA, x), _series_fn(eqsig, ctx, PSEUDO, x)]
    res += [_ncyc(eqsig, ctx, x, a_ref, b, cut_off), _amp(eqsig, ctx, x, n_cyc, b), _gm(eqsig, ctx, x, _copy(x), n_cyc, b)]
    if not hasattr(b, '__len__'):
        res.append(_comb(eqsig, ctx, x, x, n_cyc, b))
    ok = all(r is not None and r.ndim >= 1 and r.shape[0] == n and bool(np.all(np.isfinite(r))) for r in res)
    ctx.check(ok, 'short-record(1-2 samples): finite result of the record length',
              lambda: _wit('rel:tiny', vals=vals, form=form, a_rel=a_rel, n_cyc=n_cyc, b=b, cut_off=cut_off,
                           shapes=[None if r is None else list(r.shape) for r in res]),
              'record %r (%s): result shapes %s' % (held, form, [None if r is None else r.shape for r in res]))


def draw_tiny(rng, form):
    """One- or two-sample record as python floats (0/1 for the bool forms, integers for the integer forms)."""
    k = int(rng.integers(8))
    if form in ('bool', 'list-bool'):
        return [[1.0], [0.0], [0.0, 1.0], [1.0, 0.0], [1.0, 1.0], [0.0, 0.0], [1.0], [0.0, 1.0]][k]
    c = float(rng.integers(1, 90)) * float(rng.choice([-1.0, 1.0]))
    d = float(rng.integers(1, 90))
    if form not in ('int64', 'list-int'):
        s = float(10.0 ** rng.uniform(-6, 6))
        c, d = c * s * float(rng.uniform(0.5, 1.0)), d * s * float(rng.uniform(0.5, 1.0))
        if form == 'float32':
            c, d = _f32(c), _f32(d)
    return [[c], [0.0], [c, c], [c, -c], [0.0, c], [c, 0.0], [c, d], [c, -d]][k]


RELATIONS = {'rel:enum': lambda e, c, w: rel_enum(e, c, w['fname'], tuple(w['seq']), w['k'], w.get('with_int', True)),
             'rel:shift': lambda e, c, w: rel_shift(e, c, w['fname'], w['x'], w['c']),
             'rel:form': lambda e, c, w: rel_form(e, c, w['label'], w['x'], w['y'], w['a_rel'], w['b'], w['cut_off'], w['n_cyc']),
             'rel:bsizes': lambda e, c, w: rel_bsizes(e, c, w['x'], w['y'], w['a_ref'], w['cut_off'], w['n_cyc'], w['bvec'], w['perm'], w['j']),
             'rel:b2b': lambda e, c, w: rel_b2b(e, c, w['fname'], w['x'], w['px'], w['y'], w['py'], w.get('tag')),
             'rel:rejected': lambda e, c, w: rel_rejected(e, c, w['fname'], w['x'], w['px'], w['kind']),
             'rel:silent': lambda e, c, w: rel_silent(e, c, w['x'], w['zform'], w['a_ref'], w['n_cyc'], w['b'], w['cut_off']),
             'rel:constant': lambda e, c, w: rel_constant(e, c, w['cval'], w['n'], w['form'], w['a_ref'], w['n_cyc'], w['b'], w['cut_off']),
             'rel:probe': lambda e, c, w: None,       # install() re-runs the probes on the current tree
             'rel:scalarforms': lambda e, c, w: rel_scalarforms(e, c, w['x'], w['y'], w['a_ref'], w['b'], w['cut_off'], w['n_cyc']),
             'rel:owned': lambda e, c, w: rel_owned(e, c, w['fname'], w['x'], w['px']),
             'rel:tiny': lambda e, c, w: rel_tiny(e, c, w['vals'], w['form'], w['a_rel'], w['n_cyc'], w['b'], w['cut_off']),
             'rel:mixed': lambda e, c, w: rel_mixed(e, c, w['x'], w['y'], w['lx'], w['ly'], w['n_cyc'], w['b']),
             'raised-call': lambda e, c, w: _replay_raised(e, c, w),
             'rel:optform': lambda e, c, w: rel_optform(e, c, w['x'], w['y'], w['a_ref'], w['b'], w['b2'], w['cut_off'], w['n_cyc']),
             'rel:dtype': lambda e, c, w: rel_dtype(e, c, w['fname'], w['xi'], w['params']),
             'rel:inverse': lambda e, c, w: rel_inverse(e, c, w['x'], w['a_ref'], w['b'], w['cut_off'], w.get('at')),
             'rel:amp_scale': lambda e, c, w: rel_amp_scale(e, c, w['x'], w['n_cyc'], w['b'], w['alpha']),
             'rel:ncyc_scale': lambda e, c, w: rel_ncyc_scale(e, c, w['x'], w['a_ref'], w['b'], w['cut_off'], w['alpha']),
             'rel:identical': lambda e, c, w: rel_identical(e, c, w['x'], w['n_cyc'], w['b']),
             'rel:two': lambda e, c, w: rel_two(e, c, w['x'], w['y'], w['n_cyc'], w['b']),
             'rel:bcols': lambda e, c, w: rel_bcols(e, c, w['x'], w['a_ref'], w['n_cyc'], w['bvec'], w['cut_off'], w['j'])}


# ------------------------------------------------------------------------------------------------------- workload
INT_CLASSES = ('intnoise', 'plateau', 'intwalk', 'clipped')


def random_series(rng, n):
    """(float64 series, class name, integer_valued)."""
    k = int(rng.integers(0, 16))
    t = np.arange(n, dtype=float)
    if k >= 11:
        return _more_series(rng, n, k, t)
    if k == 0:
        x, cls = rng.normal(size=n), 'noise'
    elif k == 1:
        x, cls = rng.integers(-9, 10, size=n).astype(float), 'intnoise'
    elif k == 2:
        x, cls = gen.record(rng, n, cls='plateau', amp=1.0)[0], 'plateau'
    elif k == 3:
        x, cls = np.convolve(rng.normal(size=n + 6), np.ones(7) / 7, mode='valid')[:n], 'smooth'
    elif k == 4:
        x = np.sin(t * rng.uniform(0.05, 1.5) + rng.uniform(0, 6.3)) * rng.uniform(0.5, 3) + rng.uniform(-2, 2)
        cls = 'offset-sine'
    elif k == 5:
        x, cls = np.cumsum(rng.integers(-2, 3, size=n)).astype(float), 'intwalk'
    elif k == 6:
        x = rng.normal(size=n)
        x[0] = 0.0
        if n > 3 and rng.random() < 0.5:
            x[-1] = 0.0
        cls = 'zero-start'
    elif k == 7:
        c = ['sine', 'chirp', 'beat', 'quake', 'hat'][int(rng.integers(5))]
        x, cls = gen.record(rng, n, cls=c, amp=1.0)[0], 'unit-' + c
    elif k == 8:
        x = rng.normal(size=n)
        x[rng.random(n) < 0.15] = 0.0
        cls = 'noise+zeros'
    elif k == 9:
        x, cls = np.clip(np.cumsum(rng.integers(-2, 3, size=n)), -3, 3).astype(float), 'clipped'
    else:
        # plateaus at the start / end, the extreme at the first or last sample, ending right after a sign change
        x = np.round(rng.normal(size=n) * 4) if rng.random() < 0.4 else rng.normal(size=n)
        big = float(np.max(np.abs(x))) + 1.0
        r = int(rng.integers(0, 4))
        if r in (0, 2):
            x[0] = big * rng.choice([-1.0, 1.0])
        if r in (1, 2):
            x[-1] = big * rng.choice([-1.0, 1.0])
        if r == 3 and n > 2:
            x[-1] = -0.01 * np.sign(x[-2]) if x[-2] != 0 else 0.5
        if n > 5 and rng.random() < 0.6:
            pa, pb = int(rng.integers(1, max(2, n // 4))), int(rng.integers(1, max(2, n // 4)))
            if rng.random() < 0.7:
                x[:pa] = x[0]
            if rng.random() < 0.7:
                x[-pb:] = x[-1]
        cls = 'edges'
        return np.asarray(x, dtype=float), cls, bool(np.all(x == np.round(x)))
    x = np.asarray(x, dtype=float)
    integer = cls in INT_CLASSES
    return x, cls, integer


def _more_series(rng, n, k, t):
    """Record shapes the statement does not forbid (audit items 10, 11)."""
    if k == 11:     # constant-magnitude alternation (energy at Nyquist), a single step, a single changed sample
        c = ['alt', 'step', 'impulse'][int(rng.integers(3))]
        x = gen.record(rng, n, cls=c, amp=1.0)[0]
        if c == 'alt' and rng.random() < 0.5:
            x = x + float(rng.integers(-3, 4))
        if x.min() == x.max():
            x[int(rng.integers(n))] += 1.0
        return np.asarray(x, dtype=float), 'unit-' + c, True
    if k == 12:     # monotone / trend dominated
        slope = float(rng.choice([-1.0, 1.0]))
        x = slope * t + float(rng.choice([0.0, 0.3, 3.0])) * rng.normal(size=n) + float(rng.choice([0.0, -0.5 * n, 7.0]))
        return x, 'trend', False
    if k == 13:     # one-sided: all the action at negative values, never touching zero / touching zero
        x = -(np.abs(rng.normal(size=n)) + float(rng.choice([0.0, 0.5])))
        if rng.random() < 0.3:
            x[rng.random(n) < 0.1] = 0.0
        if x.min() == x.max():
            x[0] -= 1.0
        return x, 'one-sided-negative', False
    if k == 14:     # tail-heavy: all the action in the last 1/k of the record
        m = min(n, max(2, n // int(rng.choice([4, 10, 50]))))
        x = np.full(n, float(rng.choice([0.0, 1.5, -2.0])))
        x[n - m:] += rng.normal(size=m)
        if x.min() == x.max():
            x[-1] += 1.0
        return x, 'tail-heavy', False
    # one sample 1e3 .. 1e12 times larger than the steps between the others, at the first / last / an inner sample
    x = rng.normal(size=n) if rng.random() < 0.5 else np.convolve(rng.normal(size=n + 6), np.ones(7) / 7, mode='valid')[:n]
    pos = [0, n - 1, int(rng.integers(n))][int(rng.integers(3))]
    x[pos] = float(rng.choice([-1.0, 1.0])) * float(10.0 ** rng.uniform(3, 12))
    return x, 'spike', False


def amplitude_and_offset(rng, x, integer):
    """Scale a real series over 1e-12..1e6 (micro-amplitude records included) and optionally add a constant offset."""
    if integer:
        r = rng.random()
        if r < 0.25:
            x = x + float(rng.integers(-5, 1000))
            return x, 'int-offset'
        if r < 0.45 and float(np.max(np.abs(x))) < 9000:
            return x * float(10 ** int(rng.choice([3, 6, 9, 12]))), 'int-large'     # steps whose products exceed int64
        return x, 'int'
    r = rng.random()
    if r < 0.15:
        amp, tag = float(rng.choice([2e-8, 1e-11, 1e-9, 1e-12])), 'micro'
    elif r < 0.45:
        amp, tag = 10.0 ** rng.uniform(-12, 12), 'wide'
    else:
        amp, tag = 10.0 ** rng.uniform(-1, 1), 'unit'
    x = x * amp
    r = rng.random()
    if r < 0.10:
        x, tag = x + 1.0, tag + '+offset1'
    elif r < 0.17:
        x, tag = x + 1000.0, tag + '+offset1000'
    elif r < 0.27:
        x, tag = x + amp * rng.uniform(-3, 3), tag + '+offset~amp'
    elif r < 0.32:
        x, tag = x + amp * 1e6, tag + '+offset1e6amp'
    return x, tag


def draw_b(rng):
    r = rng.random()
    if r < 0.45:
        return float(rng.choice([0.3, 0.34, 0.75, 1.0, 0.5]))
    if r < 0.55:
        return float(rng.uniform(0.0501, 0.1))
    return float(rng.uniform(0.0501, 1.0))


def draw_cut(rng):
    r = rng.random()
    if r < 0.6:
        return float(rng.choice([0.01, 0.1, 0.0625]))
    return float(rng.uniform(0, 0.1))


def _shift_for(rng, x, integer):
    if integer:
        return float(rng.integers(-9, 10) or 3)
    mx = float(np.max(np.abs(x)))
    r = rng.random()
    if r < 0.4:
        return -float(x[0])                      # rebasing shift
    if r < 0.6:
        return -float(np.round(np.mean(x), 0))   # removes a large integer offset exactly
    return mx * float(rng.uniform(-50, 50))


def series_block(eqsig, ctx, x, cont, integer, rng):
    """The two series functions on one random series: monitors + shift + dtype relations."""
    _series_fn(eqsig, ctx, DELTA, cont)
    _series_fn(eqsig, ctx, PSEUDO, cont)
    c = _shift_for(rng, x, integer)
    if c != 0:
        if integer and not isinstance(cont, np.ndarray):
            c = int(c)
        elif integer and cont.dtype.kind == 'i':
            c = int(c)
        rel_shift(eqsig, ctx, DELTA, cont, c)
        rel_shift(eqsig, ctx, PSEUDO, cont, c)
    if integer and not (isinstance(cont, np.ndarray) and cont.dtype.kind == 'f'):
        rel_dtype(eqsig, ctx, DELTA, cont, [])
        rel_dtype(eqsig, ctx, PSEUDO, cont, [])


def power_block(eqsig, ctx, x, cont, integer, rng, c):
    """The power-law functions on one random series (cont = the container actually passed)."""
    n = len(x)
    gmax = float(np.max(np.abs(x)))
    b = draw_b(rng)
    cut = draw_cut(rng)
    a_ref = float(10.0 ** rng.uniform(-1, 1.5)) * (gmax if rng.random() < 0.8 else 1.0)
    n_cyc = float(10.0 ** rng.uniform(-1, 1.5))
    is_int_cont = not (isinstance(cont, np.ndarray) and cont.dtype.kind == 'f') and integer
    # inverse relation (cut_off = 0 and > 0), final sample and one interior sample
    rel_inverse(eqsig, ctx, cont, a_ref, b, 0.0)
    rel_inverse(eqsig, ctx, cont, a_ref, b, cut)
    if n > 3:
        rel_inverse(eqsig, ctx, cont, a_ref, b, 0.0, at=int(rng.integers(n // 2, n)))
    # default cut_off through the default argument
    try:
        eqsig.im.calc_n_cyc_array_w_power_law(np.asarray(cont), a_ref, b)
    except Exception as e:
        ctx.exception('ncyc==reference', _wit(NCYC, values=np.asarray(cont), a_ref=a_ref, b=b, cut_off=0.01), e)
    # scaling relations
    if is_int_cont:
        alpha = int(rng.choice([2, 3, 7, 10]))
    else:
        r = rng.random()
        alpha = float(rng.choice([0.5, 2.0, 1024.0, 2.0 ** -30])) if r < 0.3 else \
            (float(rng.choice([1e-9, 1e-6, 1e-11, 1e6])) if r < 0.5 else float(10.0 ** rng.uniform(-3, 3)))
    rel_amp_scale(eqsig, ctx, cont, n_cyc, b, alpha)
    rel_ncyc_scale(eqsig, ctx, cont, a_ref, b, cut if c % 2 else 0.0, alpha)
    # two components
    rel_identical(eqsig, ctx, cont, n_cyc, b)
    y, _cls, yint = random_series(rng, n)
    xcont = cont
    if is_int_cont and yint:
        ycont = y.astype(np.int64) if isinstance(cont, np.ndarray) else type(cont)(int(v) for v in y)
    else:
        yint = False
        if np.max(np.abs(y)) > 0:       # second component of comparable (0.1x .. 10x) size
            y = y * (gmax * float(10.0 ** rng.uniform(-1, 1)) / float(np.max(np.abs(y))))
        ycont = y
    if np.min(y) != np.max(y):
        rel_two(eqsig, ctx, xcont, ycont, n_cyc, b)
    # array b
    if c % 3 == 0:
        bvec = np.array([b, draw_b(rng), float(rng.choice([0.3, 0.34, 1.0]))])
        rel_bcols(eqsig, ctx, cont, a_ref, n_cyc, bvec, cut, int(rng.integers(3)))
        if np.min(y) != np.max(y):
            rel_two(eqsig, ctx, xcont, ycont, n_cyc, bvec)
        rel_identical(eqsig, ctx, cont, n_cyc, bvec)
    # int vs float input
    if is_int_cont:
        bi = float(rng.choice([0.3, 0.34, 0.75, b]))
        rel_dtype(eqsig, ctx, NCYC, cont, [a_ref, bi, cut])
        rel_dtype(eqsig, ctx, AMP, cont, [n_cyc, bi])
        if yint and np.min(y) != np.max(y):
            rel_dtype(eqsig, ctx, GM, cont, [ycont, n_cyc, bi])
            rel_dtype(eqsig, ctx, COMB, cont, [ycont, n_cyc, bi])
        rel_dtype(eqsig, ctx, GM, cont, [_copy(cont), n_cyc, bi])
        rel_dtype(eqsig, ctx, COMB, cont, [_copy(cont), n_cyc, bi])


def audit_block(eqsig, ctx, x, integer, rng, c):
    """Container / dtype forms, option forms and back-to-back calls on (a window of) one random series."""
    n = min(len(x), 120)
    x = np.ascontiguousarray(x[:n])
    y, _cls, yint = random_series(rng, n)
    if x.min() == x.max() or y.min() == y.max():
        return
    gmax = float(np.max(np.abs(x)))
    if not (integer and yint):
        y = y * (gmax * float(10.0 ** rng.uniform(-1, 1)) / float(np.max(np.abs(y))))
    b = draw_b(rng)
    b2 = draw_b(rng)
    cut = draw_cut(rng) if rng.random() < 0.7 else 0.0
    a_rel = float(10.0 ** rng.uniform(-1, 1.5))
    n_cyc = float(10.0 ** rng.uniform(-1, 1.5))
    labels = list(INT_FORMS if integer and yint else REAL_FORMS)
    # all forms over four consecutive blocks
    for label in labels[c % 4::4]:
        rel_form(eqsig, ctx, label, x, y, a_rel, b, cut, n_cyc)
    if integer and yint and float(np.max(np.abs(x))) < 100 and float(np.max(np.abs(y))) < 100:
        rel_form(eqsig, ctx, ('int8-full', 'uint8-full', 'int16-full', 'int32-full')[c % 4], x, y, a_rel, b, cut, n_cyc)
    # array-valued b: 1, 2, ... entries, sizes around the powers of two (the large ones on every fourth block)
    nb = int(rng.choice(B_SIZES[:7] if c % 4 else B_SIZES[7:]))
    bvec = draw_bvec(rng, nb)
    rel_bsizes(eqsig, ctx, x, y, a_rel * gmax, cut, n_cyc, bvec, rng.permutation(nb), int(rng.integers(nb)))
    # round 5: on/off (bool) forms of the two records; scalar forms of the options; ownership of the results; tiny records
    rel_form(eqsig, ctx, BOOL_FORMS[c % len(BOOL_FORMS)], x, y, a_rel, b, cut, n_cyc)
    rel_scalarforms(eqsig, ctx, x, y, a_rel * gmax, F32_B[c % len(F32_B)], cut, n_cyc)
    xo, yo = (x, y) if c % 3 else (tuple(x.tolist()), tuple(y.tolist()))       # tuples + scalar options: hashable arguments
    bo = np.array([b, b2]) if c % 3 else (b, b2)
    for fname, px in ((DELTA, []), (PSEUDO, []), (NCYC, [a_rel * gmax, b, cut]), (NCYC, [a_rel * gmax, bo, cut]), (AMP, [n_cyc, b]),
                      (AMP, [n_cyc, bo]), (GM, [yo, n_cyc, b]), (GM, [yo, n_cyc, bo]), (COMB, [yo, n_cyc, b])):
        rel_owned(eqsig, ctx, fname, xo, px)
    for form in (TINY_FORMS[c % len(TINY_FORMS)], TINY_FORMS[(c + 4) % len(TINY_FORMS)]):
        rel_tiny(eqsig, ctx, draw_tiny(rng, form), form, a_rel, n_cyc, b if c % 4 else np.array([b, b2, 1.0]), cut)
    if c % 2 == 0:
        rel_optform(eqsig, ctx, x, y, a_rel * gmax, b, b2, cut, n_cyc)
    else:
        # two different inputs of one shape, the first result re-read after the second call
        a_ref = a_rel * gmax
        bv = np.array([b, b2])
        for fname, px, py in ((DELTA, [], []), (PSEUDO, [], []), (NCYC, [a_ref, b, cut], [a_ref, b, cut]),
                              (NCYC, [a_ref, bv, cut], [a_ref, bv, cut]), (AMP, [n_cyc, b], [n_cyc, b]),
                              (AMP, [n_cyc, bv], [n_cyc, bv]), (GM, [y, n_cyc, b], [x, n_cyc, b]),
                              (COMB, [y, n_cyc, b], [x, n_cyc, b])):
            rel_b2b(eqsig, ctx, fname, x, px, y, py)


def long_block(eqsig, ctx, rng):
    """One record longer than 2**16 samples through every function."""
    n = 2 ** 16 + int(rng.integers(1, 40))
    k = int(rng.integers(0, 3))
    x = [rng.normal(size=n), np.convolve(rng.normal(size=n + 6), np.ones(7) / 7, mode='valid')[:n],
         np.cumsum(rng.integers(-2, 3, size=n)).astype(float)][k]
    cont = x.astype(np.int64) if k == 2 else x
    y = np.roll(x, n // 3) * 0.5
    ctx.case(core.digest(x, 'long'), nontrivial=True, cls='long-%s' % ['noise', 'smooth', 'intwalk'][k])
    _series_fn(eqsig, ctx, DELTA, cont)
    _series_fn(eqsig, ctx, PSEUDO, cont)
    gmax = float(np.max(np.abs(x)))
    b = draw_b(rng)
    rel_inverse(eqsig, ctx, cont, gmax * 0.3, b, 0.0)
    rel_inverse(eqsig, ctx, cont, gmax * 0.3, b, 0.01)
    _comb(eqsig, ctx, cont, y, 15.0, b)
    _gm(eqsig, ctx, cont, y, 15.0, b)
    ctx.ok('long-record(>2**16) driven')


def matrix_block(eqsig, ctx, rng):
    """A record x exponent matrix of more than 2**22 entries through the cycle and the amplitude function."""
    n, nb = 2 ** 15 + int(rng.integers(1, 9)), 129
    x = np.convolve(rng.normal(size=n + 6), np.ones(7) / 7, mode='valid')[:n] * float(10.0 ** rng.uniform(-2, 2))
    bvec = rng.uniform(0.2, 1.0, size=nb)
    gmax = float(np.max(np.abs(x)))
    ctx.case(core.digest(x, bvec, 'matrix'), nontrivial=True, cls='matrix-n*nb>2**22')
    a = _ncyc(eqsig, ctx, x, gmax * 0.3, bvec, 0.01)
    b = _amp(eqsig, ctx, x, 15.0, bvec)
    if a is not None and b is not None and a.size > 2 ** 22 and b.size > 2 ** 22:
        ctx.ok('matrix(n*nb>2**22) driven')


def extreme_block(eqsig, ctx, rng):
    """Numerically special but valid scales (every value a normal finite double, products of two samples under/overflow):
    the peak-only series on gen.special_scale records; the power-law functions with record and reference amplitude
    scaled together by 1e+-165..1e+-200 (the cycle count depends on ratios only, the amplitudes are linear)."""
    n = int(rng.choice([3, 8, 50, 200, 300]))
    w, _cls, _int = random_series(rng, n)
    if w.min() == w.max():
        return
    xs, suffix = gen.special_scale(rng, w)
    if suffix and np.all(np.isfinite(xs)) and xs.min() != xs.max():
        cont = xs if rng.random() < 0.8 else xs.tolist()
        ctx.case(core.digest(xs, 'special'), nontrivial=True, cls='special' + suffix)
        r0 = _series_fn(eqsig, ctx, DELTA, cont)
        r1 = _series_fn(eqsig, ctx, PSEUDO, cont)
        if xs[0] != 0:
            rel_shift(eqsig, ctx, DELTA, cont, -float(xs[0]))
            rel_shift(eqsig, ctx, PSEUDO, cont, -float(xs[0]))
        if r0 is not None and r1 is not None:
            ctx.ok('special-scale series driven')
    alpha = float(10.0 ** (float(rng.choice([-1.0, 1.0])) * rng.uniform(165, 200)))
    wu = w * float(10.0 ** rng.uniform(-1, 1))
    gmax = float(np.max(np.abs(wu)))
    b = draw_b(rng)
    b1 = 1.0 if rng.random() < 0.5 else float(rng.uniform(0.8, 1.0))
    cut = draw_cut(rng)
    a_ref = gmax * float(10.0 ** rng.uniform(-1, 1.5))
    n_cyc = float(10.0 ** rng.uniform(-1, 1.5))
    xa = wu * alpha
    ctx.case(core.digest(xa, 'extreme'), nontrivial=True, cls='power-law-extreme-%s' % ('tiny' if alpha < 1 else 'huge'))
    rel_ncyc_scale(eqsig, ctx, wu, a_ref, b, cut, alpha)
    rel_ncyc_scale(eqsig, ctx, wu, a_ref, b, 0.0, alpha)
    rel_inverse(eqsig, ctx, xa, a_ref * alpha, b1, 0.0)
    rel_inverse(eqsig, ctx, xa, a_ref * alpha, b1, cut)
    rel_amp_scale(eqsig, ctx, wu, n_cyc, b1, alpha)
    rel_identical(eqsig, ctx, xa, n_cyc, b1)
    y, _c, _i = random_series(rng, n)
    if y.min() != y.max():
        ya = y * (gmax * float(10.0 ** rng.uniform(-1, 1)) / float(np.max(np.abs(y)))) * alpha
        rel_two(eqsig, ctx, xa, ya, n_cyc, b1)
    ctx.ok('power-law at extreme scale driven')


def micro_block(eqsig, ctx, rng):
    """Deterministic micro-amplitude records: a unit waveform times 2e-8 / 1e-11 / 1e-12, with and without large offsets."""
    n = int(rng.choice([9, 40, 300]))
    w = gen.record(rng, n, cls=['sine', 'beat', 'noise', 'quake', 'zeropad'][int(rng.integers(5))], amp=1.0)[0]
    if np.min(w) == np.max(w):
        return
    w[-1] = 0.0 if rng.random() < 0.5 else w[-1]
    for s in (2e-8, 1e-11, 1e-12):
        for off in (0.0, 1.0, 1000.0):
            x = w * s + off
            if np.min(x) == np.max(x):
                continue
            ctx.case(core.digest(x, 'micro'), nontrivial=True, cls='micro-%g%s' % (s, '+offset' if off else ''))
            _series_fn(eqsig, ctx, DELTA, x)
            _series_fn(eqsig, ctx, PSEUDO, x)
            if off:
                rel_shift(eqsig, ctx, DELTA, x, -off)
                rel_shift(eqsig, ctx, PSEUDO, x, -off)
            else:
                rel_shift(eqsig, ctx, DELTA, x, s * 3.0)
                rel_shift(eqsig, ctx, PSEUDO, x, s * 3.0)
            gmax = float(np.max(np.abs(x)))
            b = float(rng.choice([0.3, 0.34, 1.0, 0.75]))
            a_ref = gmax * float(rng.uniform(0.2, 2))
            rel_inverse(eqsig, ctx, x, a_ref, b, 0.0)
            rel_inverse(eqsig, ctx, x, a_ref, b, 0.01)
            rel_identical(eqsig, ctx, x, 15.0, b)
            if not off:
                # the same record at unit amplitude: cycles must not change, amplitude must scale
                rel_ncyc_scale(eqsig, ctx, w, a_ref / s, b, 0.0, s)
                rel_ncyc_scale(eqsig, ctx, w, a_ref / s, b, float(rng.choice([0.01, 0.1])), s)
                rel_amp_scale(eqsig, ctx, w, 15.0, b, s)


def draw_edge_b(rng):
    """Exponents within 1e-3 (relative to the admissible range) of its ends 0.05 (open) and 1 (closed)."""
    k = int(rng.integers(6))
    if k == 0:
        return float(np.nextafter(0.05, 1.0))
    if k == 1:
        return float(0.05 + rng.uniform(1e-9, 0.95e-3 * 0.95))
    if k == 2:
        return 0.05001
    if k == 3:
        return float(np.nextafter(1.0, 0.0))
    if k == 4:
        return float(1.0 - rng.uniform(0.0, 0.95e-3))
    return 1.0


def draw_edge_cut(rng):
    """cut_off within 1e-3 of the ends of [0, 0.1] (1e-4 absolute), including the closest doubles."""
    k = int(rng.integers(8))
    return [0.0, 5e-324, 1e-300, 1e-12, float(rng.uniform(0, 1e-4)), 0.1, float(np.nextafter(0.1, 0.0)),
            float(0.1 - rng.uniform(0, 1e-4))][k]


def edge_block(eqsig, ctx, rng, c):
    """Audit item 26: b, cut_off next to the ends of their ranges; a_ref and n_cyc (open-ended ranges) 1e-6..1e6 times the
    record maximum / 1e-6..1e8. Every second record has one sample 1e3..1e12 times the others, so that a cut_off of 1e-12..1e-4
    has peaks to drop. Judged by the monitors and the inverse / scaling / two-component relations (tolerances unchanged:
    all powers stay inside [1e-280, 1e280] or the case is counted, not judged)."""
    n = int(rng.choice([5, 8, 13, 50, 200]))
    x, cls, integer = _more_series(rng, n, 15, np.arange(n, dtype=float)) if c % 2 else random_series(rng, n)
    if x.min() == x.max():
        return
    if not integer:
        x = x * float(10.0 ** rng.uniform(-3, 3))
    gmax = float(np.max(np.abs(x)))
    b = draw_edge_b(rng)
    cut = draw_edge_cut(rng)
    r = rng.random()
    rel = float(10.0 ** (rng.uniform(-6, -1) if r < 0.4 else (rng.uniform(1.5, 6) if r < 0.8 else rng.uniform(-1, 1.5))))
    a_ref = rel * gmax
    r = rng.random()
    n_cyc = float(10.0 ** (rng.uniform(-6, -1) if r < 0.4 else (rng.uniform(1.5, 8) if r < 0.8 else rng.uniform(-1, 1.5))))
    ctx.case(core.digest(x, 'edge', b, cut), nontrivial=True, cls='edge-parameters/%s' % cls)
    rel_inverse(eqsig, ctx, x, a_ref, b, 0.0)
    rel_inverse(eqsig, ctx, x, a_ref, b, cut)
    rel_inverse(eqsig, ctx, x, rel * gmax, draw_b(rng), cut)            # ordinary b, edge cut_off / a_ref
    rel_inverse(eqsig, ctx, x, gmax * 0.7, b, draw_cut(rng))            # edge b, ordinary cut_off / a_ref
    rel_identical(eqsig, ctx, x, n_cyc, b)
    alpha = float(rng.choice([0.5, 3.0, 1e-6, 1e6]))
    rel_amp_scale(eqsig, ctx, x, n_cyc, b, alpha)
    rel_ncyc_scale(eqsig, ctx, x, a_ref, b, cut, alpha)
    y, _c, _i = random_series(rng, n)
    if y.min() != y.max():
        y = y * (gmax * float(10.0 ** rng.uniform(-1, 1)) / float(np.max(np.abs(y))))
        rel_two(eqsig, ctx, x, y, n_cyc, b)
    bvec = np.array([float(np.nextafter(0.05, 1.0)), b, 1.0, float(np.nextafter(1.0, 0.0)), 0.05001])
    rel_bcols(eqsig, ctx, x, gmax * float(10.0 ** rng.uniform(-0.5, 0.5)), n_cyc, bvec, cut, int(rng.integers(5)))
    ctx.ok('edge-parameters driven')


def seq_block(eqsig, ctx, x, rng, c):
    """Audit item 25: f(A); f(B); f(A) with B of another shape, B = A with two interior samples exchanged (same length, ends,
    sum and extreme: defeats a memo keyed on a few summary numbers), B = A with exactly one option changed - at non-default
    option values; every call is judged by the monitors, the third must reproduce the first bit for bit."""
    n = min(len(x), 150)
    x = np.ascontiguousarray(x[:n])
    if x.min() == x.max():
        return
    gmax = float(np.max(np.abs(x)))
    b, b2 = draw_b(rng), draw_b(rng)
    cut = draw_cut(rng)
    a_ref = gmax * float(10.0 ** rng.uniform(-1, 1.5))
    n_cyc = float(10.0 ** rng.uniform(-1, 1.5))
    bv = np.array([b, b2])
    # B of another shape
    m = [max(2, n // 2), n + 7, 2 * n + 1, max(2, n - 1)][c % 4]
    y, _cls, _int = random_series(rng, m)
    if y.min() == y.max():
        y[0] += 1.0
    y = y * (gmax / float(np.max(np.abs(y))))
    x2 = np.roll(x, 3) * 0.5
    y2 = np.roll(y, 2) * 0.7
    if c % 3 == 0:
        x, y = x.tolist(), y.tolist()
    for fname, px, py in ((DELTA, [], []), (PSEUDO, [], []), (NCYC, [a_ref, b, cut], [a_ref, b, cut]),
                          (NCYC, [a_ref, bv, cut], [a_ref, bv, cut]), (AMP, [n_cyc, b], [n_cyc, b]), (AMP, [n_cyc, bv], [n_cyc, bv]),
                          (GM, [x2, n_cyc, b], [y2, n_cyc, b]), (COMB, [x2, n_cyc, b], [y2, n_cyc, b])):
        rel_b2b(eqsig, ctx, fname, x, px, y, py, 'other shape')
    # B = A with two interior samples exchanged
    xa = np.array(x, dtype=float)
    if n >= 4:
        i, j = sorted(int(v) for v in rng.choice(np.arange(1, n - 1), size=2, replace=False)) if n > 4 else (1, 2)
        imax = int(np.argmax(np.abs(xa)))
        if xa[i] != xa[j]:
            z = xa.copy()
            z[i], z[j] = xa[j], xa[i]
            for fname, px in ((DELTA, []), (PSEUDO, []), (NCYC, [a_ref, b, cut]), (AMP, [n_cyc, bv]), (COMB, [x2, n_cyc, b])):
                rel_b2b(eqsig, ctx, fname, xa, px, z, px, 'interior samples exchanged')
    # the same record (the same object), exactly one option changed
    for fname, px, py in ((NCYC, [a_ref, b, cut], [a_ref * 1.5, b, cut]), (NCYC, [a_ref, b, cut], [a_ref, b2, cut]),
                          (NCYC, [a_ref, b, cut], [a_ref, b, 0.0 if cut > 0.05 else 0.1]), (NCYC, [a_ref, b, cut], [a_ref, bv, cut]),
                          (AMP, [n_cyc, b], [n_cyc * 2.0, b]), (AMP, [n_cyc, b], [n_cyc, b2]), (AMP, [n_cyc, bv], [n_cyc, b]),
                          (GM, [x2, n_cyc, b], [x2, n_cyc * 0.5, b]), (COMB, [x2, n_cyc, b], [x2, n_cyc, b2]),
                          (COMB, [x2, n_cyc, b], [x2 * 2.0, n_cyc, b])):
        rel_b2b(eqsig, ctx, fname, x, px, x, py, 'one option changed')


def rejected_block(eqsig, ctx, x, rng, c):
    """Audit items 19 / 24: a rejected or out-of-statement call between two in-domain calls, every function."""
    n = min(len(x), 100)
    x = np.ascontiguousarray(x[:n])
    if x.min() == x.max() or n < 3:
        return
    gmax = float(np.max(np.abs(x)))
    b = draw_b(rng)
    cut = draw_cut(rng)
    a_ref = gmax * float(10.0 ** rng.uniform(-1, 1.5))
    n_cyc = float(10.0 ** rng.uniform(-1, 1.5))
    x2 = np.roll(x, 2) * 0.6
    cont = x.tolist() if c % 5 == 0 else x
    for fname, px in ((DELTA, []), (PSEUDO, []), (NCYC, [a_ref, b, cut]), (AMP, [n_cyc, b]), (GM, [x2, n_cyc, b]), (COMB, [x2, n_cyc, b])):
        kinds = REJECT_KINDS[fname]
        for kind in (kinds[c % len(kinds)], kinds[(c + 3) % len(kinds)]):
            rel_rejected(eqsig, ctx, fname, cont, px, kind)


def one_signed(rng, n):
    """Strictly one-signed, non-constant record (no zero, no sign change): one half cycle."""
    k = int(rng.integers(4))
    if k == 0:
        x = np.abs(rng.normal(size=n)) + float(rng.choice([0.01, 0.5, 10.0]))
    elif k == 1:
        x = rng.integers(1, 9, size=n).astype(float)
    elif k == 2:
        x = 2.0 + np.sin(np.arange(n) * rng.uniform(0.1, 2.0))
    else:
        x = np.exp(-np.arange(n) * rng.uniform(0.01, 0.3)) * (1.0 + 0.3 * np.cos(np.arange(n) * 1.3))       # free decay released from an offset
    if x.min() == x.max():
        x[int(rng.integers(n))] += 1.0
    integer = k == 1
    return x * float(rng.choice([-1.0, 1.0])), integer


def silent_block(eqsig, ctx, x, rng, c):
    """Audit item 27: silent (all-zero) records and components, constant non-zero records, strictly one-signed records
    (array / list / tuple), and the two components of gm / combined held in different containers."""
    n = min(len(x), 120)
    x = np.ascontiguousarray(x[:n])
    if x.min() == x.max():
        return
    gmax = float(np.max(np.abs(x)))
    b = draw_b(rng)
    cut = draw_cut(rng) if c % 2 else 0.0
    a_ref = gmax * float(10.0 ** rng.uniform(-1, 1.5))
    n_cyc = float(10.0 ** rng.uniform(-1, 1.5))
    bv = np.array([b, draw_b(rng), 1.0])
    rel_silent(eqsig, ctx, x, ZERO_FORMS[c % len(ZERO_FORMS)], a_ref, n_cyc, b, cut)
    rel_silent(eqsig, ctx, x, ZERO_FORMS[(c + 2) % len(ZERO_FORMS)], a_ref, n_cyc, bv, cut)
    form = CONST_FORMS[c % len(CONST_FORMS)]
    cval = float(rng.integers(1, 90)) * float(rng.choice([-1.0, 1.0]))
    if form in ('f64', 'list-float', 'tuple-float') and rng.random() < 0.7:
        cval = float(rng.normal()) * float(10.0 ** rng.uniform(-6, 6)) or 1.0
    m = int(rng.choice([1, 2, 3, 7, 50]))       # round 5: one-sample records
    rel_constant(eqsig, ctx, cval, m, form, abs(cval) * float(10.0 ** rng.uniform(-1, 1.5)), n_cyc, b, cut)
    rel_constant(eqsig, ctx, cval, m, form, abs(cval) * float(10.0 ** rng.uniform(-1, 1.5)), n_cyc, bv, cut)
    # strictly one-signed records through all six functions
    w, integer = one_signed(rng, int(rng.choice([2, 3, 5, 13, 60])))
    if not integer:
        w = w * float(10.0 ** rng.uniform(-3, 3))
    k = c % 4
    cont = w if k == 0 else (w.tolist() if k == 1 else (tuple(w.tolist()) if k == 2 else (w.astype(np.int64) if integer else w[::-1].copy()[::-1])))
    if integer and k in (1, 2):
        cont = type(cont)(int(v) for v in cont)
    ctx.case(core.digest(w, 'one-signed', k), nontrivial=True, cls='one-signed/%s' % ('int' if integer else 'real'))
    wmax = float(np.max(np.abs(w)))
    series_block(eqsig, ctx, w, cont, integer, rng)
    aw = wmax * float(10.0 ** rng.uniform(-1, 1.5))
    rel_inverse(eqsig, ctx, cont, aw, b, 0.0)
    rel_inverse(eqsig, ctx, cont, aw, b, cut)
    rel_identical(eqsig, ctx, cont, n_cyc, b)
    rel_bcols(eqsig, ctx, cont, aw, n_cyc, bv, cut, int(rng.integers(3)))
    w2, _i2 = one_signed(rng, len(w))
    rel_two(eqsig, ctx, cont, w2 * wmax, n_cyc, b)
    ctx.ok('one-signed record driven')
    # the two components in different containers / dtypes
    y, _cls, yint = random_series(rng, n)
    if y.min() == y.max():
        return
    xint = bool(np.all(x == np.round(x))) and gmax < 2 ** 31
    if xint and yint:
        forms = MIXED_INT
    else:
        forms = MIXED_REAL
        y = y * (gmax * float(10.0 ** rng.uniform(-1, 1)) / float(np.max(np.abs(y))))
    lx = forms[c % len(forms)]
    ly = forms[(c + 1 + c // len(forms) % (len(forms) - 1)) % len(forms)]
    if lx != ly:
        rel_mixed(eqsig, ctx, x, y, lx, ly, n_cyc, b)
        rel_mixed(eqsig, ctx, x, y, ly, lx, n_cyc, bv if c % 2 else b)


def round3_block(eqsig, ctx, x, rng, c):
    k = c % 4
    if k == 0:
        rejected_block(eqsig, ctx, x, rng, c // 4)
    elif k == 1:
        edge_block(eqsig, ctx, rng, c // 4)
    elif k == 2:
        silent_block(eqsig, ctx, x, rng, c // 4)
    else:
        seq_block(eqsig, ctx, x, rng, c // 4)


def run_shard(ctx):
    warnings.simplefilter('ignore')
    eqsig = core.import_eqsig()
    install(ctx)
    quick = ctx.tier == 'quick'
    # -- exhaustive A: {0..4}^n through the two series functions ---------------------------------------------------
    idx = 0
    n_enum = 0
    for L in range(2, (7 if quick else 8) + 1):
        for seq in itertools.product(range(5), repeat=L):
            idx += 1
            if idx % ctx.nshards != ctx.shard or len(set(seq)) < 2:
                continue
            with_int = not (quick and L == 7)
            for fname in (DELTA, PSEUDO):
                rel_enum(eqsig, ctx, fname, seq, idx // ctx.nshards, with_int)
            n_enum += 3 if with_int else 2
            if idx % 20000 == 1:
                ctx.sample({'fn': 'delta+pseudo', 'values': list(seq), 'variants': ['float', 'int', 'shift -2']})
    ctx.cases_enumerated(n_enum, n_enum, cls='exhaustive-alphabet(0..4)x{float,int,shifted}')
    ctx.exhaustive['alphabet5_sequences_x3_variants'] = n_enum
    # -- exhaustive B: {-2..2}^n through the power-law functions ----------------------------------------------------
    idx = 0
    n_enum = 0
    for L in range(2, (5 if quick else 6) + 1):
        for seq in itertools.product(range(-2, 3), repeat=L):
            idx += 1
            if idx % ctx.nshards != ctx.shard or len(set(seq)) < 2:
                continue
            k = idx // ctx.nshards
            x = np.array(seq, dtype=float) if k % 3 else np.array(seq, dtype=np.int64)
            b = (0.3, 1.0, 0.34, 0.75)[k % 4]
            cut = (0.0, 0.1, 0.5 * 0.1)[k % 3]
            rel_inverse(eqsig, ctx, x, 1.5, b, 0.0)
            rel_inverse(eqsig, ctx, x, 0.7, b, cut) if cut else None
            rel_identical(eqsig, ctx, x, 3.0, b)
            n_enum += 1
    ctx.cases_enumerated(n_enum, n_enum, cls='exhaustive-alphabet(-2..2)-powerlaw')
    ctx.exhaustive['alphabet5_signed_sequences_powerlaw'] = n_enum
    # -- random ------------------------------------------------------------------------------------------------------
    n_rand = (3000 if quick else 30000) // ctx.nshards + 1
    rng = ctx.rng
    for c in range(n_rand):
        if ctx.out_of_time():
            ctx.note('stopped_early_at_random_case', c)
            break
        n = int(rng.choice([2, 3, 4, 5, 8, 13, 50, 63, 64, 65, 200, 255, 256, 257, 1000, 1023, 1024, 1025, 5000],
                           p=[.04, .05, .03, .08, .1, .1, .2, .02, .02, .02, .16, .02, .02, .02, .04, .02, .02, .02, .02]))
        x, cls, integer = random_series(rng, n)
        x, tag = amplitude_and_offset(rng, x, integer)
        nontriv = bool(np.min(x) != np.max(x))
        cont, ckind = x, 'f64'
        if integer:
            r = rng.random()
            if r < 0.35:
                cont, ckind = x.astype(np.int64), 'i64'
            elif r < 0.6:
                cont, ckind = [int(v) for v in x], 'list-int'
            elif r < 0.7:
                cont, ckind = tuple(int(v) for v in x), 'tuple-int'
        elif rng.random() < 0.1:
            cont, ckind = x.tolist(), 'list-float'
        ctx.case(core.digest(x, ckind), nontrivial=nontriv, cls='random-%s/%s/%s' % (cls, tag.split('+')[0], ckind),
                 sample={'fn': 'series + power-law block', 'n': n, 'class': cls, 'amplitude': tag, 'container': ckind, 'head': x[:8]})
        if not nontriv:
            ctx.observe('constant series drawn (not judged)')
            continue
        series_block(eqsig, ctx, x, cont, integer, rng)
        power_block(eqsig, ctx, x, cont, integer, rng, c)
        if c % 12 == 0:
            micro_block(eqsig, ctx, rng)
        if c % 3 == 1:
            audit_block(eqsig, ctx, x, integer, rng, c // 3)
        if c % 6 == 2:
            extreme_block(eqsig, ctx, rng)
        if c % 2 == 1:
            round3_block(eqsig, ctx, x, rng, c // 2)
    if not quick or ctx.shard % 4 == 0:
        long_block(eqsig, ctx, rng)
    if ctx.shard % 8 == 1 or (not quick and ctx.shard % 2 == 1):
        matrix_block(eqsig, ctx, rng)
    ctx.note('monitored_calls', dict(attach.CALLS))


# ---------------------------------------------------------------------------------------------------------- replay
def replay(w):
    warnings.simplefilter('ignore')
    eqsig = core.import_eqsig()
    ctx = core.Ctx(PROP_ID, 'quick', 0, 0, 1)
    install(ctx)
    fn = w.get('fn')
    for style in (0, 1, 2):         # positional, everything by keyword, optional argument by keyword
        _STYLE['force'] = style
        if fn in RELATIONS:
            RELATIONS[fn](eqsig, ctx, w)
        elif fn in (DELTA, PSEUDO):
            _series_fn(eqsig, ctx, fn, w['values'])
        elif fn == NCYC:
            _ncyc(eqsig, ctx, w['values'], w['a_ref'], w['b'], w.get('cut_off', 0.01))
        elif fn == AMP:
            _amp(eqsig, ctx, w['values'], w['n_cyc'], w['b'])
        elif fn == GM:
            _gm(eqsig, ctx, w['values0'], w['values1'], w['n_cyc'], w['b'])
        elif fn == COMB:
            _comb(eqsig, ctx, w['values0'], w['values1'], w['n_cyc'], w['b'])
        else:
            _STYLE['force'] = None
            return ['unknown witness kind %r' % fn]
    _STYLE['force'] = None
    return ['%s: %s' % (v['clause'], v['msg']) for v in ctx.violations]
