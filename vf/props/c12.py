"""C12 - zero crossings and per-half-cycle (switched) peaks are exact.

Monitors: post-conditions on get_zero_crossings_array_indices / get_zero_crossings_indices (functional scalar oracle)
and get_switched_peak_array_indices / get_switched_peak_indices (the assertion set of the statement evaluated against an
oracle excursion decomposition). Workload: complete enumeration of small alphabets + random series.
"""
import itertools

import numpy as np

from vf import attach, core, gen
from vf.oracles import peaks as O

PROP_ID = 'C12'
TECHNIQUE = ('runtime post-condition monitors (functional oracle for crossings, assertion set of the statement for '
             'switched peaks); exhaustive small-alphabet + random workload')
RULE = ('cases = calls of the real functions. Exhaustive part: every sequence over {-2..2} of length 1..7 (quick) / 1..9 '
        '(thorough) with keep_adj_zeros in {False, True} and tol=0, and every sequence over {-3..3} of length 2..5 (quick) / '
        '2..7 (thorough) with tol in {0, 0.5, 1, 1.5, 2.5} (distinct by construction; non-trivial = series with at least '
        'two distinct values). Random part: series up to 5000 samples with >=3 levels per excursion, runs of exact zeros, '
        'non-zero/negative starts, tol in {0} u U(0, max|x|); distinct = digest(values, options).')
ASSUMPTIONS = ['NaN-free real input', 'tol >= 0',
               'switched peaks are judged on non-constant series only (they are defined through the local peaks of C11, '
               'whose domain excludes constant series); constant series are counted as observations',
               'ties: an index is "at the largest |value|" of its excursion when its |value| equals the excursion maximum']
EXHAUSTIVE = {'quick': '{-2..2}^n, n=1..7, x keep_adj_zeros {F,T}; {-3..3}^n, n=2..5, x tol {0,.5,1,1.5,2.5}',
              'thorough': '{-2..2}^n, n=1..9, x keep_adj_zeros {F,T}; {-3..3}^n, n=2..7, x tol {0,.5,1,1.5,2.5}'}
MIN_EVALS = {'quick': {'crossings==reference': 150000, 'switched.assertions(tol=0)': 80000, 'switched.tol-subsequence': 40000,
                       'crossings.tol-subsequence': 40000},
             'thorough': {'crossings==reference': 2500000, 'switched.assertions(tol=0)': 1500000,
                          'switched.tol-subsequence': 1500000, 'crossings.tol-subsequence': 1500000}}
CTX = None
K4 = 'C12/tol-split-excursion'


def n_shards(tier):
    return 16


def _wit(values, **kw):
    d = {'values': np.asarray(values), 'container': type(values).__name__}
    d.update(kw)
    return d


# ------------------------------------------------------------------------------------------------ monitors
def check_crossings(ctx, values, keep_adj_zeros, tol, result):
    vals = np.asarray(values, dtype=float).tolist()
    got = [int(i) for i in np.asarray(result).tolist()]
    ref0 = O.zero_crossings(vals, keep_adj_zeros)
    if tol == 0:
        ctx.check(got == ref0, 'crossings==reference',
                  lambda: _wit(values, fn='crossings', keep_adj_zeros=keep_adj_zeros, tol=tol, got=got, expected=ref0),
                  'zero crossings of %s (keep_adj_zeros=%s) -> %s expected %s' % (vals[:12], keep_adj_zeros, got[:20], ref0[:20]))
    else:
        s0 = set(ref0)
        okk = all(i in s0 for i in got) and all(b > a for a, b in zip(got, got[1:]))
        ctx.check(okk, 'crossings.tol-subsequence',
                  lambda: _wit(values, fn='crossings', keep_adj_zeros=keep_adj_zeros, tol=tol, got=got, tol0=ref0),
                  'tol=%g crossings %s not an ascending subsequence of tol=0 result %s' % (tol, got[:20], ref0[:20]))


def switched_assertions(vals, got):
    """Evaluate the assertion set of the statement (tol=0). Returns list of broken assertion names."""
    bad = []
    n = len(vals)
    if not all(b > a for a, b in zip(got, got[1:])) or any(i < 0 or i >= n for i in got):
        bad.append('strictly-ascending')
        return bad
    exc = O.excursions(vals)
    covered = set()
    gp = 0                      # two-pointer sweep: got and the excursions are both ascending
    ng = len(got)
    for (s, e, sg) in exc:
        while gp < ng and got[gp] < s:
            gp += 1
        inside = []
        q = gp
        while q < ng and got[q] < e:
            inside.append(got[q])
            q += 1
        covered.update(inside)
        if len(inside) != 1:
            bad.append('one-per-excursion')
            break
        m = max(abs(v) for v in vals[s:e])
        if abs(vals[inside[0]]) != m:
            bad.append('at-largest-abs')
            break
    others = [i for i in got if i not in covered]
    if others:
        tp = set(O.turning_points(vals)[0])
        if any(vals[i] != 0 or i not in tp for i in others):
            bad.append('others-are-zero-turning-points')
    for a, b in zip(got, got[1:]):
        if (vals[a] > 0 and vals[b] > 0) or (vals[a] < 0 and vals[b] < 0):
            bad.append('consecutive-share-sign')
            break
    if got:
        gm = max(abs(v) for v in vals)
        if gm > 0 and not any(abs(vals[i]) == gm for i in got):
            bad.append('global-max-included')
    return bad


def k4_explains(vals, got, got0, tol):
    """Mechanism classifier of the known finding C12/tol-split-excursion. The tolerance semantics of the algorithm (a half
    cycle ends only once a peak lies tol past zero on the other side) merges sub-tolerance excursions into the running half
    cycle and thereby splits the excursion in which the half cycle finally ends; the largest turning point of the merged
    half cycle is then reported although it is not the largest of its own excursion. The case is attributed to the
    finding only if (a) tol>0, (b) every index absent from the tol=0 result is a non-zero turning point, and (c) the
    whole result is exactly what those documented tolerance semantics give (executable reading in
    oracles/peaks.switched_with_tolerance). Any other deviation is a violation."""
    if not tol > 0:
        return False
    extra = [i for i in got if i not in set(got0)]
    if not extra:
        return False
    tp = set(O.turning_points(vals)[0])
    if any(vals[i] == 0 or i not in tp for i in extra):
        return False
    return got == O.switched_with_tolerance(vals, tol)


def check_switched(ctx, values, tol, result):
    import eqsig
    vals = np.asarray(values, dtype=float).tolist()
    if len(set(vals)) < 2:
        ctx.observe('switched: constant-series-call')
        return
    got = [int(i) for i in np.asarray(result).tolist()]
    if tol == 0:
        bad = switched_assertions(vals, got)
        ctx.check(not bad, 'switched.assertions(tol=0)', lambda: _wit(values, fn='switched', tol=tol, got=got, broken=bad),
                  'switched peaks of %s -> %s break %s' % (vals[:12], got[:20], bad))
    else:
        with attach.paused():
            got0 = [int(i) for i in eqsig.fns.peaks_and_crossings.get_switched_peak_array_indices(values, tol=0.0)]
        s0 = set(got0)
        okk = all(i in s0 for i in got) and all(b > a for a, b in zip(got, got[1:]))
        fin = None
        if not okk and all(b > a for a, b in zip(got, got[1:])) and k4_explains(vals, got, got0, tol):
            fin = K4
        ctx.check(okk, 'switched.tol-subsequence', lambda: _wit(values, fn='switched', tol=tol, got=got, tol0=got0),
                  'tol=%g switched peaks %s of %s not a subsequence of tol=0 result %s' % (tol, got[:20], vals[:12], got0[:20]),
                  finding=fin)


def _post_zc(args, kwargs, result, pre):
    values = args[0] if args else kwargs['values']
    kaz = args[1] if len(args) > 1 else kwargs.get('keep_adj_zeros', False)
    tol = args[2] if len(args) > 2 else kwargs.get('tol', 0.0)
    check_crossings(CTX, values, kaz, tol, result)


def _post_zc_sig(args, kwargs, result, pre):
    check_crossings(CTX, (args[0] if args else kwargs['asig']).values, False, 0.0, result)
    CTX.ok('get_zero_crossings_indices(signal) monitored')


def _post_sw(args, kwargs, result, pre):
    values = args[0] if args else kwargs['values']
    tol = args[1] if len(args) > 1 else kwargs.get('tol', 0.0)
    check_switched(CTX, values, tol, result)


def _post_sw_sig(args, kwargs, result, pre):
    a = args[0] if args else kwargs['asig']
    check_switched(CTX, a.values if hasattr(a, 'values') else a, 0.0, result)
    CTX.ok('get_switched_peak_indices(signal) monitored')


def install(ctx):
    global CTX
    CTX = ctx
    import eqsig
    pc = eqsig.fns.peaks_and_crossings
    attach.wrap(pc, 'get_zero_crossings_array_indices', _post_zc)
    attach.wrap(pc, 'get_zero_crossings_indices', _post_zc_sig)
    attach.wrap(pc, 'get_switched_peak_array_indices', _post_sw)
    attach.wrap(pc, 'get_switched_peak_indices', _post_sw_sig)


# ------------------------------------------------------------------------------------------------ workload
def _zc(eqsig, s, ctx, kaz, tol):
    try:
        eqsig.get_zero_crossings_array_indices(s, keep_adj_zeros=kaz, tol=tol)
    except Exception as e:
        ctx.exception('crossings==reference' if tol == 0 else 'crossings.tol-subsequence',
                      _wit(s, fn='crossings', keep_adj_zeros=kaz, tol=tol), e)


def _sw(eqsig, s, ctx, tol):
    try:
        eqsig.get_switched_peak_array_indices(s, tol=tol)
    except Exception as e:
        ctx.exception('switched.assertions(tol=0)' if tol == 0 else 'switched.tol-subsequence', _wit(s, fn='switched', tol=tol), e)


def random_series(rng, n):
    k = int(rng.integers(0, 6))
    if k == 0:      # smooth multi-level excursions
        x = np.convolve(rng.normal(size=n + 6), np.ones(7) / 7, mode='valid')[:n]
    elif k == 1:    # integer walk with exact zeros
        x = np.cumsum(rng.integers(-2, 3, size=n)).astype(float)
    elif k == 2:    # runs of zeros
        x = np.round(np.convolve(rng.normal(size=n + 4), np.ones(5) / 5, mode='valid')[:n] * 3)
    elif k == 3:    # negative / non-zero start
        x = np.sin(np.arange(n) * rng.uniform(0.05, 1.5) + rng.uniform(0, 6.3)) * rng.uniform(0.5, 3) - rng.uniform(0, 1)
    elif k == 4:
        x, _ = gen.record(rng, n, cls='plateau')
    else:
        x = rng.normal(size=n)
        x[rng.random(n) < 0.15] = 0.0
    return np.asarray(x, dtype=float), ['smooth', 'intwalk', 'zero-runs', 'offset-sine', 'plateau', 'noise+zeros'][k]


def run_shard(ctx):
    eqsig = core.import_eqsig()
    install(ctx)
    quick = ctx.tier == 'quick'
    # -- exhaustive A: {-2..2}^n, crossings (both keep_adj_zeros) + switched tol=0 ----------------------------------
    idx = 0
    n_enum = 0
    n_nt = 0
    for L in range(1, (7 if quick else 9) + 1):
        for seq in itertools.product(range(-2, 3), repeat=L):
            idx += 1
            if idx % ctx.nshards != ctx.shard:
                continue
            s = np.array(seq, dtype=float) if idx % 3 else np.array(seq, dtype=np.int64)
            if idx % 5 == 0 and L <= 6:
                s = np.array(seq, dtype=float) * 3e-10       # micro amplitude: same sign pattern, exact zeros stay zeros
            elif idx % 7 == 0 and L <= 7:
                s = np.array(seq, dtype=float) * (1e-200 if idx % 2 else 1e200)     # products of two samples under/overflow
            nontriv = len(set(seq)) > 1
            n_enum += 1
            n_nt += nontriv
            _zc(eqsig, s, ctx, False, 0.0)
            _zc(eqsig, s, ctx, True, 0.0)
            if nontriv:
                _sw(eqsig, s, ctx, 0.0)
            if idx % 9000 == 1:
                ctx.sample({'fn': 'crossings(kaz F,T)+switched', 'values': list(seq)})
    ctx.cases_enumerated(n_enum, n_nt, cls='exhaustive-alphabet(-2..2)')
    ctx.exhaustive['alphabet5_sequences'] = n_enum
    # -- exhaustive B: {-3..3}^n with tolerances ----------------------------------------------------------------------
    idx = 0
    n_enum = 0
    for L in range(2, (5 if quick else 7) + 1):
        for seq in itertools.product(range(-3, 4), repeat=L):
            idx += 1
            if idx % ctx.nshards != ctx.shard or len(set(seq)) < 2:
                continue
            s = np.array(seq, dtype=float)
            for tol in (0.0, 0.5, 1.0, 1.5, 2.5):
                n_enum += 1
                _sw(eqsig, s, ctx, tol)
                _zc(eqsig, s, ctx, False, tol)
                if tol and idx % 2:
                    _zc(eqsig, s, ctx, True, tol)
    ctx.cases_enumerated(n_enum, n_enum, cls='exhaustive-alphabet(-3..3)xtol')
    ctx.exhaustive['alphabet7_sequences_x_tol'] = n_enum
    # -- random -------------------------------------------------------------------------------------------------------
    n_rand = (3000 if quick else 60000) // ctx.nshards + 1
    rng = ctx.rng
    for c in range(n_rand):
        n = int(rng.choice([2, 3, 5, 8, 13, 50, 200, 1000, 5000], p=[.05, .05, .1, .1, .1, .2, .2, .15, .05]))
        long_case = c == 0 and (ctx.shard % 8 == 0 if ctx.tier == 'quick' else ctx.shard % 2 == 0)
        if long_case:
            n = int(rng.choice([65535, 65536, 65537, 70001]))     # a few long series past 2**16 (tol = 0 only: the
            # library's tolerance filter is quadratic in the number of crossings)
        x, cls = random_series(rng, n)
        r = rng.random()
        if r > 0.9:         # numerically special scales (see gen.special_scale)
            x, suffix = gen.special_scale(rng, x)
            cls += suffix
        elif r < 0.2:         # micro-amplitude records: non-zero samples far below 1e-8 (exact zeros stay exact)
            x = x * 10 ** rng.uniform(-13, -7)
            cls += '-micro'
        elif r < 0.26:      # huge dynamic range inside one record (one sample 1e3..1e12 times larger than the rest)
            x = x * 10 ** rng.uniform(-12, -3)
            j = 0 if rng.random() < 0.6 else int(rng.integers(len(x)))
            x[j] = rng.choice([-1.0, 1.0]) * 10 ** rng.uniform(0, 9)
            cls += '-outlier'
        elif r < 0.34:      # narrow / unsigned integer dtypes using most of their range
            dt_ = [np.int8, np.int16, np.int32][int(rng.integers(3))]
            ii = np.iinfo(dt_)
            xi_ = rng.integers(ii.min // 2, ii.max // 2, size=n)
            xi_[rng.random(n) < 0.1] = 0
            x = xi_.astype(float)
            cls = 'narrow-int'
        nontriv = len(set(x.tolist())) > 1
        tol = 0.0 if (rng.random() < 0.5 or long_case) else float(rng.uniform(0, np.max(np.abs(x)) + 1e-300))
        kaz = bool(rng.random() < 0.5)
        cont = x.tolist() if rng.random() < 0.15 else x
        if cls == 'narrow-int':
            cont = x.astype(dt_)
        elif cont is x and rng.random() < 0.12:
            cont, vk = gen.view_form(rng, x)
            cls += '-' + vk
        ctx.case(core.digest(x, tol, kaz), nontrivial=nontriv, cls='random-' + cls,
                 sample={'fn': 'crossings+switched', 'n': n, 'class': cls, 'tol': tol, 'keep_adj_zeros': kaz, 'head': x[:10]})
        _zc(eqsig, cont, ctx, kaz, 0.0)
        _zc(eqsig, cont, ctx, kaz, tol)
        if nontriv:
            _sw(eqsig, cont, ctx, 0.0)
            if tol:
                _sw(eqsig, cont, ctx, tol)
            if c % 4 == 0:
                try:
                    sig = eqsig.AccSignal(x, 0.01)
                    eqsig.fns.peaks_and_crossings.get_zero_crossings_indices(sig)
                    eqsig.fns.peaks_and_crossings.get_switched_peak_indices(sig)
                except Exception as e:
                    ctx.exception('switched.assertions(tol=0)', _wit(x, fn='signal-level'), e)
    ctx.note('monitored_calls', dict(attach.CALLS))


def replay(w):
    eqsig = core.import_eqsig()
    ctx = core.Ctx(PROP_ID, 'quick', 0, 0, 1)
    install(ctx)
    values = w['values']
    if w.get('container') == 'list':
        values = list(np.asarray(values).tolist())
    if w.get('fn') == 'crossings':
        eqsig.get_zero_crossings_array_indices(values, keep_adj_zeros=w.get('keep_adj_zeros', False), tol=w.get('tol', 0.0))
    elif w.get('fn') == 'signal-level':
        sig = eqsig.AccSignal(values, 0.01)
        eqsig.fns.peaks_and_crossings.get_zero_crossings_indices(sig)
        eqsig.fns.peaks_and_crossings.get_switched_peak_indices(sig)
    else:
        eqsig.get_switched_peak_array_indices(values, tol=w.get('tol', 0.0))
    return ['%s: %s' % (v['clause'], v['msg']) for v in ctx.violations if not v.get('finding')]
