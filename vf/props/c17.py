"""C17 - Butterworth filtering is zero-phase with the analytic gain; detrending is exact; adds; running average.

Monitors (post-conditions on every execution of the real methods, wherever the call comes from):
  Signal.butter_pass      length / dt preserved, finite output; on annotated sinusoid cases: interior == |H(f)|^2 * input
                          (analytic bilinear-transform Butterworth magnitude, vf/oracles/butter.py), gain, zero phase
  Signal.remove_poly,
  eqsig.fns.generic.remove_poly
                          best-fit degree-k polynomial of the result is zero, removed part is a polynomial of degree <= k,
                          result == own least-squares reference (one clause set per degree k and per entry point)
  Signal.add_constant / add_series / add_signal
                          element-wise sum of the pre-state; SignalProcessingError + unchanged object on mismatch
  Signal.running_average  == window mean over a copy of the pre-state
Relations between executions (driver, after the monitored calls returned): additivity F(x+y)=F(x)+F(y) over the whole
record per filter type x remove_gibbs option, homogeneity, cut-off container independence, idempotence of detrending,
invariance under adding a degree-k polynomial first, method == function; f(A); f(B); f(A); histories with deepcopy /
pickle / copy.copy, attribute assignments and refused calls (object unchanged, later calls == fresh twin).
"""
import math

import numpy as np

from vf import attach, core, gen, tol
from vf.oracles import butter as O

PROP_ID = 'C17'
TECHNIQUE = ('runtime post-condition monitors on Signal.butter_pass / remove_poly / add_* / running_average and '
             'eqsig.fns.generic.remove_poly with analytic (bilinear-transform) gain oracle, own Gram-Schmidt '
             'least-squares oracle and window-mean oracle; trace relations (additivity, idempotence, invariance) '
             'checked offline over the recorded executions')
RULE = ('cases: (1) sinusoids amp*sin(2 pi f t+phi), f = edge x {0.1,0.3,0.5,0.8,1,1.25,2,4,10}, stratified over '
        'filter type x remove_gibbs x order 1..4, base dt in {0.001..0.02} times a time scale (nice and arbitrary) so that '
        'dt spans 1e-9..1e3 with the cut-offs scaled along, amp in {1e-12,0.01,1,250,1e12}, float64/float32 records in '
        'array/list/tuple/strided/reversed/read-only form, cut-offs as tuple/list/ndarray passed positionally, by keyword '
        'or omitted (default), gibbs_extra 0/2, gibbs_range 1/7/200, odd and even lengths, 25 % with an awkward time step '
        '(1/49, 0.03, gen.awkward_dt ...) and cut-offs given as fractions of the Nyquist frequency, 20 % with a constant '
        'offset added (a frequency-0 sinusoid: expected times |H(0)|^2), record >= 60 periods of the lowest cut-off '
        '(non-trivial = |H|^2 >= 1e-4); pinned low-normalised-edge designs (dt=0.001,(0.5,10),order 4 ...); sequences '
        'of 2..4 calls on different sinusoids that reuse ONE cut-off container object (float64 ndarray, int ndarray, '
        'list, tuple), each call judged against the requested cut-offs, container compared bit-for-bit before/after '
        'every call. (2) additivity/homogeneity over the whole record on two independently drawn records of one dtype '
        '(float64 incl. amplitudes 1e-12/1e12 with scale factors 1e-20..1e12 and offsets 1e6; float32 dyadic; '
        'int64/32/16/8, uint8/16 using half the dtype range so that x+y is representable) per type x gibbs, lengths '
        '3(2N+1)+1 (minimal), around powers of two, a few past 2**16, dt 1e-9..1e3, every container form, gibbs_extra '
        '0..3, gibbs_range 1..4n, plateaus at the ends / extreme at the first or last sample. (3) detrending degree '
        'k=0..4 (positional, keyword, omitted) on records of k+1..2000 samples whose last sample lies >= 2.5 standard '
        'deviations (short n: 80 % of the attainable (n-1)/sqrt(n)) from the mean (end spike / dtype extreme, walk, '
        'ramp, step), all dtypes and container forms, the same argument object twice, method and array function. '
        '(4) add_constant/series/signal valid and mismatched, all dtype pairs with values over the full dtype range '
        '(sums leave the dtype), int constants that do not fit the dtype, own buffer / own object as argument, one '
        'argument object for two signals, positional and keyword. (5) running average widths 1..25 (int, numpy int, '
        'integral float, default, and REAL widths recovered from a quotient such as (k*dt)/dt one ulp off an integer) on '
        'records of 1..1025 samples (at / around powers of two) INCLUDING records shorter than the window, all dtypes '
        'and forms, 35 % with a huge dynamic range inside the record (1e6..1e12 pulse/plateau/offset next to a 1e-6..1e-2 '
        'coda, single outlier); all record workloads also draw monotone, one-sided, tail-heavy, alternating+offset, '
        'single-changed-sample, zeros-inside, both-ends-extreme and single-step records. (6) histories of 5..10 calls on one object (filters, detrends, adds, averages, resets to other '
        'lengths, reads of cached quantities, deepcopy) each compared with the same call on a fresh object. (7) two records of one '
        'shape back to back with the first result, a twin object and the caller arrays re-checked afterwards. '
        '(8) extreme but valid scales (gen.special_scale: uniformly 1e-300..1e-165 / 1e155..1e300, 1e-150 next to 1e150 in '
        'one record, ripple on a baseline closer than float32 resolution, counts above 2**24; float64 only) in 10 % of '
        'the float64 records of the linear, add, running-average, state and detrend workloads (filters clamped to '
        '1e-250..1e289, detrending to 1e-290..1e250 so that transients / added polynomials stay finite) and sinusoid '
        'amplitudes 1e-250..1e280; narrow band-pass designs (relative bandwidth 2..10 %, orders 3-4, record length from '
        'the ring-down time 25/(pi bw sin(pi/2N))) in the sinusoid and linear workloads; detrending of degree 3-4 over '
        'durations > 1000 s and < 1 ms. (9) round 3: sinusoids next to corners at the ENDS of the normalised cut-off range - '
        'low / high / upper band-pass corner at (1-e) x Nyquist with e log-uniform 1e-4..1e-2 (top 1 %) and 1e-2..0.2, low / '
        'high / lower band-pass corner at 1e-4..1e-3 x Nyquist, band-pass spanning both ends, band-pass of relative bandwidth '
        '0.1..2 %; test frequency at warped ratios 0.3..4 of the corner (0.95, 1, 1.05 included), nice and 1/k time steps, '
        'all orders x gibbs options x container forms, record length from the slowest pole (30 time constants before the '
        'middle half), <= 1.3e6 samples; pinned top-1 % designs; the same corner regions in 15 % of the additivity cases; '
        'silent (all-zero), constant and strictly positive records in every record workload; histories with pickle round '
        'trips, copy.copy + reset_values, deepcopy, continuing with the copy OR the original (the other one re-checked and '
        'used once more at the end), assignments to .values / .dt / .label / .smooth_fa_freqs (list, tuple, ndarray; 1, 2, 3, '
        'n entries) and refused calls (series / signal mismatch, corner >= Nyquist, 3 corners, scalar cut-off) in between; '
        '(10) round 4: records of 1..6 samples x every degree 0..4 (26 combinations, npts <= k included: result must be '
        'zero; one sample with k >= 1 raises inside numpy.polyfit on the clean tree: probed, counted only), every add '
        'variant x 1..6 samples, running average on 1..6 samples with widths 1..min(25, 2n+3) and 1..25; '
        'f(A); f(B); f(A) with B of the same or another shape and the same or other option values; time steps that differ '
        'by 0.1 % in add_signal. (11) round 5: scalar forms of every numeric argument - dt, filter_order, cut-off entries, '
        'gibbs_extra / gibbs_range, poly_fit, constant, width as Python numbers, np.float64 / float32 / int64 / int32 / int8 / '
        'uint8 / bool_ and 0-d arrays (mutable: snapshotted at call entry, compared bit-for-bit afterwards; float32 forms '
        'name a value rounded to float32 beforehand; not next to the ends of the band / narrow bands); bool-dtype on/off '
        'records in every record workload (x, y with disjoint pulses in the additivity cases); records of 1..20 samples WITH '
        'Gibbs padding and gibbs_extra large enough for the padded record to exceed the edge extension; npts a power of two '
        'with gibbs_extra = 0; every result array of the state cases overwritten by the caller, then the same call again. '
        'distinct = digest of the complete parameter set of the case.')
ASSUMPTIONS = ['finite real records; integer records of any width are in domain (the library must not compute in them)',
               'cut-offs 1e-4 Nyquist <= lo < hi <= (1 - 1e-4) Nyquist (general workload: < 0.8 Nyquist; the ends are driven by '
               'the corner-* classes; the bound is the record length of 1.3e6 samples, not the conditioning of the filter: it '
               'follows the analytic gain to 1e-8 of the amplitude down to 3e-5 Nyquist); gain clause: the middle half starts >= '
               '15 periods of the lowest cut-off, >= 25 ring-down time constants of the band and (corner classes) >= 30 time '
               'constants 1/(pi d sin(pi/2N)) samples of the slowest pole (d = distance of the nearest corner from 0 or from '
               'Nyquist in units of Nyquist) after the record start; relative bandwidth >= 0.1 % (gain), >= 2 % (relations)',
               'relations between filter runs allow scale*(1e-9 + 8 eps/w^2), w = smaller of lowest normalised corner and '
               'normalised bandwidth; no absolute floors: every tolerance is relative (running-average floor 1e-321)',
               'records longer than the filtfilt edge padding (3*(2N+1) samples band, 3*(N+1) low/high); shorter ones, '
               'object-dtype cut-off arrays holding None and the undocumented gibbs_range=0 are counted, not judged',
               'a float32 record may carry float32 rounding (1e-6 relative) through sums, means and the Gibbs pad value',
               'running average: each output is judged relative to its own window (16 eps x window length x max|x| in '
               'the window); detrending and filter relations relative to the global scale x conditioning',
               'detrending a record of npts <= k samples (k <= 4, so npts = 2..4): the polynomials of degree <= k take every '
               'value pattern on npts positions, so the best-fit VALUES are unique (= the record) and the result is zero; '
               'judged with the effective degree min(k, npts-1) and the tolerance 1e-9 x cond(Vandermonde(npts, npts-1)) x '
               'max|x| (cond = 2.6, 15, 99 for npts = 2, 3, 4; valid while numpy.polyfit\'s rank cut-off npts*eps keeps all '
               'npts genuine singular values, i.e. for every npts <= k <= 4; clean residuals are ~1e-15 max|x|); one sample '
               'with k >= 1 is outside the domain (numpy.polyfit raises LinAlgError on the clean tree)',
               'a real width w >= 1 means floor(w/2) positions on each side',
               'time-step mismatch is tested with steps that differ by >= 0.1 % (no knife edge)',
               'argument purity is not demanded when the caller passes the object itself / its own buffer to an add',
               'a refused call / an assignment through a public attribute name leaves values, dt and npts as they were or '
               'updates them completely; whether a call outside the quantifier (corner >= Nyquist, 3 corners) is refused is '
               'not judged; a shallow copy is only used after reset_values has rebound its values',
               'f(A); f(B); f(A): third == first to 1e-12 of max|result| (not bit-for-bit: summation order may depend on '
               'buffer alignment)',
               'scalar forms: an UNSIGNED numpy filter_order (np.uint8(3)) makes scipy.signal.butter design another filter '
               '(-N + 1 wraps): probed outside the monitors, judged since fix F45 of eqsig (order converted to a Python int); float filter_order / '
               'gibbs options raise TypeError in the clean tree (slice index) and are not driven',
               'settings other than dt (smoothing frequencies, response periods) are not named by the statement: not judged here',
               'oracles vf/oracles/butter.py are correct']

CTX = None
CUR = None          # the driver's current case: {'kind':..., 'params':..., 'expect':...}
_INSTALLED = False

TYPES = ('band', 'low', 'high')
GIBBS = (None, 'start', 'end', 'mid')
RATIOS = (0.1, 0.3, 0.5, 0.8, 1.0, 1.25, 2.0, 4.0, 10.0)
GAIN_TOL = 1e-5          # of the input amplitude (DESIGN (d))
DETREND_RTOL = 1e-9      # x Vandermonde condition number x max|x|
EXACT_RTOL = 1e-12
RUNAVG_RTOL = 16 * 2.220446049250313e-16    # x window length x max|x| in the window
RUNAVG_FLOOR = 1e-321     # a few spacings of the subnormal range (records down to 1e-300 are driven)
RUNAVG_RTOL32 = 4 * 1.1920929e-07            # float32 records are summed in float32
F32_RTOL = 1e-6         # a float32 record legitimately carries float32 rounding (eps 6e-8) through sums and means
MAX_SINE_N = 400000


def n_shards(tier):
    return 16


def gname(g):
    return 'none' if g is None else str(g)


# ------------------------------------------------------------------------------------------------------ helpers
def _witness(**observed):
    if CUR is not None:
        if CUR.get('call') is not None:
            observed['call_index'] = CUR['call']
        return {'kind': CUR['kind'], 'params': CUR['params'], 'observed': observed}
    return {'kind': 'direct', 'params': None, 'observed': observed}


def _direct_witness(fn, pre, **call):
    """For monitored calls that do not come from the C17 driver: complete inputs of the call itself."""
    d = {'fn': fn, 'values': pre['values'], 'dt': pre['dt'], 'cls': pre.get('cls', 'Signal')}
    d.update(call)
    return {'kind': 'direct', 'params': d, 'observed': {}}


def _wit(fn, pre, observed, **call):
    if CUR is not None:
        return _witness(fn=fn, **observed)
    w = _direct_witness(fn, pre, **call)
    w['observed'] = observed
    return w


def _dtcopy(dt):
    """A 0-d array is a MUTABLE scalar (`dt /= factor` changes the caller's step): snapshot it like any other array."""
    return np.array(dt, copy=True) if isinstance(dt, np.ndarray) else dt


def _snap(sig):
    v = np.array(sig.values, copy=True)
    return {'values': v, 'dt': _dtcopy(sig.dt), 'npts': sig.npts, 'cls': type(sig).__name__}


def _fz0(v):
    """Bit image of a scalar argument handed over as a (mutable) ndarray, None for immutable forms."""
    return _freeze(v) if isinstance(v, np.ndarray) else None


def _check_dt_0d(ctx, fn, sig, pre):
    """Round 5: the same 'time step preserved' verdict counted for the class of mutable (0-d array) time steps."""
    if isinstance(pre['dt'], np.ndarray):
        now = sig.dt
        ok = bool(np.ndim(now) == 0 and np.all(np.asarray(now) == pre['dt']))
        ctx.check(ok, 'mutable-0d-dt.preserved', lambda: _wit(fn, pre, {'dt_before': pre['dt'], 'dt_after': now}),
                  '%s changed the time step handed over as a 0-d array: %r -> %r' % (fn, pre['dt'], now))


def _check_scalar_arg(ctx, clause, fn, name, pre, now_obj):
    """A numeric argument handed over as a 0-d array is bit-for-bit what it was at call entry."""
    fr = pre.get('fz_' + name)
    if fr is None:
        return
    now = _freeze(now_obj)
    ctx.check(now == fr, clause, lambda: _wit(fn, pre, {'argument': name, 'before': _thaw_desc(fr), 'after': _thaw_desc(now)}),
              '%s modified its %s argument (a 0-d array): %s -> %s' % (fn, name, _thaw_desc(fr), _thaw_desc(now)))


def _finite(a):
    a = np.asarray(a)
    return a.dtype.kind in 'iub' or (a.dtype.kind == 'f' and bool(np.all(np.isfinite(a))))


def _cut_parts(cut_off):
    try:
        lo, hi = cut_off[0], cut_off[1]
        lo = None if lo is None else float(lo)
        hi = None if hi is None else float(hi)
        return lo, hi
    except Exception:
        return None


def _ftype(lo, hi):
    return 'band' if (lo is not None and hi is not None) else ('low' if lo is None else 'high')


# ------------------------------------------------------------------------------------------------------ monitors
def _pre_sig(args, kwargs):
    return _snap(args[0])


def _freeze(c):
    """Bit-for-bit image of a cut-off container (ndarray: dtype, shape, bytes; list/tuple: type and repr per item)."""
    if isinstance(c, np.ndarray):
        if c.dtype == object:
            return ('ndarray', 'object', c.shape, tuple((type(v).__name__, repr(v)) for v in c.ravel().tolist()))
        return ('ndarray', str(c.dtype), c.shape, np.ascontiguousarray(c).tobytes())
    if isinstance(c, (list, tuple)):
        return (type(c).__name__, tuple((type(v).__name__, repr(v)) for v in c))
    return ('other', repr(c))


def _thaw_desc(fr):
    if fr[0] == 'ndarray' and fr[1] != 'object':
        return 'ndarray(%s)%s' % (fr[1], np.frombuffer(fr[3], dtype=fr[1]).reshape(fr[2]).tolist())
    return repr(fr)[:200]


def _pre_butter(args, kwargs):
    pre = _snap(args[0])
    if len(args) > 1 or 'cut_off' in kwargs:
        pre['cut_frozen'] = _freeze(args[1] if len(args) > 1 else kwargs['cut_off'])
    pre['opt_frozen'] = {k: _freeze(v) for k, v in kwargs.items() if k != 'cut_off' and isinstance(v, np.ndarray)}
    return pre


def _post_butter(args, kwargs, result, pre):
    ctx = CTX
    sig = args[0]
    cut_off = args[1] if len(args) > 1 else kwargs.get('cut_off', (0.1, 15))
    call = {'cut_off': cut_off, 'kwargs': {k: v for k, v in kwargs.items() if k != 'cut_off'}}
    if 'cut_frozen' in pre:
        now = _freeze(cut_off)
        ctx.check(now == pre['cut_frozen'], 'butter.cutoff-argument-unchanged',
                  lambda: _wit('butter_pass', pre, {'cut_off_before': _thaw_desc(pre['cut_frozen']),
                                                    'cut_off_after': _thaw_desc(now)}, **call),
                  'butter_pass modified its cut_off argument: %s -> %s' % (_thaw_desc(pre['cut_frozen']), _thaw_desc(now)))
    if pre.get('opt_frozen'):
        now_o = {k: _freeze(kwargs[k]) for k in pre['opt_frozen']}
        ctx.check(now_o == pre['opt_frozen'], 'butter.option-argument-unchanged',
                  lambda: _wit('butter_pass', pre, {'before': {k: _thaw_desc(v) for k, v in pre['opt_frozen'].items()},
                                                    'after': {k: _thaw_desc(v) for k, v in now_o.items()}}, **call),
                  'butter_pass modified an option handed over as a 0-d array: %s -> %s'
                  % ({k: _thaw_desc(v) for k, v in pre['opt_frozen'].items()}, {k: _thaw_desc(v) for k, v in now_o.items()}))
    _check_dt_0d(ctx, 'butter_pass', sig, pre)
    after = np.asarray(sig.values)
    ctx.check(after.ndim == 1 and len(after) == pre['npts'] and sig.npts == pre['npts'], 'butter.length-preserved',
              lambda: _wit('butter_pass', pre, {'npts_before': pre['npts'], 'npts_after': sig.npts,
                                                'len_after': int(after.shape[0]) if after.ndim else -1}, **call),
              'butter_pass changed the length: %d -> npts %s / len %s' % (pre['npts'], sig.npts, after.shape))
    ctx.check(sig.dt == pre['dt'], 'butter.dt-preserved',
              lambda: _wit('butter_pass', pre, {'dt_before': pre['dt'], 'dt_after': sig.dt}, **call),
              'butter_pass changed dt: %r -> %r' % (pre['dt'], sig.dt))
    if not _finite(pre['values']):
        ctx.observe('butter.non-finite-input')
        return
    fin = _finite(after)
    ctx.check(fin, 'butter.finite-output',
              lambda: _wit('butter_pass', pre, {'n_nonfinite': int(np.sum(~np.isfinite(after)))}, **call),
              'butter_pass returned NaN/inf on a finite record (cut_off=%r, %r)' % (cut_off, call['kwargs']))
    if CUR is not None and CUR.get('expect') == 'sine':
        _check_sine(ctx, CUR.get('sine') or CUR['params'], pre, after, kwargs)


def _check_sine(ctx, p, pre, after, kwargs):
    """The filtered interior of a long sinusoid is the same sinusoid times |H(f)|^2, unshifted."""
    n = pre['npts']
    g = O.butter_gain_sq(p['f'], p['dt'], p['order'], p['lo'], p['hi'])
    # an added constant is a sinusoid of frequency 0: by linearity it comes out times |H(0)|^2 (1 low-pass, 0 otherwise)
    off = float(p.get('offset') or 0.0)
    g0 = O.butter_gain_sq(0.0, p['dt'], p['order'], p['lo'], p['hi']) if off else 0.0
    amp = p['amp'] + abs(off)        # each component to GAIN_TOL of its own amplitude
    i0, i1 = n // 4, (3 * n) // 4
    x = pre['values']
    if len(after) != n:
        return   # the length clause has fired; nothing to compare against
    ok, idx, err, allowed = tol.worst(after[i0:i1], g * (x[i0:i1] - off) + g0 * off, scale=amp, rtol=GAIN_TOL)
    desc = ('%s lo=%r hi=%r order=%d gibbs=%r dt=%g f=%g n=%d offset=%g: expected |H|^2=%.6g'
            % (_ftype(p['lo'], p['hi']), p['lo'], p['hi'], p['order'], p['gibbs'], p['dt'], p['f'], n, off, g))
    after = after - g0 * off if off else after
    ctx.check(ok, 'butter.sine.interior==|H|^2*sine',
              lambda: _witness(fn='butter_pass', gain_expected=g, err=err, allowed=allowed,
                               at=(None if idx is None else int(idx[0]) + i0)),
              'filtered interior deviates from |H(f)|^2*input by %.3g (allowed %.3g*amp); %s' % (err, GAIN_TOL, desc))
    if p.get('edge'):
        # the same verdict counted per region of the normalised cut-off range (MIN_EVALS guards every region)
        ctx.check(ok, 'butter.sine.corner-%s.interior==|H|^2*sine' % p['edge'],
                  lambda: _witness(fn='butter_pass', gain_expected=g, err=err, allowed=allowed,
                                   corners_over_nyquist=[None if v is None else 2.0 * v * p['dt'] for v in (p['lo'], p['hi'])]),
                  'corner at the end of the normalised range (%s): filtered interior deviates from |H(f)|^2*input of the '
                  'REQUESTED cut-offs by %.3g (allowed %.3g*amp); %s' % (p['edge'], err, GAIN_TOL, desc))
    fit = O.fit_quadrature(after, i0, i1, p['dt'], p['f'], p['phi']) if _finite(after) else None
    if fit is None:
        ctx.observe('butter.sine.fit-skipped')
        return
    a, b, res = fit
    got_gain = math.hypot(a, b) / p['amp']
    ctx.check(abs(math.hypot(a, b) - g * p['amp']) <= GAIN_TOL * amp, 'butter.sine.gain==|H|^2',
              lambda: _witness(fn='butter_pass', gain_expected=g, gain_got=got_gain),
              'amplitude ratio %.8g, expected squared Butterworth magnitude %.8g; %s' % (got_gain, g, desc))
    ctx.check(abs(b) <= GAIN_TOL * amp and a >= -GAIN_TOL * amp, 'butter.sine.zero-phase',
              lambda: _witness(fn='butter_pass', in_phase=a, quadrature=b, gain_expected=g),
              'output sinusoid is shifted: in-phase %.6g, quadrature %.6g (phase %.4g rad); %s'
              % (a, b, math.atan2(b, a), desc))
    ctx.check(res <= GAIN_TOL * amp, 'butter.sine.same-sinusoid',
              lambda: _witness(fn='butter_pass', residual=res),
              'interior is not a sinusoid of the input frequency: residual %.3g; %s' % (res, desc))


def _degree(args, kwargs, pos):
    return args[pos] if len(args) > pos else kwargs.get('poly_fit', 0)


def _check_detrend(ctx, api, before, after, k, wit):
    """Post-condition of one detrending execution (api = 'method' | 'fn')."""
    try:
        k = int(k)
        x = np.asarray(before, dtype=float)
    except Exception:
        ctx.observe('detrend.unparsed-call')
        return
    n = len(x)
    if x.ndim != 1 or not (0 <= k <= 4) or n < 1 or not _finite(x):
        ctx.observe('detrend.out-of-quantifier')
        return
    if n == 1 and k >= 1:
        # numpy's polyfit raises on the clean tree (one position, all columns of the scaled design matrix 0/0): outside
        ctx.observe('detrend.one-sample-degree>=1.outside-domain')
        return
    # round 4: records of npts <= k samples are records too. On n positions the polynomials of degree <= k span the same
    # values as those of degree <= min(k, n-1) (for n <= k: every series), so the best-fit VALUES are unique although the
    # coefficients are not, and every clause below is judged with the effective degree ke (for n <= k: result == 0).
    ke = min(k, n - 1)
    r = np.asarray(after, dtype=float)
    pre = 'detrend.%s.k%d.' % (api, k)
    if r.shape != x.shape:
        ctx.violation(pre + 'bestfit-zero', wit({'shape_after': list(r.shape)}), 'result has shape %s for %d samples'
                      % (r.shape, n))
        return
    scale = float(np.max(np.abs(x)))
    allowed = DETREND_RTOL * O.vander_cond(n, ke) * scale
    if not _finite(r):
        ctx.violation(pre + 'bestfit-zero', wit({'nonfinite': True}), 'detrended series contains NaN/inf')
        return
    if n <= k:
        # the class counted on its own (MIN_EVALS): n samples are interpolated by a polynomial of degree n-1 <= k, hence
        # the best-fit degree-k polynomial IS the series and nothing is left
        e0 = float(np.max(np.abs(r)))
        ctx.check(e0 <= allowed, 'detrend.%s.npts<=k.residual-zero' % api,
                  lambda: wit({'residual_max': e0, 'allowed': allowed, 'npts': n, 'k': k}),
                  'a record of %d samples detrended with degree %d (>= npts) must come out as zeros (its best-fit degree-%d '
                  'polynomial interpolates it): max|result|=%.3g (allowed %.3g, max|x|=%.3g)' % (n, k, k, e0, allowed, scale))
    fit = O.poly_part(r, ke)
    e1 = float(np.max(np.abs(fit)))
    ctx.check(e1 <= allowed, pre + 'bestfit-zero',
              lambda: wit({'bestfit_max': e1, 'allowed': allowed, 'mean_after': float(np.mean(r))}),
              'best-fit degree-%d polynomial of the detrended series is not zero: max|fit|=%.3g (allowed %.3g, '
              'max|x|=%.3g, n=%d, mean after=%.3g)' % (k, e1, allowed, scale, n, float(np.mean(r))))
    removed = x - r
    e2 = float(np.max(np.abs(removed - O.poly_part(removed, ke))))
    ctx.check(e2 <= allowed, pre + 'removed-is-poly',
              lambda: wit({'nonpoly_max': e2, 'allowed': allowed}),
              'removed part is not a polynomial of degree <= %d: distance %.3g (allowed %.3g)' % (k, e2, allowed))
    ref = x - O.poly_part(x, ke)
    e3 = float(np.max(np.abs(r - ref)))
    ctx.check(e3 <= allowed, pre + '==lstsq-reference',
              lambda: wit({'err': e3, 'allowed': allowed}),
              'detrended series differs from x - least-squares polynomial by %.3g (allowed %.3g)' % (e3, allowed))


def _pre_remove_poly_method(args, kwargs):
    pre = _snap(args[0])
    k = _degree(args, kwargs, 1)
    pre['k'] = _dtcopy(k)
    pre['fz_poly_fit'] = _fz0(k)
    return pre


def _post_remove_poly_method(args, kwargs, result, pre):
    sig = args[0]
    _check_scalar_arg(CTX, 'detrend.degree-argument-unchanged', 'Signal.remove_poly', 'poly_fit', pre, _degree(args, kwargs, 1))
    _check_dt_0d(CTX, 'Signal.remove_poly', sig, pre)
    k = pre['k']
    CTX.check(sig.dt == pre['dt'] and sig.npts == pre['npts'] and len(sig.values) == pre['npts'],
              'detrend.method.length+dt-preserved',
              lambda: _wit('Signal.remove_poly', pre, {'npts_after': sig.npts, 'dt_after': sig.dt}, poly_fit=k),
              'remove_poly changed npts/dt')
    _check_detrend(CTX, 'method', pre['values'], sig.values, k,
                   lambda obs: _wit('Signal.remove_poly', pre, obs, poly_fit=k))


def _pre_remove_poly_fn(args, kwargs):
    values = args[0] if args else kwargs['values']
    k = _degree(args, kwargs, 1)
    return {'values': np.array(values, copy=True), 'dt': None, 'npts': len(values), 'cls': type(values).__name__,
            'arg_frozen': _freeze(values), 'k': _dtcopy(k), 'fz_poly_fit': _fz0(k)}


def _post_remove_poly_fn(args, kwargs, result, pre):
    _check_scalar_arg(CTX, 'detrend.degree-argument-unchanged', 'generic.remove_poly', 'poly_fit', pre, _degree(args, kwargs, 1))
    k = pre['k']
    values = args[0] if args else kwargs['values']
    CTX.check(_freeze(values) == pre['arg_frozen'], 'detrend.fn.argument-unchanged',
              lambda: _wit('generic.remove_poly', pre, {'container': type(values).__name__}, poly_fit=k),
              'generic.remove_poly modified its values argument (%s)' % type(values).__name__)
    _check_detrend(CTX, 'fn', pre['values'], result, k,
                   lambda obs: _wit('generic.remove_poly', pre, obs, poly_fit=k))


def _rtol_for(*arrs):
    for a in arrs:
        if getattr(a, 'dtype', None) is not None and a.dtype == np.float32:
            return F32_RTOL
    return EXACT_RTOL


def _check_sum(ctx, clause, fn, sig, pre, addend, call):
    before = pre['values']
    try:
        add = np.asarray(addend, dtype=float)
    except Exception:
        ctx.observe('add.unparsed-call')
        return
    if not (_finite(before) and _finite(add)):
        ctx.observe('add.non-finite-input')
        return
    ref = np.array([float(a) + float(b) for a, b in zip(before.tolist(), np.broadcast_to(add, before.shape).tolist())])
    after = np.asarray(sig.values)
    scale = np.abs(before.astype(float)) + np.abs(np.broadcast_to(add, before.shape))
    rtol = _rtol_for(before, np.asarray(addend), after)
    ok = after.shape == ref.shape and sig.npts == pre['npts'] and sig.dt == pre['dt']
    atol = 1e-37 if rtol == F32_RTOL else 0.0       # float32 sums underflow below its smallest normal number
    if ok:
        ok, idx, err, allowed = tol.worst(after, ref, scale=scale, rtol=rtol, atol=atol)
    ctx.check(ok, clause, lambda: _wit(fn, pre, {'after_head': after[:8], 'expected_head': ref[:8],
                                                 'dtypes': [str(before.dtype), str(np.asarray(addend).dtype),
                                                            str(after.dtype)]}, **call),
              '%s is not the element-wise sum (%s + %s -> %s): %s'
              % (fn, before.dtype, np.asarray(addend).dtype, after.dtype,
                 tol.describe(after, ref, scale=scale, rtol=rtol) if after.shape == ref.shape
                 else 'shape %s' % (after.shape,)))
    if pre['npts'] <= 6:
        # the same verdict counted for the class of very short records (MIN_EVALS guards that the class is driven)
        ctx.check(ok, 'add.npts<=6==element-wise-sum',
                  lambda: _wit(fn, pre, {'after': after, 'expected': ref}, **call),
                  '%s on a record of %d samples is not the element-wise sum' % (fn, pre['npts']))


def _pre_add_arg(name):
    def pre_f(args, kwargs):
        pre = _snap(args[0])
        pre['values_obj'] = args[0].values
        arg = args[1] if len(args) > 1 else kwargs.get(name)
        pre['arg'] = arg
        vals = getattr(arg, 'values', arg) if name == 'new_signal' else arg
        try:
            pre['arg_copy'] = np.array(vals, copy=True)
            pre['arg_frozen'] = (_freeze(vals), getattr(arg, 'dt', None), getattr(arg, 'npts', None)) \
                if name == 'new_signal' else _freeze(vals)
        except Exception:
            pre['arg_copy'] = None
        return pre
    return pre_f


def _check_arg_pure(ctx, fn, name, sig, pre):
    """The series / other signal handed to the add is bit-for-bit what it was at call entry (skipped when the caller
    passed the object itself or its own buffer: then a change of the argument IS the requested change)."""
    arg = pre.get('arg')
    if pre.get('arg_copy') is None or arg is sig:
        return
    vals = getattr(arg, 'values', arg) if name == 'new_signal' else arg
    if isinstance(vals, np.ndarray) and isinstance(pre['values_obj'], np.ndarray) and np.shares_memory(vals, pre['values_obj']):
        ctx.observe('%s.argument-aliases-own-buffer' % fn)
        return
    now = (_freeze(vals), getattr(arg, 'dt', None), getattr(arg, 'npts', None)) if name == 'new_signal' else _freeze(vals)
    ctx.check(now == pre['arg_frozen'], '%s.argument-unchanged' % fn,
              lambda: _wit(fn, pre, {'container': type(vals).__name__}),
              '%s modified its %s argument' % (fn, name))


def _pre_add_constant(args, kwargs):
    pre = _snap(args[0])
    c = args[1] if len(args) > 1 else kwargs.get('constant')
    pre['c'] = _dtcopy(c)
    pre['fz_constant'] = _fz0(c)
    return pre


def _post_add_constant(args, kwargs, result, pre):
    _check_scalar_arg(CTX, 'add_constant.argument-unchanged', 'add_constant', 'constant', pre,
                      args[1] if len(args) > 1 else kwargs.get('constant'))
    _check_dt_0d(CTX, 'add_constant', args[0], pre)
    c = pre['c']          # the value the caller passed (a 0-d array is mutable)
    if np.ndim(c) != 0:
        CTX.observe('add_constant.non-scalar')
        return
    _check_sum(CTX, 'add_constant==values+c', 'add_constant', args[0], pre, c, {'constant': c})


def _expect_series_reject(sig_pre, series):
    try:
        return len(series) != sig_pre['npts']
    except Exception:
        return True


def _post_add_series(args, kwargs, result, pre):
    series = args[1] if len(args) > 1 else kwargs.get('series')
    call = {'series': series}
    if _expect_series_reject(pre, series):
        CTX.violation('add_series.rejects-length-mismatch',
                      _wit('add_series', pre, {'len_series': len(series) if hasattr(series, '__len__') else None,
                                               'npts': pre['npts']}, **call),
                      'add_series accepted a series of length %s on a signal of %d points'
                      % (len(series) if hasattr(series, '__len__') else '?', pre['npts']))
        return
    if np.ndim(series) != 1:
        CTX.observe('add_series.non-1d')
        return
    _check_arg_pure(CTX, 'add_series', 'series', args[0], pre)
    _check_dt_0d(CTX, 'add_series', args[0], pre)
    _check_sum(CTX, 'add_series==values+series', 'add_series', args[0], pre, pre['arg_copy'], call)


def _unchanged(sig, pre):
    v = np.asarray(sig.values)
    return (sig.npts == pre['npts'] and sig.dt == pre['dt'] and v.shape == pre['values'].shape
            and v.dtype == pre['values'].dtype and bool(np.all(v == pre['values'])))


def _is_spe(e):
    import eqsig
    return isinstance(e, eqsig.exceptions.SignalProcessingError)


def _exc_add_series(args, kwargs, e, pre):
    series = args[1] if len(args) > 1 else kwargs.get('series')
    call = {'series': series}
    _check_arg_pure(CTX, 'add_series', 'series', args[0], pre)
    if _expect_series_reject(pre, series):
        CTX.check(_is_spe(e) and _unchanged(args[0], pre), 'add_series.rejects-length-mismatch',
                  lambda: _wit('add_series', pre, {'exception': repr(e), 'unchanged': _unchanged(args[0], pre)}, **call),
                  'length mismatch must raise SignalProcessingError and leave the signal unchanged; got %r, unchanged=%s'
                  % (e, _unchanged(args[0], pre)))
    else:
        CTX.violation('add_series==values+series', _wit('add_series', pre, {'exception': repr(e)}, **call),
                      'add_series raised %r for a series of matching length' % (e,))


def _signal_mismatch(pre, other):
    import eqsig
    if not isinstance(other, eqsig.Signal):
        return 'non-signal'
    if other.dt != pre['dt']:
        return 'dt'
    if other.npts != pre['npts']:
        return 'length'
    return None


def _other_desc(other):
    import eqsig
    if isinstance(other, eqsig.Signal):
        return {'other_values': np.array(other.values), 'other_dt': other.dt, 'other_cls': type(other).__name__}
    return {'other_repr': repr(other)[:200]}


def _post_add_signal(args, kwargs, result, pre):
    other = args[1] if len(args) > 1 else kwargs.get('new_signal')
    mm = _signal_mismatch(pre, other)
    if mm is not None:
        CTX.violation('add_signal.rejects-%s-mismatch' % mm if mm != 'non-signal' else 'add_signal.rejects-non-signal',
                      _wit('add_signal', pre, {'mismatch': mm}, **_other_desc(other)),
                      'add_signal accepted an argument with %s mismatch' % mm)
        return
    _check_arg_pure(CTX, 'add_signal', 'new_signal', args[0], pre)
    desc = {'other_values': pre['arg_copy'], 'other_dt': pre['dt'], 'other_cls': type(other).__name__}
    _check_sum(CTX, 'add_signal==values+other.values', 'add_signal', args[0], pre, pre['arg_copy'], desc)


def _exc_add_signal(args, kwargs, e, pre):
    other = args[1] if len(args) > 1 else kwargs.get('new_signal')
    mm = _signal_mismatch(pre, other)
    _check_arg_pure(CTX, 'add_signal', 'new_signal', args[0], pre)
    if mm is None:
        CTX.violation('add_signal==values+other.values', _wit('add_signal', pre, {'exception': repr(e)},
                                                               **_other_desc(other)),
                      'add_signal raised %r for a matching signal' % (e,))
        return
    clause = 'add_signal.rejects-%s-mismatch' % mm if mm != 'non-signal' else 'add_signal.rejects-non-signal'
    CTX.check(_is_spe(e) and _unchanged(args[0], pre), clause,
              lambda: _wit('add_signal', pre, {'exception': repr(e), 'unchanged': _unchanged(args[0], pre)},
                           **_other_desc(other)),
              '%s mismatch must raise SignalProcessingError and leave the signal unchanged; got %r, unchanged=%s'
              % (mm, e, _unchanged(args[0], pre)))


def _pre_running_average(args, kwargs):
    pre = _snap(args[0])
    w = args[1] if len(args) > 1 else kwargs.get('width', 1)
    pre['width'] = _dtcopy(w)
    pre['fz_width'] = _fz0(w)
    return pre


def _post_running_average(args, kwargs, result, pre):
    ctx = CTX
    sig = args[0]
    _check_scalar_arg(ctx, 'runavg.width-argument-unchanged', 'running_average', 'width', pre,
                      args[1] if len(args) > 1 else kwargs.get('width', 1))
    _check_dt_0d(ctx, 'running_average', sig, pre)
    width = pre['width']          # the width the caller passed (a 0-d array is mutable)
    call = {'width': width}
    x = pre['values']
    try:
        # floor(w/2) is defined for every real width >= 1 (a width computed as t/dt need not be integral)
        w_ok = math.isfinite(float(width)) and float(width) >= 1
    except Exception:
        w_ok = False
    if not w_ok or x.ndim != 1 or not _finite(x):
        ctx.observe('runavg.out-of-quantifier')
        return
    after = np.asarray(sig.values)
    ctx.check(sig.npts == pre['npts'] and after.shape == x.shape and sig.dt == pre['dt'], 'runavg.length+dt-preserved',
              lambda: _wit('running_average', pre, {'npts_after': sig.npts, 'dt_after': sig.dt}, **call),
              'running_average changed npts/dt')
    if after.shape != x.shape:
        return
    ref = np.array(O.window_means(x.tolist(), int(width)))
    # every output is the mean of ITS OWN window: accurate to the rounding of a sum of w terms of that window's size,
    # not to the global max|x| (a weak coda after a huge pulse must still be averaged correctly)
    wmax, wlen = O.window_absmax(x.tolist(), int(width))
    scale = np.array(wmax) * np.array(wlen, dtype=float)
    rtol = RUNAVG_RTOL32 if x.dtype == np.float32 else RUNAVG_RTOL
    ok, idx, err, allowed = tol.worst(after, ref, scale=scale, rtol=rtol, atol=RUNAVG_FLOOR)
    ctx.check(ok, 'runavg==mean-of-original-window',
              lambda: _wit('running_average', pre, {'after': after[:50], 'expected': ref[:50], 'err': err,
                                                    'at': None if idx is None else int(idx[0])}, **call),
              'running_average(%r) on %d %s samples: %s (allowed = %.3g * window length * max|x| in the window)'
              % (width, len(x), x.dtype, tol.describe(after, ref, scale=scale, rtol=rtol, atol=RUNAVG_FLOOR), rtol))
    if len(x) <= 6:
        ctx.check(ok, 'runavg.npts<=6==mean-of-original-window',
                  lambda: _wit('running_average', pre, {'after': after, 'expected': ref}, **call),
                  'running_average(%r) on a record of %d samples is not the mean over the (clipped) window'
                  % (width, len(x)))


def install(ctx):
    """Attach the C17 monitors to the imported eqsig (idempotent per process)."""
    global CTX, _INSTALLED
    CTX = ctx
    if _INSTALLED:
        return
    import eqsig
    S = eqsig.single.Signal
    attach.wrap_method(S, 'butter_pass', _post_butter, pre=_pre_butter)
    attach.wrap_method(S, 'remove_poly', _post_remove_poly_method, pre=_pre_remove_poly_method)
    attach.wrap_method(S, 'add_constant', _post_add_constant, pre=_pre_add_constant)
    attach.wrap_method(S, 'add_series', _post_add_series, pre=_pre_add_arg('series'), on_exception=_exc_add_series)
    attach.wrap_method(S, 'add_signal', _post_add_signal, pre=_pre_add_arg('new_signal'), on_exception=_exc_add_signal)
    attach.wrap_method(S, 'running_average', _post_running_average, pre=_pre_running_average)
    attach.wrap(eqsig.fns.generic, 'remove_poly', _post_remove_poly_fn, pre=_pre_remove_poly_fn)
    _INSTALLED = True


# ------------------------------------------------------------------------------------------------------ cases
def _begin(kind, params, expect=None, sine=None, call=None):
    global CUR
    CUR = {'kind': kind, 'params': params, 'expect': expect, 'sine': sine, 'call': call}


def _end():
    global CUR
    CUR = None


def _scalar(v, form):
    """The same number handed over in another scalar form (checklist 28): Python float / int / bool, numpy scalars, 0-d
    arrays (mutable). float32 forms: the generator has rounded the value to float32 beforehand, so the number is the same."""
    if v is None or form in (None, 'py', 'float', 'int'):
        return v
    if form == 'np64':
        return np.float64(v)
    if form == 'np32':
        return np.float32(v)
    if form == '0d':
        return np.array(float(v))
    if form == '0d32':
        return np.array(float(v), dtype=np.float32)
    if form == 'pyint':
        return int(v)
    if form == 'pyfloat':
        return float(v)
    if form == 'np64i':
        return np.int64(int(v))
    if form == 'np32i':
        return np.int32(int(v))
    if form == 'np8i':
        return np.int8(int(v))
    if form == 'u8':
        return np.uint8(int(v))
    if form == '0di':
        return np.array(int(v))
    if form == 'bool':
        return bool(v)
    if form == 'npbool':
        return np.bool_(v)
    if form == '0dbool':
        return np.array(bool(v))
    raise ValueError(form)


def _mk_cut(lo, hi, container, form=None):
    if form is not None:
        lo, hi = _scalar(lo, form), _scalar(hi, form)
    if container == 'list':
        return [lo, hi]
    if container == 'ndarray':
        if lo is not None and hi is not None:
            return np.array([lo, hi], dtype=np.float32) if form in ('np32', '0d32') else np.array([lo, hi])
        return np.array([lo, hi], dtype=object)
    if container == 'ndarray-int':
        return np.array([int(lo), int(hi)])
    return (lo, hi)


def _mk_sig(eqsig, cls, values, dt, dt_form=None):
    return (eqsig.AccSignal if cls == 'AccSignal' else eqsig.Signal)(values, _scalar(dt, dt_form))


FORMS = ('array', 'list', 'tuple', 'view2', 'revview', 'readonly')


def _apply_form(x, form):
    """The same numbers handed over as another container: list / tuple, a non-contiguous every-second-element view,
    a reversed view of a reversed copy, a read-only array."""
    x = np.asarray(x)
    if form in (None, 'array'):
        return x
    if form == 'list':
        return x.tolist()
    if form == 'tuple':
        return tuple(x.tolist())
    if form == 'view2':
        buf = np.empty(2 * len(x), dtype=x.dtype)
        buf[::2] = x
        buf[1::2] = x[::-1]
        return buf[::2]
    if form == 'revview':
        return x[::-1].copy()[::-1]
    if form == 'readonly':
        c = x.copy()
        c.flags.writeable = False
        return c
    raise ValueError(form)


def _butter_kwargs(p):
    kw = {}
    if p['order'] != 4 or p.get('pass_order', True):
        kw['filter_order'] = _scalar(p['order'], p.get('order_form'))
    if p['gibbs'] is not None:
        kw['remove_gibbs'] = p['gibbs']
    if p.get('gibbs_extra') is not None and p['gibbs'] is not None:
        kw['gibbs_extra'] = _scalar(p['gibbs_extra'], p.get('gx_form'))
    if p.get('gibbs_range') is not None and p['gibbs'] is not None:
        kw['gibbs_range'] = _scalar(p['gibbs_range'], p.get('gx_form'))
    return kw


def _call_butter(sig, cut, p):
    """cut_off positional, by keyword, or omitted (the documented default (0.1, 15))."""
    if p.get('no_cut'):
        return sig.butter_pass(**_butter_kwargs(p))
    if p.get('cut_kw'):
        return sig.butter_pass(cut_off=cut, **_butter_kwargs(p))
    return sig.butter_pass(cut, **_butter_kwargs(p))


def case_sine(eqsig, ctx, p):
    """One long sinusoid through butter_pass; the deciding clauses are evaluated by the monitor."""
    x = O.sinusoid(p['n'], p['dt'], p['f'], p['phi'], p['amp'])
    if p.get('offset'):
        x = x + float(p['offset'])
    if p.get('dtype') == 'float32':
        x = x.astype(np.float32)
    sig = _mk_sig(eqsig, p.get('cls', 'AccSignal'), _apply_form(x, p.get('form')), p['dt'], p.get('dt_form'))
    cut = _mk_cut(p['lo'], p['hi'], p['container'], p.get('cut_form'))
    _begin('sine', p, expect='sine')
    try:
        _call_butter(sig, cut, p)
        ctx.ok(_accept_clause(p['container']))
    except Exception as e:
        ctx.exception(_accept_clause(p['container']), _witness(fn='butter_pass'), e)
    finally:
        _end()


def case_sine_seq(eqsig, ctx, P):
    """2..4 butter_pass calls on different sinusoids that REUSE ONE cut-off container object; every call is judged by
    the monitor against the REQUESTED cut-offs (the values the container held before the first call)."""
    cut = _mk_cut(P['lo'], P['hi'], P['container'])
    for j, pj in enumerate(P['calls']):
        pj = dict(pj, lo=P['lo'], hi=P['hi'], container=P['container'])
        x = O.sinusoid(pj['n'], pj['dt'], pj['f'], pj['phi'], pj['amp'])
        sig = _mk_sig(eqsig, pj.get('cls', 'AccSignal'), x, pj['dt'])
        _begin('sine-seq', P, expect='sine', sine=pj, call=j)
        try:
            sig.butter_pass(cut, **_butter_kwargs(pj))
            ctx.ok(_accept_clause(P['container']))
            if j > 0:
                ctx.ok('butter.sine.reused-cutoff-object-call-judged')
        except Exception as e:
            ctx.exception(_accept_clause(P['container']), _witness(fn='butter_pass'), e)
        finally:
            _end()


def _accept_clause(container):
    return 'butter.cutoff-container.%s-accepted' % container.split('-')[0]


class _Rejected(Exception):
    pass


def _filtered(eqsig, p, values, container=None, ctx=None, cut_obj=None):
    """One monitored butter_pass execution; an exception on this in-domain call is recorded under the acceptance
    clause of the cut-off container and re-raised as _Rejected. cut_obj: an existing container object to reuse."""
    cont = container or p['container']
    sig = _mk_sig(eqsig, p.get('cls', 'AccSignal'), _apply_form(values, p.get('form')), p['dt'], p.get('dt_form'))
    cut = cut_obj if cut_obj is not None else _mk_cut(p['lo'], p['hi'], cont, p.get('cut_form'))
    if ctx is None:
        _call_butter(sig, cut, p)
        return np.array(sig.values)
    try:
        _call_butter(sig, cut, p)
    except Exception as e:
        ctx.exception(_accept_clause(cont), _witness(fn='butter_pass', container=cont), e)
        raise _Rejected()
    ctx.ok(_accept_clause(cont))
    return np.array(sig.values)


def _lin_allowed(p, scale):
    """Rounding allowance of a relation between filter runs: the recursion amplifies rounding by ~1/wn^2 for a
    normalised edge wn (poles at distance ~wn from the unit circle); a corner at (1-e) x Nyquist is the mirror image
    (z -> -z) of one at e x Nyquist, so wn is the distance of the nearest corner from either end of the band."""
    nyq = 0.5 / p['dt']
    wn = min(min(v / nyq, 1.0 - v / nyq) for v in (p['lo'], p['hi']) if v is not None)
    if p['lo'] is not None and p['hi'] is not None:
        wn = min(wn, (p['hi'] - p['lo']) / nyq)
    return scale * (1e-9 + 8 * np.finfo(float).eps / (wn * wn))


def _padlen(p):
    """Edge-extension length of the zero-phase filter for this design: 3 * number of transfer-function coefficients."""
    ft = _ftype(p['lo'], p['hi'])
    return 3 * (p['order'] * (2 if ft == 'band' else 1) + 1)


def _exact_sum(x, y):
    """x + y in the records' own dtype, or None if it is not exactly representable there."""
    if x.dtype.kind == 'b':
        # on/off records: NumPy adds bools with OR, which is the arithmetic sum only where the pulses do not overlap
        return None if bool(np.any(x & y)) else (x | y)
    if x.dtype.kind in 'iu':
        w = x.astype(np.int64) + y.astype(np.int64)
        info = np.iinfo(x.dtype)
        if w.min() < info.min or w.max() > info.max:
            return None
        return w.astype(x.dtype)
    if x.dtype == np.float32:
        w = x.astype(np.float64) + y.astype(np.float64)
        return w.astype(np.float32) if np.array_equal(w.astype(np.float32).astype(np.float64), w) else None
    return x + y


def case_linear(eqsig, ctx, p):
    """Additivity F(x+y) == F(x)+F(y) and homogeneity F(c x) == c F(x) over the WHOLE record; x, y and x+y are records
    of the same dtype (the generator makes the sum exactly representable), c*x is a float64 record."""
    x, y, c = np.asarray(p['x']), np.asarray(p['y']), p['c']
    ft = _ftype(p['lo'], p['hi'])
    cl_add = 'butter.additive.%s.gibbs-%s' % (ft, gname(p['gibbs']))
    cl_hom = 'butter.homogeneous.%s' % ft
    if not (_finite(x) and _finite(y)):
        ctx.observe('linear.non-finite-record.outside-domain')      # finite real records only (ASSUMPTIONS)
        return
    xy = _exact_sum(x, y)
    if xy is None:
        ctx.observe('linear.sum-not-representable-in-record-dtype')
        return
    xf, yf = x.astype(float), y.astype(float)
    _begin('linear', p)
    try:
        try:
            fx = _filtered(eqsig, p, x, ctx=ctx)
            fy = _filtered(eqsig, p, y, ctx=ctx)
            fxy = _filtered(eqsig, p, xy, ctx=ctx)
            fcx = _filtered(eqsig, p, c * xf, ctx=ctx)
        except _Rejected:
            ctx.observe('linear.relation-not-evaluated-after-exception')
            return
        if not (fx.shape == fy.shape == fxy.shape == fcx.shape == x.shape):
            ctx.violation(cl_add, _witness(shapes=[list(fx.shape), list(fy.shape), list(fxy.shape)]),
                          'filtered records have different shapes')
            return

        f32 = F32_RTOL if x.dtype == np.float32 else 0.0
        scale = float(np.max(np.abs(xf)) + np.max(np.abs(yf)))
        allowed = _lin_allowed(p, scale) + f32 * scale
        ok, idx, err, _ = tol.worst(fxy, fx + fy, scale=1.0, rtol=0.0, atol=allowed)
        ctx.check(ok, cl_add,
                  lambda: _witness(err=err, allowed=allowed, at=None if idx is None else int(idx[0]), n=len(x)),
                  'F(x+y) != F(x)+F(y): |diff|=%.3g at sample %s of %d (allowed %.3g; max|x|+max|y|=%.3g); %s lo=%r '
                  'hi=%r order=%d gibbs=%r dt=%g dtype=%s form=%s'
                  % (err, None if idx is None else int(idx[0]), len(x), allowed, scale, ft, p['lo'], p['hi'],
                     p['order'], p['gibbs'], p['dt'], x.dtype, p.get('form')))
        if p.get('mirror'):
            # round 5: the same verdict counted per added input class (MIN_EVALS guards that the class is driven)
            ctx.check(ok, 'butter.additive.class-%s' % p['mirror'],
                      lambda: _witness(err=err, allowed=allowed, n=len(x), mirror=p['mirror']),
                      'F(x+y) != F(x)+F(y) on the class %s: |diff|=%.3g (allowed %.3g), n=%d, %s gibbs=%r extra=%r dtype=%s'
                      % (p['mirror'], err, allowed, len(x), ft, p['gibbs'], p.get('gibbs_extra'), x.dtype))
        sc2 = abs(c) * float(np.max(np.abs(xf)))
        allowed2 = _lin_allowed(p, sc2) + f32 * sc2
        ok, idx, err, _ = tol.worst(fcx, c * fx, scale=1.0, rtol=0.0, atol=allowed2)
        ctx.check(ok, cl_hom,
                  lambda: _witness(err=err, allowed=allowed2, at=None if idx is None else int(idx[0]), n=len(x)),
                  'F(c x) != c F(x), c=%r: |diff|=%.3g at sample %s (allowed %.3g); %s gibbs=%r dtype=%s'
                  % (c, err, None if idx is None else int(idx[0]), allowed2, ft, p['gibbs'], x.dtype))
    finally:
        _end()


def case_container(eqsig, ctx, p):
    """tuple / list / ndarray cut-offs are all accepted and give the same record, also when ONE container object is
    reused for several calls (the same signal re-created each time)."""
    x = np.asarray(p['x'], dtype=float)
    p = dict(p, form=None)
    _begin('container', p)
    try:
        outs = {}
        reused = []
        for cont in p['containers']:
            obj = _mk_cut(p['lo'], p['hi'], cont)
            for r in range(int(p.get('reps', 1))):
                try:
                    v = _filtered(eqsig, p, x, container=cont, ctx=ctx, cut_obj=obj)
                except _Rejected:
                    break
                if r == 0:
                    outs[cont] = v
                else:
                    reused.append((cont, r, v))
        if p['lo'] is None or p['hi'] is None:
            # an ndarray holding None must have dtype=object: not clearly inside "cut-offs as array" -> counted only
            try:
                _filtered(eqsig, p, x, container='ndarray')
                ctx.observe('butter.object-ndarray-cutoff.accepted')
            except Exception as e:
                ctx.observe('butter.object-ndarray-cutoff.raised-%s' % type(e).__name__)
        ref = outs.get('tuple')
        if ref is None:
            return
        for cont, v in outs.items():
            if cont == 'tuple':
                continue
            ok = v.shape == ref.shape and tol.close(v, ref, scale=float(np.max(np.abs(x))), rtol=EXACT_RTOL)
            ctx.check(ok, 'butter.cutoff-container.same-result',
                      lambda: _witness(container=cont),
                      'cut-off given as %s filters differently from the tuple form' % cont)
        for cont, r, v in reused:
            ok = v.shape == ref.shape and tol.close(v, ref, scale=float(np.max(np.abs(x))), rtol=EXACT_RTOL)
            ctx.check(ok, 'butter.cutoff-container.reused-object-same-result',
                      lambda: _witness(container=cont, call_index=r),
                      'call %d with the SAME %s cut-off object filters differently from the first call with a fresh '
                      'tuple (cut-offs requested: lo=%r hi=%r)' % (r + 1, cont, p['lo'], p['hi']))
    finally:
        _end()


def case_short(eqsig, ctx, p, tag='short-record'):
    """Records not longer than the filtfilt edge padding / undocumented option values: outside the quantifier,
    counted only."""
    _begin('short', p)
    try:
        with attach.paused():
            try:
                out = _filtered(eqsig, p, np.asarray(p['x'], dtype=float))
                ctx.observe('butter.%s.accepted%s' % (tag, '' if _finite(out) else '-nonfinite-output'))
            except Exception as e:
                ctx.observe('butter.%s.raised-%s' % (tag, type(e).__name__))
    finally:
        _end()


def case_detrend(eqsig, ctx, p):
    """Method and array function, then the trace relations idempotence / polynomial invariance / agreement.
    The record is handed over in the container form p['form'] (list, views, read-only ...)."""
    x = np.asarray(p['x'])
    k = int(p['k'])
    n = len(x)
    poly = O.polynomial(n, p['coefs'])
    xf = x.astype(float)
    scale = float(np.max(np.abs(xf)))
    if n == 1 and k >= 1:
        _probe_one_sample(eqsig, ctx, p)
        return
    cond = O.vander_cond(n, min(k, n - 1))       # npts <= k: the polynomials of degree <= k span what degree n-1 spans
    allowed = DETREND_RTOL * cond * scale
    allowed_p = DETREND_RTOL * cond * (scale + float(np.max(np.abs(poly))))
    form = p.get('form')
    if form is None and p.get('fn_container') == 'list':
        form = 'list'
    _begin('detrend', p)
    try:
        res = {}
        for api in ('method', 'fn'):
            pre = 'detrend.%s.k%d.' % (api, k)

            def run(v, frm=form, reuse=None):
                vv = reuse if reuse is not None else _apply_form(v, frm)
                kk = _scalar(k, p.get('k_form'))        # round 5: the degree as numpy scalar / 0-d array / float / bool
                if api == 'method':
                    s = _mk_sig(eqsig, p.get('cls', 'AccSignal'), vv, p['dt'], p.get('dt_form'))
                    if p.get('noarg') and k == 0 and not p.get('k_form'):
                        s.remove_poly()
                    elif p.get('kw'):
                        s.remove_poly(poly_fit=kk)
                    else:
                        s.remove_poly(kk)
                    return s
                if p.get('noarg') and k == 0 and not p.get('k_form'):
                    return eqsig.fns.generic.remove_poly(vv)
                if p.get('kw'):
                    return eqsig.fns.generic.remove_poly(vv, poly_fit=kk)
                return eqsig.remove_poly(vv, kk) if hasattr(eqsig, 'remove_poly') else eqsig.fns.generic.remove_poly(vv, kk)
            try:
                held = _apply_form(x, form)
                out = run(x, reuse=held)
                r1 = np.array(out.values if api == 'method' else out, dtype=float)
                # the SAME argument object a second time (judged by the monitor against its values at call entry)
                out_b = run(x, reuse=held)
                r1b = np.array(out_b.values if api == 'method' else out_b, dtype=float)
                # idempotence: detrend the detrended series again (the method: same object, second execution)
                if api == 'method':
                    out.remove_poly(_scalar(k, p.get('k_form')))
                    r2 = np.array(out.values, dtype=float)
                else:
                    r2 = np.array(eqsig.fns.generic.remove_poly(r1, _scalar(k, p.get('k_form'))), dtype=float)
                # invariance: add a polynomial of degree <= k first
                out3 = run(xf + poly, frm='array' if form in ('list', 'tuple') else form)
                r3 = np.array(out3.values if api == 'method' else out3, dtype=float)
            except Exception as e:
                ctx.exception(pre + 'bestfit-zero', _witness(fn='remove_poly', api=api), e)
                continue
            res[api] = r1
            if not (r1.shape == r2.shape == r3.shape == r1b.shape == x.shape):
                ctx.violation(pre + 'idempotent', _witness(api=api, shapes=[list(r1.shape), list(r2.shape), list(r3.shape)]),
                              'detrended series have different shapes')
                continue
            ctx.check(np.array_equal(r1, r1b), 'detrend.%s.same-argument-object-twice' % api,
                      lambda: _witness(api=api, form=form),
                      'a second call with the same argument object gives another result (max diff %.3g)'
                      % float(np.max(np.abs(r1 - r1b))))
            e2 = float(np.max(np.abs(r2 - r1)))
            ctx.check(e2 <= allowed, pre + 'idempotent', lambda: _witness(api=api, err=e2, allowed=allowed),
                      'detrending the detrended series again changes it by %.3g (allowed %.3g, max|x|=%.3g, n=%d)'
                      % (e2, allowed, scale, n))
            e3 = float(np.max(np.abs(r3 - r1)))
            ctx.check(e3 <= allowed_p, pre + 'poly-invariant', lambda: _witness(api=api, err=e3, allowed=allowed_p),
                      'adding a degree-%d polynomial first changes the detrended series by %.3g (allowed %.3g)'
                      % (k, e3, allowed_p))
        if 'method' in res and 'fn' in res and res['method'].shape == res['fn'].shape:
            e = float(np.max(np.abs(res['method'] - res['fn'])))
            ctx.check(e <= allowed, 'detrend.k%d.method==function' % k, lambda: _witness(err=e, allowed=allowed),
                      'Signal.remove_poly and generic.remove_poly differ by %.3g (allowed %.3g)' % (e, allowed))
    finally:
        _end()


def _probe_one_sample(eqsig, ctx, p):
    """One sample with degree >= 1: numpy.polyfit raises LinAlgError on the clean tree -> outside the domain, counted only."""
    _begin('detrend', p)
    try:
        for api in ('method', 'fn'):
            try:
                if api == 'method':
                    _mk_sig(eqsig, p.get('cls', 'AccSignal'), np.asarray(p['x']), p['dt']).remove_poly(int(p['k']))
                else:
                    eqsig.fns.generic.remove_poly(np.asarray(p['x']), int(p['k']))
                ctx.observe('detrend.one-sample-degree>=1.%s.accepted' % api)
            except Exception as e:
                ctx.observe('detrend.one-sample-degree>=1.%s.raised-%s' % (api, type(e).__name__))
    finally:
        _end()


def _probe_unsigned_order(eqsig, ctx, rng, j):
    """filter_order as an UNSIGNED numpy integer (np.uint8 / np.uint16): scipy.signal.butter negates the order (-N + 1
    wraps around) and designs another filter or raises. Whether an unsigned scalar is an admissible 'order 1..4' is for the
    property owner to rule: the mechanism is probed outside the monitors and routed to a pending finding, never judged."""
    x = gen.record(rng, 400, cls='noise')[0]
    order = 1 + j % 4
    cut = [(0.5, 10.0), (None, 10.0), (0.5, None), (1.0, 5.0)][j % 4]
    with attach.paused():
        ref = eqsig.AccSignal(x, 0.01)
        ref.butter_pass(cut, filter_order=order)
        import warnings
        try:
            with warnings.catch_warnings():
                warnings.simplefilter('ignore')
                s = eqsig.AccSignal(x, 0.01)
                s.butter_pass(cut, filter_order=np.uint8(order))
            same = s.values.shape == ref.values.shape and tol.close(s.values, ref.values, scale=float(np.max(np.abs(x))),
                                                                   rtol=1e-9)
            # ruled a genuine defect under the integer policy (integer arguments of any width are in domain) and repaired in
            # eqsig (fix F45: the order is converted to a Python int): judged
            ctx.check(bool(same), 'butter.unsigned-numpy-order==int-order',
                      lambda: {'kind': 'direct', 'params': None, 'observed': {'fn': 'butter.unsigned-order', 'record': x, 'dt': 0.01,
                                                                              'cut_off': list(cut), 'filter_order': order}},
                      'butter_pass(%r, filter_order=np.uint8(%d)) differs from filter_order=%d' % (cut, order, order))
        except Exception as e:
            ctx.violation('butter.unsigned-numpy-order==int-order', {'record': x, 'cut_off': cut, 'filter_order': order},
                          'butter_pass with filter_order=np.uint8(%d) raised %r' % (order, e))


class _NotASignal(object):
    def __init__(self, values, dt):
        self.values = values
        self.dt = dt
        self.npts = len(values)


def case_add(eqsig, ctx, p):
    """add_constant / add_series / add_signal, valid and mismatched, own buffer / own object / one argument object
    for two signals; verdicts come from the monitors."""
    x = np.asarray(p['x'])
    sig = _mk_sig(eqsig, p.get('cls', 'AccSignal'), _apply_form(x, p.get('form')), p['dt'], p.get('dt_form'))
    kw = bool(p.get('kw'))
    _begin('add', p)
    try:
        op = p['op']
        if op == 'constant':
            c = p['c']
            if p.get('c_type') == 'np':
                c = np.float64(c)
            elif p.get('c_type') == 'int':
                c = int(c)
            elif p.get('c_type') == 'np-int':
                c = np.int64(int(c))
            elif p.get('c_type') not in (None, 'float'):
                c = _scalar(c, p['c_type'])       # round 5: np32, 0d, 0d32, 0di, bool, npbool, 0dbool
            try:
                sig.add_constant(constant=c) if kw else sig.add_constant(c)
            except Exception as e:
                ctx.exception('add_constant==values+c', _witness(fn='add_constant'), e)
        elif op == 'series':
            if p.get('alias') == 'self':
                sers = [sig.values]
            else:
                sers = [_apply_form(np.asarray(p['series']), p.get('series_container', 'array'))]
            sigs = [sig]
            if p.get('alias') == 'reuse':       # ONE series object added to two different signals
                sigs.append(_mk_sig(eqsig, p.get('cls', 'AccSignal'), np.asarray(p['x2']), p['dt'], p.get('dt_form')))
                sers = sers * 2
            for sg, ser in zip(sigs, sers):
                try:
                    sg.add_series(series=ser) if kw else sg.add_series(ser)
                except Exception:
                    pass            # judged by the monitor (expected rejection or not, exception type)
        else:
            if p.get('alias') == 'self':
                other = sig
            else:
                ov = np.asarray(p['other_values'])
                if p.get('other_cls') == 'not-a-signal':
                    other = _NotASignal(ov, p['other_dt'])
                elif p.get('other_cls') == 'ndarray':
                    other = ov
                else:
                    other = _mk_sig(eqsig, p.get('other_cls', 'AccSignal'), ov, p['other_dt'], p.get('other_dt_form'))
            sigs = [sig]
            if p.get('alias') == 'reuse':       # ONE other signal added to two different signals
                sigs.append(_mk_sig(eqsig, p.get('cls', 'AccSignal'), np.asarray(p['x2']), p['dt'], p.get('dt_form')))
            for sg in sigs:
                try:
                    sg.add_signal(new_signal=other) if kw else sg.add_signal(other)
                except Exception:
                    pass            # judged by the monitor
    finally:
        _end()


def case_runavg(eqsig, ctx, p):
    x = np.asarray(p['x'])
    sig = _mk_sig(eqsig, p.get('cls', 'AccSignal'), _apply_form(x, p.get('form')), p['dt'], p.get('dt_form'))
    _begin('runavg', p)
    try:
        w = p['width']
        if p.get('w_type') == 'np':
            w = np.int64(w)
        elif p.get('w_type') in ('float', 'real'):
            w = float(w)
        elif p.get('w_type') not in (None, 'int'):
            w = _scalar(w, p['w_type'])       # round 5: np32i, np64, np32, 0di, 0d, u8, bool, npbool
        if p.get('noarg') and int(p['width']) == 1:
            sig.running_average()
        elif p.get('kw'):
            sig.running_average(width=w)
        else:
            sig.running_average(w)
    except Exception as e:
        ctx.exception('runavg==mean-of-original-window', _witness(fn='running_average'), e)
    finally:
        _end()


def _apply_op(eqsig, sig, op):
    """One public call of a history / state case on sig. Returns nothing; exceptions propagate."""
    kind = op['op']
    if kind == 'butter':
        _call_butter(sig, _mk_cut(op['lo'], op['hi'], op.get('container', 'tuple')), op)
    elif kind == 'poly':
        sig.remove_poly(op['k'])
    elif kind == 'const':
        sig.add_constant(op['c'])
    elif kind == 'series':
        sig.add_series(np.asarray(op['series']))
    elif kind == 'signal':
        sig.add_signal(_mk_sig(eqsig, op.get('other_cls', 'Signal'), np.asarray(op['series']), sig.dt))
    elif kind == 'runavg':
        sig.running_average(op['width'])
    elif kind == 'reset':
        sig.reset_values(np.asarray(op['values']))
    elif kind == 'read':
        for name in op['names']:
            try:
                getattr(sig, name)
            except Exception as e:   # cached quantities are other properties' business
                CTX.observe('history.read-%s-raised-%s' % (name, type(e).__name__))
    else:
        raise ValueError(kind)


FORK_OPS = ('deepcopy', 'pickle', 'copy')
REFUSED_OPS = ('bad-series', 'bad-signal', 'bad-butter')


def _state_of(sig):
    return np.array(sig.values, copy=True), _dtcopy(sig.dt), sig.npts


def _same_state(sig, st):
    v = np.asarray(sig.values)
    return (v.shape == st[0].shape and v.dtype == st[0].dtype and bool(np.array_equal(v, st[0])) and sig.dt == st[1]
            and sig.npts == st[2] and len(v) == sig.npts)


def _as_container(values, container):
    v = np.asarray(values)
    return v.tolist() if container == 'list' else (tuple(v.tolist()) if container == 'tuple' else v)


def _refused_call(eqsig, sig, op):
    """A call that the clean library refuses (or that is outside the quantifier and may be refused)."""
    kind = op['op']
    if kind == 'bad-series':
        sig.add_series(_as_container(op['series'], op.get('container', 'ndarray')))
    elif kind == 'bad-signal':
        how = op['how']
        if how == 'non-signal':
            sig.add_signal(np.asarray(op['series']))
        else:
            sig.add_signal(_mk_sig(eqsig, op.get('other_cls', 'Signal'), np.asarray(op['series']),
                                   sig.dt * (op['dt_factor'] if how == 'dt' else 1.0)))
    else:
        nyq = 0.5 / sig.dt
        how = op['how']
        if how == 'corner>=nyquist':
            cut = {'low': (None, op['factor'] * nyq), 'high': (op['factor'] * nyq, None),
                   'band': (0.1 * nyq, op['factor'] * nyq)}[op['ftype']]
        elif how == 'three-corners':
            cut = [0.1 * nyq, 0.2 * nyq, 0.3 * nyq]
        else:
            cut = 0.2 * nyq
        kw = {'filter_order': op['order']}
        if op.get('gibbs') is not None:
            kw['remove_gibbs'] = op['gibbs']
        sig.butter_pass(cut, **kw)


def _twin_call(eqsig, ctx, p, sig, op, j):
    """op on sig and on a fresh object holding a copy of sig's current values; False after an exception."""
    twin = _mk_sig(eqsig, p.get('cls', 'AccSignal'), np.array(sig.values, copy=True), sig.dt)
    try:
        _apply_op(eqsig, twin, op)
        _apply_op(eqsig, sig, op)
    except Exception as e:
        ctx.exception('history.call==same-call-on-fresh-object', _witness(op=op['op']), e)
        return False
    a, b = np.asarray(sig.values), np.asarray(twin.values)
    ok = a.shape == b.shape and sig.npts == twin.npts and sig.dt == twin.dt and \
        tol.close(a, b, scale=float(np.max(np.abs(b))) if b.size else 0.0, rtol=EXACT_RTOL)
    ctx.check(ok, 'history.call==same-call-on-fresh-object', lambda: _witness(op=op['op']),
              'call %d (%s) on the object with a history differs from the same call on a fresh object holding '
              'the same values' % (j, op['op']))
    return True


def case_history(eqsig, ctx, p):
    """Several monitored calls on ONE object in random order with repeats, interleaved with reads of cached quantities,
    resets to other lengths, deepcopy / pickle round trip / copy.copy (+ reset_values) after which the history goes on
    with the copy or with the original while the other one must stay what it was, assignments through the public
    attribute names, and calls that are refused. Every call is judged by the monitors against the values at call entry;
    in addition the same call on a fresh object built from a copy of those values must give the same record."""
    import copy
    import pickle
    sig = _mk_sig(eqsig, p.get('cls', 'AccSignal'), np.asarray(p['x']), p['dt'], p.get('dt_form'))
    partners = []           # (object, its state when the two parted, how)
    for j, op in enumerate(p['ops'] + [{'op': 'end'}]):
        kind = op['op']
        _begin('history', p, call=j)
        try:
            if kind == 'end':
                for q, (src, st, how) in enumerate(partners):
                    ctx.check(_same_state(src, st), 'history.%s-source-unchanged' % how, lambda: _witness(op=how),
                              'calls on one of the two objects related by %s changed the other one' % how)
                    # the one that was left alone still behaves like a fresh object (both orders: copy first / original first)
                    fin = (p.get('final_ops') or [])
                    if q < len(fin) and _same_state(src, st):
                        _twin_call(eqsig, ctx, p, src, fin[q], j)
                break
            if kind in ('read', 'reset'):
                _apply_op(eqsig, sig, op)
                continue
            if kind in FORK_OPS:
                try:
                    if kind == 'deepcopy':
                        other = copy.deepcopy(sig)
                    elif kind == 'pickle':
                        other = pickle.loads(pickle.dumps(sig, protocol=op.get('protocol', pickle.HIGHEST_PROTOCOL)))
                    else:
                        # a shallow copy shares the value buffer by definition: rebind the copy's values first
                        other = copy.copy(sig)
                        other.reset_values(np.asarray(op['values']))
                        if np.shares_memory(other.values, sig.values):
                            ctx.observe('history.copy-still-shares-buffer-after-reset_values')
                            continue
                    if kind != 'copy':
                        ctx.check(_same_state(other, _state_of(sig)) and type(other) is type(sig),
                                  'history.%s-equals-source' % kind, lambda: _witness(op=kind),
                                  'the %s of a signal differs from it in values / dt / npts / class' % kind)
                except Exception as e:
                    ctx.exception('history.%s-source-unchanged' % kind, _witness(op=kind), e)
                    return
                if op.get('keep') == 'original':
                    partners.append((other, _state_of(other), kind))
                else:
                    partners.append((sig, _state_of(sig), kind))
                    sig = other
                continue
            if kind == 'assign':
                before = _state_of(sig)
                if op['attr'] == 'label':
                    new = op['value']
                elif op['attr'] == 'dt':
                    new = float(op['value'])
                else:
                    new = _as_container(op['value'], op.get('container', 'ndarray'))
                try:
                    setattr(sig, op['attr'], new)
                    ctx.observe('history.assign-%s-returned' % op['attr'])
                except Exception as e:
                    ctx.observe('history.assign-%s-raised-%s' % (op['attr'], type(e).__name__))
                ok = _same_state(sig, before)
                if not ok and op['attr'] == 'values':      # or taken over completely
                    nv = np.asarray(op['value'], dtype=float)
                    ok = (np.array_equal(np.asarray(sig.values, dtype=float), nv) and sig.npts == len(nv)
                          and len(sig.time) == len(nv) and sig.dt == before[1])
                if not ok and op['attr'] == 'dt':
                    ok = sig.dt == float(op['value']) and _same_state(sig, (before[0], sig.dt, before[2]))
                ctx.check(ok, 'history.attribute-assignment-all-or-nothing', lambda: _witness(op='assign', attr=op['attr']),
                          'after assigning to .%s the object is neither what it was nor completely updated: npts=%r '
                          'len(values)=%d len(time)=%d dt=%r' % (op['attr'], sig.npts, len(sig.values), len(sig.time), sig.dt))
                continue
            if kind in REFUSED_OPS:
                before = _state_of(sig)
                try:
                    _refused_call(eqsig, sig, op)
                    ctx.observe('history.%s-accepted' % kind)     # add_*: the monitor has recorded the violation
                except Exception:
                    ctx.check(_same_state(sig, before), 'history.refused-call-leaves-object-unchanged',
                              lambda: _witness(op=kind, how=op.get('how')),
                              'a refused %s call (%s) left the object changed: npts=%r len(values)=%d dt=%r'
                              % (kind, op.get('how'), sig.npts, len(sig.values), sig.dt))
                continue
            if not _twin_call(eqsig, ctx, p, sig, op, j):
                return
        finally:
            _end()


STATE_OPS = ('butter', 'poly', 'poly-fn', 'runavg', 'series', 'const')


def case_state(eqsig, ctx, p):
    """Two different records of the same shape processed back to back; the FIRST result (the array object handed out)
    is re-checked after the second call, so is a twin object built from the same caller array, and the caller's
    arrays themselves."""
    x, y = np.asarray(p['x']), np.asarray(p['y'])
    op = p['call']
    op_b = p.get('call_b') or op          # the call in between: same recipe, possibly other option values / another shape
    name = op['op']
    clause = 'state.first-result-unchanged-after-second-call.%s' % name
    x_in, y_in = _apply_form(x, p.get('form')), _apply_form(y, p.get('form'))
    fx, fy = _freeze(x_in), _freeze(y_in)
    _begin('state', p)
    try:
        def run(v, o=op):
            if name == 'poly-fn':
                return None, eqsig.fns.generic.remove_poly(v, o['k'])
            s = _mk_sig(eqsig, p.get('cls', 'AccSignal'), v, p['dt'])
            _apply_op(eqsig, s, o)
            return s, s.values
        try:
            twin = _mk_sig(eqsig, p.get('cls', 'AccSignal'), x_in, p['dt'])
            t0 = np.array(twin.values, copy=True)
            s1, v1 = run(x_in)
            c1 = np.array(v1, copy=True)
            s2, v2 = run(y_in, op_b)
            s3, v3 = run(x_in)          # f(A); f(B); f(A): the third result depends on the arguments only
        except Exception as e:
            ctx.exception(clause, _witness(op=name), e)
            return
        v3 = np.asarray(v3)
        ctx.check(v3.shape == c1.shape and v3.dtype == c1.dtype
                  and tol.close(v3, c1, scale=float(np.max(np.abs(c1))) if c1.size else 0.0, rtol=EXACT_RTOL),
                  'state.third-call==first-call.%s' % name, lambda: _witness(op=name),
                  'f(A); f(B); f(A): the third %s result differs from the first (same record, same arguments; B: %s)'
                  % (name, 'other options / shape' if p.get('call_b') else 'same options'))
        same = v1.dtype == c1.dtype and v1.shape == c1.shape and np.array_equal(v1, c1, equal_nan=v1.dtype.kind == 'f')
        if s1 is not None:
            same = same and np.array_equal(np.asarray(s1.values), c1, equal_nan=c1.dtype.kind == 'f')
        ctx.check(same and not np.shares_memory(v1, v2), clause, lambda: _witness(op=name),
                  'the result of the first %s call changed (or shares memory with the second result) after a second '
                  'call on another record of the same shape' % name)
        ctx.check(np.array_equal(np.asarray(twin.values), t0) and twin.npts == len(t0), 'state.twin-object-unchanged',
                  lambda: _witness(op=name), 'a second object built from the same caller array changed during %s' % name)
        ctx.check(_freeze(x_in) == fx and _freeze(y_in) == fy, 'state.caller-array-unchanged',
                  lambda: _witness(op=name), 'the array handed to the constructor / function changed during %s' % name)
        # round 5 (checklist 32): a result belongs to the caller. Every array handed out so far is overwritten in place,
        # then the same call is made with the same arguments: it must give the first value again (a result table handed
        # out by reference from a memo / lru_cache would now hold the caller's scribbles), and scribbling over a result
        # must not reach the arguments (a result that IS the argument, or a view of it)
        extra = [np.asarray(o['series']) for o in (op, op_b) if isinstance(o.get('series'), np.ndarray)]
        f_extra = [_freeze(a) for a in extra]
        wrote = 0
        for a in (v1, v2, v3):
            if isinstance(a, np.ndarray) and a.flags.writeable and a.size:
                a[...] = -7.25e3
                wrote += 1
        if not wrote:
            ctx.observe('state.no-writable-result-to-overwrite')
            return
        try:
            s4, v4 = run(x_in)
        except Exception as e:
            ctx.exception('state.result-overwritten-then-same-call==first.%s' % name, _witness(op=name), e)
            return
        v4 = np.asarray(v4)
        ctx.check(v4.shape == c1.shape and v4.dtype == c1.dtype
                  and tol.close(v4, c1, scale=float(np.max(np.abs(c1))) if c1.size else 0.0, rtol=EXACT_RTOL),
                  'state.result-overwritten-then-same-call==first.%s' % name, lambda: _witness(op=name),
                  'after the caller overwrote the arrays of the earlier %s results, the same call with the same arguments '
                  'no longer gives the first value (the result is handed out by reference from a memo?)' % name)
        ctx.check(_freeze(x_in) == fx and _freeze(y_in) == fy and [_freeze(a) for a in extra] == f_extra,
                  'state.overwriting-a-result-leaves-arguments-alone', lambda: _witness(op=name),
                  'overwriting the result of %s changed an argument of the call (the result shares memory with it)' % name)
    finally:
        _end()


def case_direct(eqsig, ctx, p):
    """Replay of a monitored call that did not come from this driver."""
    fn = p['fn']
    if fn == 'generic.remove_poly':
        eqsig.fns.generic.remove_poly(np.asarray(p['values']), p.get('poly_fit', 0))
        return
    sig = _mk_sig(eqsig, p.get('cls', 'Signal'), np.asarray(p['values']), p['dt'])
    try:
        if fn == 'butter_pass':
            sig.butter_pass(p['cut_off'], **(p.get('kwargs') or {}))
        elif fn == 'Signal.remove_poly':
            sig.remove_poly(p.get('poly_fit', 0))
        elif fn == 'add_constant':
            sig.add_constant(p['constant'])
        elif fn == 'add_series':
            sig.add_series(p['series'])
        elif fn == 'add_signal' and 'other_values' in p:
            sig.add_signal(_mk_sig(eqsig, p.get('other_cls', 'Signal'), p['other_values'], p['other_dt']))
        elif fn == 'running_average':
            sig.running_average(p['width'])
    except Exception:
        pass


CASES = {'sine': case_sine, 'sine-seq': case_sine_seq, 'linear': case_linear, 'container': case_container,
         'history': case_history, 'state': case_state,
         'short': case_short,
         'detrend': case_detrend, 'add': case_add, 'runavg': case_runavg, 'direct': case_direct}


# ------------------------------------------------------------------------------------------------------ generators
BAND_DESIGNS = [(0.1, 15.0), (0.5, 10.0), (1.0, 2.0), (0.25, 5.0), (2.0, 25.0), (0.1, 0.2), (0.05, 1.0), (5.0, 20.0),
                (0.02, 0.5)]
LOW_DESIGNS = [1.0, 5.0, 10.0, 15.0, 0.2, 25.0, 0.05]
HIGH_DESIGNS = [0.1, 0.5, 1.0, 5.0, 0.05, 0.02, 10.0]
SINE_DT = [0.001, 0.002, 0.005, 0.01, 0.02]
SINE_DT_P = [0.1, 0.1, 0.3, 0.3, 0.2]


def _pick_design(rng, ftype, nyq):
    """(lo, hi) with lo < hi < 0.8 nyq and hi >= 2 lo; fixed list or log-uniform."""
    for _ in range(50):
        if ftype == 'band':
            if rng.random() < 0.5:
                lo, hi = BAND_DESIGNS[int(rng.integers(len(BAND_DESIGNS)))]
            else:
                lo = float(10 ** rng.uniform(-1.5, 0.8))
                hi = lo * float(10 ** rng.uniform(0.31, 1.8))
            if hi < 0.8 * nyq and hi >= 2 * lo:
                return lo, hi
        elif ftype == 'low':
            hi = LOW_DESIGNS[int(rng.integers(len(LOW_DESIGNS)))] if rng.random() < 0.5 else float(10 ** rng.uniform(-1.3, 1.4))
            if hi < 0.8 * nyq:
                return None, hi
        else:
            lo = HIGH_DESIGNS[int(rng.integers(len(HIGH_DESIGNS)))] if rng.random() < 0.5 else float(10 ** rng.uniform(-1.5, 1.1))
            if lo < 0.8 * nyq:
                return lo, None
    return {'band': (0.5, 10.0), 'low': (None, 5.0), 'high': (0.5, None)}[ftype]


def gen_sine(rng, ftype, gibbs, order, ctx=None):
    for _ in range(30):
        awkward = rng.random() < 0.25
        if awkward:
            # time steps whose reciprocal is not an integer / not exact (1/49, 0.03, gen.awkward_dt) and cut-offs given as
            # fractions of the Nyquist frequency: any int()/round() of 1/dt or of cut_off/nyq shifts the corner
            r = rng.random()
            dt = 1.0 / gen.RECIP_K[int(rng.integers(len(gen.RECIP_K)))] if r < 0.3 else \
                (float(rng.choice([0.03, 0.007, 0.006, 0.0125, 0.07, 0.011])) if r < 0.6
                 else min(gen.awkward_dt(rng, int(rng.integers(2, 13))), 0.2))
            nyq = 0.5 / dt
            flo = float(rng.choice([0.01, 0.02, 0.05, 0.1, 0.125]))
            fhi = float(rng.choice([0.25, 0.4, 0.5, 0.75]))
            lo, hi = {'band': (flo * nyq, fhi * nyq), 'low': (None, fhi * nyq), 'high': (flo * nyq, None)}[ftype]
        else:
            dt = float(SINE_DT[int(rng.choice(len(SINE_DT), p=SINE_DT_P))])
            nyq = 0.5 / dt
            lo, hi = _pick_design(rng, ftype, nyq)
        narrow = False
        if ftype == 'band' and order >= 3 and not awkward and rng.random() < 0.3:
            # narrow band-pass: relative bandwidth 2..10 %, lower corner >= 0.01 Nyquist (the 2*order poles cluster)
            narrow = True
            f0 = float(10.0 ** rng.uniform(-1.7, -0.35)) * nyq
            rbw = float(rng.uniform(0.02, 0.1))
            lo, hi = f0 * (1 - rbw / 2), f0 * (1 + rbw / 2)
        f_low = lo if lo is not None else hi
        n = max(1024, int(math.ceil(60.0 / (f_low * dt))))
        if lo is not None and hi is not None:
            # a band-pass rings for ~1/(pi * bandwidth * sin(pi/2N)): the quarter record must cover 25 time constants
            n = max(n, int(math.ceil(4 * 25.0 / (math.pi * (hi - lo) * math.sin(math.pi / (2 * order))) / dt)))
        n += int(rng.integers(0, 2))       # odd and even lengths (centred Gibbs padding: int(diff_len / 2))
        if n > MAX_SINE_N:
            if ctx is not None:
                ctx.observe('sine.design-skipped-needs->400000-samples')
            continue
        edges = [e for e in (lo, hi) if e is not None]
        edge = edges[int(rng.integers(len(edges)))]
        f = edge * RATIOS[int(rng.integers(len(RATIOS)))]
        if narrow:      # inside, at and just outside the narrow band
            f = float(rng.choice([lo * 0.97, lo, math.sqrt(lo * hi), 0.5 * (lo + hi), hi, hi * 1.03, lo * 0.9, hi * 1.1]))
        if f >= 0.9 * nyq:
            if ctx is not None:
                ctx.observe('sine.frequency-skipped-above-0.9-nyquist')
            continue
        if ftype == 'band':
            container = ['tuple', 'list', 'ndarray'][int(rng.integers(3))]
        else:
            container = ['tuple', 'list'][int(rng.integers(2))]
        # the filter only sees f*dt: the same design at time steps from 1e-9 to 1e3
        ts = float(rng.choice([1.0, 1.0, 1e-6, 5e4])) if rng.random() < 0.6 else float(10.0 ** rng.uniform(-6, 4.7))
        if awkward:
            ts = 1.0
        dt, f = dt * ts, f / ts
        lo = None if lo is None else lo / ts
        hi = None if hi is None else hi / ts
        g_extra = int(rng.choice([0, 2])) if (gibbs is not None and n <= 50000 and rng.random() < 0.15) else None
        g_range = int(rng.choice([1, 7, 200])) if (gibbs is not None and rng.random() < 0.15) else None
        amp = float(rng.choice([1.0, 1.0, 0.01, 250.0, 1e-12, 1e12, 1e-200, 1e200, 10.0 ** -rng.uniform(165, 250),
                                10.0 ** rng.uniform(155, 280)]))
        return {'n': n, 'dt': dt, 'f': float(f), 'phi': float(rng.uniform(0, 2 * math.pi)),
                'amp': amp, 'offset': (amp * float(rng.choice([-100.0, -3.0, 0.5, 3.0, 100.0])) if rng.random() < 0.2
                                       else None), 'awkward_dt': bool(awkward), 'lo': lo, 'hi': hi, 'order': int(order),
                'pass_order': bool(rng.random() < 0.5), 'gibbs': gibbs, 'gibbs_extra': g_extra, 'gibbs_range': g_range,
                'container': container, 'cut_kw': bool(rng.random() < 0.3),
                'narrow_band': narrow, 'dtype': 'float32' if (rng.random() < 0.15 and 1e-30 < amp < 1e30) else 'float64',
                'form': FORMS[int(rng.integers(len(FORMS)))] if (n <= 50000 and rng.random() < 0.3) else 'array',
                'cls': 'AccSignal' if rng.random() < 0.7 else 'Signal'}
    return None


MAX_EDGE_N = 1300000
EDGE_KINDS = ('top-1%', 'top-20%', 'below-1e-3', 'both-ends', 'narrow-band')
EDGE_RATIOS = (0.3, 0.5, 0.8, 0.95, 1.0, 1.05, 1.25, 2.0, 4.0)
EDGE_LO, EDGE_EPS = 1e-4, 1e-4      # range of validity: corners in [1e-4, 1 - 1e-4] x Nyquist (bounded by MAX_EDGE_N samples)


def gen_edge_sine(rng, ftype, gibbs, order, kind, ctx=None):
    """Sinusoids next to corners at the ENDS of the normalised cut-off range (checklist 26):
    'top-1%'     low-pass / high-pass / upper band-pass corner at (1-e) x Nyquist, e log-uniform in [1e-4, 1e-2]
    'top-20%'    the same with e in [1e-2, 0.2] (the gap between the general workload, < 0.8 Nyquist, and the top 1 %)
    'below-1e-3' low-pass / high-pass / lower band-pass corner at w x Nyquist, w log-uniform in [1e-4, 1e-3]
    'both-ends'  band-pass from below 1e-3 to the top 1 % of the band (low / high-pass: one of the two at random)
    'narrow-band' band-pass (whatever the stratum's type) of relative bandwidth 0.1 % .. 2 % centred at 0.05 .. 0.9 x Nyquist,
                 test frequency at / between / just outside the corners
    Test frequency: the warped ratio tan(pi f dt) / tan(pi corner dt) drawn from EDGE_RATIOS (0.3 .. 4: next to the corner
    on both sides - in plain frequency the top corners leave no room above them), 10 % anywhere in the band.
    Record: the middle half starts >= 30 time constants 1/(pi d sin(pi/2N)) samples (d = distance of the nearest corner
    from 0 or from Nyquist, in units of Nyquist: the slowest pole of the design) and >= 15 periods of the lowest cut-off
    after the record start, covers >= 2 beat periods of a test frequency next to Nyquist and >= 25 ring-down times of the
    band; at most MAX_EDGE_N samples, which is what limits the range to [1e-4, 1 - 1e-4] x Nyquist (the filter itself
    follows the analytic gain to 1e-8 of the amplitude down to 3e-5 x Nyquist: probe in selftest/builders/c17_round3.md)."""
    for _ in range(60):
        r = rng.random()
        if r < 0.5:
            dt = float(SINE_DT[int(rng.choice(len(SINE_DT), p=SINE_DT_P))])
        elif r < 0.75:
            dt = 1.0 / gen.RECIP_K[int(rng.integers(len(gen.RECIP_K)))]
        else:
            dt = float(rng.choice([0.03, 0.007, 0.006, 0.0125, 0.07, 0.011]))
        nyq = 0.5 / dt
        k = kind
        if k == 'narrow-band':
            ftype = 'band'
        if k == 'both-ends' and ftype != 'band':
            k = 'top-1%' if rng.random() < 0.5 else 'below-1e-3'
        eps = float(10.0 ** rng.uniform(math.log10(EDGE_EPS), -2)) if k in ('top-1%', 'both-ends') else \
            float(10.0 ** rng.uniform(-2, math.log10(0.2)))
        wlo = float(10.0 ** rng.uniform(math.log10(EDGE_LO), -3))
        top = (1.0 - eps) * nyq
        if k == 'narrow-band':
            f0 = float(10.0 ** rng.uniform(math.log10(0.05), math.log10(0.9))) * nyq
            rbw = float(10.0 ** rng.uniform(-3, math.log10(0.02)))
            lo, hi = f0 * (1 - rbw / 2), f0 * (1 + rbw / 2)
        elif ftype == 'low':
            lo, hi = None, (wlo * nyq if k == 'below-1e-3' else top)
        elif ftype == 'high':
            lo, hi = (wlo * nyq if k == 'below-1e-3' else top), None
        elif k == 'below-1e-3':
            lo = wlo * nyq
            hi = lo * float(rng.choice([3.0, 30.0])) if rng.random() < 0.5 else float(rng.choice([0.1, 0.5, 0.79])) * nyq
        elif k == 'both-ends':
            lo, hi = wlo * nyq, top
        else:
            cands = [c for c in (0.05, 0.2, 0.5, 0.75, 0.9) if c * 1.05 < 1.0 - eps]
            lo, hi = float(rng.choice(cands)) * nyq, top
        corners = [v for v in (lo, hi) if v is not None]
        d = min(min(v / nyq, 1.0 - v / nyq) for v in corners)
        tau = 1.0 / (math.pi * d * math.sin(math.pi / (2 * order)))
        n = max(1024, int(math.ceil(4 * 30.0 * tau)), int(math.ceil(60.0 / (min(corners) * dt))))
        if ftype == 'band':
            n = max(n, int(math.ceil(4 * 25.0 / (math.pi * (hi - lo) * math.sin(math.pi / (2 * order))) / dt)))
        # the corner the test frequency sits next to: the one at the end of the range
        fc = max(corners, key=lambda v: -min(v / nyq, 1.0 - v / nyq))
        if k == 'narrow-band':
            ratio = None
            f = float(rng.choice([lo, lo, hi, hi, math.sqrt(lo * hi), 0.5 * (lo + hi), lo * (1 - rbw), hi * (1 + rbw),
                                  lo + 0.25 * (hi - lo), lo * (1 - 5 * rbw), hi * (1 + 5 * rbw)]))
        elif rng.random() < 0.1:
            f = float(rng.choice([0.002, 0.1, 0.5, 0.9, 0.995])) * nyq
            ratio = None
        else:
            ratio = float(EDGE_RATIOS[int(rng.integers(len(EDGE_RATIOS)))])
            f = math.atan(ratio * math.tan(math.pi * fc * dt)) / (math.pi * dt)
        if not 0.0 < f < nyq * (1 - 1e-6):
            continue
        if f > 0.5 * nyq:
            n = max(n, int(math.ceil(4.0 / (1.0 - f / nyq))))      # >= 2 beat periods inside the middle half
        else:
            n = max(n, int(math.ceil(4 * 3.0 / (f * dt))))            # >= 3 periods of the test frequency there
        n += int(rng.integers(0, 2))
        if n > MAX_EDGE_N:
            if ctx is not None:
                ctx.observe('sine-edge.design-redrawn-needs->%d-samples' % MAX_EDGE_N)
            continue
        if ftype == 'band':
            container = ['tuple', 'list', 'ndarray'][int(rng.integers(3))]
        else:
            container = ['tuple', 'list'][int(rng.integers(2))]
        ts = float(rng.choice([1.0, 1e-6, 5e4])) if rng.random() < 0.4 else 1.0
        dt, f = dt * ts, f / ts
        lo = None if lo is None else lo / ts
        hi = None if hi is None else hi / ts
        amp = float(rng.choice([1.0, 1.0, 0.01, 250.0, 1e-12, 1e12]))
        return {'n': n, 'dt': dt, 'f': float(f), 'phi': float(rng.uniform(0, 2 * math.pi)), 'amp': amp,
                'offset': (amp * float(rng.choice([-100.0, -3.0, 0.5, 3.0, 100.0])) if rng.random() < 0.15 else None),
                'lo': lo, 'hi': hi, 'order': int(order), 'pass_order': bool(rng.random() < 0.5), 'gibbs': gibbs,
                'gibbs_extra': int(rng.choice([0, 2])) if (gibbs is not None and n <= 50000 and rng.random() < 0.15) else None,
                'gibbs_range': int(rng.choice([1, 7, 200])) if (gibbs is not None and rng.random() < 0.15) else None,
                'container': container, 'cut_kw': bool(rng.random() < 0.3), 'edge': k, 'edge_ratio': ratio,
                'dtype': 'float32' if (n <= 200000 and rng.random() < 0.1) else 'float64',
                'form': FORMS[int(rng.integers(len(FORMS)))] if (n <= 50000 and rng.random() < 0.3) else 'array',
                'cls': 'AccSignal' if rng.random() < 0.7 else 'Signal'}
    return None


def pinned_edge_sines():
    """Corners in the top 1 % of the band with a test frequency next to them, one per type (always run)."""
    out = []
    for j, (lo, hi, f, order, g) in enumerate([(None, 49.8, 49.6, 4, None), (None, 49.7, 49.0, 2, 'mid'),
                                               (49.8, None, 49.7, 3, None), (10.0, 49.6, 49.5, 4, 'start'),
                                               (None, 49.95, 49.9, 1, 'end'), (0.05, 49.9, 49.85, 2, None)]):
        out.append({'n': 140000 if lo == 0.05 else 60000, 'dt': 0.01, 'f': f, 'phi': 0.3 + j, 'amp': 1.0, 'lo': lo,
                    'hi': hi, 'order': order, 'pass_order': True, 'gibbs': g,
                    'container': 'ndarray' if (lo is not None and hi is not None) else 'tuple', 'cls': 'AccSignal',
                    'edge': 'top-1%' if lo != 0.05 else 'both-ends'})
    return out


INT_BAND_DESIGNS = [(1, 10), (2, 25), (1, 2), (5, 20), (1, 15), (2, 8), (3, 12)]
SEQ_CONTAINERS = ['ndarray', 'ndarray-int', 'list', 'tuple']


def gen_sine_seq(rng, container, ftype, ctx=None):
    """One cut-off design, 2..4 sinusoid calls (own dt, frequency, order, gibbs option each)."""
    for _ in range(30):
        k = int(rng.integers(2, 5))
        dts = [float(SINE_DT[int(rng.choice(len(SINE_DT), p=SINE_DT_P))]) for _ in range(k)]
        nyq_min = 0.5 / max(dts)
        if container == 'ndarray-int':
            lo, hi = INT_BAND_DESIGNS[int(rng.integers(len(INT_BAND_DESIGNS)))]
            lo, hi = float(lo), float(hi)
            if hi >= 0.8 * nyq_min:
                continue
        else:
            lo, hi = _pick_design(rng, ftype, nyq_min)
        f_low = lo if lo is not None else hi
        calls = []
        for dt in dts:
            n = max(1024, int(math.ceil(60.0 / (f_low * dt))))
            edges = [e for e in (lo, hi) if e is not None]
            f = edges[int(rng.integers(len(edges)))] * RATIOS[int(rng.integers(1, 7))]   # 0.3 .. 2: visible output
            if n > MAX_SINE_N or f >= 0.9 * 0.5 / dt:
                calls = None
                break
            calls.append({'n': n, 'dt': dt, 'f': float(f), 'phi': float(rng.uniform(0, 2 * math.pi)),
                          'amp': float(rng.choice([1.0, 1.0, 0.01, 250.0])), 'order': int(rng.integers(1, 5)),
                          'pass_order': bool(rng.random() < 0.5), 'gibbs': GIBBS[int(rng.integers(4))],
                          'cls': 'AccSignal' if rng.random() < 0.7 else 'Signal'})
        if calls is None:
            if ctx is not None:
                ctx.observe('sine-seq.design-redrawn')
            continue
        return {'lo': lo, 'hi': hi, 'container': container, 'calls': calls}
    return None


def pinned_sines():
    """Designs with low normalised edges that were unstable in transfer-function form (F19) + the default cut-off."""
    out = []
    for g in GIBBS:
        for f in (0.5, 2.0, 10.0):
            out.append({'n': 120000, 'dt': 0.001, 'f': f, 'phi': 0.4, 'amp': 1.0, 'lo': 0.5, 'hi': 10.0, 'order': 4,
                        'pass_order': False, 'gibbs': g, 'container': 'tuple', 'cls': 'AccSignal'})
    for f in (1.0, 1.5):
        out.append({'n': 30000, 'dt': 0.002, 'f': f, 'phi': 1.0, 'amp': 1.0, 'lo': 1.0, 'hi': 2.0, 'order': 4,
                    'pass_order': False, 'gibbs': None, 'container': 'list', 'cls': 'Signal'})
        out.append({'n': 30000, 'dt': 0.02, 'f': f / 10, 'phi': 2.0, 'amp': 1.0, 'lo': 0.1, 'hi': 0.2, 'order': 4,
                    'pass_order': True, 'gibbs': 'mid', 'container': 'ndarray', 'cls': 'AccSignal'})
    for f in (0.05, 0.1, 1.0, 15.0, 30.0):     # the default cut-off (0.1, 15) at the default order
        out.append({'n': 60000, 'dt': 0.01, 'f': f, 'phi': 0.0, 'amp': 1.0, 'lo': 0.1, 'hi': 15.0, 'order': 4,
                    'pass_order': False, 'gibbs': None, 'container': 'tuple', 'cls': 'AccSignal',
                    'no_cut': f in (0.05, 1.0, 30.0), 'cut_kw': f in (0.1, 15.0)})   # default / keyword cut_off
    return out


LIN_N = [30, 40, 63, 64, 65, 100, 127, 128, 129, 333, 1000, 1023, 1024, 1025, 2048, 4095, 4096, 4097, 4684, 5000]
LONG_N = [65535, 65536, 65537, 70001, 131073]          # past 2**16: a few per quick run
EXTREME_SHARE = [0.1]      # share of float64 records at extreme scales (1e-300..1e300)
DYNRANGE_SHARE = [0.12]     # share of float64 records with a huge dynamic range inside the record
SILENT_SHARE = [0.06]       # share of float64 records that are all zero / constant
DTYPES = ['float64', 'float32', 'int64', 'int32', 'int16', 'int8', 'uint8', 'uint16']


def _two_records(rng, n):
    x, cx = gen.record(rng, n, allow_const=False)
    for _ in range(10):
        y, cy = gen.record(rng, n, allow_const=False)
        if cy != cx:
            break
    return x, cx, y, cy


def _decorate(rng, x):
    """Plateaus at the start / end and the extreme at the first / last sample (checklist line 6)."""
    n = len(x)
    tag = ''
    r = rng.random()
    if n >= 4 and r < 0.15:
        m = int(rng.integers(1, max(2, n // 5)))
        x[:m] = x[m]
        x[-m:] = x[-m - 1]
        tag = '+flat-ends'
    elif r < 0.3:
        ext = float(np.max(np.abs(x))) * float(rng.uniform(1.5, 5)) if x.dtype.kind == 'f' else None
        if rng.random() < 0.5:
            x[0] = ext if ext is not None else (np.max(x) if rng.random() < 0.5 else np.min(x))
            tag = '+extreme-first'
        else:
            x[-1] = -ext if ext is not None else (np.min(x) if rng.random() < 0.5 else np.max(x))
            tag = '+extreme-last'
    return x, tag


def dynrange_record(rng, n):
    """Huge dynamic range INSIDE one record: a big segment (one-sided pulse, plateau, offset + noise; 1e6..1e12)
    followed or preceded by a weak segment (noise, sine or an exact constant; 1e-6..1e-2), or one huge outlier sample
    in a weak record."""
    big = float(10.0 ** rng.uniform(6, 12))
    weak = float(10.0 ** rng.uniform(-6, -2))
    kind = int(rng.integers(4))
    wk = int(rng.integers(3))
    if wk == 0:
        x = rng.normal(size=n) * weak
        wname = 'noise'
    elif wk == 1:
        x = np.sin(np.arange(n) * rng.uniform(0.05, 1.5)) * weak
        wname = 'sine'
    else:
        x = np.full(n, 2.5 * weak if rng.random() < 0.5 else 2.5e-3)
        wname = 'const'
    if kind == 3 or n < 3:
        x[int(rng.integers(n))] = big * float(rng.choice([-1, 1]))
        return x, 'dynrange-outlier-%s' % wname
    m = int(rng.integers(1, max(2, (2 * n) // 3)))
    t = np.arange(m) / max(m - 1.0, 1.0)
    if kind == 0:
        seg = big * np.sin(np.pi * t) ** 2 + big * 0.01        # one-sided pulse
        sname = 'pulse'
    elif kind == 1:
        seg = np.full(m, big if rng.random() < 0.5 else 1e9)   # plateau
        sname = 'plateau'
    else:
        seg = big + rng.normal(size=m) * big * 1e-3            # un-removed offset with noise
        sname = 'offset'
    seg = seg * float(rng.choice([-1, 1]))
    if rng.random() < 0.7:
        x[:m] = seg
        return x, 'dynrange-%s-then-%s' % (sname, wname)
    x[-m:] = seg
    return x, 'dynrange-%s-then-%s' % (wname, sname)


SHAPES = ['monotone', 'one-sided-negative', 'one-sided-positive', 'tail-heavy', 'alternating+offset', 'single-changed-sample', 'zeros-inside',
          'both-ends-extreme', 'single-step']


def shape_record(rng, n, shape=None):
    """Records the statement does not forbid (checklist 11)."""
    shape = shape or SHAPES[int(rng.integers(len(SHAPES)))]
    a = float(10.0 ** rng.uniform(-2, 2))
    if shape == 'monotone':
        x = np.cumsum(np.abs(rng.normal(size=n))) * a * float(rng.choice([-1, 1])) + a * rng.normal()
    elif shape == 'one-sided-negative':
        x = -(np.abs(rng.normal(size=n)) + rng.uniform(0, 2)) * a
    elif shape == 'one-sided-positive':          # strictly one-signed: no zero, no sign change
        x = (np.abs(rng.normal(size=n)) + rng.uniform(0.01, 2)) * a
    elif shape == 'tail-heavy':
        x = np.zeros(n)
        m = max(1, n // int(rng.integers(3, 9)))
        x[-m:] = rng.normal(size=m) * a
        if rng.random() < 0.5:
            x[:-m] = rng.normal(size=n - m) * a * 1e-4
    elif shape == 'alternating+offset':
        x = a * (-1.0) ** np.arange(n) + a * float(rng.choice([0.0, 0.5, -3.0]))
    elif shape == 'single-changed-sample':
        x = np.full(n, a * float(rng.choice([-1.0, 0.0, 2.5])))
        x[int(rng.integers(n))] += a * float(rng.choice([-1, 1])) * rng.uniform(0.1, 10)
    elif shape == 'zeros-inside':
        x = rng.normal(size=n) * a
        for _ in range(int(rng.integers(1, 4))):
            i = int(rng.integers(n))
            x[i:i + int(rng.integers(1, max(2, n // 6)))] = 0.0
    elif shape == 'both-ends-extreme':
        x = rng.normal(size=n) * a
        x[0] = 6 * a * float(rng.choice([-1, 1]))
        x[-1] = 7 * a * float(rng.choice([-1, 1]))
    else:
        x = np.zeros(n)
        x[int(rng.integers(n)):] = a * float(rng.choice([-1, 1]))
    return x, 'shape-' + shape


def extreme_record(rng, n, lo=1e-300, hi=1e300):
    """Numerically special but valid scales (gen.special_scale): uniformly tiny / huge (a square or a product of two
    samples under/overflows), 1e-150 next to 1e150 inside one record, a ripple on a large baseline closer than float32
    resolution, counts above 2**24. Every value is a finite double; float64 only."""
    for _ in range(20):
        x, cls = gen.record(rng, n, allow_const=False)
        y, tag = gen.special_scale(rng, x)
        m = float(np.max(np.abs(y)))
        if tag and np.all(np.isfinite(y)) and m > 0:
            if m > hi:
                y = y * (hi / m)
            elif m < lo:
                y = y * (lo / m)
            return np.asarray(y, dtype=float), '%s/extreme-scale%s' % (cls, tag)
    return x, cls


def typed_record(rng, n, dtype, frac=1.0, dyadic=False):
    """A record of the given dtype. Integers use the fraction frac of the dtype's range (all of it by default, so that
    sums / differences of neighbours leave the dtype); float32 optionally dyadic so that x+y is exact."""
    dt_ = np.dtype(dtype)
    if dt_.kind in 'iu':
        info = np.iinfo(dt_)
        lo, hi = (-2 ** 52, 2 ** 52) if dt_.itemsize == 8 else (info.min, info.max)
        lo, hi = int(lo * frac), int(hi * frac)
        k = int(rng.integers(3))
        if k == 0:
            x = rng.integers(lo, hi + 1, size=n)
        elif k == 1:     # slow walk with plateaus, clipped to the range
            x = np.clip(np.cumsum(rng.integers(-(hi - lo) // 16 - 1, (hi - lo) // 16 + 2, size=n)) + (lo + hi) // 2, lo, hi)
        else:            # mostly the two extremes
            x = rng.choice(np.array([lo, hi, (lo + hi) // 2]), size=n, p=[0.45, 0.45, 0.1])
        x = np.asarray(x).astype(dt_)
        x, tag = _decorate(rng, x)
        return x, '%s%s' % (dt_.name, tag)
    if dt_ == np.float32:
        if dyadic:
            x = (rng.integers(-2 ** 11, 2 ** 11, size=n) / 64.0).astype(np.float32)
            return x, 'float32-dyadic'
        x, cls = gen.record(rng, n, allow_const=False)
        x, tag = _decorate(rng, x.astype(np.float32))
        return x, 'float32-%s%s' % (cls, tag)
    if rng.random() < DYNRANGE_SHARE[0]:
        return dynrange_record(rng, n)
    if rng.random() < SILENT_SHARE[0]:
        # a silent (all-zero) record / a record that never changes are valid input (checklist 27)
        if rng.random() < 0.6:
            return np.zeros(n), 'silent-all-zero'
        return np.full(n, float(rng.choice([-2.0, 0.5, 1e-9, 3e7]))), 'constant-nonzero'
    if rng.random() < 0.2:
        return shape_record(rng, n)
    if rng.random() < EXTREME_SHARE[0]:
        return extreme_record(rng, n)
    x, cls = gen.record(rng, n, allow_const=False)
    r = rng.random()
    tag = ''
    if r < 0.12:
        x = x / max(float(np.max(np.abs(x))), 1e-300) * 1e-12
        tag = '+amp1e-12'
    elif r < 0.18:
        x = x / max(float(np.max(np.abs(x))), 1e-300) * 1e12
        tag = '+amp1e12'
    elif r < 0.24:
        x = x + float(rng.choice([-1, 1])) * 1e6 * float(np.max(np.abs(x)))
        tag = '+offset1e6'
    x, t2 = _decorate(rng, x)
    return x, cls + tag + t2


def bool_record(rng, n, p_on=None):
    """on/off records of dtype bool (checklist 29): random switching, one rectangular pulse, a pulse train, mostly on with
    drop-outs. NumPy adds bools with OR; the library casts kind 'b' to float on purpose."""
    k = int(rng.integers(4))
    x = np.zeros(n, dtype=bool)
    if k == 0 or n < 3:
        x = rng.random(n) < (p_on if p_on is not None else rng.uniform(0.1, 0.9))
        name = 'random'
    elif k == 1:
        a = int(rng.integers(n))
        x[a:a + int(rng.integers(1, max(2, n // 2)))] = True
        name = 'pulse'
    elif k == 2:
        per = int(rng.integers(2, max(3, n // 4 + 2)))
        x = (np.arange(n) % per) < max(1, per // 2)
        name = 'train'
    else:
        x = ~(rng.random(n) < 0.1)
        name = 'dropouts'
    x = np.asarray(x, dtype=bool)
    if n >= 2 and (x.all() or not x.any()):
        x[int(rng.integers(n))] ^= True
    return x, 'bool-' + name


FLOAT_FORMS = ('np64', '0d', 'float', 'np32', '0d32')
INT_FORMS = ('np64i', 'np32i', '0di', 'pyint')


def _f32(v):
    return None if v is None else float(np.float32(v))


def r5_butter_forms(rng, p, allow32=True):
    """Checklist 28 for butter_pass: time step, order, cut-off entries, gibbs_extra / gibbs_range as Python numbers, numpy
    scalars and 0-d arrays. float32 forms: the value is rounded to float32 first, so every form names the same number
    (designs next to the ends of the band and narrow bands keep float64: a relative 6e-8 of the corner would show there)."""
    ff = FLOAT_FORMS if allow32 else FLOAT_FORMS[:3]
    p['dt_form'] = ff[int(rng.integers(len(ff)))]
    if p['dt_form'] in ('np32', '0d32'):
        p['dt'] = _f32(p['dt'])
    forms = list(INT_FORMS) + (['bool'] if p['order'] == 1 else [])
    p['order_form'] = forms[int(rng.integers(len(forms)))]
    p['pass_order'] = True
    p['cut_form'] = ff[int(rng.integers(len(ff)))]
    if p['cut_form'] in ('np32', '0d32'):
        p['lo'], p['hi'] = _f32(p['lo']), _f32(p['hi'])
    if p['gibbs'] is not None:
        if p.get('gibbs_extra') is None:
            p['gibbs_extra'] = 1
        if p.get('gibbs_range') is None:
            p['gibbs_range'] = 50
        p['gx_form'] = INT_FORMS[int(rng.integers(3))]
    return p


R5_LINEAR_CLASSES = ('short-record-gibbs', 'bool-record', 'scalar-forms', 'no-padding-needed')
R5_DTYPES = ['float64', 'float64', 'float32', 'int16', 'uint8', 'bool']


def gen_linear_r5(rng, ftype, gibbs, mirror):
    """Round 5 classes of the additivity / homogeneity workload:
    'short-record-gibbs'  records of 1..6 (a few 7..20) samples WITH Gibbs padding and gibbs_extra large enough that the
                          padded record is longer than the edge extension of the zero-phase filter (the library accepts
                          them; without padding such records are outside the domain), all dtypes incl. bool
    'bool-record'         on/off records of dtype bool, x and y with disjoint pulses (x | y is the arithmetic sum)
    'scalar-forms'        dt / order / cut-off entries / gibbs options as numpy scalars and 0-d arrays
    'no-padding-needed'   npts a power of two with gibbs_extra = 0: the padded length equals the record length"""
    if mirror == 'short-record-gibbs':
        g = gibbs or 'mid'
        n = int(rng.integers(1, 7)) if rng.random() < 0.8 else int(rng.integers(7, 21))
        p = gen_linear(rng, ftype, g, n_fixed=n, dtype_fixed=R5_DTYPES[int(rng.integers(len(R5_DTYPES)))])
        padlen = 3 * (p['order'] * (2 if ftype == 'band' else 1) + 1)
        e = 0
        while 2 ** (int(math.ceil(math.log2(n))) + e) <= padlen:
            e += 1
        p['gibbs_extra'] = e + int(rng.integers(0, 3))
        p['gibbs_range'] = [None, 1, n, 50][int(rng.integers(4))]
        p['edge'] = p.get('edge', '')
    elif mirror == 'bool-record':
        p = gen_linear(rng, ftype, gibbs, n_fixed=int(rng.choice([30, 64, 100, 129, 1000, 4097])), dtype_fixed='bool')
    elif mirror == 'no-padding-needed':
        g = gibbs or 'end'
        p = gen_linear(rng, ftype, g, n_fixed=int(rng.choice([32, 64, 128, 256, 1024, 4096])))
        p['gibbs_extra'] = 0
    else:
        p = gen_linear(rng, ftype, gibbs)
    if not (_finite(p['x']) and _finite(p['y'])):        # the generator's fault, never the library's
        p['x'], p['y'] = np.nan_to_num(np.asarray(p['x'], dtype=float), nan=0.0, posinf=1.0, neginf=-1.0), \
            np.nan_to_num(np.asarray(p['y'], dtype=float), nan=0.0, posinf=1.0, neginf=-1.0)
    narrow = ftype == 'band' and (p['hi'] - p['lo']) < 0.11 * p['lo']
    if mirror == 'scalar-forms' or rng.random() < 0.3:
        r5_butter_forms(rng, p, allow32=not (p.get('edge') or narrow))
    p['mirror'] = mirror
    return p


def _pick_dtype(rng, p64=0.55):
    return 'float64' if rng.random() < p64 else DTYPES[int(rng.integers(1, len(DTYPES)))]


def _wide_dt(rng):
    """time steps from 1e-9 to 1e3 (15 %), else the shared generator."""
    if rng.random() < 0.15:
        return float(10.0 ** rng.uniform(-9, 3))
    return min(gen.dt(rng), 0.1)


def gen_linear(rng, ftype, gibbs, n_fixed=None, dtype_fixed=None):
    dt = _wide_dt(rng)
    nyq = 0.5 / dt
    wn_lo = float(10 ** rng.uniform(-3.0, -0.4)) if rng.random() < 0.85 else float(10 ** rng.uniform(-3.7, -3.0))
    if ftype == 'band':
        lo = wn_lo * nyq
        hi = min(lo * float(10 ** rng.uniform(0.05, 2.5)), 0.9 * nyq)
    elif ftype == 'low':
        lo, hi = None, min(wn_lo * 3, 0.9) * nyq
    else:
        lo, hi = min(wn_lo * 3, 0.9) * nyq, None
    order = int(rng.integers(1, 5))
    edge = ''
    if ftype == 'band' and order >= 3 and rng.random() < 0.25:
        # narrow band-pass, relative bandwidth 2..10 %, lower corner >= 0.01 Nyquist
        f0 = float(10.0 ** rng.uniform(-1.9, -0.3)) * nyq
        rbw = float(rng.uniform(0.02, 0.1))
        lo, hi = f0 * (1 - rbw / 2), f0 * (1 + rbw / 2)
    elif rng.random() < 0.15:
        # ends of the normalised cut-off range (checklist 26): within 1 % of Nyquist / below 1e-3 of it
        top = (1.0 - float(10.0 ** rng.uniform(-4, -2))) * nyq
        bot = float(10.0 ** rng.uniform(-4, -3)) * nyq
        which = int(rng.integers(3))
        if ftype == 'band':
            lo, hi = [(lo if lo < 0.9 * top else 0.5 * top, top), (bot, max(hi, 3 * bot)), (bot, top)][which]
        elif ftype == 'low':
            lo, hi = None, (bot if which == 1 else top)
        else:
            lo, hi = (bot if which == 1 else top), None
        edge = ['top-1%', 'below-1e-3', 'both-ends' if ftype == 'band' else 'top-1%'][which]
    r = rng.random()
    if gibbs is None and r < 0.1:
        n = 3 * (order * (2 if ftype == 'band' else 1) + 1) + 1 + int(rng.integers(0, 2))   # minimal accepted length
    elif r < 0.125:
        n = int(LONG_N[int(rng.integers(len(LONG_N)))])
    else:
        n = int(LIN_N[int(rng.integers(len(LIN_N)))])
    if n_fixed is not None:
        n = int(n_fixed)
    dtype = dtype_fixed or _pick_dtype(rng)
    if dtype == 'bool':
        x, cx = bool_record(rng, n)
        y, cy = bool_record(rng, n)
        y = y & ~x                       # disjoint pulses: x | y is the arithmetic sum
    elif dtype == 'float64':
        x, cx = typed_record(rng, n, dtype)
        for _ in range(10):
            y, cy = typed_record(rng, n, dtype)
            if cy.split('+')[0] != cx.split('+')[0]:
                break
    else:
        x, cx = typed_record(rng, n, dtype, frac=0.5, dyadic=True)
        y, cy = typed_record(rng, n, dtype, frac=0.5, dyadic=True)
        if np.dtype(dtype).kind == 'i' and np.dtype(dtype).itemsize < 8:   # -128//2 + -128//2 fits, keep it simple
            pass
    c = float(rng.choice([2.0, -0.5, 1024.0])) if rng.random() < 0.4 else float(rng.normal() * 10 ** rng.uniform(-2, 2))
    if c == 0.0:
        c = 3.0
    if 'extreme-scale' in cy and 'extreme-scale' not in cx:
        x, cx, y, cy = y, cy, x, cx
    if 'extreme-scale' in cx:
        # keep the filter's own products and transients normal doubles (1e-250 .. 1e289); the second record lives at the
        # same scale so that both contribute to the relation; no large scale factor (c*x must stay finite)
        m = float(np.max(np.abs(x)))
        if m > 1e289 or m < 1e-250:
            x = x * (min(max(m, 1e-250), 1e289) / m)
            m = float(np.max(np.abs(x)))
        y0, cy = gen.record(rng, n, allow_const=False)
        y = y0 / (float(np.max(np.abs(y0))) or 1.0) * m * float(rng.uniform(0.1, 5.0))   # (a one-sample chirp is 0)
        cy += '/rescaled-to-extreme'
        c = float(rng.choice([2.0, -0.5, 3.0, -1.0]))
    # micro / mega amplitudes: scale across the decades where an absolute epsilon (np.isclose, 1e-8) would switch
    if 'amp1e-12' in cx and rng.random() < 0.7:
        c = float(rng.choice([1e6, 1e9, 1e12, -1e10]))
    elif 'amp1e12' in cx and rng.random() < 0.7:
        c = float(rng.choice([1e-6, 1e-12, -1e-20]))
    cont = ['tuple', 'list', 'ndarray'][int(rng.integers(3))] if ftype == 'band' else ['tuple', 'list'][int(rng.integers(2))]
    g_extra = g_range = None
    if gibbs is not None and rng.random() < 0.25:
        g_extra = int(rng.choice([0, 2, 3] if n <= 5000 else [0]))
    if gibbs is not None and rng.random() < 0.25:
        g_range = int(rng.choice([1, 7, n, 4 * n]))
    return {'x': x, 'y': y, 'c': c, 'dt': float(dt), 'lo': lo, 'hi': hi, 'order': order,
            'pass_order': bool(rng.random() < 0.5), 'gibbs': gibbs, 'gibbs_extra': g_extra, 'gibbs_range': g_range,
            'container': cont, 'cut_kw': bool(rng.random() < 0.3), 'form': FORMS[int(rng.integers(len(FORMS)))]
            if rng.random() < 0.5 else 'array', 'cls': 'AccSignal' if rng.random() < 0.5 else 'Signal', 'classes': [cx, cy],
            'edge': edge}


def gen_container(rng, ftype):
    p = gen_linear(rng, ftype, GIBBS[int(rng.integers(4))])
    q = {k: p[k] for k in ('dt', 'lo', 'hi', 'order', 'pass_order', 'gibbs', 'gibbs_extra', 'gibbs_range', 'cls', 'cut_kw')}
    q['x'] = np.asarray(p['x'], dtype=float)[:5000]
    if len(q['x']) < 30:
        q['gibbs'] = None
    q['container'] = 'tuple'
    q['reps'] = int(rng.integers(2, 5))
    if ftype == 'band':
        q['containers'] = ['tuple', 'list', 'ndarray']
        if rng.random() < 0.4:
            nyq = 0.5 / q['dt']
            lo = float(max(1, int(0.02 * nyq)))
            hi = float(max(lo + 1, int(0.5 * nyq)))
            if hi < 0.9 * nyq:
                q['lo'], q['hi'] = lo, hi
                q['containers'] = ['tuple', 'list', 'ndarray', 'ndarray-int']
    else:
        q['containers'] = ['tuple', 'list']
    return q


DETREND_N = [8, 9, 10, 13, 16, 31, 32, 33, 63, 64, 65, 100, 127, 128, 129, 200, 255, 256, 257, 500, 1000, 1023, 1024, 1025,
             1999, 2000]


SHORT_N = (1, 2, 3, 4, 5, 6)       # round 4: very short records, every length x every degree / add variant / width class


def gen_detrend(rng, k, n_fixed=None, dtype_fixed=None):
    r = rng.random()
    if n_fixed is not None:
        n = int(n_fixed)
    elif r < 0.15:
        n = k + 1 + int(rng.integers(0, 3))          # minimal lengths: k+1 (exact interpolation), k+2, k+3
    else:
        n = int(DETREND_N[int(rng.integers(len(DETREND_N)))])
    dtype = dtype_fixed or _pick_dtype(rng)
    spike = ''
    if dtype == 'bool':
        x, cls = bool_record(rng, n, p_on=float(rng.uniform(0.02, 0.2)))
        x[-1] = True                     # mostly off, on at the end: the last sample lies far from the mean
        spike = '+endspike'
    elif dtype != 'float64':
        x, cls = typed_record(rng, n, dtype, frac=0.3 if np.dtype(dtype).kind in 'iu' else 1.0)
        if np.dtype(dtype).kind in 'iu':         # the last sample at the end of the dtype's range
            info = np.iinfo(dtype)
            top = 2 ** 52 if np.dtype(dtype).itemsize == 8 else info.max
            bot = -2 ** 52 if np.dtype(dtype).itemsize == 8 else info.min
            x[-1] = top if (rng.random() < 0.5 or bot == 0) else bot
            spike = '+endspike'
        else:
            x[-1] = np.float32(np.mean(x) + float(rng.choice([-1, 1])) * rng.uniform(5, 50) * max(float(np.std(x)), 1e-3))
            spike = '+endspike'
    else:
        cls = ['noise', 'walk', 'quake', 'sine', 'intnoise', 'plateau', 'step', 'ramp', 'dynrange', 'shape', 'shape'][
            int(rng.integers(11))]
        silent = rng.random() < 0.05
        if silent:
            x, cls = (np.zeros(n), 'silent-all-zero') if rng.random() < 0.6 else \
                (np.full(n, float(rng.choice([-2.0, 0.5, 1e-9, 3e7]))), 'constant-nonzero')
        elif cls == 'dynrange':
            x, cls = dynrange_record(rng, n)
        elif cls == 'shape':
            x, cls = shape_record(rng, n)
        elif cls == 'ramp':
            t = np.arange(n) / max(n - 1.0, 1.0)
            x = rng.normal(size=n) * 0.05 + float(rng.choice([-1, 1])) * t ** int(rng.integers(1, 6)) * rng.uniform(1, 5)
            x = x * 10.0 ** rng.uniform(-2, 2)
        else:
            x, _ = gen.record(rng, n, cls=cls)
        if rng.random() < 0.25 and not silent:
            x = x.copy()
            x[0] = x[0] + rng.uniform(3, 30) * np.std(x) * float(rng.choice([-1, 1]))
            spike = '+startspike'
        # the last sample must differ strongly from the mean: an end spike of 5..50 standard deviations is added
        # unless the record already ends >= 3 standard deviations away (walks, ramps, steps)
        sd = float(np.std(x))
        if silent:
            pass
        elif abs(x[-1] - np.mean(x)) < 3 * sd or sd == 0.0:
            mag = max(sd, 1e-3 * float(np.max(np.abs(x))), 1e-12) * rng.uniform(5, 50)
            x = x.copy()
            x[-1] = np.mean(x) + float(rng.choice([-1, 1])) * mag
            spike += '+endspike'
        r2 = 1.0 if silent else rng.random()
        if r2 < 0.08:
            x = x / float(np.max(np.abs(x))) * 1e-12
            spike += '+amp1e-12'
        elif r2 < 0.16:
            x = x / float(np.max(np.abs(x))) * 1e12
            spike += '+amp1e12'
        elif r2 < 0.24:
            x = x + 1e6 * float(np.max(np.abs(x))) * float(rng.choice([-1, 1]))
            spike += '+offset1e6'
        elif r2 < 0.34:
            # extreme but valid scales (detrending is linear in the record); room is left for the added polynomial
            y, tag = gen.special_scale(rng, x)
            m = float(np.max(np.abs(y)))
            if tag and np.all(np.isfinite(y)) and m > 0:
                x = y * (min(max(m, 1e-290), 1e250) / m)
                spike += '/extreme-scale' + tag
    amp = max(float(np.max(np.abs(x.astype(float)))), 1e-300)
    if not np.any(x):
        amp = 1.0           # silent record: the polynomial added for the invariance relation lives at scale 1
    coefs = (rng.normal(size=k + 1) * amp * 10.0 ** rng.uniform(-1, 3)).tolist()
    dt = float(_wide_dt(rng))
    if k >= 3 and rng.random() < 0.3:
        # durations for which t**k in physical time leaves the range a raw (unscaled) least-squares fit can resolve
        if rng.random() < 0.5:
            dt = max(1100.0 / n, float(rng.uniform(0.5, 1000.0)))
            spike += '/duration>1000s'
        else:
            dt = min(0.9e-3 / n, float(10.0 ** rng.uniform(-9, -6.5)))
            spike += '/duration<1ms'
    return {'x': x, 'k': int(k), 'dt': dt, 'coefs': coefs, 'kw': bool(rng.random() < 0.3),
            'noarg': bool(k == 0 and rng.random() < 0.3), 'cls': 'AccSignal' if rng.random() < 0.5 else 'Signal',
            'form': FORMS[int(rng.integers(len(FORMS)))] if rng.random() < 0.6 else 'array',
            'record_class': '%s%s' % (cls, spike)}


ADD_VARIANTS = ['constant', 'series', 'series-bad', 'signal', 'signal-badlen', 'signal-baddt', 'signal-nonsignal',
                'series-self', 'signal-self', 'series-reuse', 'signal-reuse']


def gen_add(rng, i, n_fixed=None):
    n = int(rng.choice([1, 2, 3, 8, 31, 32, 33, 50, 64, 65, 127, 128, 129, 200, 256, 257, 1000]))
    if n_fixed is not None:
        n = int(n_fixed)
    x, cls = typed_record(rng, n, _pick_dtype(rng, 0.4))
    dt = float(_wide_dt(rng))
    p = {'x': x, 'dt': dt, 'cls': 'AccSignal' if rng.random() < 0.5 else 'Signal', 'kw': bool(rng.random() < 0.3),
         'form': FORMS[int(rng.integers(len(FORMS)))] if rng.random() < 0.4 else 'array'}
    op = ADD_VARIANTS[i % len(ADD_VARIANTS)]
    if op == 'constant':
        if x.dtype.kind in 'iu' and rng.random() < 0.6:
            # integer constants that fit the dtype but not the sum, and ones that do not fit the dtype at all
            info = np.iinfo(x.dtype)
            c = float(int(rng.choice([info.max if info.max < 2 ** 52 else 2 ** 52, 1, -1, 100, 1000, 70000])))
            ctype = ['int', 'np-int'][int(rng.integers(2))]
        else:
            c = float(rng.choice([0.0, 1.0, -2.5, 1e-9, 3e7])) if rng.random() < 0.4 else \
                float(rng.normal() * 10 ** rng.uniform(-3, 3)) * (float(np.max(np.abs(x.astype(float)))) or 1.0) \
                ** float(rng.choice([0, 1]))
            ctype = ['float', 'np', 'int'][int(rng.integers(3))]
            if ctype == 'int':
                c = float(int(max(min(c, 2.0 ** 60), -2.0 ** 60)))
        p.update(op='constant', c=c, c_type=ctype)
    elif op in ('series', 'series-reuse'):
        y, _ = typed_record(rng, n, _pick_dtype(rng, 0.4))
        p.update(op='series', series=y, series_container=FORMS[int(rng.integers(len(FORMS)))])
        if op == 'series-reuse':
            p.update(alias='reuse', x2=typed_record(rng, n, _pick_dtype(rng, 0.4))[0])
    elif op == 'series-self':
        p.update(op='series', alias='self')
    elif op == 'series-bad':
        m = int(rng.choice([max(n - 1, 0), n + 1, 1 if n != 1 else 2, 2 * n, 0]))
        if m == n:
            m = n + 1
        y = rng.normal(size=m)
        p.update(op='series', series=y, series_container=['array', 'list'][int(rng.integers(2))])
    elif op == 'signal-self':
        p.update(op='signal', alias='self')
    else:
        m = n
        odt = dt
        ocls = 'AccSignal' if rng.random() < 0.5 else 'Signal'
        if op == 'signal-badlen':
            m = int(rng.choice([n + 1, max(n - 1, 1), 1, 2 * n]))
            if m == n:
                m = n + 1
        elif op == 'signal-baddt':
            odt = dt * float(rng.choice([2.0, 0.5, 1.01, 0.99, 10.0, 1.001, 0.999]))
        elif op == 'signal-nonsignal':
            ocls = 'not-a-signal' if rng.random() < 0.5 else 'ndarray'
        y, _ = typed_record(rng, m, _pick_dtype(rng, 0.4))
        p.update(op='signal', other_values=y, other_dt=odt, other_cls=ocls)
        if op == 'signal-reuse':
            p.update(alias='reuse', x2=typed_record(rng, n, _pick_dtype(rng, 0.4))[0])
    p['variant'] = op
    p['record_class'] = cls
    return p


def gen_runavg(rng, i, n_fixed=None):
    # includes records shorter than the window and lengths at / around powers of two (block-wise implementations)
    n = int(rng.choice([1, 2, 3, 4, 5, 7, 10, 24, 25, 26, 31, 32, 33, 50, 63, 64, 65, 100, 127, 128, 129, 200, 255, 256,
                        257, 512, 1025]))
    w = int(rng.integers(1, 26))
    if rng.random() < 0.1:
        w = 1
    if n_fixed is not None:
        n = int(n_fixed)
        if rng.random() < 0.6:      # widths around the record length: window == / just inside / just past the record
            w = int(rng.integers(1, min(25, 2 * n + 3) + 1))
    w_type = ['int', 'int', 'int', 'np', 'float', 'real'][int(rng.integers(6))]
    if w_type == 'real':
        # a width recovered from a duration: (k*dt)/dt or dt/(dt/k) for a step where the quotient is not exactly k
        k = int(rng.integers(2, 26))
        d = gen.awkward_dt(rng, k)
        w = float(d / (d / k)) if rng.random() < 0.5 else float((k * d) / d)
        if w < 1 or rng.random() < 0.25:
            w = float(k) * (1 - 2.0 ** -52) if rng.random() < 0.5 else float(np.nextafter(k, 30))
    if rng.random() < 0.35:
        x, cls = dynrange_record(rng, n)
    else:
        x, cls = typed_record(rng, n, _pick_dtype(rng, 0.45))
    return {'x': x, 'dt': float(_wide_dt(rng)), 'width': w,
            'w_type': w_type, 'kw': bool(rng.random() < 0.3),
            'noarg': bool(w == 1 and rng.random() < 0.5),
            'form': FORMS[int(rng.integers(len(FORMS)))] if rng.random() < 0.5 else 'array',
            'cls': 'AccSignal' if rng.random() < 0.5 else 'Signal', 'record_class': cls}


K_FORMS = ('np64i', 'np32i', 'np8i', 'u8', '0di', 'pyfloat', 'np64')
C_FORMS = ('np32', '0d', '0d32', '0di', 'bool', 'npbool', '0dbool', 'np')
W_FORMS = ('np32i', 'np64', 'np32', '0di', '0d', 'u8', 'bool', 'npbool')


def _r5_dt_form(rng, p, keys=('dt',)):
    form = FLOAT_FORMS[int(rng.integers(len(FLOAT_FORMS)))]
    if form in ('np32', '0d32'):
        for k in keys:
            p[k] = _f32(p[k])
    return form


def gen_detrend_r5(rng, k, i):
    """Degree as numpy integer / unsigned / 0-d array / integral float / (k = 1) bool; every second case a bool record;
    the time step as numpy scalar / 0-d array."""
    p = gen_detrend(rng, k, dtype_fixed='bool' if i % 2 else None)
    forms = list(K_FORMS) + (['bool', 'npbool'] if k == 1 else [])
    p['k_form'] = forms[int(rng.integers(len(forms)))]
    p['dt_form'] = _r5_dt_form(rng, p)
    return p


def gen_add_r5(rng, i):
    """Constants as np.float32 / 0-d arrays / bools, bool records and bool series (1 + 1 = 2, not OR), time steps of the
    two signals in different scalar forms naming the same number (must be accepted) or really different (rejected)."""
    p = gen_add(rng, i)
    n = len(p['x'])
    if i % 2:
        p['x'] = bool_record(rng, n)[0]
        p['record_class'] = 'bool'
        for key in ('series', 'other_values', 'x2'):
            if key in p and rng.random() < 0.7:
                p[key] = bool_record(rng, len(p[key]))[0] if len(p[key]) else p[key]
    if p['op'] == 'constant':
        ct = C_FORMS[int(rng.integers(len(C_FORMS)))]
        c = float(p['c'])
        if ct in ('np32', '0d32'):
            c = _f32(max(min(c, 1e30), -1e30))
        elif ct == '0di':
            c = float(int(max(min(c, 2.0 ** 60), -2.0 ** 60)))
        elif ct in ('bool', 'npbool', '0dbool'):
            c = 1.0
        p.update(c=c, c_type=ct)
    p['dt_form'] = _r5_dt_form(rng, p, keys=('dt', 'other_dt') if 'other_dt' in p else ('dt',))
    if 'other_dt' in p:
        fo = FLOAT_FORMS[int(rng.integers(len(FLOAT_FORMS)))]
        if fo in ('np32', '0d32'):
            if _f32(p['other_dt']) != p['other_dt'] and p['variant'] != 'signal-baddt':
                fo = 'np64'          # the other signal's step must name the same number
            else:
                p['other_dt'] = _f32(p['other_dt'])
        p['other_dt_form'] = fo
    return p


def gen_runavg_r5(rng, i):
    p = gen_runavg(rng, i)
    n = len(p['x'])
    if i % 2:
        p['x'], p['record_class'] = bool_record(rng, n)
    wt = W_FORMS[int(rng.integers(len(W_FORMS)))]
    w = max(1, int(p['width']))
    if wt in ('bool', 'npbool'):
        w = 1
    elif wt in ('np64', 'np32', '0d') and rng.random() < 0.5:
        w = w + 0.5                  # a real width: floor(w/2) positions on each side (exact in float32 too)
    p.update(width=w, w_type=wt, noarg=False)
    p['dt_form'] = _r5_dt_form(rng, p)
    return p


def _gen_op(rng, kind, n, dt):
    """One call specification for the history / state cases on a record of n samples."""
    nyq = 0.5 / dt
    if kind == 'butter':
        ft = TYPES[int(rng.integers(3))]
        wn = float(10 ** rng.uniform(-2.3, -0.5))
        lo, hi = {'band': (wn * nyq, min(wn * 8, 0.9) * nyq), 'low': (None, min(wn * 3, 0.9) * nyq),
                  'high': (min(wn * 3, 0.9) * nyq, None)}[ft]
        return {'op': 'butter', 'lo': lo, 'hi': hi, 'order': int(rng.integers(1, 5)), 'pass_order': True,
                'gibbs': GIBBS[int(rng.integers(4))], 'container': ['tuple', 'list'][int(rng.integers(2))],
                'cut_kw': bool(rng.random() < 0.3)}
    if kind in ('poly', 'poly-fn'):
        return {'op': kind, 'k': int(rng.integers(0, 5))}
    if kind == 'const':
        return {'op': 'const', 'c': float(rng.normal() * 10 ** rng.uniform(-2, 2))}
    if kind in ('series', 'signal'):
        return {'op': kind, 'series': gen.record(rng, n)[0], 'other_cls': 'AccSignal' if rng.random() < 0.5 else 'Signal'}
    if kind == 'runavg':
        return {'op': 'runavg', 'width': int(rng.integers(1, 26))}
    raise ValueError(kind)


HISTORY_READS = ['fa_spectrum', 'fa_frequencies', 'smooth_fa_spectrum', 'velocity', 'displacement', 'pga', 'pgv', 'time']


def gen_history(rng):
    n = int(rng.choice([40, 64, 100, 257, 1000]))
    dt = float(rng.choice([0.005, 0.01, 0.02]))
    x, cls = gen.record(rng, n, allow_const=False)
    ops = []
    nfork = 0
    for _ in range(int(rng.integers(5, 11))):
        kind = ['butter', 'poly', 'const', 'series', 'signal', 'runavg', 'reset', 'read', 'butter', 'poly', 'runavg',
                'read', 'deepcopy', 'pickle', 'copy', 'assign', 'assign', 'bad-series', 'bad-signal', 'bad-butter'][
            int(rng.integers(20))]
        if kind in FORK_OPS:
            op = {'op': kind, 'keep': 'copy' if rng.random() < 0.6 else 'original'}
            if kind == 'copy':
                m = int(rng.choice([n, n // 2 + 20, 2 * n]))
                op['values'] = gen.record(rng, m, allow_const=False)[0]
                if op['keep'] == 'copy':
                    n = m
            elif kind == 'pickle':
                op['protocol'] = int(rng.choice([2, 4, 5]))
            ops.append(op)
            nfork += 1
            continue
        if kind == 'assign':
            attr = ['values', 'values', 'dt', 'label', 'smooth_fa_freqs'][int(rng.integers(5))]
            if attr == 'values':
                m = int(rng.choice([n, n, 1, 2, 3, n + 7, max(n // 2, 4)]))
                val = gen.record(rng, m, allow_const=False)[0]
            elif attr == 'dt':
                val = dt * float(rng.choice([0.5, 2.0, 1.0]))
            elif attr == 'label':
                val = 'renamed'
            else:
                val = np.sort(10.0 ** rng.uniform(-1, 1.3, size=int(rng.choice([1, 2, 3, 30]))))
            ops.append({'op': 'assign', 'attr': attr, 'value': val,
                        'container': ['list', 'tuple', 'ndarray'][int(rng.integers(3))]})
            continue
        if kind == 'bad-series':
            m = int(rng.choice([n + 1, max(n - 1, 1), 1, 2 * n]))
            ops.append({'op': kind, 'how': 'length', 'series': rng.normal(size=m),
                        'container': ['list', 'tuple', 'ndarray'][int(rng.integers(3))]})
            continue
        if kind == 'bad-signal':
            how = ['length', 'dt', 'non-signal'][int(rng.integers(3))]
            m = int(rng.choice([n + 1, max(n - 1, 1), 2 * n])) if how == 'length' else n
            ops.append({'op': kind, 'how': how, 'series': rng.normal(size=m),
                        'dt_factor': float(rng.choice([2.0, 0.5, 1.01, 0.999])),
                        'other_cls': 'AccSignal' if rng.random() < 0.5 else 'Signal'})
            continue
        if kind == 'bad-butter':
            ops.append({'op': kind, 'how': ['corner>=nyquist', 'corner>=nyquist', 'three-corners', 'scalar'][
                int(rng.integers(4))], 'factor': float(rng.choice([1.0, 1.2, 3.0])), 'ftype': TYPES[int(rng.integers(3))],
                'order': int(rng.integers(1, 5)), 'gibbs': GIBBS[int(rng.integers(4))]})
            continue
        if kind == 'reset':
            m = int(rng.choice([n, n // 2 + 20, 2 * n, 41]))
            ops.append({'op': 'reset', 'values': gen.record(rng, m, allow_const=False)[0]})
            n = m
        elif kind == 'read':
            k = int(rng.integers(1, 4))
            ops.append({'op': 'read', 'names': [HISTORY_READS[int(j)] for j in rng.integers(len(HISTORY_READS), size=k)]})
        else:
            ops.append(_gen_op(rng, kind, n, dt))
    # one more call on every object that was left alone after a copy (its length is whatever it was then: only calls that
    # do not need a series of matching length)
    final = [_gen_op(rng, ['butter', 'poly', 'const', 'runavg'][int(rng.integers(4))], 41, dt) for _ in range(nfork)]
    return {'x': x, 'dt': dt, 'cls': 'AccSignal' if rng.random() < 0.7 else 'Signal', 'ops': ops, 'final_ops': final,
            'record_class': cls}


def gen_state(rng, i):
    kind = STATE_OPS[i % len(STATE_OPS)]
    n = int(rng.choice([40, 64, 200, 1000]))
    dt = float(rng.choice([0.005, 0.01, 0.02]))
    dtype = _pick_dtype(rng, 0.6)
    x, cx = typed_record(rng, n, dtype)
    # the record in between: same shape (60 %) or another length, same call or the same kind of call with other options
    m = n if rng.random() < 0.6 else int(rng.choice([40, 64, 200, 1000, n + 1, 2 * n]))
    y, cy = typed_record(rng, m, dtype)
    call = _gen_op(rng, kind, n, dt)
    call_b = _gen_op(rng, kind, m, dt) if (m != n or rng.random() < 0.5) else None
    return {'x': x, 'y': y, 'dt': dt, 'call': call, 'call_b': call_b,
            'form': FORMS[int(rng.integers(len(FORMS)))] if rng.random() < 0.5 else 'array',
            'cls': 'AccSignal' if rng.random() < 0.5 else 'Signal', 'classes': [cx, cy]}


# ------------------------------------------------------------------------------------------------------ workload
COUNTS = {   # per shard
    'quick': {'sine': 60, 'edge': 15, 'sine_seq': 8, 'linear': 60, 'container': 6, 'short': 2, 'detrend': 70, 'add': 110,
              'runavg': 80, 'history': 16, 'state': 18, 'detrend_short': 14, 'add_short': 33, 'runavg_short': 18,
              'r5_sine': 6, 'r5_linear': 16, 'r5_detrend': 15, 'r5_add': 22, 'r5_runavg': 16, 'r5_history': 2},
    'thorough': {'sine': 900, 'edge': 180, 'sine_seq': 150, 'linear': 1200, 'container': 100, 'short': 6, 'detrend': 2000,
                 'add': 3300, 'runavg': 3000, 'history': 300, 'state': 600, 'detrend_short': 140, 'add_short': 330,
                 'runavg_short': 180,
                 'r5_sine': 60, 'r5_linear': 200, 'r5_detrend': 200, 'r5_add': 330, 'r5_runavg': 200, 'r5_history': 20},
}


def _dig(kind, p):
    return core.digest(kind, p)


def _short(p):
    return {k: (v[:6] if isinstance(v, np.ndarray) else v) for k, v in p.items() if k not in ('ops',)}


def run_shard(ctx):
    eqsig = core.import_eqsig()
    install(ctx)
    rng = ctx.rng
    cnt = COUNTS[ctx.tier]
    sh, nsh = ctx.shard, ctx.nshards

    # -- pinned sinusoid designs (quick and thorough), spread over the shards
    for j, p in enumerate(pinned_sines()):
        if j % nsh != sh:
            continue
        g = O.butter_gain_sq(p['f'], p['dt'], p['order'], p['lo'], p['hi'])
        ctx.case(_dig('sine', p), nontrivial=g >= 1e-4, cls='sine-pinned-%s' % _ftype(p['lo'], p['hi']), sample=p)
        case_sine(eqsig, ctx, p)

    # -- sinusoids, stratified: global index -> (type, gibbs, order)
    strata = [(t, g, o) for t in TYPES for g in GIBBS for o in (1, 2, 3, 4)]
    for c in range(cnt['sine']):
        if ctx.out_of_time():
            ctx.observe('out-of-time.sine')
            break
        gi = c * nsh + sh
        t, g, o = strata[gi % len(strata)]
        p = gen_sine(rng, t, g, o, ctx)
        if p is None:
            ctx.observe('sine.no-admissible-design')
            continue
        gsq = O.butter_gain_sq(p['f'], p['dt'], p['order'], p['lo'], p['hi'])
        ctx.case(_dig('sine', p), nontrivial=gsq >= 1e-4, cls='sine-%s-gibbs-%s' % (t, gname(g)), sample=p)
        if p.get('narrow_band'):
            ctx.observe('workload.narrow-band.sine')
        if not 1e-100 < p['amp'] < 1e100:
            ctx.observe('workload.extreme-scale.sine')
        case_sine(eqsig, ctx, p)

    # -- corners at the ends of the normalised cut-off range (checklist 26): kind x type x gibbs x order stratified
    for j, p in enumerate(pinned_edge_sines()):
        if j % nsh != sh:
            continue
        g = O.butter_gain_sq(p['f'], p['dt'], p['order'], p['lo'], p['hi'])
        ctx.case(_dig('sine', p), nontrivial=g >= 1e-4, cls='sine-edge-pinned-%s' % _ftype(p['lo'], p['hi']), sample=p)
        case_sine(eqsig, ctx, p)
    estrata = [(k, t, o, g) for g in GIBBS for o in (1, 2, 3, 4) for t in TYPES for k in EDGE_KINDS]
    for c in range(cnt['edge']):
        if ctx.out_of_time():
            ctx.observe('out-of-time.sine-edge')
            break
        gi = c * nsh + sh
        k, t, o, g = estrata[(gi + (gi // len(estrata)) * 7) % len(estrata)]
        p = gen_edge_sine(rng, t, g, o, k, ctx)
        if p is None:
            ctx.observe('sine-edge.no-admissible-design')
            continue
        gsq = O.butter_gain_sq(p['f'], p['dt'], p['order'], p['lo'], p['hi'])
        ctx.case(_dig('sine', p), nontrivial=gsq >= 1e-4, cls='sine-edge-%s-%s' % (p['edge'], _ftype(p['lo'], p['hi'])),
                 sample=p)
        case_sine(eqsig, ctx, p)

    # -- sequences of calls that reuse ONE cut-off container object (float64 / int ndarray, list, tuple)
    for c in range(cnt['sine_seq']):
        if ctx.out_of_time():
            ctx.observe('out-of-time.sine-seq')
            break
        gi = c * nsh + sh
        cont = SEQ_CONTAINERS[gi % 4]
        t = 'band' if cont.startswith('ndarray') else TYPES[(gi // 4) % 3]
        P = gen_sine_seq(rng, cont, t, ctx)
        if P is None:
            ctx.observe('sine-seq.no-admissible-design')
            continue
        later = [O.butter_gain_sq(q['f'], q['dt'], q['order'], P['lo'], P['hi']) for q in P['calls'][1:]]
        ctx.case(_dig('sine-seq', P), nontrivial=bool(max(later) >= 1e-4), cls='sine-seq-%s-%s' % (cont, t), sample=P)
        case_sine_seq(eqsig, ctx, P)

    # -- additivity / homogeneity on random records: every type x gibbs combination in turn
    combos = [(t, g) for t in TYPES for g in GIBBS]
    for c in range(cnt['linear']):
        if ctx.out_of_time():
            ctx.observe('out-of-time.linear')
            break
        t, g = combos[(c + sh) % len(combos)]
        p = gen_linear(rng, t, g)
        nontriv = bool(np.ptp(p['x'].astype(float)) > 0 and np.ptp(p['y'].astype(float)) > 0
                       and not np.array_equal(p['x'], p['y']))
        ctx.case(_dig('linear', p), nontrivial=nontriv,
                 cls='linear-%s-gibbs-%s-%s' % (t, gname(g), p['x'].dtype.name), sample=_short(p))
        if any('extreme-scale' in c_ for c_ in p['classes']):
            ctx.observe('workload.extreme-scale.linear')
        if t == 'band' and (p['hi'] - p['lo']) < 0.11 * p['lo']:
            ctx.observe('workload.narrow-band.linear')
        if p.get('edge'):
            ctx.observe('workload.corner-%s.linear' % p['edge'])
        case_linear(eqsig, ctx, p)

    for c in range(cnt['container']):
        t = TYPES[(c + sh) % 3]
        p = gen_container(rng, t)
        ctx.case(_dig('container', p), nontrivial=True, cls='container-%s' % t)
        case_container(eqsig, ctx, p)

    for c in range(cnt['short']):
        p = gen_linear(rng, TYPES[c % 3], GIBBS[int(rng.integers(4))])
        p['x'] = np.asarray(p['x'], dtype=float)[:int(rng.integers(2, 6))]
        p['form'] = None
        ctx.observe('butter.short-record.probed')
        case_short(eqsig, ctx, p)
        # an option value that is not documented (gibbs_range = 0: empty start window): counted only
        q = gen_linear(rng, TYPES[c % 3], 'mid')
        q.update(x=np.asarray(q['x'], dtype=float)[:2000], gibbs_range=0, gibbs_extra=None, form=None)
        case_short(eqsig, ctx, q, tag='gibbs_range-0')

    # -- detrending: every degree in turn
    for c in range(cnt['detrend']):
        if ctx.out_of_time():
            ctx.observe('out-of-time.detrend')
            break
        k = (c + sh) % 5
        p = gen_detrend(rng, k)
        x = np.asarray(p['x'], dtype=float)
        # a single sample cannot lie further than (n-1)/sqrt(n) standard deviations from the mean
        xs = x / (float(np.max(np.abs(x))) or 1.0)       # squares of the raw values may overflow
        far = len(x) > 1 and abs(xs[-1] - np.mean(xs)) >= min(2.5, 0.8 * (len(x) - 1) / math.sqrt(len(x))) * np.std(xs)
        ctx.case(_dig('detrend', p), nontrivial=bool(far and np.ptp(x) > 0),
                 cls='detrend-k%d-%s%s' % (k, p['record_class'].split('+')[0].split('/')[0],
                                           ''.join('/' + t for t in p['record_class'].split('/')[1:] if t[:3] in ('ext', 'dur'))
                                           .split('+')[0]),
                 sample={'k': k, 'n': len(x), 'class': p['record_class'], 'tail': x[-4:], 'mean': float(np.mean(x)),
                         'form': p['form'], 'dtype': p['x'].dtype.name})
        for tag in ('extreme-scale', 'duration>1000s', 'duration<1ms'):
            if tag in p['record_class']:
                ctx.observe('workload.%s.detrend' % tag)
        case_detrend(eqsig, ctx, p)

    # -- adds
    for c in range(cnt['add']):
        p = gen_add(rng, c + sh)
        ctx.case(_dig('add', p), nontrivial=len(p['x']) > 0, cls='add-%s-%s' % (p['variant'], p['x'].dtype.name))
        if 'extreme-scale' in p['record_class']:
            ctx.observe('workload.extreme-scale.add')
        case_add(eqsig, ctx, p)

    # -- running average
    for c in range(cnt['runavg']):
        p = gen_runavg(rng, c)
        xx = np.asarray(p['x'], dtype=float)
        ctx.case(_dig('runavg', p), nontrivial=bool(p['width'] >= 2 and len(xx) >= 2 and np.ptp(xx) > 0),
                 cls='runavg-%s%s%s%s' % (p['x'].dtype.name, '-shorter-than-window' if len(xx) < p['width'] else '',
                                          '-even-width' if int(p['width']) % 2 == 0 else '',
                                          '-real-width' if p['w_type'] == 'real' else ''),
                 sample={'n': len(xx), 'width': p['width'], 'dtype': p['x'].dtype.name, 'form': p['form']})
        if 'extreme-scale' in p['record_class']:
            ctx.observe('workload.extreme-scale.runavg')
        case_runavg(eqsig, ctx, p)

    # -- same-object histories
    for c in range(cnt['history']):
        if ctx.out_of_time():
            ctx.observe('out-of-time.history')
            break
        p = gen_history(rng)
        ctx.case(_dig('history', p), nontrivial=True, cls='history-%d-calls' % len(p['ops']),
                 sample={'ops': [o['op'] for o in p['ops']], 'n': len(p['x'])})
        case_history(eqsig, ctx, p)

    # -- process-wide state: two records of one shape back to back, first result re-checked
    for c in range(cnt['state']):
        p = gen_state(rng, c + sh)
        ctx.case(_dig('state', p), nontrivial=not np.array_equal(p['x'], p['y']),
                 cls='state-%s-%s' % (p['call']['op'], p['x'].dtype.name))
        case_state(eqsig, ctx, p)
    # (the round-4 blocks come last so that the random streams of the workloads above are what they were)
    # -- round 4: very short records (1..6 samples) x every degree 0..4 through the method and the function, INCLUDING
    #    npts <= k (the best-fit degree-k polynomial interpolates the record: the result is zero); one sample with k >= 1
    #    makes numpy.polyfit raise on the clean tree -> outside the domain, probed once per degree and counted only
    short_combos = [(n, k) for n in SHORT_N for k in range(5) if not (n == 1 and k >= 1)]
    for c in range(cnt['detrend_short']):
        gi = c * nsh + sh
        n, k = short_combos[(gi + (gi // len(short_combos)) * 3) % len(short_combos)]
        p = gen_detrend(rng, k, n_fixed=n)
        x = np.asarray(p['x'], dtype=float)
        ctx.case(_dig('detrend', p), nontrivial=bool(n > 1 and np.ptp(x) > 0),
                 cls='detrend-short-n%d-k%d%s' % (n, k, '-npts<=k' if n <= k else ''),
                 sample={'k': k, 'n': n, 'class': p['record_class'], 'x': x, 'form': p['form'], 'dtype': p['x'].dtype.name})
        ctx.observe('workload.short-record.detrend%s' % ('.npts<=k' if n <= k else ''))
        case_detrend(eqsig, ctx, p)
    if 1 <= sh <= 4 and nsh > 4:
        p = gen_detrend(rng, sh, n_fixed=1)
        ctx.observe('workload.short-record.detrend.one-sample-degree>=1')
        case_detrend(eqsig, ctx, p)

    # -- round 4: adds on records of 1..6 samples, every variant x every length
    for c in range(cnt['add_short']):
        gi = c * nsh + sh
        p = gen_add(rng, gi, n_fixed=SHORT_N[(gi // len(ADD_VARIANTS)) % len(SHORT_N)])
        ctx.case(_dig('add', p), nontrivial=True, cls='add-short-n%d-%s' % (len(p['x']), p['variant']))
        ctx.observe('workload.short-record.add')
        case_add(eqsig, ctx, p)

    # -- round 4: running average on records of 1..6 samples (window inside / equal to / past the record)
    for c in range(cnt['runavg_short']):
        gi = c * nsh + sh
        p = gen_runavg(rng, gi, n_fixed=SHORT_N[gi % len(SHORT_N)])
        xx = np.asarray(p['x'], dtype=float)
        ctx.case(_dig('runavg', p), nontrivial=bool(p['width'] >= 2 and len(xx) >= 2 and np.ptp(xx) > 0),
                 cls='runavg-short-n%d%s' % (len(xx), '-shorter-than-window' if len(xx) < p['width'] else ''),
                 sample={'n': len(xx), 'width': p['width'], 'dtype': p['x'].dtype.name, 'form': p['form']})
        ctx.observe('workload.short-record.runavg')
        case_runavg(eqsig, ctx, p)
    # -- round 5 (checklist 28-32; the blocks come last: the random streams above are what they were)
    # sinusoids with dt / order / cut-off entries / gibbs options as numpy scalars and 0-d arrays (absolute gain oracle)
    for c in range(cnt['r5_sine']):
        if ctx.out_of_time():
            ctx.observe('out-of-time.r5-sine')
            break
        gi = c * nsh + sh
        t, g, o = strata[(gi * 7 + 3) % len(strata)]
        p = gen_sine(rng, t, g, o, ctx)
        if p is None:
            ctx.observe('sine.no-admissible-design')
            continue
        r5_butter_forms(rng, p, allow32=not p.get('narrow_band'))
        gsq = O.butter_gain_sq(p['f'], p['dt'], p['order'], p['lo'], p['hi'])
        ctx.case(_dig('sine', p), nontrivial=gsq >= 1e-4, cls='sine-scalar-forms-%s' % t, sample=p)
        ctx.observe('workload.scalar-forms.sine')
        case_sine(eqsig, ctx, p)
    if sh < 4 and nsh >= 4:
        _probe_unsigned_order(eqsig, ctx, rng, sh)

    for c in range(cnt['r5_linear']):
        if ctx.out_of_time():
            ctx.observe('out-of-time.r5-linear')
            break
        gi = c * nsh + sh
        mirror = R5_LINEAR_CLASSES[gi % len(R5_LINEAR_CLASSES)]
        t, g = combos[(gi // len(R5_LINEAR_CLASSES)) % len(combos)]
        p = gen_linear_r5(rng, t, g, mirror)
        xa, ya = p['x'].astype(float), p['y'].astype(float)
        ctx.case(_dig('linear', p), nontrivial=bool(np.any(xa) and np.any(ya) and not np.array_equal(xa, ya)),
                 cls='linear-r5-%s-%s-%s' % (mirror, t, p['x'].dtype.name), sample=_short(p))
        ctx.observe('workload.%s.linear' % mirror)
        if p['x'].dtype == bool:
            ctx.observe('workload.bool-record.linear')
        case_linear(eqsig, ctx, p)

    for c in range(cnt['r5_detrend']):
        gi = c * nsh + sh
        p = gen_detrend_r5(rng, gi % 5, gi // 5)
        x = np.asarray(p['x'], dtype=float)
        ctx.case(_dig('detrend', p), nontrivial=bool(len(x) > 1 and np.ptp(x) > 0),
                 cls='detrend-r5-k%d-%s-%s' % (p['k'], p['k_form'], p['x'].dtype.name),
                 sample={'k': p['k'], 'k_form': p['k_form'], 'n': len(x), 'dtype': p['x'].dtype.name, 'dt_form': p['dt_form']})
        ctx.observe('workload.scalar-forms.detrend')
        if p['x'].dtype == bool:
            ctx.observe('workload.bool-record.detrend')
        case_detrend(eqsig, ctx, p)

    for c in range(cnt['r5_add']):
        gi = c * nsh + sh
        p = gen_add_r5(rng, gi)
        ctx.case(_dig('add', p), nontrivial=len(p['x']) > 0, cls='add-r5-%s-%s' % (p['variant'], p['x'].dtype.name))
        ctx.observe('workload.scalar-forms.add')
        if p['x'].dtype == bool:
            ctx.observe('workload.bool-record.add')
        case_add(eqsig, ctx, p)

    for c in range(cnt['r5_runavg']):
        gi = c * nsh + sh
        p = gen_runavg_r5(rng, gi)
        xx = np.asarray(p['x'], dtype=float)
        ctx.case(_dig('runavg', p), nontrivial=bool(p['width'] >= 2 and len(xx) >= 2 and np.ptp(xx) > 0),
                 cls='runavg-r5-%s-%s' % (p['w_type'], p['x'].dtype.name),
                 sample={'n': len(xx), 'width': p['width'], 'w_type': p['w_type'], 'dtype': p['x'].dtype.name})
        ctx.observe('workload.scalar-forms.runavg')
        if p['x'].dtype == bool:
            ctx.observe('workload.bool-record.runavg')
        case_runavg(eqsig, ctx, p)

    for c in range(cnt['r5_history']):
        if ctx.out_of_time():
            ctx.observe('out-of-time.r5-history')
            break
        p = gen_history(rng)
        p['dt_form'] = '0d' if c % 2 == 0 else 'np64'
        ctx.case(_dig('history', p), nontrivial=True, cls='history-r5-dt-%s' % p['dt_form'],
                 sample={'ops': [o['op'] for o in p['ops']], 'n': len(p['x'])})
        case_history(eqsig, ctx, p)
    ctx.note('monitored_calls', dict(attach.CALLS))
    ctx.note('tolerances', {'gain': GAIN_TOL, 'detrend_rtol_x_cond': DETREND_RTOL, 'exact': EXACT_RTOL,
                            'float32_records': F32_RTOL, 'linear': 'scale*(1e-9 + 8 eps/wn^2)'})


def replay(w):
    """Re-execute one witness against the current tree; return the list of violation messages."""
    eqsig = core.import_eqsig()
    ctx = core.Ctx(PROP_ID, 'quick', 0, 0, 1)
    install(ctx)
    kind = w.get('kind')
    if kind not in CASES or w.get('params') is None:
        return ['witness of kind %r cannot be replayed' % (kind,)]
    CASES[kind](eqsig, ctx, w['params'])
    return ['%s: %s' % (v['clause'], v['msg']) for v in ctx.violations]


def _min_evals():
    """About half of what a normal run reaches, derived from the per-shard case counts."""
    out = {}
    for tier, cnt in COUNTS.items():
        m = {}
        nsh = n_shards(tier)
        sine = cnt['sine'] * nsh
        lin = cnt['linear'] * nsh
        det = cnt['detrend'] * nsh // 5
        add = cnt['add'] * nsh // len(ADD_VARIANTS)
        run = cnt['runavg'] * nsh
        st = cnt['state'] * nsh
        for c in ('butter.sine.interior==|H|^2*sine', 'butter.sine.gain==|H|^2', 'butter.sine.zero-phase',
                  'butter.sine.same-sinusoid'):
            m[c] = sine // 2
        for k in EDGE_KINDS:
            # 'both-ends' exists for band-pass only (a third of its stratum; the rest goes to top-1% / below-1e-3)
            m['butter.sine.corner-%s.interior==|H|^2*sine' % k] = cnt['edge'] * nsh // ((6 if k == 'both-ends' else 2)
                                                                                          * len(EDGE_KINDS))
        for c in ('butter.length-preserved', 'butter.dt-preserved', 'butter.finite-output',
                  'butter.cutoff-argument-unchanged'):
            m[c] = (sine + 4 * lin) // 2
        for t in TYPES:
            m['butter.homogeneous.%s' % t] = lin // 6
            for g in GIBBS:
                m['butter.additive.%s.gibbs-%s' % (t, gname(g))] = lin // 24
        m['butter.cutoff-container.tuple-accepted'] = (sine + 4 * lin) // 8
        m['butter.cutoff-container.list-accepted'] = (sine + 4 * lin) // 8
        m['butter.cutoff-container.ndarray-accepted'] = (sine + 4 * lin) // 24
        m['butter.cutoff-container.same-result'] = cnt['container'] * nsh // 2
        m['butter.cutoff-container.reused-object-same-result'] = cnt['container'] * nsh
        m['butter.sine.reused-cutoff-object-call-judged'] = cnt['sine_seq'] * nsh // 2
        for k in range(5):
            for api in ('method', 'fn'):
                for c in ('bestfit-zero', 'removed-is-poly', '==lstsq-reference'):
                    m['detrend.%s.k%d.%s' % (api, k, c)] = 2 * det
                for c in ('idempotent', 'poly-invariant'):
                    m['detrend.%s.k%d.%s' % (api, k, c)] = det // 2
            m['detrend.k%d.method==function' % k] = det // 2
        m['detrend.method.length+dt-preserved'] = 4 * 5 * det // 2
        m['detrend.fn.argument-unchanged'] = 4 * 5 * det // 2
        m['detrend.method.same-argument-object-twice'] = 5 * det // 2
        m['detrend.fn.same-argument-object-twice'] = 5 * det // 2
        m['add_constant==values+c'] = add // 2
        m['add_series==values+series'] = 3 * add // 2
        m['add_series.rejects-length-mismatch'] = add // 2
        m['add_series.argument-unchanged'] = 2 * add
        m['add_signal==values+other.values'] = add
        m['add_signal.argument-unchanged'] = 2 * add
        m['add_signal.rejects-length-mismatch'] = add // 2
        m['add_signal.rejects-dt-mismatch'] = add // 2
        m['add_signal.rejects-non-signal'] = add // 2
        m['runavg==mean-of-original-window'] = run // 2
        # round 4: very short records. detrend: 6 of the 26 (n, k) combinations have npts <= k, each case executes the
        # method / the function 4 times (twice on the same argument, on the detrended series, on series + polynomial)
        for api in ('method', 'fn'):
            m['detrend.%s.npts<=k.residual-zero' % api] = cnt['detrend_short'] * nsh * 6 * 4 // (26 * 2)
        # 13 sums per 11 add variants (add_signal goes through add_series, the reuse variants add twice); the general
        # workloads contribute their 3 of 17 (adds) / 5 of 27 (running average) lengths <= 6
        m['add.npts<=6==element-wise-sum'] = (cnt['add_short'] + cnt['add'] * 3 // 17) * nsh * 13 // (len(ADD_VARIANTS) * 2)
        m['runavg.npts<=6==mean-of-original-window'] = (cnt['runavg_short'] + cnt['runavg'] * 5 // 27) * nsh // 2
        m['runavg.length+dt-preserved'] = run // 2
        m['history.call==same-call-on-fresh-object'] = cnt['history'] * nsh * 2
        for how in FORK_OPS:
            m['history.%s-source-unchanged' % how] = cnt['history'] * nsh // 6
        m['history.deepcopy-equals-source'] = cnt['history'] * nsh // 6
        m['history.pickle-equals-source'] = cnt['history'] * nsh // 6
        m['history.attribute-assignment-all-or-nothing'] = cnt['history'] * nsh * 3 // 8
        m['history.refused-call-leaves-object-unchanged'] = cnt['history'] * nsh // 2
        for o in STATE_OPS:
            m['state.first-result-unchanged-after-second-call.%s' % o] = st // (2 * len(STATE_OPS))
            m['state.third-call==first-call.%s' % o] = st // (2 * len(STATE_OPS))
        m['state.twin-object-unchanged'] = st // 2
        m['state.caller-array-unchanged'] = st // 2
        # round 5
        for o in STATE_OPS:
            m['state.result-overwritten-then-same-call==first.%s' % o] = st // (2 * len(STATE_OPS))
        m['state.overwriting-a-result-leaves-arguments-alone'] = st // 2
        for mir in R5_LINEAR_CLASSES:
            m['butter.additive.class-%s' % mir] = cnt['r5_linear'] * nsh // (2 * len(R5_LINEAR_CLASSES))
        # 0-d forms: 2 of 5 dt forms, 1 of 3..4 option forms, 1 of 7 degree forms, 4 of 8 constant forms on 1 of 11 add
        # variants, 2 of 8 width forms (about half of the expected number of monitored executions each)
        m['mutable-0d-dt.preserved'] = (cnt['r5_detrend'] * 4 + cnt['r5_add'] + cnt['r5_runavg']) * nsh * 2 // (5 * 2)
        m['butter.option-argument-unchanged'] = (cnt['r5_sine'] + cnt['r5_linear'] * 4 // 3) * nsh // (4 * 2)
        m['detrend.degree-argument-unchanged'] = cnt['r5_detrend'] * nsh * 8 // (8 * 2)
        m['add_constant.argument-unchanged'] = max(1, cnt['r5_add'] * nsh * 4 // (11 * 8 * 2))
        m['runavg.width-argument-unchanged'] = cnt['r5_runavg'] * nsh * 2 // (8 * 2)
        out[tier] = m
    return out


MIN_EVALS = _min_evals()
