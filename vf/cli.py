"""Orchestration: shards as subprocesses, watchdogs, merge, three-valued verdict, evidence.

    python -m vf.cli <ID> [--tier quick|thorough] [--replay PATH]
    python -m vf.cli <ID> --shard i/n --out FILE      (internal)
"""
import argparse
import hashlib
import importlib
import json
import os
import shutil
import subprocess
import sys
import tempfile
import time

HERE = os.path.dirname(os.path.dirname(os.path.abspath(__file__)))


def out_dir():
    """Evidence and replays go to /verif, except when the check is pointed at a scratch copy of the repository
    (EQSIG_REPO, used only by the self-test): those runs must not overwrite the evidence of the real tree."""
    if os.environ.get('VERIF_OUT_DIR'):
        return os.environ['VERIF_OUT_DIR']
    if os.path.realpath(os.environ.get('EQSIG_REPO', '/repo')) != os.path.realpath('/repo'):
        return os.path.join(tempfile.gettempdir(), 'vf_scratch_out')
    return HERE
SHARD_TIMEOUT = {'quick': 2400, 'thorough': 3 * 3600}   # generous watchdogs: firing = inconclusive, never a verdict


def load_module(prop_id):
    return importlib.import_module('vf.props.' + prop_id.lower())


def git_state(repo):
    def run(*a):
        try:
            return subprocess.run(['git', '-C', repo] + list(a), capture_output=True, text=True, timeout=30).stdout
        except Exception:
            return ''
    head = run('rev-parse', 'HEAD').strip()
    diff = run('diff', 'HEAD')
    return head, hashlib.sha1(diff.encode()).hexdigest()[:12] if diff else 'clean'


def run_shard_main(args):
    from vf import core
    mod = load_module(args.prop)
    i, n = [int(x) for x in args.shard.split('/')]
    ctx = core.Ctx(args.prop, args.tier, args.seed, i, n)
    budget = float(os.environ.get('VERIF_SHARD_BUDGET_S', '0') or 0)
    if budget:
        ctx.deadline = time.time() + budget
    core.import_eqsig()
    from vf import linereach
    if os.environ.get('VERIF_LINEREACH', '1') != '0':
        linereach.start(core.repo_dir())
    try:
        if args.testsuite:
            run_testsuite(ctx, mod)
        else:
            mod.run_shard(ctx)
        res = ctx.result()
        res['crashed'] = None
    except BaseException as e:   # a crash of the harness itself is inconclusive, reported by the parent
        import traceback
        res = ctx.result()
        res['crashed'] = ''.join(traceback.format_exception(type(e), e, e.__traceback__))[-4000:]
    res['linereach'] = linereach.result()
    with open(args.out, 'w') as f:
        json.dump(res, f)
    return 0


TS_DONE = 'testsuite-under-monitors.completed'


def wants_testsuite(mod, tier):
    """thorough tier: the repository's own tests are run once more with this property's monitors attached (C05 does this inside
    its own workload; modules without an install(ctx) hook - history drivers - have nothing to attach)"""
    return tier == 'thorough' and hasattr(mod, 'install') and mod.PROP_ID != 'C05' and not getattr(mod, 'NO_TESTSUITE', False)


def run_testsuite(ctx, mod):
    """pseudo-shard: pytest runs in this process after the property's monitors are installed, so that every call the
    repository's tests make to a monitored function is judged like a call of the generated workload"""
    from vf import core, attach
    import io
    import contextlib
    tests = os.path.join(core.repo_dir(), 'tests')
    if not os.path.isdir(tests):
        ctx.observe('testsuite-under-monitors: no tests directory')
        return
    mod.install(ctx)
    import pytest
    cwd = os.getcwd()
    os.chdir(core.repo_dir())
    buf = io.StringIO()
    try:
        with contextlib.redirect_stdout(buf), contextlib.redirect_stderr(buf):
            rc = pytest.main(['-q', '-p', 'no:cacheprovider', '--timeout=900', 'tests'])
    finally:
        os.chdir(cwd)
    tail = (buf.getvalue().strip().splitlines() or [''])[-1]
    ctx.note('testsuite_under_monitors', {'pytest_exit': int(rc), 'summary': tail[:200],
                                          'monitored_calls': dict(sorted(attach.CALLS.items(), key=lambda kv: -kv[1])[:20])})
    ctx.observations['testsuite-under-monitors: monitor evaluations'] = sum(ctx.counters.values())
    if int(rc) == 0:
        ctx.ok(TS_DONE)
    else:
        ctx.observe('testsuite-under-monitors: pytest exit %s: %s' % (int(rc), tail[:100]))


def anchored_files(prop):
    """anchors.files of the property (properties.jsonl is given and fixed)"""
    try:
        for l in open(os.path.join(HERE, 'properties.jsonl')):
            p = json.loads(l)
            if p.get('id') == prop:
                return list(p.get('anchors', {}).get('files', []))
    except Exception:
        pass
    return []


def load_ledger():
    p = os.path.join(HERE, 'known_findings.json')
    if not os.path.exists(p):
        return []
    return json.load(open(p)).get('findings', [])


def main(argv=None):
    ap = argparse.ArgumentParser()
    ap.add_argument('prop')
    ap.add_argument('--tier', default='quick', choices=['quick', 'thorough'])
    ap.add_argument('--replay')
    ap.add_argument('--shard')
    ap.add_argument('--testsuite', action='store_true')
    ap.add_argument('--out')
    ap.add_argument('--seed', type=int, default=None)
    ap.add_argument('--jobs', type=int, default=None)
    args = ap.parse_args(argv)
    args.prop = args.prop.upper()
    if os.environ.get('VERIF_TIER') in ('quick', 'thorough') and not args.shard:
        args.tier = os.environ['VERIF_TIER']
    if args.seed is None:
        try:
            args.seed = int(os.environ.get('VERIF_SEED', '0'))
        except ValueError:
            args.seed = 0
    if args.shard:
        return run_shard_main(args)
    if args.replay:
        return replay_main(args)
    return parent_main(args)


def replay_main(args):
    from vf import core
    core.import_eqsig()
    mod = load_module(args.prop)
    w = json.load(open(args.replay))
    msgs = mod.replay(core.unjson(w['witness']) if 'witness' in w else core.unjson(w))
    if msgs:
        for m in msgs:
            print('REPLAY still violates:', m)
        print('VIOLATION property=%s replay=%s' % (args.prop, args.replay))
        return 1
    print('REPLAY: case holds on the current tree')
    return 0


def parent_main(args):
    t0 = time.time()
    mod = load_module(args.prop)
    prop = args.prop
    repo = os.environ.get('EQSIG_REPO', '/repo')
    nsh = mod.n_shards(args.tier)
    jobs = args.jobs or min(16, os.cpu_count() or 1)
    tmp = tempfile.mkdtemp(prefix='vf_%s_' % prop)
    procs = []
    results = []
    problems = []
    try:
        pending = list(range(nsh))
        with_ts = wants_testsuite(mod, args.tier)
        if with_ts:
            pending.append(nsh)          # pseudo-shard nsh: the repository's tests under this property's monitors
        running = {}
        timeout = SHARD_TIMEOUT[args.tier]
        while pending or running:
            while pending and len(running) < jobs:
                i = pending.pop(0)
                out = os.path.join(tmp, 'shard%d.json' % i)
                log = open(os.path.join(tmp, 'shard%d.log' % i), 'w')
                p = subprocess.Popen([sys.executable, '-m', 'vf.cli', prop, '--tier', args.tier, '--seed', str(args.seed),
                                      '--shard', '%d/%d' % (i, nsh), '--out', out] + (['--testsuite'] if i == nsh else []),
                                     stdout=log, stderr=subprocess.STDOUT, cwd=HERE)
                running[i] = (p, out, time.time(), log)
            time.sleep(0.05)
            for i in list(running):
                p, out, ts, log = running[i]
                rc = p.poll()
                if rc is None:
                    if time.time() - ts > timeout:
                        p.kill()
                        p.wait()
                        problems.append('shard %d: watchdog fired after %ds' % (i, timeout))
                        log.close()
                        del running[i]
                    continue
                log.close()
                del running[i]
                if os.path.exists(out):
                    try:
                        r = json.load(open(out))
                    except Exception as e:
                        problems.append('shard %d: unreadable result (%r)' % (i, e))
                        continue
                    if r.get('crashed'):
                        problems.append('shard %d crashed: %s' % (i, r['crashed'][-1500:]))
                    results.append(r)
                else:
                    tail = open(os.path.join(tmp, 'shard%d.log' % i)).read()[-1500:]
                    problems.append('shard %d exited %s without a result: %s' % (i, rc, tail))
        return finish(args, mod, results, problems, nsh + (1 if with_ts else 0), t0, repo, with_ts)
    finally:
        shutil.rmtree(tmp, ignore_errors=True)


def finish(args, mod, results, problems, nsh, t0, repo, with_ts=False):
    prop = args.prop
    counters, viol_counts, finding_counts, observations, classes, notes, exhaustive = {}, {}, {}, {}, {}, {}, {}
    violations, samples = [], []
    keysets = {}
    reached = {}
    digests = set()
    dbc = 0
    cases = 0
    for r in sorted(results, key=lambda r: r['shard']):
        for src, dst in ((r['counters'], counters), (r['viol_counts'], viol_counts), (r['finding_counts'], finding_counts),
                         (r['observations'], observations), (r['classes'], classes)):
            for k, v in src.items():
                dst[k] = dst.get(k, 0) + v
        violations += r['violations']
        if len(samples) < 8:
            samples += r['samples'][:2]
        digests.update(r['digests'])
        dbc += r['distinct_by_construction']
        cases += r['cases']
        notes.update(r.get('notes', {}))
        for k, v in r.get('exhaustive', {}).items():
            exhaustive.setdefault(k, 0)
            exhaustive[k] += v
        for k, v in r.get('keysets', {}).items():
            keysets.setdefault(k, set()).update(v)
        for k, v in r.get('linereach', {}).items():
            reached.setdefault(k, set()).update(v)

    # -- attribute to known findings: only OPEN ledger entries of this property can absorb a violation -------------
    ledger = load_ledger()
    open_keys = {e['key']: e for e in ledger if e.get('property') == prop and e.get('status') == 'open'}
    real_violations = []
    kf_hits = {}
    for v in violations:
        if v.get('finding') and v['finding'] in open_keys:
            kf_hits.setdefault(v['finding'], []).append(v)
        else:
            real_violations.append(v)
    n_real = sum(viol_counts.values()) + sum(n for k, n in finding_counts.items() if k not in open_keys)
    n_kf = {k: n for k, n in finding_counts.items() if k in open_keys}

    # -- inconclusive? ----------------------------------------------------------------------------------------------
    inconclusive = list(problems)
    if len(results) < nsh:
        inconclusive.append('only %d of %d shards reported' % (len(results), nsh))
    mins = getattr(mod, 'MIN_EVALS', {}).get(args.tier, {})
    for clause, need in mins.items():
        have = counters.get(clause, 0) + viol_counts.get(clause, 0)
        if have < need:
            inconclusive.append('monitor clause %r evaluated %d times, needs >= %d' % (clause, have, need))
    if with_ts and counters.get(TS_DONE, 0) < 1:
        inconclusive.append('the repository test-suite did not complete under the monitors: %s' % (notes.get('testsuite_under_monitors'),))
    evaluations = sum(counters.values()) + sum(viol_counts.values()) + sum(finding_counts.values())
    distinct = len(digests) + dbc
    if evaluations < 1 or distinct < 2:
        inconclusive.append('monitors observed nothing (evaluations=%d distinct=%d)' % (evaluations, distinct))

    head, diffhash = git_state(repo)
    replay_paths = []
    rdir = os.path.join(out_dir(), 'replays', prop)
    if real_violations:
        os.makedirs(rdir, exist_ok=True)
        # spread the recorded witnesses over the violated clauses (round robin) so that every mechanism gets a replay
        by_clause = {}
        for v in real_violations:
            by_clause.setdefault(v['clause'], []).append(v)
        picked = []
        while len(picked) < 12 and any(by_clause.values()):
            for c in sorted(by_clause):
                if by_clause[c] and len(picked) < 12:
                    picked.append(by_clause[c].pop(0))
        for v in picked:
            v = dict(v)
            v['property'] = prop
            v['repo_head'] = head
            v['repo_diff'] = diffhash
            blob = json.dumps(v, sort_keys=True)
            path = os.path.join(rdir, hashlib.sha1(blob.encode()).hexdigest()[:16] + '.json')
            with open(path, 'w') as f:
                f.write(blob)
            replay_paths.append((path, v))

    wall = time.time() - t0
    if not samples:
        samples = [{'note': 'no sample recorded'}]
    ev = {
        'property_id': prop, 'tier': args.tier, 'seed': args.seed, 'level': 'exploration',
        'coverage': {
            'evaluations': int(cases) if cases else int(evaluations),
            'distinct_nontrivial': int(distinct),
            'rule': mod.RULE,
            'samples': samples[:8],
            'monitor_clause_evaluations_ok': counters,
            'monitor_clause_evaluations_total': int(evaluations),
            'monitor_clause_violations': viol_counts,
            'known_finding_matches': n_kf,
            'input_classes': classes,
            'observations_no_verdict': observations,
            'shards': nsh,
            'notes': notes,
        },
        'assumptions': list(getattr(mod, 'ASSUMPTIONS', [])),
        'wall_s': round(wall, 2),
        'violations': int(n_real),
        'verdict': 'violated' if n_real else ('inconclusive' if inconclusive else 'held'),
        'inconclusive_reasons': inconclusive,
        'repo_head': head, 'repo_diff': diffhash, 'technique': getattr(mod, 'TECHNIQUE', ''),
    }
    for k, v in keysets.items():
        ev['coverage']['distinct ' + k] = len(v)
        ev['coverage']['sample of ' + k] = sorted(v)[:5]
    if 'abstract states' in keysets:
        ev['coverage']['states'] = len(keysets['abstract states'])
    if 'abstract transitions' in keysets:
        ev['coverage']['transitions'] = len(keysets['abstract transitions'])
    if getattr(mod, 'EXHAUSTIVE', None) and exhaustive:
        ev['coverage']['exhaustive_subspaces'] = {'description': mod.EXHAUSTIVE.get(args.tier, ''), 'enumerated': exhaustive}
        ev['coverage']['exhaustive'] = False   # the property quantifies over more than the enumerated sub-space
    reach_line = ''
    try:
        from vf import linereach
        anchors = anchored_files(prop)
        if reached and anchors:
            lr = linereach.summarise(repo, anchors, reached)
            ev['coverage']['anchor_line_reach'] = lr
            reach_line = ('  anchored source reached by the monitored workload: %d of %d statement lines in %d functions entered '
                          '(%d functions of the anchored files never entered)'
                          % (lr['statement_lines_reached'], lr['statement_lines_in_entered_functions'],
                             lr['functions_entered'], lr['functions_never_entered']))
    except Exception as e:   # observability only: never changes a verdict
        ev['coverage']['anchor_line_reach'] = {'error': repr(e)[:300]}
    os.makedirs(os.path.join(out_dir(), 'evidence'), exist_ok=True)
    ev_path = os.path.join(out_dir(), 'evidence', prop + '.json')
    try:
        import jsonschema
        schema_p = '/root/.vp/EVIDENCE.schema.json'
        if not os.path.exists(schema_p):
            schema_p = os.path.join(HERE, 'vf', 'EVIDENCE.schema.json')
        jsonschema.validate(ev, json.load(open(schema_p)))
    except Exception as e:  # invalid evidence -> inconclusive
        if not (evaluations < 1 or distinct < 2):
            inconclusive.append('evidence does not validate: %s' % str(e)[:300])
    with open(ev_path, 'w') as f:
        json.dump(ev, f, indent=1, sort_keys=True)

    # -- report -------------------------------------------------------------------------------------------------------
    print('%s tier=%s seed=%d shards=%d cases=%d monitor-evaluations=%d distinct-nontrivial=%d wall=%.1fs repo=%s(%s)'
          % (prop, args.tier, args.seed, nsh, cases, evaluations, distinct, wall, head[:8], diffhash))
    for k in sorted(counters):
        print('  clause %-38s ok=%-9d violated=%d' % (k, counters[k], viol_counts.get(k, 0)))
    for k in sorted(set(viol_counts) - set(counters)):
        print('  clause %-38s ok=%-9d violated=%d' % (k, 0, viol_counts[k]))
    if reach_line:
        print(reach_line)
    if observations:
        print('  observations (no verdict): ' + ', '.join('%s=%d' % kv for kv in sorted(observations.items())))
    for key, n in sorted(n_kf.items()):
        e = open_keys[key]
        print('KNOWN-FINDING: property=%s %s %s (%d monitored cases this run)' % (prop, key, e.get('what_fails', ''), n))
    if n_real:
        for path, v in replay_paths:
            print('  violated clause %s: %s' % (v['clause'], v['msg'].splitlines()[0][:300] if v['msg'] else ''))
        for path, v in replay_paths:
            print('VIOLATION property=%s replay=%s' % (prop, path))
        if not replay_paths:
            print('VIOLATION property=%s replay=%s' % (prop, ev_path))
        return 1
    if inconclusive:
        for m in inconclusive:
            print('INCONCLUSIVE: ' + m)
        return 2
    print('HELD on everything observed')
    return 0


if __name__ == '__main__':
    sys.exit(main())
