"""In-memory call trace for the offline (relation) checkers.

The recording monitors append {seq, fn, tag, args, result} for every call of a traced function while a tag is set;
the driver sets TAG before issuing the related calls of a group and afterwards checks the relation on the RECORDED
results (what the function boundary actually returned, whoever called it)."""
TRACE = []
STATE = {'tag': None, 'seq': 0}


def set_tag(tag):
    STATE['tag'] = tag


def record(fn, args, result):
    if STATE['tag'] is None:
        return
    STATE['seq'] += 1
    TRACE.append({'seq': STATE['seq'], 'fn': fn, 'tag': STATE['tag'], 'args': args, 'result': result})


def take(tag_prefix=None):
    """Return and remove the events whose tag starts with tag_prefix (all if None)."""
    global TRACE
    if tag_prefix is None:
        out, TRACE = TRACE, []
        return out
    out = [e for e in TRACE if e['tag'].startswith(tag_prefix)]
    TRACE = [e for e in TRACE if not e['tag'].startswith(tag_prefix)]
    return out


def clear():
    global TRACE
    TRACE = []
    STATE['tag'] = None
