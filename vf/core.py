"""Shard-side recording context shared by all property modules.

A property module (vf/props/cXX.py) exposes

    PROP_ID      'C11'
    RULE         how cases are generated and what makes one non-trivial / distinct
    ASSUMPTIONS  list of str
    TECHNIQUE    short name of the deciding method
    MIN_EVALS    {'quick': {clause: n, ...}, 'thorough': {...}}   merged counters below these -> INCONCLUSIVE
    def n_shards(tier) -> int
    def run_shard(ctx)              drive the workload of shard ctx.shard / ctx.nshards
    def replay(witness) -> list[str]  re-run one recorded case; returns the violations seen (empty = holds now)
    EXHAUSTIVE (optional)           text describing the completely enumerated sub-space

Everything a monitor sees goes through Ctx:  ok() for a clause evaluated and satisfied, violation() for a clause
refuted (with the full case as witness), case() to register one generated case for the distinct / non-trivial
count, observe() for informational counters that carry no verdict.
"""
import hashlib
import json
import os
import time
import traceback

import numpy as np


def jsonable(o, _depth=0):
    """Turn numpy-laden structures into plain JSON values (arrays inline as lists)."""
    if _depth > 8:
        return repr(o)
    if isinstance(o, np.ndarray):
        if o.dtype.kind == 'c':
            return {'__complex_ndarray__': True, 'dtype': str(o.dtype), 'shape': list(o.shape),
                    'real': np.real(o).ravel().tolist(), 'imag': np.imag(o).ravel().tolist()}
        return {'__ndarray__': True, 'dtype': str(o.dtype), 'shape': list(o.shape),
                'data': [jsonable(x, _depth + 1) for x in o.ravel().tolist()]}
    if isinstance(o, (np.floating,)):
        return jsonable(float(o))
    if isinstance(o, (np.integer,)):
        return int(o)
    if isinstance(o, (np.bool_,)):
        return bool(o)
    if isinstance(o, complex):
        return {'__complex__': [o.real, o.imag]}
    if isinstance(o, float):
        if o != o:
            return {'__float__': 'nan'}
        if o in (float('inf'), float('-inf')):
            return {'__float__': 'inf' if o > 0 else '-inf'}
        return o
    if isinstance(o, (int, str, bool)) or o is None:
        return o
    if isinstance(o, dict):
        return {str(k): jsonable(v, _depth + 1) for k, v in o.items()}
    if isinstance(o, tuple):
        return {'__tuple__': [jsonable(x, _depth + 1) for x in o]}
    if isinstance(o, (list, set, frozenset)):
        return [jsonable(x, _depth + 1) for x in o]
    if isinstance(o, bytes):
        return {'__bytes_hex__': o.hex()}
    return repr(o)


def unjson(o):
    """Inverse of jsonable for the tagged forms."""
    if isinstance(o, dict):
        if o.get('__ndarray__'):
            data = [unjson(x) for x in o['data']]
            return np.array(data, dtype=o['dtype']).reshape(o['shape'])
        if o.get('__complex_ndarray__'):
            return (np.array(o['real']) + 1j * np.array(o['imag'])).astype(o['dtype']).reshape(o['shape'])
        if '__complex__' in o:
            return complex(*o['__complex__'])
        if '__float__' in o:
            return float(o['__float__'])
        if '__tuple__' in o:
            return tuple(unjson(x) for x in o['__tuple__'])
        if '__bytes_hex__' in o:
            return bytes.fromhex(o['__bytes_hex__'])
        return {k: unjson(v) for k, v in o.items()}
    if isinstance(o, list):
        return [unjson(x) for x in o]
    return o


def digest(*parts):
    """Short stable digest of a case (arrays by bytes+dtype+shape, the rest by repr)."""
    h = hashlib.blake2b(digest_size=8)
    for p in parts:
        _feed(h, p)
    return h.hexdigest()


def _feed(h, p):
    if isinstance(p, np.ndarray):
        h.update(str(p.dtype).encode())
        h.update(str(p.shape).encode())
        h.update(np.ascontiguousarray(p).tobytes())
    elif isinstance(p, (list, tuple)):
        h.update(b'[' if isinstance(p, list) else b'(')
        for x in p:
            _feed(h, x)
            h.update(b',')
    elif isinstance(p, dict):
        for k in sorted(p, key=str):
            h.update(str(k).encode())
            _feed(h, p[k])
    else:
        h.update(repr(p).encode())
    h.update(b'|')


class Ctx(object):
    """Recording context of one shard."""
    MAX_WITNESS_PER_CLAUSE = 6
    MAX_SAMPLES = 6

    def __init__(self, prop_id, tier, seed, shard, nshards, replay_dir=None):
        self.prop_id = prop_id
        self.tier = tier
        self.seed = int(seed)
        self.shard = shard
        self.nshards = nshards
        self.rng = np.random.default_rng([self.seed, int(prop_id[1:]), shard])
        self.counters = {}        # clause -> satisfied evaluations
        self.viol_counts = {}     # clause -> refuted evaluations (not attributed to a finding)
        self.finding_counts = {}  # finding key -> refuted evaluations attributed to it
        self.violations = []      # recorded witnesses (bounded)
        self.observations = {}    # informational counters
        self.classes = {}         # histogram of input classes drawn
        self.samples = []
        self.digests = set()
        self.distinct_by_construction = 0
        self.cases = 0
        self.t0 = time.time()
        self.deadline = None
        self.notes = {}
        self.exhaustive = {}
        self.keysets = {}         # name -> set of hashable keys (e.g. abstract states visited); merged as a union over shards

    # -- registration of cases ------------------------------------------------------------------------------------
    def case(self, dig, nontrivial=True, cls=None, sample=None):
        """Register one generated case. dig: digest(...) of its inputs. Only non-trivial ones count as distinct."""
        self.cases += 1
        if nontrivial:
            self.digests.add(dig)
        if cls is not None:
            self.classes[cls] = self.classes.get(cls, 0) + 1
        if sample is not None and len(self.samples) < self.MAX_SAMPLES and self.cases % 97 in (1, 2):
            self.samples.append(jsonable(sample))

    def cases_enumerated(self, n, n_nontrivial, cls=None):
        """Register a completely enumerated block whose members are distinct by construction."""
        self.cases += n
        self.distinct_by_construction += n_nontrivial
        if cls is not None:
            self.classes[cls] = self.classes.get(cls, 0) + n

    def sample(self, s):
        if len(self.samples) < self.MAX_SAMPLES:
            self.samples.append(jsonable(s))

    # -- verdict-bearing events --------------------------------------------------------------------------------------
    def ok(self, clause, n=1):
        self.counters[clause] = self.counters.get(clause, 0) + n

    def check(self, cond, clause, witness=None, msg='', finding=None):
        """Evaluate one clause: cond True -> ok, False -> violation(witness may be a callable building it lazily)."""
        if cond:
            self.ok(clause)
            return True
        if callable(witness):
            witness = witness()
        self.violation(clause, witness, msg, finding)
        return False

    def violation(self, clause, witness, msg='', finding=None):
        if callable(finding):
            finding = finding()
        if finding:
            self.finding_counts[finding] = self.finding_counts.get(finding, 0) + 1
            n = self.finding_counts[finding]
        else:
            self.viol_counts[clause] = self.viol_counts.get(clause, 0) + 1
            n = self.viol_counts[clause]
        if n <= self.MAX_WITNESS_PER_CLAUSE:
            self.violations.append({'clause': clause, 'msg': str(msg)[:2000], 'finding': finding,
                                    'witness': jsonable(witness), 'shard': self.shard, 'seed': self.seed,
                                    'tier': self.tier})

    def observe(self, key, n=1):
        self.observations[key] = self.observations.get(key, 0) + n

    def keyset(self, name):
        return self.keysets.setdefault(name, set())

    def note(self, key, value):
        self.notes[key] = jsonable(value)

    def exception(self, clause, witness, exc):
        tb = ''.join(traceback.format_exception(type(exc), exc, exc.__traceback__)[-6:])
        self.violation(clause, witness, 'exception on in-domain input: %s\n%s' % (repr(exc), tb))

    def out_of_time(self):
        return self.deadline is not None and time.time() > self.deadline

    def result(self):
        return {
            'shard': self.shard, 'counters': self.counters, 'viol_counts': self.viol_counts,
            'finding_counts': self.finding_counts, 'violations': self.violations,
            'observations': self.observations, 'classes': self.classes, 'samples': self.samples,
            'digests': sorted(self.digests), 'distinct_by_construction': self.distinct_by_construction,
            'cases': self.cases, 'wall_s': time.time() - self.t0, 'notes': self.notes,
            'exhaustive': self.exhaustive,
            'keysets': {k: sorted(repr(x) for x in v) for k, v in self.keysets.items()},
        }


def split_range(n, shard, nshards):
    """Indices of range(n) handled by this shard (round robin keeps cost balanced)."""
    return range(shard, n, nshards)


def repo_dir():
    return os.environ.get('EQSIG_REPO', '/repo')


def import_eqsig():
    """Import the eqsig under test from the repository working tree; refuse anything else."""
    import sys
    rd = os.path.realpath(repo_dir())
    if rd not in sys.path[:1]:
        sys.path.insert(0, rd)
    import eqsig
    f = os.path.realpath(eqsig.__file__)
    if not f.startswith(rd + os.sep):
        raise RuntimeError('eqsig imported from %s, not from %s' % (f, rd))
    return eqsig
