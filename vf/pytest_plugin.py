"""pytest plugin: runs the repository's own tests with runtime monitors attached (loaded with -p vf.pytest_plugin from /verif;
no file in /repo is touched). VF_PLUGIN_PROPS = comma list of property modules whose install(ctx) is called (default C05:
class invariant + generic purity wrapper); VF_PLUGIN_OUT = json file receiving counters / violations / monitored calls."""
import json
import os

_CTX = {}


def pytest_configure(config):
    from vf import core, attach
    core.import_eqsig()
    import importlib
    props = [p for p in os.environ.get('VF_PLUGIN_PROPS', 'C05').split(',') if p]
    for p in props:
        mod = importlib.import_module('vf.props.' + p.lower())
        ctx = core.Ctx(p, 'thorough', 0, 0, 1)
        mod.install(ctx)
        _CTX[p] = ctx


def pytest_sessionfinish(session, exitstatus):
    from vf import attach
    out = os.environ.get('VF_PLUGIN_OUT')
    if not out:
        return
    res = {'counters': {}, 'violations': [], 'calls': dict(attach.CALLS), 'per_property': {}}
    for p, ctx in _CTX.items():
        r = ctx.result()
        res['per_property'][p] = {'counters': r['counters'], 'viol_counts': r['viol_counts'], 'finding_counts': r['finding_counts'],
                                  'observations': r['observations']}
        for k, v in r['counters'].items():
            res['counters'][k] = res['counters'].get(k, 0) + v
        res['violations'] += [v for v in r['violations'] if not v.get('finding')]
    with open(out, 'w') as f:
        json.dump(res, f)
