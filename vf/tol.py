"""Numerical-equality convention (DESIGN.md section 3)."""
import numpy as np


def worst(got, ref, scale=None, rtol=1e-9, atol=0.0):
    """Return (ok, index, err, allowed) for |got-ref| <= atol + rtol*scale, scale defaulting to max|ref|.
    Shape mismatch, NaN or inf in got where ref is finite -> not ok."""
    got = np.asarray(got)
    ref = np.asarray(ref)
    if got.shape != ref.shape:
        return False, None, float('inf'), 0.0
    if got.size == 0:
        return True, None, 0.0, 0.0
    if scale is None:
        fin = np.abs(ref[np.isfinite(ref)]) if ref.dtype.kind in 'fc' else np.abs(ref)
        scale = float(np.max(fin)) if fin.size else 0.0
    allowed = atol + rtol * np.asarray(scale, dtype=float)
    with np.errstate(invalid='ignore'):
        err = np.abs(got - ref)
    bad_nan = ~np.isfinite(got) & np.isfinite(ref)
    same_inf = ~np.isfinite(ref) & (got == ref)
    err = np.where(same_inf, 0.0, err)
    err = np.where(np.isnan(err), np.inf, err)
    err = np.where(bad_nan, np.inf, err)
    excess = err - allowed
    i = int(np.argmax(excess))
    idx = np.unravel_index(i, err.shape) if err.ndim else ()
    e = float(err.ravel()[i]) if err.ndim else float(err)
    a = float(np.broadcast_to(allowed, err.shape).ravel()[i]) if err.ndim else float(allowed)
    return bool(e <= a), idx, e, a


def close(got, ref, scale=None, rtol=1e-9, atol=0.0):
    return worst(got, ref, scale, rtol, atol)[0]


def describe(got, ref, scale=None, rtol=1e-9, atol=0.0):
    ok, idx, e, a = worst(got, ref, scale, rtol, atol)
    if idx is None:
        return 'shape %s vs %s' % (np.shape(got), np.shape(ref))
    g = np.asarray(got)[idx] if np.asarray(got).ndim else got
    r = np.asarray(ref)[idx] if np.asarray(ref).ndim else ref
    return 'at %s got %r expected %r |diff|=%.3g allowed=%.3g' % (idx, g, r, e, a)


def near_int(x, rel=1e-9):
    r = round(x)
    return abs(x - r) <= rel * max(1.0, abs(x)), int(r)
