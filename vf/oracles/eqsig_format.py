"""Reference model of what the eqsig text format can hold (C16). Never imports eqsig, never reads a file.

The property: a saved signal loads back with the same number of points, the same time step *to 4 decimals*, the same
values *to 6 decimals* (times the load factor m), the same label.  "x to nd decimals" is the multiple of 10**-nd nearest
to x.  The nearest multiple is computed twice, independently:

  * with Python's own formatter  float('%.*f' % (nd, x))  (correctly rounded decimal of the exact binary value), and
  * with exact decimal arithmetic on Decimal(x) (the exact binary expansion), which also tells whether x sits on, or
    within a few ulps of, a half-way point between two multiples.  There the statement does not decide the direction
    (both neighbours are "x to nd decimals"; a writer that scales and rounds in floating point may resolve the tie the
    other way), so both neighbours are accepted (DESIGN.md section 3, knife-edge rule).

If the two computations of the nearest multiple ever disagree away from a tie the oracle raises: it is then the
oracle that is wrong, not the library.
"""
import math
from decimal import Decimal, Context, ROUND_FLOOR

class OracleError(Exception):
    """The two computations of the reference disagree: the oracle is wrong, no verdict may be drawn."""


_CTX = Context(prec=1400)      # a double needs at most ~1075 significant decimal digits: everything below is exact
TIE_ULPS = 4


def round_decimals(x, nd):
    """Return (primary, alternate): the acceptable values of 'x to nd decimals' as floats.

    primary   = nearest multiple of 10**-nd (Python formatter);
    alternate = the other neighbour when x is within TIE_ULPS ulps of the half-way point (exact ties included),
                else None.
    """
    x = float(x)
    if x != x or x in (float('inf'), float('-inf')):
        raise ValueError('round_decimals: non-finite value %r is outside the format' % x)
    primary = float('%.*f' % (nd, x))
    d = Decimal(x)
    q = Decimal(1).scaleb(-nd)
    lo = d.quantize(q, rounding=ROUND_FLOOR, context=_CTX)
    if lo == d:                      # x is itself a multiple of 10**-nd (also every |x| >= 2**53 * 10**-nd ... integers)
        if float(lo) != primary:
            raise OracleError('oracle self-check: %r is a multiple of 1e-%d but formatter gave %r' % (x, nd, primary))
        return primary, None
    hi = _CTX.add(lo, q)
    d_lo = _CTX.subtract(d, lo)      # > 0
    d_hi = _CTX.subtract(hi, d)      # > 0
    slack = Decimal(TIE_ULPS * math.ulp(x))
    gap = abs(_CTX.subtract(d_lo, d_hi))          # 2*|x - halfway|
    f_lo, f_hi = float(lo), float(hi)
    if gap <= 2 * slack:
        alt = f_hi if primary == f_lo else f_lo
        if primary not in (f_lo, f_hi):
            raise OracleError('oracle self-check: formatter value %r not a neighbour of %r' % (primary, x))
        return primary, (alt if alt != primary else None)
    nearest = f_lo if d_lo < d_hi else f_hi
    if nearest != primary:
        raise OracleError('oracle self-check: nearest multiple of 1e-%d to %r is %r, formatter gave %r'
                             % (nd, x, nearest, primary))
    return primary, None


def round_series(values, nd=6):
    """values: iterable of numbers as the writer sees them (float(v) is exact for float32/int64 below 2**53).
    Returns (list of primary values, {index: alternate}).  Scalar reference: every value goes through round_decimals."""
    prim = []
    alts = {}
    for i, v in enumerate(values):
        p, a = round_decimals(float(v), nd)
        prim.append(p)
        if a is not None:
            alts[i] = a
    return prim, alts


SAFE_SCALED_MAX = 2.0 ** 36     # |x|*10**nd below this: the scaled value carries >= 16 fractional bits
SAFE_TIE_MARGIN = 1e-3          # distance of frac(|x|*10**nd) from 0.5 above which x is nowhere near a tie


def round_series_fast(values, nd=6):
    """Same result as round_series for a long record, with the per-value work vectorised.

    primary: Python's formatter for every value (one tight loop, no Decimal).  Cross-check and tie detection: for values
    with y = |x|*10**nd < 2**36 and |frac(y) - 0.5| > 1e-3 the nearest multiple is rint(y)/10**nd exactly (the error
    of y is < 2**-17 << 1e-3, k/10**nd is one correctly rounded division = float of the decimal string) and x is
    > 9e-10*10**(6-nd) away from a half-way point, i.e. far more than TIE_ULPS ulps: no alternate.  Every other value
    (near a tie, or large) goes through the exact scalar path.  Returns (float64 array, {index: alternate})."""
    import numpy as np
    v = np.asarray([float(x) for x in values] if not isinstance(values, np.ndarray) else values, dtype=float)
    if v.size and not np.all(np.isfinite(v)):
        raise ValueError('round_series_fast: non-finite value is outside the format')
    scale = 10.0 ** nd
    fmt = '%%.%df' % nd
    prim = np.array([float(fmt % x) for x in v.tolist()], dtype=float)
    y = np.abs(v) * scale
    safe = (y < SAFE_SCALED_MAX) & (np.abs(y - np.floor(y) - 0.5) > SAFE_TIE_MARGIN)
    chk = np.copysign(np.rint(y) / scale, v)
    bad = safe & (prim != chk)
    if np.any(bad):
        i = int(np.flatnonzero(bad)[0])
        raise OracleError('oracle self-check: %r to %d decimals: formatter %r, scaled rounding %r'
                          % (float(v[i]), nd, float(prim[i]), float(chk[i])))
    alts = {}
    for i in np.flatnonzero(~safe).tolist():
        p, a = round_decimals(float(v[i]), nd)
        if p != prim[i]:
            raise OracleError('oracle self-check: two formatter calls disagree on %r' % float(v[i]))
        if a is not None:
            alts[i] = a
    return prim, alts


def value_allowance(expected):
    """Design (d): |loaded - m*round6(v)| <= 1e-12 * max(1, |m*v|)."""
    return 1e-12 * max(1.0, abs(expected))


DT_ATOL = 5e-13        # design (d): |loaded dt - round4(saved dt)| <= 5e-13
DT_MIN, DT_MAX = 1e-4, 1000.0    # judged range: every step the header's 4 decimals can represent, from 0.0001 s to 1000 s


def dt_in_domain(dt):
    try:
        dt = float(dt)
    except (TypeError, ValueError):
        return False
    return DT_MIN <= dt <= DT_MAX


def label_in_domain(label):
    """Labels are single-line strings (a label with a line break cannot be one line of a text file)."""
    return isinstance(label, str) and (label == '' or label.splitlines() == [label])
