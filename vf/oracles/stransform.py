"""Reference model for C15 (Stockwell transform). Written from the definition in the property statement:

    H[k]   = (1/N) * sum_j x[j] * exp(-2 pi i j k / N)                      (DFT / N)
    S[n,j] = sum_m H[(m+n) mod N] * exp(-2 pi^2 m^2 / n^2) * exp(2 pi i m j / N)    voices n = 1 .. N/2

with m running over one period of alias representatives of smallest magnitude, m = -(N/2-1) .. N/2 (the Gaussian window
of width 1/f, periodised once), N = the record length truncated to even. The library is stated to return conj(S) with
rows ordered n = N/2 .. 1.

Direct sums only: no FFT, no Toeplitz shift, no eqsig import. Phases are taken from exact integer products reduced
mod N, so the complex exponentials carry no argument-reduction error.
"""
import cmath
import math

import numpy as np


def even_part(x):
    """The record truncated to even length, as float64."""
    x = np.asarray(x, dtype=float).ravel()
    n = 2 * (len(x) // 2)
    return x[:n]


def dft(x):
    """X[k] = sum_j x[j] exp(-2 pi i j k / N), k = 0..N-1; direct O(N^2)."""
    x = np.asarray(x)
    n = len(x)
    j = np.arange(n)
    ph = np.outer(j, j) % n
    return np.exp(-2j * np.pi * ph / n) @ x


def alias_m(n):
    """Representatives of m mod N with the smallest magnitude: 0..N/2, then -(N/2-1)..-1."""
    return np.concatenate((np.arange(0, n // 2 + 1), np.arange(-(n // 2) + 1, 0)))


def s_transform_conj(x):
    """(conj(S) with rows n = N/2..1 as an (N/2, N) complex array, H) for the even part of x. O(N^3) flops."""
    x = even_part(x)
    n_pts = len(x)
    h = dft(x) / n_pts
    m = alias_m(n_pts)
    j = np.arange(n_pts)
    e = np.exp(2j * np.pi * (np.outer(m, j) % n_pts) / n_pts)           # e[m, j]
    voices = np.arange(n_pts // 2, 0, -1)
    window = np.exp(-2.0 * np.pi ** 2 * (m[None, :].astype(float) ** 2) / (voices[:, None].astype(float) ** 2))
    g = h[(m[None, :] + voices[:, None]) % n_pts] * window               # g[voice, m]
    return np.conj(g @ e), h


def s_transform_conj_scalar(x):
    """The same by the literal triple loop (used to cross-check the vectorised form on short records)."""
    x = [float(v) for v in even_part(x)]
    n_pts = len(x)
    h = []
    for k in range(n_pts):
        s = 0j
        for j in range(n_pts):
            s += x[j] * cmath.exp(-2j * math.pi * ((j * k) % n_pts) / n_pts)
        h.append(s / n_pts)
    ms = list(range(0, n_pts // 2 + 1)) + list(range(-(n_pts // 2) + 1, 0))
    out = np.zeros((n_pts // 2, n_pts), dtype=complex)
    for n in range(1, n_pts // 2 + 1):
        for j in range(n_pts):
            s = 0j
            for m in ms:
                s += h[(m + n) % n_pts] * math.exp(-2.0 * math.pi ** 2 * m * m / (n * n)) \
                    * cmath.exp(2j * math.pi * ((m * j) % n_pts) / n_pts)
            out[n_pts // 2 - n, j] = s.conjugate()
    return out


def marginal(h):
    """Expected row sums: conj of the (unnormalised) Fourier coefficient X_n = N*H[n], rows n = N/2..1."""
    n_pts = len(h)
    voices = np.arange(n_pts // 2, 0, -1)
    return np.conj(n_pts * h[voices])


def inverse_target(x):
    """What the inverse must return: the (even part of the) record minus its mean and its Nyquist component."""
    x = even_part(x)
    n_pts = len(x)
    mean = math.fsum(x.tolist()) / n_pts
    alt = np.where(np.arange(n_pts) % 2 == 0, 1.0, -1.0)
    nyq = math.fsum((x * alt).tolist()) / n_pts
    return x - mean - nyq * alt


def on_grid_harmonic(x, rel=1e-9):
    """k if the even part of x is a stationary sinusoid at the on-grid frequency k/(N dt) with 1 <= k < N/2 (all the
    spectrum outside bins k and N-k below rel * |X_k| in the 2-norm), else None."""
    x = even_part(x)
    n_pts = len(x)
    if n_pts < 4:
        return None
    mag = np.abs(dft(x))
    k = int(np.argmax(mag[1:n_pts // 2])) + 1
    if not (mag[k] > 0 and math.isfinite(mag[k])):
        return None
    rest = mag / mag[k]                 # normalised first: no under/overflow for amplitudes 1e-150 .. 1e150
    rest[k] = 0.0
    rest[n_pts - k] = 0.0
    if math.sqrt(float(np.sum(rest ** 2))) <= rel:
        return k
    return None


def harmonic_range(n_pts):
    """On-grid harmonics inside the statement: second harmonic .. three quarters of Nyquist (inclusive)."""
    return 2, int(math.floor(0.75 * (n_pts // 2) + 1e-12))
