"""Reference model for C08 (cumulative trapezoid / rectangle integration, peaks). Shares nothing with eqsig.

Everything is written from the property statement:
    v[i]-v[i-1] = dt*(a[i]+a[i-1])/2        (trapezoid)
    v[i]-v[i-1] = dt*a[i-1]  or  dt*a[i]    (rectangle rule, one side used consistently)
    series start at zero, have the record's length; peak = max |series|.
All arithmetic is float64 whatever the dtype of the inputs (integers below 2**53 and float32 convert exactly).
"""
import numpy as np

EPS64 = float(np.finfo(np.float64).eps)


def f64(x):
    """float64 image of a real record (complex128 image of a complex one: the library's own fas2signal produces
    records with a rounding-level imaginary part)."""
    a = np.asarray(x)
    if a.dtype.kind == 'c':
        return a.astype(np.complex128)
    return np.asarray(a, dtype=np.float64)


def eps_of(*things):
    """Largest machine epsilon among the floating dtypes involved (float64 for integers / Python numbers)."""
    e = EPS64
    for t in things:
        dt = getattr(t, 'dtype', None)
        if dt is not None and dt.kind in 'fc':
            e = max(e, float(np.finfo(dt).eps))
    return e


def underflow_floor(eps, n=1):
    """Absolute granularity of values held in the record's own floating dtype (gradual underflow): every one of n
    roundings in the subnormal range is off by up to one smallest subnormal, whatever the magnitude of the operands."""
    tiny = np.finfo(np.float32).smallest_subnormal if eps > 1e-10 else np.finfo(np.float64).smallest_subnormal
    return 4.0 * float(tiny) * max(1, int(n))


def increments(y, dt, rule):
    """Increment of the integral over each of the n-1 panels. rule: 'trap' | 'left' | 'right'."""
    y = f64(y)
    dt = float(dt)
    if rule == 'trap':
        return dt * (y[1:] + y[:-1]) / 2.0
    if rule == 'left':
        return dt * y[:-1]
    if rule == 'right':
        return dt * y[1:]
    raise ValueError(rule)


def running_sum(incs):
    """Series that starts at zero and has the given increments (length len(incs)+1)."""
    incs = f64(incs)
    out = np.zeros(len(incs) + 1, dtype=incs.dtype)
    out[1:] = np.cumsum(incs)
    return out


def integrate(y, dt, rule):
    """Zero-started cumulative integral of y with the given rule (reference series, float64)."""
    return running_sum(increments(y, dt, rule))


def max_abs(series):
    s = f64(series)
    return float(np.max(np.abs(s))) if s.size else 0.0


def increment_defect(series, integrand, dt, rule):
    """Largest |(series[i]-series[i-1]) - increment_i| over all panels and the index i where it occurs."""
    s = f64(series)
    inc = increments(integrand, dt, rule)
    if len(s) - 1 != len(inc):
        return float('inf'), None
    if len(inc) == 0:
        return 0.0, None
    with np.errstate(invalid='ignore', over='ignore'):
        err = np.abs(np.diff(s) - inc)
    err = np.where(np.isnan(err), np.inf, err)
    i = int(np.argmax(err))
    return float(err[i]), i + 1


def increment_tolerance(series, integrand, dt, eps, k=32.0):
    """Allowed defect of one increment. Rounding of a running sum: the step that produces s[i] is rounded relative to
    |s[i]| and the increment itself carries a few roundings relative to dt*|y|; both are bounded by
    eps*(max|s_ref| + dt*max|y|), where s_ref is the oracle's own running sum (never the series under test, so that a
    grossly wrong series cannot widen its own allowance)."""
    ref = np.cumsum(increments(integrand, dt, 'trap'))
    smax = float(np.max(np.abs(ref))) if ref.size else 0.0
    ymax = max_abs(integrand)
    # left/right rectangle sums are bounded by dt*sum|y| as well; use the larger of the two scales
    rsum = abs(float(dt)) * float(np.max(np.abs(np.cumsum(f64(integrand))))) if len(integrand) else 0.0
    # gradual underflow: a value held in the record's own floating dtype is a multiple of that dtype's smallest subnormal
    # (1.4e-45 for float32), which is an absolute, not a relative, granularity
    tiny = float(np.finfo(np.float32).smallest_subnormal) if eps > 1e-10 else float(np.finfo(np.float64).smallest_subnormal)
    return k * eps * (max(smax, rsum) + abs(float(dt)) * ymax) + 4.0 * tiny


def increment_check(series, integrand, dt, rule, eps, k=32.0):
    """Increment identity with a LOCAL allowance. s[i] = fl(s[i-1] + inc_i): the difference s[i]-s[i-1] deviates from
    the exact increment by the rounding of that one addition (<= eps/2*|s[i]|) plus the roundings inside the
    increment (a few eps of dt*(|y[i]|+|y[i-1]|)); the magnitudes are taken from the oracle's own running sum, so a
    spike elsewhere in the record does not widen the allowance at quiet samples. A second-order drift term covers the
    difference between the oracle's partial sums and the ones under test; an absolute floor covers gradual underflow.
    Returns (ok, index of the worst excess, defect there, allowance there)."""
    s = f64(series)
    y = f64(integrand)
    inc = increments(y, dt, rule)
    if len(s) - 1 != len(inc):
        return False, None, float('inf'), 0.0
    if len(inc) == 0:
        return True, None, 0.0, 0.0
    ref = running_sum(inc)
    parts = abs(float(dt)) * (np.abs(y[1:]) + np.abs(y[:-1]))
    n = len(s)
    glob = float(np.max(np.abs(ref))) + float(np.max(parts))
    tol = k * eps * (np.abs(ref[1:]) + np.abs(ref[:-1]) + parts) + k * n * eps * eps * glob + underflow_floor(eps)
    with np.errstate(invalid='ignore', over='ignore'):
        err = np.abs(np.diff(s) - inc)
    err = np.where(np.isnan(err), np.inf, err)
    i = int(np.argmax(err - tol))
    return bool(err[i] <= tol[i]), i + 1, float(err[i]), float(tol[i])


def closed_form_linear(a0, s, dt, n):
    """Samples t=i*dt of what the increment identity implies for a(t)=a0+s*t:
    v = a0 t + s t^2/2 (trapezoid exact for a linear integrand),
    d = a0 t^2/2 + s t^3/6 + s dt^2 t/12 (the last term is the trapezoid rule's own defect on the quadratic v)."""
    t = np.arange(n, dtype=float) * float(dt)
    v = a0 * t + s * t * t / 2.0
    d = a0 * t * t / 2.0 + s * t ** 3 / 6.0 + s * float(dt) ** 2 * t / 12.0
    return v, d


def closed_form_scales(a0, s, dt, n):
    """Well-conditioned scales (sum of the magnitudes of the parts) for the closed forms above."""
    T = (n - 1) * abs(float(dt))
    sv = abs(a0) * T + abs(s) * T * T / 2.0
    sd = abs(a0) * T * T / 2.0 + abs(s) * T ** 3 / 6.0 + abs(s) * float(dt) ** 2 * T / 12.0
    return sv, sd


def reference_pairs(record, dt, trap, sides_v=('left', 'right'), sides_d=('left', 'right')):
    """Every (velocity, displacement) pair the statement admits for this record, computed from the record alone:
    trapezoid -> one pair; rectangle rule -> one pair per admissible side of each of the two integrations (the caller
    passes the ONE convention it has fixed for the tree under test; both sides when it could not fix one)."""
    if trap:
        v = integrate(record, dt, 'trap')
        return [('trap', 'trap', v, integrate(v, dt, 'trap'))]
    out = []
    for rv in sides_v:
        v = integrate(record, dt, rv)
        for rd in sides_d:
            out.append((rv, rd, v, integrate(v, dt, rd)))
    return out


def running_sum_tolerances(eps, n, dt, amax, vmax, dmax, k=4.0):
    """Worst-case rounding allowance when a series is compared with an independently computed running sum:
    n additions each rounded relative to the partial sum (<= n*eps*max|v|) plus the roundings of the terms
    (<= eps*n*dt*max|a|); the error of v enters d through n further panels of width dt."""
    dt = abs(float(dt))
    tv = k * eps * n * (vmax + dt * amax) + underflow_floor(eps, n)
    td = k * eps * n * (dmax + dt * vmax) + n * dt * tv + underflow_floor(eps, n)
    return tv, td
