"""Reference models for the cumulative intensity measures (C09). Scalar code written from the definitions in the
property statement; shares nothing with eqsig (never imports it). Inputs are plain sequences of floats.

    Arias  = pi/(2*9.81) * trapezoid(a^2)         CAV = trapezoid(|a|)          ISV = trapezoid(v^2)
    int|a|, int|v| = rectangle sums               unit kinetic energy = sum |change of 0.5*v*|v||
    CAVdp  = sum over complete one-second windows whose max |a| reaches 0.025 g of trapezoid(|a|/9.81) on the window
"""
import math

G = 9.81
GATE_G = 0.025
EPS = 2.0 ** -52


def trapezoid(y, dt):
    """Composite trapezoid rule with uniform step dt (0 for fewer than two samples)."""
    return math.fsum(0.5 * dt * (y[i] + y[i - 1]) for i in range(1, len(y)))


def cumulative_trapezoid(y, dt):
    """Series s with s[0]=0 and s[i]-s[i-1] = dt*(y[i]+y[i-1])/2 (used for prefixes)."""
    out = [0.0]
    s = 0.0
    for i in range(1, len(y)):
        s += 0.5 * dt * (y[i] + y[i - 1])
        out.append(s)
    return out


def velocity(acc, dt, eps=EPS):
    """Velocity of the record from its definition (C08): cumulative trapezoid of the acceleration, v[0] = 0.
    Returns (v, err): err bounds the rounding error an evaluation of that running sum in arithmetic of unit
    round-off eps can carry ((n+2) * eps * sum of |panel|); the velocity-based final values widen their allowance
    by its propagation."""
    v = [0.0]
    s = 0.0
    tot = 0.0
    for i in range(1, len(acc)):
        p = 0.5 * dt * (acc[i] + acc[i - 1])
        s += p
        tot += abs(p)
        v.append(s)
    return v, (len(acc) + 2) * eps * tot


def arias_final(acc, dt):
    return math.pi / (2.0 * G) * trapezoid([a * a for a in acc], dt)


def cav_final(acc, dt):
    return trapezoid([abs(a) for a in acc], dt)


def isv_final(vel, dt):
    return trapezoid([v * v for v in vel], dt)


def rectangle_finals(y, dt):
    """The rectangle sums of |y| a statement that only says "rectangle sum" admits:
    every sample counted, left rule (last sample not counted), right rule (first sample not counted)."""
    terms = [abs(v) * dt for v in y]
    return {'all': math.fsum(terms), 'left': math.fsum(terms[:-1]), 'right': math.fsum(terms[1:])}


def unit_kinetic_energy_final(vel):
    """(sum over steps of |k[i]-k[i-1]|, sum of |k[i]|) with k = 0.5*v*|v|; the second value conditions the
    tolerance (each difference carries a rounding error proportional to |k|, not to the difference)."""
    k = [0.5 * v * abs(v) for v in vel]
    return math.fsum(abs(k[i] - k[i - 1]) for i in range(1, len(k))), math.fsum(abs(x) for x in k)


# ---------------------------------------------------------------------------------------------------- CAVdp
def samples_per_second(dt, rel=1e-9):
    """(in_domain, pps): dt has an integer number of samples per second iff 1/dt is an integer up to rounding."""
    if not (dt > 0):
        return False, 0
    r = 1.0 / dt
    pps = int(round(r))
    return (pps >= 1 and abs(r - pps) <= rel * pps), pps


def cav_dp_windows(acc, dt, pps, exact_g=False, ulps=4, eps=EPS):
    """One entry per complete one-second window [w*pps, (w+1)*pps] of the record:
        {'w', 'max_g', 'status' ('in' | 'out' | 'ambiguous'), 'integral', 'panel'}
    integral = trapezoid of |a|/9.81 over the window, panel = its largest single panel (the slack the statement
    grants per window). The gate max|a|/9.81 >= 0.025 is decided strictly when exact_g (the record was built in g
    units and a/9.81 reproduces them exactly); otherwise a maximum within `ulps` (in units of eps, the unit round-off of the record's dtype) of the gate is
    ambiguous."""
    n = len(acc)
    q = [abs(a) / G for a in acc]
    nwin = (n - 1) // pps
    band = ulps * eps * GATE_G
    out = []
    for w in range(nwin):
        lo, hi = w * pps, (w + 1) * pps
        m = max(q[lo:hi + 1])
        panels = [0.5 * dt * (q[j] + q[j + 1]) for j in range(lo, hi)]
        if exact_g or abs(m - GATE_G) > band:
            status = 'in' if m >= GATE_G else 'out'
        else:
            status = 'ambiguous'
        out.append({'w': w, 'max_g': m, 'status': status, 'integral': math.fsum(panels), 'panel': max(panels)})
    return out


def cav_dp_admissible(windows, max_enum=10):
    """List of (expected, allowance) pairs, one per resolution of the ambiguous windows (interval hull when there
    are more than max_enum of them): expected = sum of window integrals over qualifying windows, allowance = sum of
    their largest panels."""
    base_e = math.fsum(w['integral'] for w in windows if w['status'] == 'in')
    base_a = math.fsum(w['panel'] for w in windows if w['status'] == 'in')
    amb = [w for w in windows if w['status'] == 'ambiguous']
    if not amb:
        return [(base_e, base_a)]
    if len(amb) > max_enum:
        tot_e = math.fsum(w['integral'] for w in amb)
        tot_a = math.fsum(w['panel'] for w in amb)
        # hull: anything between "none" and "all" (expressed as a centre and a widened allowance)
        return [(base_e + 0.5 * tot_e, base_a + tot_a + 0.5 * tot_e)]
    res = []
    for mask in range(1 << len(amb)):
        e, a = base_e, base_a
        for k, w in enumerate(amb):
            if mask >> k & 1:
                e += w['integral']
                a += w['panel']
        res.append((e, a))
    return res
