"""Reference models for peak / crossing detection (C11, C12, C13). Scalar code, shares nothing with eqsig."""


def runs(values):
    """Run-length encode: list of (start index, value)."""
    out = []
    prev = object()
    for i, v in enumerate(values):
        if not out or v != prev:
            out.append((i, v))
            prev = v
    return out


def turning_points(values):
    """(all, maxima, minima) index lists per the C11 statement for a non-constant series:
    index 0, first sample of every interior plateau that is a local extremum, first sample of the final run."""
    r = runs(values)
    m = len(r)
    if m < 2:
        raise ValueError('constant series')
    allp, mx, mn = [], [], []
    for k, (i, v) in enumerate(r):
        if k == 0:
            allp.append(i)
            (mx if v > r[1][1] else mn).append(i)
        elif k == m - 1:
            allp.append(i)
            (mx if v > r[k - 1][1] else mn).append(i)
        else:
            a, b = r[k - 1][1], r[k + 1][1]
            if v > a and v > b:
                allp.append(i)
                mx.append(i)
            elif v < a and v < b:
                allp.append(i)
                mn.append(i)
    return allp, mx, mn


def n_cyc_reference(n, peaks, start):
    """Cycle counter: 0 at index 0, 0.25 (origin) / 0.5 (peak) at the first reported peak after it, +0.5 per peak,
    linear in between, constant after the last peak."""
    nodes = list(peaks)
    if nodes[0] != 0:
        nodes = [0] + nodes
    sval = -0.25 if start == 'origin' else 0.0
    vals = [0.0] + [0.5 * k + sval for k in range(1, len(nodes))]
    out = []
    j = 0
    for i in range(n):
        while j + 1 < len(nodes) and nodes[j + 1] <= i:
            j += 1
        if j + 1 < len(nodes):
            x0, x1 = nodes[j], nodes[j + 1]
            out.append(vals[j] + (vals[j + 1] - vals[j]) * (i - x0) / (x1 - x0))
        else:
            out.append(vals[j])
    return out


def zero_crossings(values, keep_adj_zeros=False):
    """C12: index 0, every exact zero (first of each run unless keep_adj_zeros), first sample after each strict sign
    change; ascending without duplicates."""
    out = set([0])
    n = len(values)
    for i in range(n):
        v = values[i]
        if v == 0:
            if keep_adj_zeros or i == 0 or values[i - 1] != 0:
                out.add(i)
        elif i > 0 and values[i - 1] != 0 and (v > 0) != (values[i - 1] > 0):
            out.add(i)
    return sorted(out)


def excursions(values):
    """Maximal runs of samples of one strict sign: list of (start, end_exclusive, sign)."""
    out = []
    i = 0
    n = len(values)
    while i < n:
        v = values[i]
        if v == 0:
            i += 1
            continue
        s = 1 if v > 0 else -1
        j = i
        while j < n and values[j] != 0 and ((values[j] > 0) == (s > 0)):
            j += 1
        out.append((i, j, s))
        i = j
    return out


def total_variation(values):
    return sum(abs(values[i + 1] - values[i]) for i in range(len(values) - 1))


def switched_with_tolerance(values, tol):
    """Executable reading of the documented tolerance semantics of the switched peaks ("has to go tol past zero"):
    walk the turning points; a half cycle that started at a peak of sign s ends only at the first later peak lying at
    least tol on the other side of zero; each half cycle reports its turning point of largest |value| (first on ties).
    Used ONLY to recognise the known finding C12/tol-split-excursion, never as the oracle of the property."""
    tp = turning_points(values)[0]
    pv = [values[i] for i in tp]
    out = []
    cur = [0]
    last = pv[0]
    for k in range(1, len(pv)):
        s = (last > 0) - (last < 0)
        adj = pv[k] + tol * s
        # signs are compared, never the product (it under/overflows for |values| beyond 1e+-154)
        if ((adj > 0) - (adj < 0)) * s <= 0:
            best = max(cur, key=lambda j: (abs(pv[j]), -j))
            out.append(tp[best])
            cur = []
            last = pv[k]
        cur.append(k)
    if cur:
        best = max(cur, key=lambda j: (abs(pv[j]), -j))
        out.append(tp[best])
    return out
