"""Reference models for C20 (table interpolation, left interpolation, rolling average, step fit, design-spectrum
relations). Plain scalar Python written from the definitions in the property statement; shares nothing with eqsig and
never imports it. All functions take Python lists of floats (callers convert with float())."""
import math


# ------------------------------------------------------------------------------------------------ interpolation
def bracket(q, nodes):
    """Index j of the last node <= q for non-decreasing nodes (binary search; with repeated nodes the last of the equal
    ones), or None when q lies below the first node."""
    lo, hi = 0, len(nodes)
    while lo < hi:                      # invariant: nodes[:lo] <= q < nodes[hi:]
        mid = (lo + hi) // 2
        if nodes[mid] <= q:
            lo = mid + 1
        else:
            hi = mid
    return lo - 1 if lo > 0 else None


def equal_nodes(j, nodes):
    """Indices of all nodes equal to nodes[j] (j and the equal ones before it)."""
    k = j
    while k > 0 and nodes[k - 1] == nodes[j]:
        k -= 1
    return list(range(k, j + 1))


def interp_point(q, nodes, col):
    """Piecewise-linear interpolation of the points (nodes[k], col[k]) at q with the end values held outside the node
    range. nodes non-decreasing; a repeated node is a jump of the function. Returns (list of acceptable values, local
    scale): one value, except ON a repeated node where the value of any of the equal nodes is acceptable; the local
    scale is the largest |value| of the rows that enter the result and their neighbours."""
    m = len(nodes)
    if q < nodes[0]:
        return [col[0]], max(abs(col[0]), abs(col[min(1, m - 1)]))
    if q > nodes[m - 1]:
        return [col[m - 1]], max(abs(col[m - 1]), abs(col[max(0, m - 2)]))
    j = bracket(q, nodes)
    if q == nodes[j]:
        eq = equal_nodes(j, nodes)
        nb = [abs(col[k]) for k in range(max(0, eq[0] - 1), min(m, j + 2))]
        return [col[k] for k in reversed(eq)], max(nb)
    x0, x1 = nodes[j], nodes[j + 1]
    w = (q - x0) / (x1 - x0)
    return [(1.0 - w) * col[j] + w * col[j + 1]], max(abs(col[j]), abs(col[j + 1]))


def interp_clamped(q, nodes, col):
    """The value of interp_point (on a repeated node: that of the last of the equal nodes)."""
    return interp_point(q, nodes, col)[0][0]


def interp_table(queries, nodes, table):
    """Column-wise clamped linear interpolation: list (one row per query) of lists (one value per column)."""
    ncol = len(table[0])
    cols = [[row[c] for row in table] for c in range(ncol)]
    return [[interp_clamped(q, nodes, cols[c]) for c in range(ncol)] for q in queries]


def interp_table_local(queries, nodes, table):
    """(values, local scales, alternatives): values / scales as in interp_table; alternatives[i][c] lists the further
    acceptable values of a query lying ON a repeated node (empty otherwise)."""
    ncol = len(table[0])
    cols = [[row[c] for row in table] for c in range(ncol)]
    vals, scales, alts = [], [], []
    for q in queries:
        pts = [interp_point(q, nodes, cols[c]) for c in range(ncol)]
        vals.append([p[0][0] for p in pts])
        scales.append([p[1] for p in pts])
        alts.append([p[0][1:] for p in pts])
    return vals, scales, alts


def query_class(q, nodes):
    """'below' / 'above' / 'node' / 'inside' relative to the non-decreasing node set."""
    if q < nodes[0]:
        return 'below'
    if q > nodes[-1]:
        return 'above'
    return 'node' if nodes[bracket(q, nodes)] == q else 'inside'


def left_values(queries, nodes, y=None):
    """Value (index when y is None) at the greatest node not exceeding each query (with repeated nodes: at the last of
    the equal ones). None for a query below the first node (outside the domain)."""
    out = []
    for q in queries:
        j = bracket(q, nodes)
        if j is None:
            out.append(None)
        else:
            out.append(j if y is None else y[j])
    return out


def left_candidates(queries, nodes):
    """For each query the indices of all nodes equal to the greatest node not exceeding it (None below the first node):
    with a repeated node the statement does not say which of the equal nodes supplies the value."""
    out = []
    for q in queries:
        j = bracket(q, nodes)
        out.append(None if j is None else equal_nodes(j, nodes))
    return out


# ------------------------------------------------------------------------------------------------ rolling average
def window_offsets(steps, mode, alt=False):
    """(first, last) offsets of the averaging window relative to the current sample. For an even centred window the
    statement does not say on which side the extra sample lies: alt=False puts it before the current sample, alt=True
    after it (identical for odd windows)."""
    if mode == 'forward':
        return 0, steps - 1
    if mode == 'backward':
        return -(steps - 1), 0
    half = steps // 2
    other = steps - half - 1
    return (-other, half) if alt else (-half, other)


def rolling_mean(x, steps, mode, alt=False):
    """Mean over the window of `steps` samples around / after / before every sample; indices beyond the ends take the
    end values (edge replication). Same length as x."""
    n = len(x)
    lo, hi = window_offsets(steps, mode, alt)
    out = []
    for i in range(n):
        out.append(math.fsum(x[min(max(j, 0), n - 1)] for j in range(i + lo, i + hi + 1)) / steps)
    return out


def rolling_mean_prefix(x_int, steps, mode, alt=False):
    """The same window means for a series of Python ints in O(n): exact integer prefix sums of the edge-replicated
    series, one correctly rounded division per sample (used for long series where the direct sum is too slow)."""
    n = len(x_int)
    lo, hi = window_offsets(steps, mode, alt)
    ext = [x_int[0]] * (-lo) + list(x_int) + [x_int[-1]] * hi
    pre = [0]
    for v in ext:
        pre.append(pre[-1] + v)
    return [(pre[i + steps] - pre[i]) / steps for i in range(n)]


# ------------------------------------------------------------------------------------------------ step fit
def dev_sum(seg, p):
    """Sum of |v - mean(seg)|**p over the segment."""
    m = math.fsum(seg) / len(seg)
    return math.fsum(abs(v - m) ** p for v in seg)


def step_errors(x, p):
    """Entry i < n-1: split after sample i -> dev_sum(x[:i+1]) + dev_sum(x[i+1:]); entry n-1: no split, whole series."""
    n = len(x)
    out = [dev_sum(x[:i + 1], p) + dev_sum(x[i + 1:], p) for i in range(n - 1)]
    out.append(dev_sum(x, p))
    return out


def step_levels(x, ind):
    """Means of the samples before and after the split sample `ind` (both sides must be non-empty)."""
    pre = x[:ind]
    post = x[ind + 1:]
    return math.fsum(pre) / len(pre), math.fsum(post) / len(post)


def step_level_scales(x, ind):
    """Largest |sample| of each side: the scale a mean of that side can be accurate to."""
    return max(abs(v) for v in x[:ind]), max(abs(v) for v in x[ind + 1:])


def trunc_explains(got, expected, near=1e-9):
    """Mechanism test of the known finding C20/int-dtype-truncation: every returned element equals trunc(expected)
    (the float result stored into an integer array), with +-1 allowed only where the expected value lies within `near`
    of an integer (there the rounding of the real computation decides which side of the integer it fell)."""
    if len(got) != len(expected):
        return False
    for g, e in zip(got, expected):
        t = math.trunc(e)
        if g == t:
            continue
        is_near = abs(e - round(e)) <= near * max(1.0, abs(e))
        if is_near and abs(g - t) <= 1:
            continue
        return False
    return True


def trunc_candidates(e, near=1e-9):
    """Integers a float result close to e may truncate to: trunc(e), and its neighbours where e lies within `near` of an
    integer (there the rounding of the real computation decides)."""
    t = math.trunc(e)
    if abs(e - round(e)) <= near * max(1.0, abs(e)):
        return [t, t - 1, t + 1]
    return [t]


def overflow_regime(expected, lo, hi):
    """Overflow regime of the known finding C20/int-dtype-truncation: some expected error value lies outside the range
    [lo, hi] of the integer dtype the result array inherited from the input."""
    return any(math.trunc(e) > hi or math.trunc(e) < lo for e in expected)


def wrap_explains(got, expected, bits, lo, cast_many=None, near=1e-9, slack=0.0):
    """Mechanism test in the overflow regime when no exception was raised: every returned element is the float the
    function computed - some value within near*max(1,|e|) of the expected e (the tolerance of the clause; for e ~ 1e18 that
    is far more than one unit) - truncated and stored into the fixed-width integer array, i.e. wrapped modulo 2**bits into
    [lo, lo + 2**bits); or, where the value is so large that the C conversion is undefined, whatever the platform's own
    float->integer conversion stores at that position: cast_many(list of floats) -> list of stored integers performs the
    same conversion on a whole array of the same length (vectorised conversions treat out-of-range values differently
    from the scalar tail, so the position matters). Elements that fit the dtype therefore still equal trunc(expected)
    (+-1 only next to an integer), exactly as in the truncation regime. slack = the absolute tolerance of the clause
    (rtol * n * max|x|^p): the float the function computed may differ from e by that much before it is stored (its padded
    triangle sums cancel at the scale of the whole series, not of the single entry)."""
    if len(got) != len(expected):
        return False
    m = 1 << bits
    t0s, t1s = [], []
    for e in expected:
        d = max(near * max(1.0, abs(e)), slack)
        t0s.append(math.trunc(e - d))
        t1s.append(math.trunc(e + d))
    c0 = c1 = None
    for i, g in enumerate(got):
        t0, t1 = t0s[i], t1s[i]
        if t1 - t0 >= m or (g - ((t0 - lo) % m + lo)) % m <= t1 - t0:
            continue
        if cast_many is not None:
            if c0 is None:
                c0, c1 = cast_many([float(t) for t in t0s]), cast_many([float(t) for t in t1s])
            if g == c0[i] or g == c1[i]:
                continue
        return False
    return True


# ------------------------------------------------------------------------------------------------ design spectra
G = 9.81            # m/s2, converts the spectral shape C_h*T^2*Z*N*R (g*s2) to metres together with 1/(2*pi)^2
T_CORNER = 3.0      # corner period of the NZS 1170.5 displacement spectrum
# segment boundaries of the spectral-shape table per site class (NZS 1170.5 table 3.1 as quoted in the design)
BOUNDARIES = {'C': [0.1, 0.3, 1.5, 3.0], 'D': [0.1, 0.56, 1.5, 3.0], 'E': [0.1, 1.0, 1.5, 3.0]}
TABLE_PRECISION = 0.005   # three significant digits in the tables: jumps up to 0.5 % are "continuous to table precision"


def sd_from_shape(c_h, period, z, n, r):
    """S_d = C_h(T) * T^2 * Z * N * R (the statement's identity)."""
    return c_h * period * period * z * n * r


def corner_displacement(sd_at_corner):
    """Spectral displacement in metres at the corner period, from S_d(T_corner) = C_h*T^2*Z*N*R."""
    return sd_at_corner * G / (2.0 * math.pi) ** 2


def t_eff_reference(displacement, d_corner):
    """Inverse of the corner-period displacement relation d = d_corner * T / T_corner."""
    return T_CORNER * displacement / d_corner
