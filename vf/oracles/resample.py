"""Reference assertions for C14 (resampling keeps the record). Never imports eqsig.

Everything here is written from the property statement:

  interpolation to an approximate step            -> step_rule, ratio_kind, retained_refining, subsequence_decimating,
                                                     in_range, duration_change, in_domain
  periodic (Fourier) resampling of a signal that   -> harmonics (projection of the samples onto the harmonics of the
  is periodic over the record and band-limited        record period = the unique such signal through the samples),
                                                     band_index, trig_eval (its exact value at any instant)
"""
import math

import numpy as np

STEP_SLACK = 1e-12     # the quotient dt/target is itself rounded (DESIGN.md C14 (b))
RATIO_TOL = 1e-9
BAND_ZERO = 1e-13      # harmonic amplitudes below BAND_ZERO*max|x| count as absent
BAND_RTOL = 1e-10      # band-limited reproduction <= 1e-10 * max|x| (float64 / integer samples)
EPS32 = float(np.finfo(np.float32).eps)
BAND_RTOL32 = 64 * EPS32   # float32 samples: "exactly" = to rounding of the arithmetic the samples are given in
BAND_ZERO32 = 2 * EPS32    # float32 samples: harmonics at the level of the samples' own rounding count as absent
FFT_ABOVE = 2048       # projection by explicit O(N^2) sums up to this length, by FFT above it


def in_domain(n, dt, target):
    """Quantifier: records with duration (n-1)*dt >= 2*max(dt, target); both steps positive and finite."""
    if not (dt > 0 and target > 0 and math.isfinite(dt) and math.isfinite(target)) or n < 1:
        return False
    return (n - 1) * dt >= 2.0 * max(dt, target) * (1.0 - 1e-12)


def step_rule(new_dt, target, slack=STEP_SLACK):
    """The returned step does not exceed the target (slack: relative rounding of the quotient dt/target in the arithmetic
    the two steps are given in - STEP_SLACK for double precision)."""
    return bool(0 < new_dt <= target * (1.0 + slack))


def step_arithmetic_eps(dt, target):
    """Rounding unit of the arithmetic in which NumPy forms dt/target and dt/factor for the two steps AS GIVEN: a float32
    record step (np.float32 or 0-d float32 array) yields a float32 returned step; np.float32 with a Python number or
    another float32 yields a float32 quotient; everything else is double."""
    eps = float(np.finfo(float).eps)
    try:
        with np.errstate(all='ignore'):
            for d in (np.asarray(dt / target).dtype, np.asarray(dt).dtype):
                if d.kind == 'f' and d.itemsize < 8:
                    eps = max(eps, float(np.finfo(d).eps))
    except Exception:
        pass
    return eps


def ratio_kind(dt, new_dt, tol=RATIO_TOL):
    """('refine', k) if dt/new_dt is an integer k >= 1, ('decimate', m) if new_dt/dt is an integer m >= 2, else
    (None, ratio)."""
    if not (new_dt > 0 and math.isfinite(new_dt)):
        return None, float('nan')
    r = dt / new_dt
    k = round(r)
    if k >= 1 and abs(r - k) <= tol * k:
        return 'refine', int(k)
    q = new_dt / dt
    m = round(q)
    if m >= 2 and abs(q - m) <= tol * m:
        return 'decimate', int(m)
    return None, r


def retained_refining(x, y, k):
    """Original sample j reappears unchanged (==, bit-for-bit up to the sign of zero) at output index j*k, for every j
    whose instant lies inside the output. Returns (ok, first bad j or None, number of samples compared)."""
    n = len(x)
    cnt = min(n, (len(y) - 1) // k + 1) if len(y) else 0
    if cnt <= 0:
        return False, 0, 0
    got = y[0:(cnt - 1) * k + 1:k]
    bad = np.flatnonzero(~(got == x[:cnt]))
    if bad.size:
        return False, int(bad[0]), cnt
    return True, None, cnt


def subsequence_decimating(x, y, m, eps=None):
    """The output is a subsequence of the input: y[i] = x[i*m] for every i with i*m <= n-1 (stride-m samples from the
    first one), optionally followed by the final sample x[n-1] when that one was not already taken.
    Tolerance, LOCAL to each compared sample: the grid point i/fl(1/m) misses the integer i*m by at most a few ulps of
    i*m, so a correct linear interpolation deviates from x[i*m] by at most that offset times the adjacent slope plus the
    rounding of the interpolation formula, which works with the two neighbouring samples:
        allowed_i = 16 eps ((i*m + 1) * max|adjacent differences| + max|x[i*m-1], x[i*m], x[i*m+1]|)
    (valid for any amplitude and any dynamic range inside the record; independent of the global maximum).
    Returns (ok, first bad output index or None, allowed error there)."""
    n = len(x)
    if len(y) == 0:
        return False, 0, 0.0
    if eps is None:             # rounding unit of the step arithmetic (double unless the steps were given in float32)
        eps = np.finfo(float).eps
    ax = np.abs(x)
    d = np.abs(np.diff(x)) if n > 1 else np.zeros(0)
    dl = np.concatenate([[0.0], d])              # |x[j] - x[j-1]|
    dr = np.concatenate([d, [0.0]])              # |x[j+1] - x[j]|
    nb = np.maximum(ax, np.maximum(np.concatenate([[0.0], ax[:-1]]), np.concatenate([ax[1:], [0.0]])))
    local = (16 * eps * (np.arange(n) + 1.0)) * np.maximum(dl, dr) + 16 * eps * nb     # no overflow up to 1e300
    cnt = (n - 1) // m + 1                      # number of stride-m samples available
    L = min(cnt, len(y))
    idx = np.arange(L) * m
    err = np.abs(y[:L] - x[idx])
    bad = np.flatnonzero(~(err <= local[idx]))
    if bad.size:
        return False, int(bad[0]), float(local[idx][bad[0]])
    if len(y) > cnt:
        last_taken = (cnt - 1) * m
        if len(y) > cnt + 1 or last_taken >= n - 1 or not abs(y[cnt] - x[n - 1]) <= local[n - 1]:
            return False, cnt, float(local[n - 1])
    return True, None, float(np.max(local[idx]))


def in_range(x, y):
    """No output value leaves [min(x), max(x)] (1e-12 of the extreme magnitude for the rounding of the interpolation
    formula; for complex records the real and the imaginary parts are judged separately)."""
    if len(y) == 0:
        return True, 0.0
    if np.iscomplexobj(x) or np.iscomplexobj(y):
        x = np.asarray(x, dtype=complex)
        y = np.asarray(y, dtype=complex)
        r1 = in_range(x.real, y.real)
        r2 = in_range(x.imag, y.imag)
        return bool(r1[0] and r2[0]), max(r1[1], r2[1])
    lo, hi = float(np.min(x)), float(np.max(x))
    slack = 1e-12 * max(abs(lo), abs(hi))
    if not bool(np.all(np.isfinite(y))):
        return False, float('inf')
    exc = max(float(np.max(y)) - hi, lo - float(np.min(y)))
    return bool(exc <= slack), exc


def duration_change(n, dt, ny, new_dt):
    """(change of the covered duration) / (coarser of the two steps); the statement demands < 2."""
    return abs((ny - 1) * new_dt - (n - 1) * dt) / max(dt, new_dt)


# ------------------------------------------------------------------------------------------ periodic band-limited model
def harmonics(x):
    """Projection of one period of samples x_0..x_{N-1} (real or complex) onto the harmonics of the record period:
    x(tau) = a[0] + sum_{k>=1} a[k] cos(2 pi k tau) + b[k] sin(2 pi k tau), tau = t / (N*dt), for k < N/2.
    Returns (a, b, nyq) with nyq = amplitude of the (-1)^n component for even N (0 for odd N)."""
    cplx = np.iscomplexobj(x)
    x = np.asarray(x, dtype=complex if cplx else float)
    N = len(x)
    kmax = (N - 1) // 2
    n = np.arange(N)
    if N > FFT_ABOVE:
        # long records: the same projection sums evaluated by the FFT: X_k = sum x_n exp(-2 pi i k n / N) = C_k - i S_k
        X = np.fft.fft(x)
        Xm = np.concatenate([X[:1], X[:0:-1]])          # X_{-k}
        C = (X + Xm)[:kmax + 1] / 2.0
        S = ((Xm - X) / 2j)[:kmax + 1]
        a = 2.0 / N * (C if cplx else C.real)
        b = 2.0 / N * (S if cplx else S.real)
        nyq = (X[N // 2] / N) if N % 2 == 0 else 0.0
    else:
        k = np.arange(kmax + 1)
        # phase k*n/N reduced exactly in integer arithmetic before the multiplication by 2 pi
        ph = 2.0 * np.pi * (np.outer(k, n) % N) / N
        a = np.cos(ph) @ x * (2.0 / N)
        b = np.sin(ph) @ x * (2.0 / N)
        nyq = (np.sum(x * (-1.0) ** n) / N) if N % 2 == 0 else 0.0
    a[0] = a[0] / 2.0
    b[0] = 0.0
    nyq = complex(nyq) if cplx else float(np.real(nyq))
    return a, b, nyq


def with_nyquist(a, b, nyq):
    """Coefficient arrays extended by the harmonic N/2 of an even-length record, read as a COSINE (the alternating
    component c*(-1)^n is the sampling of c*cos(2 pi (N/2) tau); a sine at that frequency vanishes at every sample, so
    the samples cannot carry one)."""
    return np.concatenate([a, [nyq]]), np.concatenate([b, [0.0]])


def band_index(a, b, nyq, scale, zero=BAND_ZERO):
    """Largest harmonic index present in the samples (N/2 if the alternating component is present)."""
    thr = zero * scale
    amp = np.hypot(np.abs(a), np.abs(b))          # no squares: valid for amplitudes 1e-300 .. 1e300
    nz = np.flatnonzero(amp > thr)
    K = int(nz[-1]) if nz.size else 0
    if abs(nyq) > thr:
        return len(a)                    # even N: the alternating component is harmonic N/2 == len(a)
    return K


def trig_eval(a, b, K, tau, skip_below=0.0):
    """Value of the band-limited periodic signal at the fractional instants tau (in record periods). Harmonics whose
    amplitude is <= skip_below (rounding noise of the projection, far below the comparison tolerance) are skipped."""
    tau = np.asarray(tau, dtype=float)
    cplx = np.iscomplexobj(a) or np.iscomplexobj(b)
    y = np.full(tau.shape, a[0], dtype=complex if cplx else float)
    for k in range(1, K + 1):
        if math.hypot(abs(a[k]), abs(b[k])) <= skip_below:
            continue
        ang = 2.0 * np.pi * np.mod(k * tau, 1.0)
        y = y + a[k] * np.cos(ang) + b[k] * np.sin(ang)
    return y
