"""Reference models for C18 (two-component rotation, rotated-measure scan, lag identification, constant shifts).

Scalar code written from the property statement; imports nothing from eqsig.
"""
import math


# ---------------------------------------------------------------------------------------------------- rotation
def combine(ns, we, theta_deg):
    """ns*cos(theta) + we*sin(theta), theta in degrees; returns a list of floats."""
    th = math.radians(float(theta_deg))
    c, s = math.cos(th), math.sin(th)
    return [float(a) * c + float(b) * s for a, b in zip(ns, we)]


def combine_scale(ns, we):
    """Well-conditioned scale of the combination per sample: |ns_i| + |we_i| (sum of the magnitudes of the parts)."""
    return [abs(float(a)) + abs(float(b)) for a, b in zip(ns, we)]


def scan_angles(offset, points):
    """mod(linspace(-offset, 180-offset, points), 360); a single requested angle is the start of the half circle."""
    start = 0.0 - float(offset)
    stop = 180.0 - float(offset)
    if points == 1:
        return [start % 360.0]
    out = []
    for i in range(points):
        x = stop if i == points - 1 else start + i * ((stop - start) / (points - 1))
        out.append(x % 360.0)      # python float % has the sign of the divisor: result in [0, 360]
    return out


def circular_distance(a, b, period=360.0):
    d = abs(float(a) - float(b)) % period
    return min(d, period - d)


def arias_final(acc, dt, g=9.81):
    """Arias intensity of the whole record: pi/(2g) * integral of a^2 dt by the trapezoidal rule."""
    tot = 0.0
    for i in range(1, len(acc)):
        tot += 0.5 * (float(acc[i - 1]) ** 2 + float(acc[i]) ** 2) * dt
    return math.pi / (2.0 * g) * tot


# ---------------------------------------------------------------------------------------------------- lags
def lag_table(master, slave, steps):
    """Sum of squared residuals of `slave[t + L] - master[t]` for every integer lag |L| < steps, over
       'full'     every t for which t+L is inside the record (the overlap of the two records for that lag),
       'interior' t in [steps, n-steps) only (the samples that are inside the overlap for EVERY candidate lag).
    Convention: a slave that lags the master by L samples satisfies slave[t] = master[t - L]."""
    n = len(master)
    full, interior = {}, {}
    for L in range(-steps + 1, steps):
        f = 0.0
        g = 0.0
        for t in range(max(0, -L), min(n, n - L)):
            d = float(slave[t + L]) - float(master[t])
            d *= d
            f += d
            if steps <= t < n - steps:
                g += d
        full[L] = f
        interior[L] = g
    return full, interior


def identify_lag(master, slave, steps):
    """Return (L, exact) when the lag of `slave` against `master` is identifiable, else (None, reason).

    Identifiable: the residual of the best lag over its FULL overlap is below half of the residual of every other
    candidate over the INTERIOR window alone. Any least-squares search over a window between the interior and the full
    overlap must then select L. `exact` is True when the records coincide bit-for-bit on the full overlap at lag L (decided by
    comparing the samples, not by the residual: the square of a difference below 1e-162 underflows to zero)."""
    n = len(master)
    if len(slave) != n or n <= steps or steps < 1:
        return None, 'too-short-or-unequal'
    if n < 2 * steps + 2:
        return identify_lag_short(master, slave, steps)
    full, interior = lag_table(master, slave, steps)
    best = min(full, key=lambda L: (interior[L], abs(L)))
    others = [interior[L] for L in full if L != best]
    if not others:
        return (0, coincide(master, slave, 0)) if steps == 1 else (None, 'no-candidates')
    mo = min(others)
    if not (mo > 0.0) or not (full[best] < 0.5 * mo) or not math.isfinite(mo):
        return None, 'lag-not-unique'
    return best, coincide(master, slave, best)


def identify_lag_short(master, slave, steps):
    """SHORT records (steps < n < 2*steps+2): no sample is inside the overlap of every candidate lag, so there is no common
    interior window. The lag L is called identifiable when the records coincide bit-for-bit on the full overlap at lag L and,
    for every other candidate |L'| < steps, EVERY aligned sample pair differs by an amount whose square is a normal positive
    double. Whatever non-empty part of a candidate's overlap a residual search looks at, it then sees residual 0 for L and a
    positive residual for every other candidate, so it must select L. Returns (L, True) or (None, reason)."""
    n = len(master)
    exact = [L for L in range(-steps + 1, steps) if coincide(master, slave, L)]
    if len(exact) != 1:
        return None, 'short-record-lag-not-exact' if not exact else 'lag-not-unique'
    best = exact[0]
    for L in range(-steps + 1, steps):
        if L == best:
            continue
        for t in range(max(0, -L), min(n, n - L)):
            d = abs(float(slave[t + L]) - float(master[t]))
            if not (1e-150 < d < 1e150):
                return None, 'lag-not-unique'
    return best, True


def coincide(master, slave, L):
    """slave[t + L] == master[t] bit-for-bit for every t of the overlap at lag L."""
    n = len(master)
    return all(float(slave[t + L]) == float(master[t]) for t in range(max(0, -L), min(n, n - L)))


def overlap_after_removal(n, L):
    """Index range [lo, hi) of the realigned slave that carries its own samples after a lag L was removed
    (new[t] = old[t + L]); the remaining |L| samples are padding."""
    return max(0, -L), min(n, n - L)


# ---------------------------------------------------------------------------------------------------- shifts
def constant_shift(before, after):
    """(is_defined, mean shift, spread): spread = max - min of after-before (0 for a perfectly constant shift)."""
    if len(before) != len(after) or len(before) == 0:
        return False, 0.0, float('inf')
    d = [float(a) - float(b) for a, b in zip(after, before)]
    return True, math.fsum(d) / len(d), max(d) - min(d)


def window_superset(n, dt, start, end):
    """Index range [lo, hi) that certainly contains every sample of the time window [start, end] (one sample of slack on
    either side, whatever the rounding convention) - used for LOCAL tolerance scales only."""
    lo = max(0, int(math.floor(float(start) / dt)) - 1)
    hi = min(n, int(math.floor(float(end) / dt)) + 3)
    return lo, max(hi, min(n, lo + 1))


def shift_deviation(before, after, rtol):
    """Constancy of after-before judged sample by sample: the reference shift is read at the sample of smallest
    magnitude (where the subtraction is most accurate); returns (ok, shift, worst excess index, deviation, allowed)."""
    if len(before) != len(after) or len(before) == 0:
        return False, 0.0, None, float('inf'), 0.0
    j0 = min(range(len(before)), key=lambda j: abs(float(before[j])))
    shift = float(after[j0]) - float(before[j0])
    worst = (True, None, 0.0, 0.0)
    excess = -1.0
    for j in range(len(before)):
        dev = abs((float(after[j]) - float(before[j])) - shift)
        allowed = rtol * (abs(float(before[j])) + abs(float(before[j0])) + abs(shift))
        if dev - allowed > excess:
            excess = dev - allowed
            worst = (dev <= allowed, j, dev, allowed)
    return worst[0], shift, worst[1], worst[2], worst[3]


# ---------------------------------------------------------------------------------------------------- sections
def section_mean(values, start, end):
    """Section given as SAMPLE INDICES: the mean of the samples start, start+1, ..., end-1 and the largest magnitude among
    them (local tolerance scale). Requires 0 <= start < end <= len(values)."""
    seg = [float(values[j]) for j in range(int(start), int(end))]
    return math.fsum(seg) / len(seg), max(abs(v) for v in seg)


def whole_sample_time(t, dt, n):
    """If the time t is the time of a sample, i.e. t == i*dt bit-for-bit for an integer 0 <= i < n AND t/dt evaluates to
    exactly i (so that floor, round and ceil of the quotient all give i), return i, else None. A time window whose two ends
    are such times contains exactly the samples i0..i1, whatever the rounding convention."""
    t = float(t)
    if not (t >= 0.0) or not math.isfinite(t) or dt <= 0:
        return None
    q = t / dt
    i = int(round(q)) if math.isfinite(q) and q < 2 ** 52 else -1
    if 0 <= i < n and float(i) == q and i * dt == t:
        return i
    return None
