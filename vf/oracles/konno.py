"""Reference model for Konno-Ohmachi (1998) smoothing and the bandwidth limits derived from it (C07).

Scalar code written from the property statement; shares nothing with eqsig and never imports it.

    smoothed(fc) = sum_i w_i |A_i| / sum_i w_i,   w_i = [sin(b log10(f_i/fc)) / (b log10(f_i/fc))]^4,  w_i = 1 at f_i = fc,
    the zero-frequency bin excluded.
"""
import math


def window(f, fc, b):
    """Konno-Ohmachi weight of Fourier frequency f for the target (centre) frequency fc and bandwidth b."""
    if f == fc:
        return 1.0
    z = b * math.log10(f / fc)
    if z == 0.0:
        return 1.0
    return (math.sin(z) / z) ** 4


def drop_zero_bin(freqs, amps=None):
    """The zero-frequency bin (only ever the first one) takes no part in the smoothing."""
    if len(freqs) and freqs[0] == 0:
        return (freqs[1:], None if amps is None else amps[1:])
    return freqs, amps


def weight_columns(freqs, targets, b):
    """One list of un-normalised weights (over freqs) per target frequency. freqs must not contain 0."""
    return [[window(f, fc, b) for f in freqs] for fc in targets]


def _prescaled(amps):
    """(|amps| divided by a power of two so that the largest lies in [0.5, 1), that exponent). The division is exact
    (entries below 2**-1022 of the largest apart, whose share is below every tolerance): the products w_i |A_i| of tiny
    weights with amplitudes near 1e-300 would otherwise be subnormal and carry only a few bits."""
    mags = [abs(a) for a in amps]
    top = max(mags) if mags else 0.0
    if not (0.0 < top < float('inf')):
        return mags, 0
    e = math.frexp(top)[1]
    return [math.ldexp(m, -e) for m in mags], e


def smooth(columns, amps):
    """Weighted mean of |amps| per target (columns from weight_columns)."""
    mags, e = _prescaled(amps)
    out = []
    for w in columns:
        out.append(math.ldexp(math.fsum(wi * m for wi, m in zip(w, mags)) / math.fsum(w), e))
    return out


def matrix(columns):
    """Normalised smoothing matrix M[i][j] = w_ij / sum_i w_ij (row = Fourier frequency, column = target)."""
    sums = [math.fsum(w) for w in columns]
    n = len(columns[0]) if columns else 0
    return [[columns[j][i] / sums[j] for j in range(len(columns))] for i in range(n)]


def apply_matrix(mags, m):
    """sum_i mags[i] * m[i][j] for every column j; also returns sum_i |mags[i] m[i][j]| as the scale of that sum."""
    k = len(m[0]) if len(m) else 0
    out, scale = [], []
    for j in range(k):
        terms = [mags[i] * m[i][j] for i in range(len(mags))]
        out.append(math.fsum(terms))
        scale.append(math.fsum(abs(t) for t in terms))
    return out, scale


def band_limit_candidates(smoothed, ratio, ulps=8):
    """Indices acceptable as first / last sample 'above ratio * max'.

    Two-sided: a sample within a few ulps of the threshold (the threshold itself is a rounded product, and the statement
    does not say whether equality counts) may be resolved either way. Returns (first_ok, last_ok, peak_indices)."""
    m = max(smoothed)
    lim = m * ratio
    slack = max(ulps * 2.220446049250313e-16 * abs(lim), 2e-323)   # a few subnormal steps when the limit itself is subnormal
    state = []
    for s in smoothed:
        if s > lim + slack:
            state.append(1)        # definitely above
        elif s < lim - slack:
            state.append(0)        # definitely not above
        else:
            state.append(None)     # ambiguous
    first_ok, last_ok = [], []
    for i, st in enumerate(state):
        if st != 0:
            first_ok.append(i)
        if st == 1:
            break
    for i in range(len(state) - 1, -1, -1):
        if state[i] != 0:
            last_ok.append(i)
        if state[i] == 1:
            break
    peaks = [i for i, s in enumerate(smoothed) if s == m]
    return first_ok, last_ok, peaks


def window_sensitivity(f, fc, b):
    """|dw/dz| * dz: first-order bound of the rounding error of the window itself, z = b*log10(f/fc) being known only to
    dz = 4 eps (|z| + b) (one division, one log10, one product). Used to scale a LOCAL tolerance: next to a zero of
    sin(z) the relative error of w is unbounded although its absolute error is tiny."""
    if f == fc:
        return 0.0
    z = b * math.log10(f / fc)
    if z == 0.0:
        return 0.0
    s = math.sin(z) / z
    dwdz = 4.0 * s ** 3 * (z * math.cos(z) - math.sin(z)) / (z * z)
    return abs(dwdz) * 4 * 2.220446049250313e-16 * (abs(z) + b)


def smooth_error_bound(columns, sens_columns, amps):
    """Per target: first-order bound of |computed - exact| of the weighted mean due to the window's own rounding,
    sum_i |A_i| s_i / W + mean * sum_i s_i / W (numerator and normalisation)."""
    mags, e = _prescaled(amps)
    out = []
    for w, s in zip(columns, sens_columns):
        big_w = math.fsum(w)
        mean = math.fsum(wi * m for wi, m in zip(w, mags)) / big_w
        out.append(math.ldexp((math.fsum(si * m for si, m in zip(s, mags)) + mean * math.fsum(s)) / big_w, e))
    return out


def matrix_error_bound(columns, sens_columns):
    """Per entry M[i][j] = w_ij / W_j: first-order bound of its error due to the window's own rounding,
    (s_ij + M_ij sum_i s_ij) / W_j (row = Fourier frequency, column = target)."""
    n = len(columns[0]) if columns else 0
    out = [[0.0] * len(columns) for _ in range(n)]
    for j, (w, s) in enumerate(zip(columns, sens_columns)):
        big_w = math.fsum(w)
        tot = math.fsum(s)
        for i in range(n):
            out[i][j] = (s[i] + w[i] / big_w * tot) / big_w
    return out
