"""Reference model for the Fourier amplitude spectrum (C06). No FFT, no eqsig: everything is the definition in the
property statement written out.

    F_k = dt * sum_j x_j * exp(-2*pi*i*j*k/N),   x zero-padded to N,   k = 0 .. floor(N/2)-1,   f_k = k/(N*dt)

The phase is reduced exactly in integers, (j*k) mod N, before the single cos/sin evaluation, so the direct sum stays
accurate for large j*k. dft_bin is the scalar definition; dft_bins is the same sum as a matrix product (the two are
compared by selftest(), which the property module runs once per process).
"""
import cmath
import math

import numpy as np


# ------------------------------------------------------------------------------------------ transform length N
def ceil_log2(npts):
    """Smallest integer e with 2**e >= npts (integer arithmetic, no logarithm)."""
    e = 0
    while (1 << e) < npts:
        e += 1
    return e


def n_padded(npts, p2_plus=0):
    """N = 2^(ceil(log2 npts) + p2_plus); p2_plus = 0 is 'the next power of two >= npts'."""
    return 1 << (ceil_log2(npts) + int(p2_plus))


def zero_pad(x, N):
    """The record followed by zeros up to N points (N >= len(x)). A complex record (what the inverse helper returns)
    stays complex; the definition of the transform is the same sum."""
    x = np.asarray(x)
    x = x.astype(complex) if x.dtype.kind == 'c' else x.astype(float)
    if N < len(x):
        raise ValueError('N < npts is truncation, not zero padding')
    out = np.zeros(N, dtype=x.dtype)
    out[:len(x)] = x
    return out


# ------------------------------------------------------------------------------------------ the transform
def dft_bin(x_pad, k):
    """Scalar definition of one DFT bin."""
    N = len(x_pad)
    s = 0j
    for j in range(N):
        m = (j * k) % N
        s += float(x_pad[j]) * cmath.exp(-2j * math.pi * m / N)
    return s


def dft_bin_complex(x_pad, k):
    """Scalar definition of one DFT bin for a complex record."""
    N = len(x_pad)
    s = 0j
    for j in range(N):
        s += complex(x_pad[j]) * cmath.exp(-2j * math.pi * ((j * k) % N) / N)
    return s


def twiddles(N):
    """w[m] = exp(-2*pi*i*m/N) for m = 0..N-1, each from its own argument (no recurrence)."""
    ang = 2.0 * np.pi * np.arange(N) / N
    return np.cos(ang) - 1j * np.sin(ang)


def dft_bins(x_pad, ks):
    """X_k = sum_j x_j w[(j*k) mod N] for the requested bins (x_pad real or complex), O(N * len(ks))."""
    x_pad = np.asarray(x_pad)
    N = len(x_pad)
    ks = np.asarray(ks, dtype=np.int64)
    w = twiddles(N)
    j = np.arange(N, dtype=np.int64)
    out = np.empty(len(ks), dtype=complex)
    rows = max(1, (1 << 16) // max(N, 1))
    for a in range(0, len(ks), rows):
        kk = ks[a:a + rows]
        idx = (kk[:, None] * j[None, :]) % N        # k*j < 2**63 for every N used here
        out[a:a + rows] = w[idx] @ x_pad
    return out


def frequencies(N, dt):
    """f_k = k/(N*dt) for the floor(N/2) reported bins."""
    return np.array([k / (N * dt) for k in range(N // 2)], dtype=float)


# ------------------------------------------------------------------------------------------ consequences
def parseval_sides(x_pad, dt, fa_reported):
    """(lhs, rhs) of   dt*sum x^2 = (|F_0|^2 + 2*sum_{1<=k<M}|F_k|^2 + c*|F_M|^2) / (N*dt),   M = floor(N/2),
    with the reported bins 0..M-1 taken from fa_reported and the unreported bin M computed here from the record:
    even N: the Nyquist term dt*sum x_j(-1)^j, counted once; odd N: bin (N-1)/2, which has a conjugate partner, twice."""
    x_pad = np.asarray(x_pad, dtype=float)
    N = len(x_pad)
    M = N // 2
    a2 = np.abs(np.asarray(fa_reported, dtype=complex)) ** 2      # complex64 bins: squares and sums in double precision
    if N % 2 == 0:
        sign = np.where(np.arange(N) % 2 == 0, 1.0, -1.0)
        extra = abs(dt * float(np.sum(x_pad * sign))) ** 2
    else:
        extra = 2.0 * abs(dt * dft_bins(x_pad, [M])[0]) ** 2
    lhs = dt * float(np.sum(x_pad ** 2))
    rhs = (float(a2[0]) + 2.0 * float(np.sum(a2[1:])) + extra) / (N * dt)
    return lhs, rhs


def minus_mean_and_nyquist(x_pad):
    """Even N: the padded record with its mean and its Nyquist component (sum x_j(-1)^j / N) * (-1)^j removed."""
    x_pad = np.asarray(x_pad, dtype=float)
    N = len(x_pad)
    if N % 2:
        raise ValueError('an odd N has no Nyquist bin')
    sign = np.where(np.arange(N) % 2 == 0, 1.0, -1.0)
    mean = float(np.sum(x_pad)) / N
    nyq = float(np.sum(x_pad * sign)) / N
    return x_pad - mean - nyq * sign


# ------------------------------------------------------------------------------------------ self test
def selftest():
    """Matrix form == scalar definition == closed forms, on short sequences. Raises AssertionError."""
    rng = np.random.default_rng(606)
    for N in (2, 3, 4, 7, 8, 13, 16, 30, 33):
        x = rng.integers(-9, 10, size=N).astype(float)
        ks = list(range(N))
        got = dft_bins(x, ks)
        ref = np.array([dft_bin(x, k) for k in ks])
        assert np.max(np.abs(got - ref)) <= 1e-12 * max(1.0, np.sum(np.abs(x))), ('matrix vs scalar', N)
        j0 = int(rng.integers(N))
        imp = np.zeros(N)
        imp[j0] = 1.0
        cf = np.array([cmath.exp(-2j * math.pi * ((j0 * k) % N) / N) for k in ks])
        assert np.max(np.abs(dft_bins(imp, ks) - cf)) <= 1e-14, ('impulse', N)
        c = dft_bins(np.ones(N), ks)
        assert abs(c[0] - N) <= 1e-12 * N and np.max(np.abs(c[1:])) <= 1e-12 * N if N > 1 else True, ('constant', N)
        xp = zero_pad(x, N + (N % 2))
        M = len(xp) // 2
        lhs, rhs = parseval_sides(xp, 0.1, 0.1 * dft_bins(xp, range(M)))
        assert abs(lhs - rhs) <= 1e-12 * max(lhs, 1e-300), ('parseval even', N)
        xo = zero_pad(x, N + 1 - (N % 2))
        lhs, rhs = parseval_sides(xo, 0.1, 0.1 * dft_bins(xo, range(len(xo) // 2)))
        assert abs(lhs - rhs) <= 1e-12 * max(lhs, 1e-300), ('parseval odd', N)
    assert [ceil_log2(n) for n in (1, 2, 3, 4, 5, 8, 9, 1024, 1025)] == [0, 1, 2, 2, 3, 3, 4, 10, 11]
    z = rng.normal(size=9) + 1j * rng.normal(size=9)
    zp = zero_pad(z, 12)
    assert zp.dtype.kind == 'c' and np.max(np.abs(dft_bins(zp, range(12)) - np.array([dft_bin_complex(zp, k) for k in range(12)]))) <= 1e-12
    assert n_padded(100) == 128 and n_padded(128) == 128 and n_padded(129, 2) == 1024
    x = np.array([1.0, 2.0, 4.0, -3.0])
    assert np.allclose(minus_mean_and_nyquist(x), x - 1.0 - 1.5 * np.array([1, -1, 1, -1.0]))
    return True
