"""Exact zero-initial-condition response of  u'' + 2 xi w u' + w^2 u = a(t),  a(t) = linear interpolation of the record.

Written from the textbook homogeneous + particular solution over one step (NOT from the Nigam-Jennings B-matrix
formulas): the eight one-step coefficients are obtained in 60-digit mpmath arithmetic with w = 2*pi/T exact, rounded to
80-bit long double, and the recurrence is run in long double vectorised over periods. Does not import eqsig.
"""
import numpy as np
import mpmath as mp

mp.mp.dps = 60
_cache = {}


def _step(w, xi, h, u0, v0, a0, a1):
    """State after one step of length h from (u0, v0) under load a0 -> a1 (all mpf)."""
    s = (a1 - a0) / h
    c1 = s / (w * w)                       # particular solution c0 + c1*tau
    c0 = (a0 - 2 * xi * w * c1) / (w * w)
    wd = w * mp.sqrt(1 - xi * xi)
    A = u0 - c0
    B = (v0 - c1 + xi * w * A) / wd
    e = mp.e ** (-xi * w * h)
    c, sn = mp.cos(wd * h), mp.sin(wd * h)
    u = e * (A * c + B * sn) + c0 + c1 * h
    v = e * ((-xi * w * A + wd * B) * c + (-xi * w * B - wd * A) * sn) + c1
    return u, v


def coefficients(T, xi, dt):
    """8 coefficients (m11 m12 m21 m22 n11 n12 n21 n22) as long doubles for one period."""
    key = (float(T), float(xi), float(dt))
    r = _cache.get(key)
    if r is not None:
        return r
    w = 2 * mp.pi / mp.mpf(float(T))
    x = mp.mpf(float(xi))
    h = mp.mpf(float(dt))
    cols = []
    for unit in ((1, 0, 0, 0), (0, 1, 0, 0), (0, 0, 1, 0), (0, 0, 0, 1)):
        u, v = _step(w, x, h, *[mp.mpf(k) for k in unit])
        cols.append((u, v))
    ld = lambda z: np.longdouble(mp.nstr(z, 25))
    r = (ld(cols[0][0]), ld(cols[1][0]), ld(cols[0][1]), ld(cols[1][1]),
         ld(cols[2][0]), ld(cols[3][0]), ld(cols[2][1]), ld(cols[3][1]))
    if len(_cache) > 20000:
        _cache.clear()
    _cache[key] = r
    return r


def response(record, dt, periods, xi):
    """(u, v) as long double arrays of shape (len(periods), len(record)); periods all > 0."""
    a = np.asarray(record, dtype=np.longdouble)
    P = len(periods)
    n = len(a)
    co = np.array([coefficients(T, xi, dt) for T in periods], dtype=np.longdouble)  # (P, 8)
    m11, m12, m21, m22, n11, n12, n21, n22 = [co[:, k] for k in range(8)]
    u = np.zeros((P, n), dtype=np.longdouble)
    v = np.zeros((P, n), dtype=np.longdouble)
    uc = np.zeros(P, dtype=np.longdouble)
    vc = np.zeros(P, dtype=np.longdouble)
    for i in range(n - 1):
        un = m11 * uc + m12 * vc + n11 * a[i] + n12 * a[i + 1]
        vn = m21 * uc + m22 * vc + n21 * a[i] + n22 * a[i + 1]
        uc, vc = un, vn
        u[:, i + 1] = uc
        v[:, i + 1] = vc
    return u, v


def longdouble_ok():
    return np.finfo(np.longdouble).eps < 2e-19
