"""Reference models for C13: conservation sums of the peak-only series and the power-law cycle measures.

Scalar code written from the definitions in the property statement / DESIGN.md C13; shares nothing with eqsig.
The half-cycle peaks are taken from the oracle's own excursion decomposition (oracles/peaks.excursions, the C12 model):
one peak per maximal run of samples of one strict sign, of amplitude max|v| over the run.
"""
import math

from vf.oracles import peaks as P


# ------------------------------------------------------------------------------------------ conservation quantities
def last_move_sign(values):
    """+1 / -1: direction of the last change of value in a non-constant series."""
    r = P.runs(values)
    return 1 if r[-1][1] > r[-2][1] else -1


def pseudo_cyclic_sum(values):
    """Half the total variation plus half the end-minus-start offset signed by the direction of the final movement."""
    return 0.5 * P.total_variation(values) + 0.5 * (values[-1] - values[0]) * last_move_sign(values)


# ------------------------------------------------------------------------------------------------- half-cycle peaks
def excursion_peaks(values):
    """One entry per excursion: (first index, last index, amplitude); first/last = first and last sample of the
    excursion that attains its largest absolute value (they differ only on ties / plateaus)."""
    out = []
    for (s, e, _sg) in P.excursions(values):
        m = max(abs(v) for v in values[s:e])
        at = [i for i in range(s, e) if abs(values[i]) == m]
        out.append((at[0], at[-1], m))
    return out


def keep_flags(peaks, gmax, cut_off, ulps=4, slack=None):
    """'keep' / 'drop' / 'edge' per peak for the low-amplitude cut-off: a peak is dropped when its amplitude is below
    cut_off * max|values|. Amplitudes within a few ulps of (or equal to) the threshold are 'edge': the statement does not
    say on which side equality falls and the product is inexact, so either decision is accepted. slack (absolute)
    replaces the few double-precision ulps when the record is held in a narrower float type."""
    if cut_off == 0:
        return ['keep'] * len(peaks)
    thr = cut_off * gmax
    if slack is None:
        slack = ulps * math.ulp(thr)
    out = []
    for (_f, _l, m) in peaks:
        if abs(m - thr) <= slack:
            out.append('edge')
        elif m < thr:
            out.append('drop')
        else:
            out.append('keep')
    return out


def step_cumsum(n, events):
    """c[i] = sum of the increments of all events (index, increment) with index <= i."""
    ev = sorted(events)
    out = [0.0] * n
    acc = 0.0
    k = 0
    for i in range(n):
        while k < len(ev) and ev[k][0] <= i:
            acc += ev[k][1]
            k += 1
        out[i] = acc
    return out


def n_cyc_series(n, peaks, a_ref, b, flags=None, edge_kept=True, where='first'):
    """Equivalent number of cycles N(i) = 1/2 * sum over kept peaks at index <= i of (|p| / a_ref) ** (1/b).
    Dropped peaks contribute nothing."""
    ev = []
    for k, (f, l, m) in enumerate(peaks):
        fl = 'keep' if flags is None else flags[k]
        if not (fl == 'keep' or (fl == 'edge' and edge_kept)) or m == 0:
            continue
        ev.append((f if where == 'first' else l, 0.5 * (m / a_ref) ** (1.0 / b)))
    return step_cumsum(n, ev)


def cyc_amp_series(n, peak_lists, n_cyc, b, where='first'):
    """Equivalent uniform amplitude A(i) = (1/2 * sum over the peaks (of every component) at index <= i of
    |p| ** (1/b) / n_cyc) ** b."""
    ev = []
    for peaks in peak_lists:
        for (f, l, m) in peaks:
            if m != 0:
                ev.append((f if where == 'first' else l, 0.5 * m ** (1.0 / b) / n_cyc))
    return [c ** b for c in step_cumsum(n, ev)]


def power_sums(peaks, b, flags):
    """(sum over all peaks, sum over kept peaks, sum over kept+edge peaks) of |p| ** (1/b)."""
    s_all = s_keep = s_keep_edge = 0.0
    for (_f, _l, m), fl in zip(peaks, flags):
        t = m ** (1.0 / b)
        s_all += t
        if fl == 'keep':
            s_keep += t
        if fl in ('keep', 'edge'):
            s_keep_edge += t
    return s_all, s_keep, s_keep_edge
