"""Reference models for C10 (significant and bracketed durations). Pure Python, shares nothing with eqsig.

Everything is computed in EXACT integer arithmetic: every float is a dyadic rational, so a record can be written as
ints[i] / den with one common power-of-two denominator, cumulative sums of squares are integers in the unit 1/den^2,
and "s * I_end < I[i] < e * I_end" (s, e taken as the exact rationals of the floats passed) is decided without rounding.
What a *floating-point* implementation may legitimately answer differently is expressed by the caller through an
absolute uncertainty band around each bound and a flag saying whether an exact tie is decided by the arithmetic
(DESIGN.md section 3, rule 3): samples inside the band are AMBIGUOUS and both resolutions are accepted.
"""
from fractions import Fraction

IN, OUT, AMB = 1, 0, -1


def to_ints(values):
    """values[i] == ints[i] / den exactly (den = common power-of-two denominator)."""
    pairs = [float(v).as_integer_ratio() for v in values]
    den = 1
    for _, d in pairs:
        if d > den:
            den = d
    return [n * (den // d) for n, d in pairs], den


def cum_squares(ints):
    """Running sum of squares: C[i] = sum_{k<=i} a_k^2 (unit 1/den^2)."""
    out = []
    c = 0
    for v in ints:
        c += v * v
        out.append(c)
    return out


def cum_trapezoid_squares(ints):
    """T[0] = 0, T[i] = sum_{k<i} (a_k^2 + a_{k+1}^2). The Arias intensity series is pi/(2*9.81) * dt/2 * T[i]; the
    positive constant cancels on both sides of s*I_end < I[i] < e*I_end, so T decides the same index set."""
    out = [0]
    c = 0
    for k in range(1, len(ints)):
        c += ints[k - 1] * ints[k - 1] + ints[k] * ints[k]
        out.append(c)
    return out


def _floor(fr):
    return fr.numerator // fr.denominator


def _ceil(fr):
    return -((-fr.numerator) // fr.denominator)


def classify(cum, s, e, band_lo=0, band_hi=0, tie_lo_exact=True, tie_hi_exact=True):
    """Status (IN / OUT / AMB) of every sample for the open band (s*cum[-1], e*cum[-1]).

    cum: exact integers (any common unit); s, e: floats, used as exact rationals; band_*: absolute uncertainty (same unit,
    Fraction/int/float >= 0) of a floating-point evaluation of the comparison; tie_*_exact: an exact tie cum[i] == bound is
    decided by the arithmetic (then it is OUT: both inequalities are strict), otherwise a tie is ambiguous.
    Returns (status list, number of exact ties at the lower bound, at the upper bound)."""
    tot = cum[-1]
    lo = Fraction(s) * tot
    hi = Fraction(e) * tot
    band_lo = Fraction(band_lo)
    band_hi = Fraction(band_hi)
    lo_above = _floor(lo + band_lo)     # c >  lo + band  <=>  c > floor(lo + band)     (c integer)
    lo_below = _ceil(lo - band_lo)      # c <  lo - band  <=>  c < ceil(lo - band)
    hi_below = _ceil(hi - band_hi)      # c <  hi - band  <=>  c < ceil(hi - band)
    hi_above = _floor(hi + band_hi)
    lo_int = lo.numerator if lo.denominator == 1 else None
    hi_int = hi.numerator if hi.denominator == 1 else None
    status = []
    ties_lo = ties_hi = 0
    for c in cum:
        # lower bound: is c > lo ?
        if c > lo_above:
            a = IN
        elif c < lo_below:
            a = OUT
        elif lo_int is not None and c == lo_int:
            ties_lo += 1
            a = OUT if tie_lo_exact else AMB
        elif band_lo == 0:
            a = IN if c > lo else OUT   # unreachable for integer c unless band is 0 and lo is not an integer
        else:
            a = AMB
        # upper bound: is c < hi ?
        if c < hi_below:
            b = IN
        elif c > hi_above:
            b = OUT
        elif hi_int is not None and c == hi_int:
            ties_hi += 1
            b = OUT if tie_hi_exact else AMB
        elif band_hi == 0:
            b = IN if c < hi else OUT
        else:
            b = AMB
        if a == OUT or b == OUT:
            status.append(OUT)
        elif a == IN and b == IN:
            status.append(IN)
        else:
            status.append(AMB)
    return status, ties_lo, ties_hi


def candidates(status):
    """(acceptable first indices, acceptable last indices, definite indices exist?) over all resolutions of the ambiguous
    samples. Both lists are empty when no sample can be inside (premise of the statement certainly false)."""
    d = [i for i, st in enumerate(status) if st == IN]
    a = [i for i, st in enumerate(status) if st == AMB]
    if d:
        firsts = [i for i in a if i < d[0]] + [d[0]]
        lasts = [d[-1]] + [i for i in a if i > d[-1]]
    else:
        firsts = list(a)
        lasts = list(a)
    return firsts, lasts, bool(d)


def bracket(values, threshold):
    """(first, last) index with |a_i| > threshold, or None when no sample exceeds. Comparisons of floats are exact."""
    first = last = None
    for i, v in enumerate(values):
        if abs(v) > threshold:
            if first is None:
                first = i
            last = i
    return None if first is None else (first, last)


def is_pow2(x):
    """x is a positive power of two (as a float or Fraction)."""
    fr = Fraction(x)
    if fr <= 0:
        return False
    n, d = fr.numerator, fr.denominator
    return (n == 1 and d & (d - 1) == 0) or (d == 1 and n & (n - 1) == 0)


def representable(fr, mant_bits=53):
    """The rational fr is exactly representable with a mant_bits significand (exponent range ignored)."""
    fr = Fraction(fr)
    d = fr.denominator
    if d & (d - 1):
        return False
    n = abs(fr.numerator)
    while n and n % 2 == 0:
        n //= 2
    return n.bit_length() <= mant_bits
