"""Reference models for C17 (Butterworth gain, least-squares detrending, window means). Never imports eqsig or scipy.

Everything here is written from the definitions in the property statement:

* digital Butterworth magnitude = analog Butterworth prototype |H_a(W)|^2 = 1/(1+W^(2N)) composed with the bilinear
  transform (frequency warping W = tan(pi f dt)) and the standard low->high / low->band frequency substitutions with
  pre-warped edges;
* "best-fit degree-k polynomial" = orthogonal projection onto span{1, t, ..., t^k} sampled at the n (equidistant)
  sample positions, computed with an orthonormal basis built by (twice repeated) Gram-Schmidt;
* running average = arithmetic mean of the original samples whose index differs by at most floor(w/2).
"""
import math

import numpy as np


# ------------------------------------------------------------------------------------------------ Butterworth gain
def butter_gain_sq(f, dt, order, lo, hi):
    """Squared magnitude |H(f)|^2 of the digital Butterworth filter of the given order.
    lo/hi: cut-offs in Hz; lo None -> low-pass at hi, hi None -> high-pass at lo, both -> band-pass."""
    w = math.tan(math.pi * f * dt)
    if lo is not None and hi is not None:
        w1 = math.tan(math.pi * lo * dt)
        w2 = math.tan(math.pi * hi * dt)
        if w == 0.0:
            return 0.0
        r = (w * w - w1 * w2) / ((w2 - w1) * w)
    elif lo is None:
        r = w / math.tan(math.pi * hi * dt)
    else:
        if w == 0.0:
            return 0.0
        r = math.tan(math.pi * lo * dt) / w
    return 1.0 / (1.0 + r ** (2 * order))


def sinusoid(n, dt, f, phi, amp=1.0):
    """amp*sin(2 pi f t + phi) at t = i*dt, i = 0..n-1."""
    return amp * np.sin(2.0 * np.pi * f * (np.arange(n) * dt) + phi)


def fit_quadrature(y, i0, i1, dt, f, phi):
    """Least-squares fit y[i0:i1] ~ a*sin(wt+phi) + b*cos(wt+phi). Returns (a, b, max|residual|).
    a is the in-phase amplitude (gain for a unit input), b the quadrature part (non-zero = phase shift)."""
    t = np.arange(i0, i1) * dt
    s = np.sin(2.0 * np.pi * f * t + phi)
    c = np.cos(2.0 * np.pi * f * t + phi)
    yy = np.asarray(y[i0:i1], dtype=float)
    ss, sc, cc = float(np.dot(s, s)), float(np.dot(s, c)), float(np.dot(c, c))
    ys, yc = float(np.dot(yy, s)), float(np.dot(yy, c))
    det = ss * cc - sc * sc
    if det <= 1e-9 * ss * cc or not math.isfinite(det):
        return None
    a = (ys * cc - yc * sc) / det
    b = (yc * ss - ys * sc) / det
    res = float(np.max(np.abs(yy - a * s - b * c)))
    return a, b, res


# ------------------------------------------------------------------------------------------------ detrending
_BASIS = {}
_COND = {}


def positions(n):
    """Equidistant sample positions scaled to [0, 1] (any affine re-parametrisation spans the same polynomials)."""
    if n == 1:
        return np.zeros(1)
    return np.arange(n) / float(n - 1)


def poly_basis(n, k):
    """Rows = orthonormal basis of span{1, t, .., t^k} on the n sample positions (Gram-Schmidt, applied twice)."""
    key = (n, k)
    if key not in _BASIS:
        if len(_BASIS) > 512:
            _BASIS.clear()
        t = positions(n)
        rows = []
        for j in range(k + 1):
            v = t ** j
            for _ in range(2):
                for q in rows:
                    v = v - float(np.dot(q, v)) * q
            v = v / math.sqrt(float(np.dot(v, v)))
            rows.append(v)
        _BASIS[key] = np.array(rows)
    return _BASIS[key]


def poly_part(values, k):
    """Values of the best-fit (least-squares) polynomial of degree <= k of the series."""
    v = np.asarray(values, dtype=float)
    q = poly_basis(len(v), k)
    out = np.zeros(len(v))
    for row in q:
        out = out + float(np.dot(row, v)) * row
    return out


def vander_cond(n, k):
    """2-norm condition number of the monomial (Vandermonde) matrix of degree k on the sample positions."""
    key = (n, k)
    if key not in _COND:
        if len(_COND) > 512:
            _COND.clear()
        t = positions(n)
        v = np.array([t ** j for j in range(k + 1)]).T
        _COND[key] = float(np.linalg.cond(v))
    return _COND[key]


def polynomial(n, coefs):
    """sum_j coefs[j] * t^j on the sample positions."""
    t = positions(n)
    out = np.zeros(n)
    for j, c in enumerate(coefs):
        out = out + float(c) * t ** j
    return out


# ------------------------------------------------------------------------------------------------ running average
def window_means(values, width):
    """Mean of the original samples lying within floor(width/2) positions of each sample."""
    vals = [float(v) for v in values]
    n = len(vals)
    h = int(width) // 2
    out = []
    for i in range(n):
        a = max(0, i - h)
        b = min(n - 1, i + h)
        out.append(math.fsum(vals[a:b + 1]) / (b - a + 1))
    return out


def window_absmax(values, width):
    """max |x| over the same window (the scale each window mean is accurate to) and the window length."""
    vals = [abs(float(v)) for v in values]
    n = len(vals)
    h = int(width) // 2
    out, cnt = [], []
    for i in range(n):
        a = max(0, i - h)
        b = min(n - 1, i + h)
        out.append(max(vals[a:b + 1]))
        cnt.append(b - a + 1)
    return out, cnt
