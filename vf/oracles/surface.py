"""Reference model for C19 (surface energy of an up-going wave and its reflection; integer array shifting).

Scalar code written from the property statement; shares nothing with eqsig and never imports it.

Definition used
---------------
record x[0..n-1] sampled at dt, zero outside, linear between samples.  For a travel time tau the reflected (down-going)
wave is the record delayed by 2*tau, i.e. by s = 2*tau/dt samples:  down[j] = x_lin(j - s).  The acceleration at the
depth is  a[j] = up*x[j] - down_red*down[j]  (nodal surface)  or  + (anti-nodal);  velocity = cumulative trapezoid of a
(v[0] = 0);  energy E[j] = 0.5*v[j]*|v[j]|.  All of this lives on the unbounded grid j = 0, 1, 2, ...

Placement (DESIGN.md C19 (b)): no trim / no start -> samples 0 .. n + floor(max s) - 1;  trim only -> samples 0 .. n-1;
start -> row r is moved by  floor(stt/dt) - floor(tau_r/dt)  samples (zero filled in front when positive, cut when
negative), length n when trimmed else n + max(largest move, 0).

Knife edges (DESIGN.md section 3 rule 3): the record is discontinuous at its first and last sample whenever x[0] != 0 or
x[n-1] != 0.  The delay in samples is s = (2*tau)/dt as evaluated in binary64.  When that evaluation IS an integer (tau a
whole or half multiple of dt: 0.04/0.01, 0.045/0.01 ...) the delay is a whole number of samples and is decided strictly: the
first and the last sample of the delayed wave are record samples (an implementation whose own arithmetic, e.g. on the time
axis, overshoots by an ulp and drops one of them is wrong).  When the evaluation itself lands a few ulps off an integer
(2*0.07/0.01 = 14.000000000000002, 2*0.145/0.01 = 28.999999999999996) a correct implementation may see the delayed first
sample at -1e-15 (before the record: 0) or at +1e-15 (inside: x[0]), and the same for the last one; `edge_options`
enumerates these resolutions; interior samples are not affected.  The floors of the placement rule (`floor_options`) are
two-sided only for quotients a few ulps BELOW an integer.
"""
import itertools

EPS = 2.0 ** -52
AMB_ULPS = 16


def quotient_kind(a, dt, mult=1, span=0):
    """Classify the sample count f = (mult*a)/dt AS EVALUATED IN BINARY64 (mult is 1 or 2, so mult*a is exact).
    ('exact', k): f is the integer k - a whole-sample quantity, decided strictly (the boundary samples of a delayed wave
                  belong to the record; an implementation that drops one because ITS arithmetic overshoots is wrong);
    ('near', k):  f is not an integer but within AMB_ULPS ulps of k (0.07/0.01 = 7.000000000000001, 0.29/0.01 =
                  28.999999999999996): the natural evaluation itself lands off the integer - two-sided;
    ('frac', floor(f)) otherwise.  `span` is unused (kept for callers)."""
    f = (float(mult) * float(a)) / float(dt)
    k = int(round(f))
    if f == k:
        return 'exact', k
    if abs(f - k) <= AMB_ULPS * EPS * max(1, abs(k)):
        return 'near', k
    return 'frac', int(f // 1)


def _below(a, dt, mult=1):
    return (float(mult) * float(a)) / float(dt) < int(round((float(mult) * float(a)) / float(dt)))


def floor_options(a, dt, mult=1, span=0):
    """Admissible values of floor(mult*a/dt): one value; {k-1, k} only when the evaluated quotient lies a few ulps BELOW
    the integer k (a quotient a few ulps above k floors to k under every evaluation)."""
    kind, k = quotient_kind(a, dt, mult, span)
    if kind == 'near':
        return sorted(set([max(k - 1, 0), k])) if _below(a, dt, mult) else [k]
    return [k]


def trunc_options(t, dt):
    """Admissible values of int(t/dt) for t >= 0 (same rule as floor_options)."""
    return floor_options(t, dt, 1)


def edge_options(x, dt, tau):
    """Admissible resolutions (first sample belongs to the record?, last sample belongs to the record?)."""
    kind, _ = quotient_kind(tau, dt, 2, len(x))
    opts = [(True, True)]
    if kind != 'near':
        return opts
    if x[0] != 0:
        opts.append((False, True))
    if x[-1] != 0:
        opts.append((True, False))
    if x[0] != 0 and x[-1] != 0:
        opts.append((False, False))
    return opts


def down_wave(x, dt, tau, length, edge=(True, True)):
    """The record delayed by 2*tau on the grid j = 0..length-1 (linear inside the record, zero outside).
    edge: resolution of the first / last record sample on an inexact knife edge (see module docstring)."""
    n = len(x)
    out = [0.0] * length
    kind, k = quotient_kind(tau, dt, 2, n)
    s = float(k) if kind == 'exact' else (2.0 * tau) / dt
    for j in range(length):
        p = j - s
        if p < 0.0 or p > n - 1:
            continue
        i = int(p)
        if i >= n - 1:
            out[j] = x[n - 1]
        else:
            w = p - i
            out[j] = x[i] * (1.0 - w) + x[i + 1] * w
    if kind == 'near':
        if 0 <= k < length:
            out[k] = x[0] if edge[0] else 0.0
        if 0 <= k + n - 1 < length and n > 1:
            out[k + n - 1] = x[n - 1] if edge[1] else 0.0
        if n == 1 and 0 <= k < length:
            out[k] = x[0] if (edge[0] and edge[1]) else 0.0
    return out


def acc_series(x, dt, tau, nodal, up, down, length, edge=(True, True)):
    n = len(x)
    dw = down_wave(x, dt, tau, length, edge)
    out = [0.0] * length
    for j in range(length):
        u = up * x[j] if j < n else 0.0
        d = down * dw[j]
        out[j] = u - d if nodal else u + d
    return out


def energy_series(acc, dt):
    """E[j] = 0.5 v|v| with v the cumulative trapezoid of acc, v[0] = 0."""
    out = [0.0] * len(acc)
    v = 0.0
    for j in range(1, len(acc)):
        v += 0.5 * dt * (acc[j] + acc[j - 1])
        out[j] = 0.5 * v * abs(v)
    return out


def natural_length(n, dt, tau):
    """Length after which the acceleration of this row is identically zero (so E is constant), plus slack."""
    return n + floor_options(tau, dt, 2, n)[-1] + 3


def place(series, shift, length, tail_constant):
    """out[m] = series[m - shift]; zero in front; beyond the computed series: its last value (energy) or zero (acc)."""
    out = [0.0] * length
    ns = len(series)
    for m in range(length):
        i = m - shift
        if i < 0:
            continue
        if i < ns:
            out[m] = series[i]
        elif tail_constant:
            out[m] = series[-1]
    return out


def placements(n, dt, taus, stt, trim, start):
    """All admissible (length, per-row shifts) of the output; one element unless a floor sits on an inexact knife edge."""
    k = len(taus)
    alts = []
    if not start:
        if trim:
            return [(n, (0,) * k)]
        opts = [floor_options(t, dt, 2, n) for t in taus]
        for combo in itertools.product(*opts):
            alts.append((n + max(combo), (0,) * k))
        return sorted(set(alts))
    fts = [floor_options(t, dt, 1, n) for t in taus]
    for fs in floor_options(stt, dt, 1, n):
        for combo in itertools.product(*fts):
            sh = tuple(fs - f for f in combo)
            alts.append((n if trim else n + max(max(sh), 0), sh))
    return sorted(set(alts))


def cum_abs_change(e):
    """C[m] = sum_{i<=m} |E[i] - E[i-1]| with E[-1] = 0."""
    out = [0.0] * len(e)
    c = 0.0
    prev = 0.0
    for m in range(len(e)):
        c += abs(e[m] - prev)
        prev = e[m]
        out[m] = c
    return out


def velocity_scale(x, dt, up, down):
    """Sum of the magnitudes of the parts of the velocity integral: dt*(|up|+|down|)*sum|x|."""
    return dt * (abs(up) + abs(down)) * sum(abs(v) for v in x)


# ---------------------------------------------------------------------------------------------- integer array shifting
def put_in_2d(values, shifts, clip='none'):
    """Row i holds `values` at offsets shifts[i] .. shifts[i]+n-1 of a frame that spans the offsets min(shifts, 0) ..
    max(shifts, 0) + n - 1 (offset 0 = first sample of the unshifted array); zeros elsewhere. clip 'start' drops the columns in
    front of offset 0, clip 'end' the columns after offset n-1, 'both' both."""
    n = len(values)
    lo = min(min(shifts), 0)
    hi = max(max(shifts), 0)
    first = 0 if clip in ('start', 'both') else lo
    last = n - 1 if clip in ('end', 'both') else n - 1 + hi
    rows = []
    for s in shifts:
        row = []
        for c in range(first, last + 1):        # c = offset relative to the unshifted array
            i = c - s
            row.append(float(values[i]) if 0 <= i < n else 0.0)
        rows.append(row)
    return rows, last - first + 1


def join(values, shifts, jtype):
    """Zero-padded original +/- shifted copy, non-negative shifts. Returns (rows, parts magnitude rows)."""
    n = len(values)
    length = n + max(shifts)
    rows, mags = [], []
    for s in shifts:
        row, mag = [], []
        for c in range(length):
            a0 = float(values[c]) if c < n else 0.0
            i = c - s
            a1 = float(values[i]) if 0 <= i < n else 0.0
            row.append(a0 + a1 if jtype == 'add' else a0 - a1)
            mag.append(abs(a0) + abs(a1))
        rows.append(row)
        mags.append(mag)
    return rows, mags


# ---------------------------------------------------------------------------------------------- local tolerance scales
def prefix_scale(x, dt, up, down, length):
    """P[j] = dt*(|up|+|down|)*sum_{i<=min(j,n-1)} |x_i|: magnitude of everything that has entered the velocity integral
    up to sample j (the rounding error of a running sum is relative to this, not to the total of the whole record)."""
    n = len(x)
    out = [0.0] * length
    acc = 0.0
    f = dt * (abs(up) + abs(down))
    for j in range(length):
        if j < n:
            acc += abs(x[j])
        out[j] = f * acc
    return out


def running_max_abs(series):
    out = [0.0] * len(series)
    m = 0.0
    for j, v in enumerate(series):
        if abs(v) > m:
            m = abs(v)
        out[j] = m
    return out


def acc_local_scale(x, dt, tau, up, down, length):
    """A[j] = |up*x_j| + |down|*(|x_i| + |x_{i+1}|), i = floor(j - 2*tau/dt): magnitude of the parts of sample j of the
    combined motion (both neighbours of the interpolation; the record boundary samples when the position is within one
    sample of the record)."""
    n = len(x)
    s = (2.0 * tau) / dt
    out = [0.0] * length
    for j in range(length):
        a = abs(up * x[j]) if j < n else 0.0
        p = j - s
        if -1.0 < p < n:
            lo = int(p // 1)
            for i in (lo, lo + 1):
                if 0 <= i < n:
                    a += abs(down * x[i])
        out[j] = a
    return out


# ---------------------------------------------------------------------------------------------- placement alternatives
def placement_alternatives(n, dt, taus, stt, trim, start):
    """One alternative per admissible floor(stt/dt). Each = (row_opts, contrib, fixed_len):
    row_opts[r]  admissible placement shifts of row r;
    contrib      None, or per-row admissible contributions c_r to the length rule  length = n + max(max_r c_r, 0),
                 or the string 'rows' when the contributions are the placement shifts themselves;
    fixed_len    the length when it does not depend on the rows (trimmed output)."""
    k = len(taus)
    if not start:
        row_opts = [[0]] * k
        if trim:
            return [(row_opts, None, n)]
        return [(row_opts, [floor_options(t, dt, 2, n) for t in taus], None)]
    fts = [floor_options(t, dt, 1, n) for t in taus]
    alts = []
    for fs in floor_options(stt, dt, 1, n):
        ro = [sorted(set(fs - f for f in ft)) for ft in fts]
        alts.append((ro, None if trim else 'rows', n if trim else None))
    return alts


def length_admissible(length, n, choice_sets):
    """Is there one choice c_r out of every choice_sets[r] with n + max(max_r c_r, 0) == length ?"""
    t = length - n
    if t < 0 or any(min(s) > t for s in choice_sets):
        return False
    if t == 0:
        return True
    return any(t in s for s in choice_sets)


def join_row(values, shift, jtype, length):
    """One row of the join written into a frame of `length` samples: zero-padded original +/- the copy moved by shift.
    Returns (row, magnitudes of the parts)."""
    n = len(values)
    row, mag = [], []
    for c in range(length):
        a0 = float(values[c]) if c < n else 0.0
        i = c - shift
        a1 = float(values[i]) if 0 <= i < n else 0.0
        row.append(a0 + a1 if jtype == 'add' else a0 - a1)
        mag.append(abs(a0) + abs(a1))
    return row, mag
