"""Which statement lines of the anchored eqsig source did the monitored executions of this run reach?

Observability only (no verdict): sys.monitoring LINE events (CPython 3.12) local to the code objects of the eqsig package,
every location disabled after its first hit, so the cost is one callback per distinct eqsig line executed in the process
(a first version switched the events on globally; NumPy's text reader then made C16 4.5 times slower). The shard records the set of
(file, line) reached inside <repo>/eqsig while the workload ran (the import of eqsig happens before start(), so
module-level lines - defs, imports, constants - are not part of the count); the parent unions the shards and relates
the set to the statement lines of every function of the property's anchored files (from the compiled code objects'
co_lines(), nothing is imported or executed for that).

The result goes to evidence.coverage.anchor_line_reach: per file the functions entered with reached/total statement
lines and the lines not reached, and the functions never entered. It says what the workload drove; a line that was
reached was not necessarily judged (that is what the clause counters say), and a line not reached was certainly not.
"""
import os
import sys

_HITS = set()
_ROOT = None
_ON = False


def _code_objects(root):
    """every code object defined in the eqsig package under <root>: functions, methods, property accessors and what is nested
    in them (found through the loaded modules, following __wrapped__ / __vf_orig__ of decorated callables)"""
    import importlib
    import inspect
    import pkgutil
    try:
        import eqsig
        for m in pkgutil.walk_packages(eqsig.__path__, 'eqsig.'):
            try:
                importlib.import_module(m.name)
            except Exception:
                pass
    except Exception:
        pass
    seen = {}

    def add_code(c):
        if id(c) in seen or not c.co_filename.startswith(root):
            return
        seen[id(c)] = c
        for k in c.co_consts:
            if hasattr(k, 'co_code'):
                add_code(k)

    def add_callable(f, depth=0):
        if depth > 6 or f is None:
            return
        for attr in ('__vf_orig__', '__wrapped__', '__func__'):
            g = getattr(f, attr, None)
            if g is not None and g is not f:
                add_callable(g, depth + 1)
        c = getattr(f, '__code__', None)
        if c is not None:
            add_code(c)

    for name, mod in list(sys.modules.items()):
        if mod is None or not (name == 'eqsig' or name.startswith('eqsig.')):
            continue
        for v in list(vars(mod).values()):
            if inspect.isclass(v):
                for w in list(vars(v).values()):
                    if isinstance(w, property):
                        for g in (w.fget, w.fset, w.fdel):
                            add_callable(g)
                    else:
                        add_callable(w)
            else:
                add_callable(v)
    return list(seen.values())


def start(repo_dir):
    """begin recording lines executed under <repo_dir>/eqsig (idempotent; silently unavailable before 3.12). LINE events are
    switched on for the code objects of the eqsig package only (set_local_events), so NumPy / SciPy / harness code runs
    uninstrumented; every location is disabled after its first hit."""
    global _ROOT, _ON
    if _ON or not hasattr(sys, 'monitoring'):
        return False
    mon = sys.monitoring
    _ROOT = os.path.join(os.path.realpath(repo_dir), 'eqsig') + os.sep
    try:
        mon.use_tool_id(mon.COVERAGE_ID, 'vf-linereach')
    except ValueError:
        return False
    root = _ROOT
    hits = _HITS
    disable = mon.DISABLE

    def on_line(code, line):
        fn = code.co_filename
        if fn.startswith(root):
            hits.add((fn[len(root):], line))
        return disable

    mon.register_callback(mon.COVERAGE_ID, mon.events.LINE, on_line)
    n = 0
    for c in _code_objects(root):
        try:
            mon.set_local_events(mon.COVERAGE_ID, c, mon.events.LINE)
            n += 1
        except Exception:
            pass
    _ON = n > 0
    return _ON


def result():
    """{relative file: sorted lines reached} for the shard result (JSON-able)"""
    out = {}
    for f, l in _HITS:
        out.setdefault(f, []).append(l)
    return {f: sorted(v) for f, v in out.items()}


def function_lines(path):
    """{qualified function name: (first line, sorted statement lines)} of one source file, from its code objects"""
    src = open(path).read()
    top = compile(src, path, 'exec')
    out = {}

    def walk(code, prefix):
        for c in code.co_consts:
            if hasattr(c, 'co_code'):
                name = (prefix + '.' if prefix else '') + c.co_name
                if c.co_name.startswith('<'):      # comprehensions / lambdas belong to the enclosing function
                    lines = {l for _, _, l in c.co_lines() if l is not None}
                    if prefix in out:
                        out[prefix][1].update(lines)
                    walk(c, prefix)
                    continue
                lines = {l for _, _, l in c.co_lines() if l is not None}
                lines.discard(c.co_firstlineno)     # the def line itself carries RESUME only, no LINE event of its own
                out[name] = [c.co_firstlineno, set(lines)]
                walk(c, name)
    walk(top, '')
    res = {}
    for name, (first, lines) in out.items():
        res[name] = (first, sorted(lines))
    return res


def summarise(repo_dir, files, reached, max_missing=40):
    """relate the union of reached lines to the functions of the anchored files"""
    summary = {'files': {}, 'functions_entered': 0, 'functions_never_entered': 0,
               'statement_lines_in_entered_functions': 0, 'statement_lines_reached': 0}
    import ast
    for rel in files:
        path = os.path.join(repo_dir, rel)
        if not os.path.exists(path):
            continue
        key = rel[len('eqsig/'):] if rel.startswith('eqsig/') else rel
        hit = set(reached.get(key, []))
        try:
            fl = function_lines(path)
            tree = ast.parse(open(path).read())
        except Exception as e:   # unparsable source: report, no numbers
            summary['files'][rel] = {'error': repr(e)[:200]}
            continue
        classes = set()
        docstring_lines = set()
        for node in ast.walk(tree):
            if isinstance(node, ast.ClassDef):
                classes.add(node.name)
            if isinstance(node, (ast.FunctionDef, ast.AsyncFunctionDef, ast.ClassDef)):
                b = node.body
                if b and isinstance(b[0], ast.Expr) and isinstance(getattr(b[0], 'value', None), ast.Constant) \
                        and isinstance(b[0].value.value, str):
                    docstring_lines.update(range(b[0].lineno, (b[0].end_lineno or b[0].lineno) + 1))
        entered, never = {}, []
        for name, (first, lines) in sorted(fl.items(), key=lambda kv: kv[1][0]):
            if name.split('.')[-1] in classes:
                continue                                # class bodies run at import, before recording starts
            lines = [l for l in lines if l not in docstring_lines]
            if not lines:
                continue
            got = [l for l in lines if l in hit]
            if got:
                miss = [l for l in lines if l not in hit]
                entered[name] = {'reached': len(got), 'statement_lines': len(lines), 'not_reached': miss[:max_missing]}
                summary['functions_entered'] += 1
                summary['statement_lines_in_entered_functions'] += len(lines)
                summary['statement_lines_reached'] += len(got)
            else:
                never.append(name)
                summary['functions_never_entered'] += 1
        summary['files'][rel] = {'entered': entered, 'never_entered': never}
    return summary
