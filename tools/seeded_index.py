"""Writes seeded/INDEX.md: one row per independently seeded change with what it needs and which checks catch it (from meta.json)."""
import glob, json, os, re
rows = []
for d in sorted(glob.glob('/verif/seeded/*/meta.json')):
    m = json.load(open(d))
    name = os.path.basename(os.path.dirname(d))
    notes = ' '.join(l.strip() for l in m.get('needs_to_manifest', '').splitlines() if l.strip())
    notes = re.sub(r'\s+', ' ', notes.replace('|', '/'))[:420]
    caught = ['%s (%s)' % (c, ', '.join(r['violated_clauses'][:3])) for c, r in sorted(m['checks_run'].items()) if r['caught']]
    missed = [c for c, r in sorted(m['checks_run'].items()) if not r['caught']]
    rows.append('| %s | %s | %s | %s | %s |' % (name, ('OBSOLETE (no longer breaks the property: ' + m['obsolete']['reason'][:90] + '...)') if m.get('obsolete') else ('yes' if m['confirmed']['all_confirmed'] else 'NO'), notes, '; '.join(caught) or '-', ', '.join(missed) or '-'))
out = ['# Independently seeded changes', '',
       'Wave 1 = variants A, B; wave 2 = variants C, D; wave 3 = variants E, F; wave 4 = variants G, H; wave 5 = variants I, J; wave 6 = variants K, L; wave 7 = variants M, N (property text only, no steering); wave 8 = variants O, P (authors of later waves were told the earlier ideas and asked for different mechanisms).',
       'Each was confirmed with tools/import_seeded.py (demo passes without, patch applies, 63 baseline tests pass with it, demo fails with it).',
       '"not caught by" lists checks of OTHER properties that were also run against the change and do not see it (by design of their scope).', '',
       '| change | confirmed | what was changed / what it needs (author\'s notes, truncated) | caught by (violated clauses) | also run, not caught by |',
       '|---|---|---|---|---|'] + rows
open('/verif/seeded/INDEX.md', 'w').write('\n'.join(out) + '\n')
own_missed = [r for r in rows if False]
n = len(rows)
print(n, 'changes indexed')
for d in sorted(glob.glob('/verif/seeded/*/meta.json')):
    m = json.load(open(d)); name = os.path.basename(os.path.dirname(d)); pid = m['property']
    if not m['checks_run'].get(pid, {}).get('caught') and not m.get('obsolete'):
        print('NOT CAUGHT BY OWN CHECK:', name)
