"""One-off helper used in the build round: applies each planned repair to /repo as its own `fix:` commit.
Kept for the record (not part of the machinery)."""
import subprocess, sys, re
R='/repo/'
def sub(path, old, new, count=1):
    s=open(R+path).read()
    assert s.count(old)==count, (path, old, s.count(old))
    open(R+path,'w').write(s.replace(old,new))
def commit(msg):
    r=subprocess.run('cd /repo && /venv/bin/python -m pytest -q -p no:cacheprovider --timeout=900 2>&1 | tail -1',shell=True,capture_output=True,text=True)
    print(msg.splitlines()[0],'->',r.stdout.strip())
    assert '63 passed' in r.stdout
    subprocess.run(['git','-C','/repo','commit','-qam',msg],check=True)

FIXES=[]
def fix(f): FIXES.append(f); return f

@fix
def F1():
    sub('eqsig/sdof.py','''    :return: tuple floats, (spectral displacement, spectral velocity, spectral acceleration)
    """
    resp_u, resp_v, resp_a = nigam_and_jennings_response(motion, dt, periods, xi)
    sas = absmax(resp_a, axis=1)''','''    :return: tuple floats, (spectral displacement, spectral velocity, spectral acceleration)
    """
    periods = np.array(periods, dtype=float)
    resp_u, resp_v, resp_a = nigam_and_jennings_response(motion, dt, periods, xi)
    sas = absmax(resp_a, axis=1)''')
    commit('fix: true_response_spectra accepts list/tuple periods\n\nperiods < dt * 6 raised TypeError for a list or tuple of periods; convert to a float\narray first, as pseudo_response_spectra already does.')
@fix
def F2():
    sub('eqsig/single.py','''        self._s_d = None

    def clear_cache(self):
        self._cached_smooth_fa = False
        self._cached_fa = False
        self._cached_response_spectra = False''','''        self._s_d = None

    @property
    def response_times(self):
        return self._response_times

    @response_times.setter
    def response_times(self, values):
        self._response_times = values
        self._cached_response_spectra = False

    def clear_cache(self):
        self._cached_smooth_fa = False
        self._cached_fa = False
        self._cached_response_spectra = False''')
    commit('fix: changing AccSignal.response_times invalidates cached response spectra\n\nAfter s_a/s_v/s_d had been read, assigning response_times (directly or through\nresponse_series(response_times=...)) left the spectra of the old periods in place.')
@fix
def F3():
    sub('eqsig/single.py','''        self._values = new_values
        self._npts = len(new_values)''','''        self._values = np.array(new_values)
        self._npts = len(self._values)''')
    commit('fix: Signal.reset_values copies and coerces the new values\n\nreset_values stored the caller\'s object: in-place corrections then modified the\ncaller\'s array (and another signal\'s values), and a list stayed a list, after which\nadd_constant raised TypeError. The constructor already copies with np.array.')
@fix
def F4():
    sub('eqsig/single.py','self._fa_freqs = np.arange(points) / (2 * points * self.dt)','self._fa_freqs = np.arange(points) / (n_factor * self.dt)')
    sub('eqsig/fns/frequency.py','fa_frequencies = np.arange(points) / (2 * points * sig.dt)','fa_frequencies = np.arange(points) / (len(fa) * sig.dt)',count=2)
    commit('fix: Fourier frequencies use the transform length for odd N\n\nThe grid was k / (2 * floor(N / 2) * dt), which equals k / (N * dt) only for even N;\nan odd-length unpadded record or an odd explicit n got shifted frequencies.')
@fix
def F5():
    sub('eqsig/fns/frequency.py','    npts = int(2 ** (np.log(n) / np.log(2)))\n','    npts = n\n',count=2)
    commit('fix: fas2values/fas2signal return all n samples\n\nint(2 ** (log(n) / log(2))) rounds below n for many n (e.g. n=14 -> 13), dropping the\nlast sample of the reconstructed series.')
@fix
def F6():
    sub('eqsig/im.py','max_index = np.argmax(asig.fa_spectrum)','max_index = np.argmax(np.abs(asig.fa_spectrum))')
    commit('fix: max_fa_period uses the amplitude of the complex spectrum\n\nargmax of a complex array orders by real part, not by magnitude.')
@fix
def F7():
    sub('eqsig/im.py','''    points_per_sec = (int(1 / asig.dt))
    total_seconds = int(asig.time[-1])''','''    points_per_sec = int(round(1 / asig.dt, 6))
    total_seconds = int(round(asig.time[-1], 6))''')
    commit('fix: calc_cav_dp sample counts tolerate floating-point error\n\nint(1 / dt) floors 92.99999999999999 to 92 for dt = 1/93 (and other rates), so the\none-second windows drifted and whole windows were gained or lost.')
@fix
def F8():
    sub('eqsig/fns/peaks_and_crossings.py','''    peak_full_indices = np.take(non_zero_indices, peak_cleaned_indices)
    if ptype == 'min':
        if values[1] - values[0] <= 0:''','''    peak_full_indices = np.take(non_zero_indices, peak_cleaned_indices)
    first_move = values[peak_full_indices[1]] - values[peak_full_indices[0]]
    if ptype == 'min':
        if first_move <= 0:''')
    sub('eqsig/fns/peaks_and_crossings.py','''    elif ptype == 'max':
        if values[1] - values[0] > 0:''','''    elif ptype == 'max':
        if first_move > 0:''')
    commit("fix: get_peak_array_indices 'max'/'min' selection for series with a flat start\n\nThe parity of the selection was taken from values[1] - values[0], which is 0 when the\nseries starts with repeated values; use the direction between the first two peaks.")
@fix
def F9():
    sub('eqsig/fns/peaks_and_crossings.py','    peak_values_set = [0]\n','    peak_values_set = [peak_values[0]]\n')
    commit('fix: switched peaks consider the first sample of the first half cycle\n\nThe running set started with a placeholder 0 instead of the first peak value, so a\nfirst excursion whose largest value is its first sample reported the wrong index\n(e.g. [-2, -1] -> 1).')
@fix
def F10():
    sub('eqsig/fns/time_step.py','''    new_npts = factor * len(values)
    if even:
        new_npts = 2 * int(new_npts / 2)
    t_db''','''    new_npts = factor * len(values)
    if even:
        new_npts = 2 * int(np.ceil(new_npts) / 2)
    t_db''')
    commit('fix: interp_array_to_approx_dt even length when decimating\n\nThe even rounding was applied to the fractional count npts / m although the grid has\nceil(npts / m) points, so up to two extra samples were dropped (3.36 -> 2 instead of 4).')
@fix
def F11():
    sub('eqsig/fns/time_step.py','''    new_npts = factor * asig.npts
    if even:
        new_npts = 2 * int(new_npts / 2)
    acc_interp = resample(asig.values, new_npts)
''','''    new_npts = int(round(factor * asig.npts))
    acc_interp = resample(asig.values, new_npts)
    if even:
        acc_interp = acc_interp[:2 * int(new_npts / 2)]
''')
    commit('fix: resample_to_approx_dt integer sample count and even trimming\n\nWith even=False and a factor <= 1 the float count made scipy.signal.resample raise\nTypeError; with even=True and an odd count the record was resampled onto one sample\nfewer, i.e. a spacing different from the returned dt. Resample to the full count and\ndrop the last sample when an even length is requested.')
@fix
def F12():
    sub('eqsig/loader.py','''        dt = data.dtype.names[0].split("_")[-1]
        dt = "." + dt[1:]
        dt = float(dt)
''','''        with open(ffp) as ifile:
            dt = float(ifile.read().splitlines()[1].split()[1])
''')
    commit('fix: loader reads dt from the header line\n\ndt was recovered from the sanitised genfromtxt column name, which drops the integer\npart: a saved dt of 12.0 loaded as 0.2, 1.0 as 0.0.')
@fix
def F13():
    sub('eqsig/loader.py','    values = data.astype(float)\n','    values = np.atleast_1d(data.astype(float))\n')
    commit('fix: loader returns a 1d array for a one-sample file\n\ngenfromtxt yields a 0-d array for a single value and the Signal constructors raised\nTypeError on len().')
@fix
def F14():
    sub('eqsig/loader.py','    if astype == "signal":','    if astype in ("signal", "sig"):')
    commit("fix: load_signal default astype='sig' returns a Signal\n\nThe default value matched neither branch and the function returned None.")
@fix
def F15():
    sub('eqsig/single.py','isinstance(cut_off, np.Array)','isinstance(cut_off, np.ndarray)')
    commit('fix: butter_pass accepts an ndarray cut_off\n\nnp.Array does not exist; passing an array raised AttributeError.')
@fix
def F16():
    sub('eqsig/single.py','''        mot = self.values

        for i in range(len(mot)):
            if i < width / 2:
                cc = i + int(width / 2) + 1
                self._values[i] = np.mean(mot[:cc])
            elif i > len(mot) - width / 2:
                cc = i - int(width / 2)
                self._values[i] = np.mean(mot[cc:])
            else:
                cc1 = i - int(width / 2)
                cc2 = i + int(width / 2) + 1
                self._values[i] = np.mean(mot[cc1:cc2])

        self.clear_cache()''','''        mot = self.values
        averaged = np.zeros(len(mot), dtype=np.result_type(mot.dtype, float))

        for i in range(len(mot)):
            if i < width / 2:
                cc = i + int(width / 2) + 1
                averaged[i] = np.mean(mot[:cc])
            elif i > len(mot) - width / 2:
                cc = i - int(width / 2)
                averaged[i] = np.mean(mot[cc:])
            else:
                cc1 = i - int(width / 2)
                cc2 = i + int(width / 2) + 1
                averaged[i] = np.mean(mot[cc1:cc2])

        self.reset_values(averaged)''')
    commit('fix: running_average averages the original samples\n\nThe means were written into the array being read, so each window after the first mixed\nalready-averaged samples (and integer records were truncated on write).')
@fix
def F17():
    sub('eqsig/multiple.py','slave_signal = self.signal_by_index(1)','slave_signal = self.signal_by_index(i)')
    commit('fix: Cluster.same_start aligns every non-master signal\n\nThe loop always fetched signal 1, so only the two-signal, master-0 case worked.')
@fix
def F18():
    sub('eqsig/fns/average.py','(npts - pre_n) * pre_mean ** pow','(npts - pre_n) * np.abs(pre_mean) ** pow')
    sub('eqsig/fns/average.py','(npts - post_n) * post_mean ** pow','(npts - post_n) * np.abs(post_mean) ** pow')
    commit('fix: calc_step_fn_vals_error with negative means and odd powers\n\nThe zero padding of the triangular matrices contributes |0 - mean| ** pow; subtracting\nmean ** pow is wrong for a negative mean when pow is odd.')
@fix
def F19():
    sub('eqsig/single.py','from scipy.signal import butter, filtfilt','from scipy.signal import butter, sosfiltfilt')
    sub('eqsig/single.py','''        b, a = butter(filter_order, wp, btype=filter_type)
        mote = filtfilt(b, a, mote)''','''        sos = butter(filter_order, wp, btype=filter_type, output='sos')
        n_coef = filter_order * (2 if filter_type == 'band' else 1) + 1
        mote = sosfiltfilt(sos, mote, padlen=3 * n_coef)  # same padding as filtfilt(b, a)''')
    commit('fix: butter_pass designs the filter in second-order sections\n\nThe transfer-function form loses the pole positions for low normalised cut-offs\n(dt=0.001, cut_off=(0.5, 10), order 4 is unstable and returns 1e208). Use sos output\nand sosfiltfilt with the pad length filtfilt used.')
@fix
def F20():
    sub('eqsig/fns/generic.py','denom_adj = np.clip(denom, 1e-10, None)','denom_adj = np.where(denom > 0, denom, 1)')
    commit('fix: interp2d weights for node spacings below 1e-10\n\nThe divide-by-zero guard clipped every spacing to at least 1e-10, so closely spaced\nnodes were interpolated with the wrong denominator; guard only non-positive spacing.')
@fix
def F21():
    sub('eqsig/surface.py','outs[i, sis[i]:] = values[i, : npts - sis[i]]','outs[i, sis[i]:] = values[i, : max(npts - sis[i], 0)]')
    commit('fix: trim_to_length when the start shift exceeds the record length\n\nWith trim and start set and a start shift >= npts the slice stop went negative and the\nassignment raised ValueError; the row is all zeros in that case.')

if __name__=='__main__':
    for f in FIXES:
        f()
