#!/bin/bash
# re-confirms every stored seeded change against the current tree and re-runs the property's own check against it
# usage: regress_seeded.sh [ID ...]   (default: all)
for d in /verif/seeded/*/; do n=$(basename $d); [ -f $d/patch.diff ] || continue; pid=${n%-*}; var=${n#*-}
  if [ $# -gt 0 ]; then case " $* " in *" $pid "*) ;; *) continue;; esac; fi
  /venv/bin/python /verif/tools/import_seeded.py $pid $var 2>&1 | tail -1; done
