"""Regenerates MANIFEST.json from the table below. A property is claimed only when its module exists and it is in READY."""
import json, os
HERE = os.path.dirname(os.path.dirname(os.path.abspath(__file__)))
READY = os.environ.get('READY', '').split() or [l.strip() for l in open(os.path.join(HERE, 'tools', 'READY')).read().split()]
BASE_NOTE = ('Trusted base: CPython 3.12, NumPy 2.5, SciPy 1.18, the oracle code under vf/oracles (short scalar reference '
             'models that do not import eqsig). Decides only the executions produced by the workload; universality is not claimed.')
T = {
 'C01': ('post-condition monitor vs 60-digit mpmath propagator + 80-bit recurrence', 'every call of the elastic-response entry points made by a seeded hostile workload is compared, sample by sample, with an independently derived exact propagator (coefficients in 60-digit arithmetic, recurrence in long double) under the tolerance written in the property; third-series identity and T=0 row are checked exactly; the object-level entry point is judged against the period list the caller gave (per call, constructor keyword, attribute; list/tuple/array forms) and the object\'s current values', '5/C01'),
 'C02': ('offline trace checker over groups of related executions', 'groups of related calls (linear combinations, truncations, zero-prefix shifts, period permutations/partitions, integer refinements 2..8, object-level min_dt_ratio pairs) are executed on the real functions and the recorded outputs are checked against each other; the oracle is the other execution', '5/C02'),
 'C03': ('post-condition monitor (peaks recomputed from the monitored response series, exact-rational 6dt knife edge, refinement search for the object API)', 'spectra returned by the real functions and by AccSignal are recomputed from the library\'s own (C01-monitored) response series and from an own refinement of the record; knife-edge periods at exactly 6*dt are decided in exact rational arithmetic; the object must use exactly the periods the caller gave in any container form', '5/C03'),
 'C04': ('invariant at a hook after every operation of a history (deep-copied observation vs freshly built twin); BFS over observational cache states', 'after every operation of exhaustive (cache-state x mutator x mutator) and long random histories every observable of a deep copy of the live object is compared with a freshly constructed twin; signal objects returned by library functions applied to the live object are compared with fresh twins of their own; reads are checked for idempotence and non-interference; the operation alphabet includes attribute assignment, refused and non-finite-input operations (the invariant is judged after a raise too) and settings assignments that must stick; copy.copy / copy.deepcopy / pickle clones in every cache state, with a value change on either side and live reads in both orders, must each equal a fresh twin of their own values', '5/C04'),
 'C05': ('icontract class invariant + before/after byte snapshots of every argument + call-twice and call-after-other-inputs repeatability + observables of signal arguments + ownership of returned signals and clones', 'class invariants on Signal/AccSignal after every public method, bit-for-bit snapshots of caller arrays across mutator sequences (both directions), a purity/repeatability wrapper around every public array-level function (same result when called again, also after calls with other inputs in between), all public observables of signal-object arguments before/after each analysis call and after sequences of analysis calls on one object, and ownership (identity, shared memory, in-place correction) of every signal object a library function returns', '5/C05'),
 'C06': ('post-condition monitor vs direct O(N^2) DFT', 'every spectrum produced by the object- and array-level functions is compared bin by bin with a direct DFT of the zero-padded record on the stated grid; Parseval with oracle-computed Nyquist term, linearity, trailing-zero invariance, inverse and dominant period are checked', '5/C06'),
 'C07': ('post-condition monitor vs scalar double-loop Konno-Ohmachi weights', 'every smoothed value is recomputed with per-pair weights in a scalar loop; range, constant reproduction, scaling, matrix-vs-direct and bandwidth ordering are monitored', '5/C07'),
 'C08': ('post-condition monitor: increment identities per index + trace relations', 'the trapezoid/rectangle increment identity is evaluated at every index of every returned series, closed forms for constant/linear acceleration, peaks vs max abs, sign/scale relations', '5/C08'),
 'C09': ('post-condition monitor vs scalar quadrature oracles + trace relations', 'final values against scalar-loop quadratures of the stated definitions, monotonicity at every index, sign/scale/zero-padding relations, standardised CAV against a windowed oracle with two-sided knife-edge gate', '5/C09'),
 'C10': ('post-condition monitor with exact-arithmetic knife edges', 'start/end indices recomputed from the definition with a two-sided oracle (exact on integer-valued records with dyadic fractions) plus scaling/shift/nesting/threshold relations', '5/C10'),
 'C11': ('post-condition monitor vs run-length reference; exhaustive small-alphabet + random workload', 'every pattern of rise/fall/flat up to length 7 (quick) / 8 (thorough) over a 5-level alphabet is executed on the real function under the monitor, plus random series to 5000 samples', '5/C11'),
 'C12': ('post-condition monitor (functional oracle for crossings, assertion set for switched peaks); exhaustive small-alphabet + random workload', 'complete enumeration of {-2..2}^<=7/8 and {-3..3}^<=5/6 with tolerances as a workload on the real functions, plus random series', '5/C12'),
 'C13': ('post-condition monitor (conservation sums, power-law sums from oracle excursion maxima) + trace relations', 'conservation of total variation and end offset, shift invariance, inverse relation and scaling laws of the power-law cycle measures on exhaustive small-alphabet and random series', '5/C13'),
 'C14': ('post-condition monitor (assertion list per call) + analytic band-limited signal for Fourier resampling', 'step rule, integer ratio, retained samples, subsequence, range, duration and parity on every call; Fourier resampling against analytically known periodic band-limited signals', '5/C14'),
 'C15': ('post-condition monitor vs direct discrete S-transform from the definition', 'every cell of the transform compared with the defining triple sum evaluated without FFT; marginal, inverse, linearity, implementation agreement and dominant frequency of on-grid sinusoids', '5/C15'),
 'C16': ('post-condition on save->load round trips', 'each saved file is read back through all loader entry points and compared with the in-memory original rounded to the format precision', '5/C16'),
 'C17': ('post-condition monitor vs analytic bilinear-transform Butterworth gain, own least squares, explicit window means', 'filtered sinusoids against the analytic squared magnitude with zero phase; detrending against an own QR least squares; adds and running average against explicit element-wise references', '5/C17'),
 'C18': ('post-condition monitor with constructed lags and own rotation formula', 'rotation formula and scan recomputed; clusters built from one base record displaced by known lags so the aligned overlap must coincide bit-for-bit; section averages read back', '5/C18'),
 'C19': ('post-condition monitor vs per-sample scalar-loop definition of the shifted-wave energy', 'every returned energy sample compared with a scalar-loop evaluation of the definition and placement rule; cumulative series, scaling and batch relations; array-shift helpers checked exactly', '5/C19'),
 'C20': ('post-condition monitor vs np.interp column-wise, explicit window means, explicit split errors, cross-function identities', 'helpers compared with explicit references on node/query/window sweeps; design-spectrum functions against each other, one-sided limits at every segment boundary and the corner inverse', '5/C20'),
}
def main():
    props = [json.loads(l) for l in open(os.path.join(HERE, 'properties.jsonl'))]
    checks, na = [], []
    for p in props:
        pid = p['id']
        if pid in READY and os.path.exists(os.path.join(HERE, 'vf', 'props', pid.lower() + '.py')):
            tech, text, ref = T[pid]
            checks.append({
                'property_id': pid,
                'quick_cmd': './check %s --tier quick' % pid,
                'thorough_cmd': './check %s --tier thorough' % pid,
                'evidence_file': 'evidence/%s.json' % pid,
                'replay_cmd_template': './check %s --replay {path}' % pid,
                'engine': 'vf',
                'level_claimed': {'category': 'exploration',
                                  'text': 'Runtime monitoring of the real code: ' + text + '. Held means: no monitored execution of this run refuted the property; it is exploration, not proof.',
                                  'design_ref': 'DESIGN.md section ' + ref},
                'level_note': BASE_NOTE,
                'technique': tech,
            })
        else:
            na.append({'property_id': pid, 'reason': 'not claimed yet: runtime monitor designed (DESIGN.md section 5/%s) but not built in this round' % pid})
    m = {'version': 1,
         'setup_cmd': './check --setup',
         'hooks': {'guard': 'EQSIG_VERIF',
                   'enable': 'no source hooks are needed: monitors are attached from /verif at import time (function wrappers that rebind every alias, icontract invariants, history hooks); nothing in /repo reads EQSIG_VERIF',
                   'baseline_off_cmd': 'cd /repo && /venv/bin/python -m pytest -ra -q -p no:cacheprovider --timeout=900',
                   'source_commits': [], 'add_only': True},
         'engines': [{'name': 'vf', 'path': 'vf/', 'serves_properties': [c['property_id'] for c in checks],
                      'kind_free_text': 'runtime monitors (post-condition wrappers, icontract invariants, history hooks, offline trace checkers) attached to the real eqsig imported from /repo and driven by seeded generated / enumerated workloads in 16 subprocess shards'}],
         'checks': checks,
         'not_applicable': na,
         'notes': 'Exit codes of ./check: 0 held (KNOWN-FINDING lines for open ledger entries in known_findings.json), 1 VIOLATION, 2 inconclusive (monitor under-exercised, shard crash or watchdog). VERIF_SEED and VERIF_TIER are honoured. Genuine defects repaired in /repo are the fix: commits listed as fixed entries in known_findings.json.'}
    if not na:
        m['not_applicable'] = []
    json.dump(m, open(os.path.join(HERE, 'MANIFEST.json'), 'w'), indent=1)
    print('claimed:', [c['property_id'] for c in checks])
main()
