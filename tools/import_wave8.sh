#!/bin/bash
# imports every finished wave-8 seeded change that has not been imported yet
for i in $(seq -w 1 20); do for v in A B; do
  d=$([ $v = A ] && echo O || echo P)
  if [ -f /tmp/seed8_out/C$i/$v/patch.diff ] && [ -f /tmp/seed8_out/C$i/$v/demo.py ] && [ -f /tmp/seed8_out/C$i/$v/notes.md ] && [ ! -f /verif/seeded/C$i-$d/meta.json ]; then
    SEED_SRC=/tmp/seed8_out /venv/bin/python /verif/tools/import_seeded.py C$i $v
  fi
done; done
