"""Writes notes/CLAUSES.md from the committed evidence files: per property the monitored clauses and how often each was evaluated."""
import json, glob, os
out = ['# Monitored clauses per property (generated from evidence/*.json by tools/clause_table.py)', '']
for f in sorted(glob.glob('/verif/evidence/C*.json')):
    e = json.load(open(f)); c = e['coverage']
    out.append('## %s  (tier %s, seed %s, %d cases, %d monitor evaluations, %d distinct non-trivial, %.0f s wall, verdict %s)' % (
        e['property_id'], e['tier'], e['seed'], c['evaluations'], c.get('monitor_clause_evaluations_total', 0), c['distinct_nontrivial'], e['wall_s'], e.get('verdict')))
    out.append('')
    out.append('| clause | satisfied | violated |'); out.append('|---|---|---|')
    ok = c.get('monitor_clause_evaluations_ok', {}); bad = c.get('monitor_clause_violations', {})
    for k in sorted(set(ok) | set(bad)):
        out.append('| `%s` | %d | %d |' % (k.replace('|', '\\|'), ok.get(k, 0), bad.get(k, 0)))
    kf = c.get('known_finding_matches', {})
    for k, v in kf.items():
        out.append('| known finding `%s` | %d cases | - |' % (k, v))
    out.append('')
open('/verif/notes/CLAUSES.md', 'w').write('\n'.join(out) + '\n')
print('ok', len(out))
