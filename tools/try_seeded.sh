#!/bin/bash
# quick trial of checks against one stored seeded change (no confirmation, nothing recorded): try_seeded.sh C08-K C04 [C05 ...]
ID=$1; shift
D=$(mktemp -d /tmp/try_XXXXXX)
cp -r /repo/eqsig /repo/tests $D/ && (cd $D && patch -p1 -s < /verif/seeded/$ID/patch.diff) || { echo "patch failed"; rm -rf $D; exit 2; }
for C in "$@"; do
  OUT=$(cd /verif && EQSIG_REPO=$D VERIF_OUT_DIR=$D/out ./check $C ${TIER:+--tier $TIER} 2>&1); RC=$?
  echo "$ID vs $C: exit=$RC $(echo "$OUT" | grep '^  clause' | grep -v 'violated=0' | sed 's/ *ok=.*violated=/:/' | sed 's/^  clause //' | tr '\n' ';' | cut -c1-400)"
  [ $RC -eq 2 ] && echo "$OUT" | grep INCONCLUSIVE | head -3
done
rm -rf $D
