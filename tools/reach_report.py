"""prints, from the committed evidence, the statement lines of the anchored files that the monitored workload of each
property did not reach inside functions it entered (candidates for a missing input class), with their source text.
usage: reach_report.py [ID ...]"""
import json, sys, os, linecache
V = os.path.dirname(os.path.dirname(os.path.abspath(__file__)))
ids = sys.argv[1:] or ['C%02d' % i for i in range(1, 21)]
for pid in ids:
    p = os.path.join(os.environ.get('EV_DIR', V + '/evidence'), pid + '.json')
    if not os.path.exists(p):
        continue
    lr = json.load(open(p))['coverage'].get('anchor_line_reach')
    if not lr or 'files' not in lr:
        print(pid, 'no line reach'); continue
    print('== %s: %d/%d lines in %d functions entered; %d never entered' % (pid, lr['statement_lines_reached'],
          lr['statement_lines_in_entered_functions'], lr['functions_entered'], lr['functions_never_entered']))
    for f, d in lr['files'].items():
        for fn, e in d.get('entered', {}).items():
            for l in e['not_reached']:
                print('   %s:%d %s: %s' % (f, l, fn, linecache.getline('/repo/' + f, l).strip()[:110]))
        if '-v' in os.environ.get('REACH_OPTS', ''):
            print('   never entered in %s: %s' % (f, ', '.join(d.get('never_entered', []))))
