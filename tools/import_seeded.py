"""Confirms and imports seeded changes written by the independent sub-agents (/tmp/seed_out/<ID>/<A|B>) into
/verif/seeded/<ID>-<A|B>/ (patch.diff, demo.py, notes.md, meta.json). For each: scratch copy of /repo (outside /repo and /verif),
demo passes before, patch applies, baseline suite passes with it, demo fails with it, then the listed checks are run against
the patched copy. usage: import_seeded.py C09 A [CHECK ...]   (default check = the property itself)."""
import json, os, shutil, subprocess, sys, tempfile, time
V = '/verif'
def sh(cmd, cwd=None, env=None, timeout=3600):
    r = subprocess.run(cmd, shell=True, cwd=cwd, env=env, capture_output=True, text=True, timeout=timeout)
    return r.returncode, r.stdout + r.stderr
def main():
    pid, var = sys.argv[1], sys.argv[2]
    checks = sys.argv[3:] or [pid]
    src = '%s/%s/%s' % (os.environ.get('SEED_SRC', '/tmp/seed_out'), pid, var)
    ss = os.environ.get('SEED_SRC', '')
    import re
    mw = re.search(r'seed(\d+)_out$', ss)
    wave = int(mw.group(1)) if mw else 1
    dvar = chr(ord(var) + 2 * (wave - 1)) if var in 'AB' and wave > 1 else var
    dst = '%s/seeded/%s-%s' % (V, pid, dvar)
    if not os.path.exists(src) and os.path.exists(dst):
        src = dst
    d = tempfile.mkdtemp(prefix='seedchk_')
    try:
        shutil.copytree('/repo/eqsig', d + '/eqsig', ignore=shutil.ignore_patterns('__pycache__'))
        shutil.copytree('/repo/tests', d + '/tests', ignore=shutil.ignore_patterns('__pycache__'))
        rc0, _ = sh('/venv/bin/python %s/demo.py' % src, cwd=d)
        rca, out = sh('git apply %s/patch.diff' % src, cwd=d)
        if rca:
            print('patch does not apply', out); return 2
        rct, outt = sh('/venv/bin/python -m pytest -q -p no:cacheprovider --timeout=900', cwd=d)
        tests = outt.strip().splitlines()[-1]
        rc1, _ = sh('/venv/bin/python %s/demo.py' % src, cwd=d)
        confirmed = rc0 == 0 and rc1 != 0 and rct == 0 and '63 passed' in tests
        res = {}
        for c in checks:
            env = dict(os.environ, EQSIG_REPO=d, VERIF_OUT_DIR=d + '/out')
            t = time.time()
            rc, out = sh('./check %s --tier quick' % c, cwd=V, env=env)
            clauses = [l.split('ok=')[0].replace('clause', '').strip() for l in out.splitlines() if l.startswith('  clause') and 'violated=0' not in l]
            res[c] = {'exit': rc, 'caught': rc == 1, 'violated_clauses': clauses, 'wall_s': round(time.time() - t, 1)}
        if src != dst:
            os.makedirs(dst, exist_ok=True)
            for f in ('patch.diff', 'demo.py', 'notes.md'):
                if os.path.exists(src + '/' + f):
                    shutil.copy(src + '/' + f, dst + '/' + f)
        head = subprocess.run(['git', '-C', '/repo', 'rev-parse', '--short', 'HEAD'], capture_output=True, text=True).stdout.strip()
        prev = {}
        keep = {}
        if os.path.exists(dst + '/meta.json'):
            try:
                old_meta = json.load(open(dst + '/meta.json'))
                prev = old_meta.get('checks_run', {})
                keep = {k: old_meta[k] for k in ('obsolete', 'rebased', 'note') if k in old_meta}
            except Exception:
                prev = {}
        prev.update(res)
        res = prev
        meta = {'property': pid, 'variant': dvar, 'author': 'independent sub-agent given only the property text and a scratch worktree',
                'needs_to_manifest': open(dst + '/notes.md').read() if os.path.exists(dst + '/notes.md') else '',
                'confirmed': {'demo_exit_without_change': rc0, 'patch_applies': True, 'baseline_suite_with_change': tests,
                              'demo_exit_with_change': rc1, 'all_confirmed': confirmed, 'repo_head': head,
                              'how': 'scratch copy of /repo eqsig+tests; git apply patch.diff; pytest; demo.py before/after'},
                'checks_run': res}
        meta.update(keep)
        json.dump(meta, open(dst + '/meta.json', 'w'), indent=1)
        print(pid, dvar, 'confirmed=%s' % confirmed, {c: (r['exit'], r['violated_clauses'][:4]) for c, r in res.items()})
    finally:
        shutil.rmtree(d, ignore_errors=True)
main()
