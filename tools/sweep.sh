#!/bin/bash
# usage: tools/sweep.sh <tier> "<seeds>" [props...]  -- runs checks sequentially, prints one line each
TIER=$1; SEEDS=$2; shift 2
ROOT="$(cd "$(dirname "${BASH_SOURCE[0]}")/.." && pwd)"
PROPS=${@:-C01 C02 C03 C04 C05 C06 C07 C08 C09 C10 C11 C12 C13 C14 C15 C16 C17 C18 C19 C20}
for P in $PROPS; do for S in $SEEDS; do
  T0=$(date +%s)
  OUT=$(cd "$ROOT" && VERIF_SEED=$S VERIF_OUT_DIR=${SWEEP_OUT:-/tmp/vf_sweep_out} ./check $P --tier $TIER 2>&1); RC=$?
  echo "$P tier=$TIER seed=$S exit=$RC wall=$(( $(date +%s) - T0 ))s $(echo "$OUT" | grep -E '^(VIOLATION|INCONCLUSIVE)' | head -3 | tr '\n' ' ' | cut -c1-300)"
  [ $RC -ne 0 ] && echo "$OUT" | grep -E "violated clause" | head -5 | cut -c1-400
done; done
